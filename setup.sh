#!/bin/sh
# Builds the framework offline from files on disk: translator, harness, generated Gallina, the Coq development.
set -e
cd "$(dirname "$0")"
export GOFLAGS=-mod=mod GOPROXY=off GOSUMDB=off GOTOOLCHAIN=local
mkdir -p build evidence/replay coq/gen coq/run
export GOCACHE="$PWD/build/gocache"
(cd tools/go2coq && go build -o ../../build/go2coq .)
./build/go2coq -repo "${VERIF_REPO:-/repo}" -out coq/gen || echo "setup: go2coq reported untranslatable units (checks will report them)"
cp "${VERIF_REPO:-/repo}/go.sum" tools/harness/go.sum
for d in tools/harness/cmd/*/; do a=$(basename "$d"); (cd tools/harness && go build -tags verif -o ../../build/harness-"$a" ./cmd/"$a") || echo "setup: harness $a does not build"; done
./tools/mkcoqproject.sh
(cd coq && timeout 3000 make -j"$(nproc)" -k) || echo "setup: some Coq files do not build (checks will report them)"
echo "setup done"
