// Reproduction of the known finding "lz4-offset-65536" (properties C08, C01, C06, C15).
//
// pierrec/lz4 v4.0.3 CompressBlock (called with a nil hash table by /repo/compression/lz4) may emit a match whose
// distance is exactly 65536.  The block format stores the distance in 16 bits, so it is written as 0.  A decoder
// written from the LZ4 block format rejects the block ("zero offset"); pierrec's UncompressBlock accepts it and
// produces wrong bytes.  Nothing reports an error: a frame compressed with LZ4 decodes to a different message.
//
// Run: cd /verif/notes/repro/lz4_offset_65536 && GOFLAGS=-mod=mod GOPROXY=off GOSUMDB=off GOTOOLCHAIN=local go run .
// Exit status 1 when the defect is present, 0 when it is gone.
package main

import (
	"bytes"
	"fmt"
	"os"
	"reflect"

	"github.com/datastax/go-cassandra-native-protocol/compression/lz4"
	"github.com/datastax/go-cassandra-native-protocol/frame"
	"github.com/datastax/go-cassandra-native-protocol/message"
	"github.com/datastax/go-cassandra-native-protocol/primitive"
	golz4 "github.com/pierrec/lz4/v4"
)

// reference decoder of the LZ4 block format
func refDecode(src []byte) ([]byte, error) {
	var out []byte
	i := 0
	for i < len(src) {
		tok := src[i]
		i++
		lit := int(tok >> 4)
		if lit == 15 {
			for {
				b := src[i]
				i++
				lit += int(b)
				if b != 255 {
					break
				}
			}
		}
		out = append(out, src[i:i+lit]...)
		i += lit
		if i >= len(src) {
			break
		}
		off := int(src[i]) | int(src[i+1])<<8
		i += 2
		if off == 0 {
			return out, fmt.Errorf("match with offset 0 at input position %d (output position %d)", i-2, len(out))
		}
		ml := int(tok & 15)
		if ml == 15 {
			for {
				b := src[i]
				i++
				ml += int(b)
				if b != 255 {
					break
				}
			}
		}
		ml += 4
		if off > len(out) {
			return out, fmt.Errorf("offset %d beyond the output (%d bytes)", off, len(out))
		}
		for k := 0; k < ml; k++ {
			out = append(out, out[len(out)-off])
		}
	}
	return out, nil
}

func main() {
	bad := false

	// 1. frame level: AUTH_RESPONSE, protocol v4, LZ4 body compression
	token := append(append(bytes.Repeat([]byte{'a'}, 65534), 0, 0, 0, 0), bytes.Repeat([]byte{'a'}, 15)...)
	msg := &message.AuthResponse{Token: token}
	codec := frame.NewRawCodecWithCompression(lz4.Compressor{})
	f := frame.NewFrame(primitive.ProtocolVersion4, 1, msg)
	f.SetCompress(true)
	buf := &bytes.Buffer{}
	if err := codec.EncodeFrame(f, buf); err != nil {
		fmt.Println("EncodeFrame:", err)
		os.Exit(2)
	}
	g, err := codec.DecodeFrame(buf)
	if err != nil {
		fmt.Println("frame: DecodeFrame returns an error:", err)
		bad = true
	} else if !reflect.DeepEqual(g.Body.Message, msg) {
		got := g.Body.Message.(*message.AuthResponse).Token
		for i := range got {
			if got[i] != token[i] {
				fmt.Printf("frame: AUTH_RESPONSE token 'a'*65534 ++ 00000000 ++ 'a'*15 decodes without error to a different token: byte %d is %#02x, expected %#02x\n", i, got[i], token[i])
				break
			}
		}
		bad = true
	} else {
		fmt.Println("frame: round trip equal")
	}

	// 2. block level: which side is wrong
	in := append(bytes.Repeat([]byte{'a'}, 65520), 0, 0, 0, 16)
	in = append(in, bytes.Repeat([]byte{'a'}, 16)...)
	in = append(in, []byte("\x00\x00\xf2\x11\x00\x00\x00\x00\x03ks1\x00\x00\x00\x00\x00\x00")...)
	cb := make([]byte, golz4.CompressBlockBound(len(in)))
	n, _ := golz4.CompressBlock(in, cb, nil)
	dst := make([]byte, len(in))
	m, derr := golz4.UncompressBlock(cb[:n], dst)
	fmt.Printf("block: UncompressBlock(CompressBlock(in)) == in: %v (err %v)\n", derr == nil && bytes.Equal(dst[:m], in), derr)
	if _, rerr := refDecode(cb[:n]); rerr != nil {
		fmt.Println("block: the compressed block is not a valid LZ4 block:", rerr)
		bad = true
	}

	// 3. how many inputs of this family fail
	fails := 0
	for run := 65400; run <= 65700; run++ {
		for second := 4; second <= 40; second++ {
			in := append(bytes.Repeat([]byte{'a'}, run), 0, 0, 0, byte(second))
			in = append(in, bytes.Repeat([]byte{'a'}, second)...)
			in = append(in, 0, 0, 0xf2, 0x11, 0, 0, 0, 0, 3, 'k', 's', '1', 0, 0, 0, 0, 0, 0)
			c := &bytes.Buffer{}
			_ = lz4.Compressor{}.CompressWithLength(bytes.NewBuffer(append([]byte{}, in...)), c)
			d := &bytes.Buffer{}
			if err := (lz4.Compressor{}).DecompressWithLength(bytes.NewReader(c.Bytes()), d); err != nil || !bytes.Equal(d.Bytes(), in) {
				fails++
			}
		}
	}
	fmt.Printf("family 'a'*run ++ len ++ 'a'*second ++ tail, run 65400..65700, second 4..40: %d of %d inputs do not survive CompressWithLength/DecompressWithLength\n", fails, 301*37)
	if fails > 0 {
		bad = true
	}
	if bad {
		os.Exit(1)
	}
}
