module lz4offset65536

go 1.17

require (
	github.com/datastax/go-cassandra-native-protocol v0.0.0
	github.com/pierrec/lz4/v4 v4.0.3
)

replace github.com/datastax/go-cassandra-native-protocol => /repo
