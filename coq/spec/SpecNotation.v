(* SPEC SIDE (property C02).  The notations of section 3 of the native-protocol specifications as a data type,
   and their serialisation.  Transcribed BY HAND from
     /repo/specs/native_protocol_v2.spec, _v3, _v4, _v5 and /repo/specs/dse_protocol_v1.spec, _v2
   (cited as "v2 3", "v4 4.2.5.2", "DSE1 3", ...).  Nothing here is derived from the Go code nor from the
   encoder models coq/model/Msg*.v / Prim.v; from model/Prim.v and model/DataType.v only the TYPES
   ([bytes], [DataType]) are used, because they are the types of the message fields of model/MsgTypes.v.

   All six specifications say "The protocol is big-endian (network byte order)" (v2/v3/v4 1, v5 2.4, DSE 1):
   every fixed-width integer below is [be_bytes n x] = the n-byte big-endian representation of x mod 256^n,
   which for a negative x is its two's complement.

   Versions: OSS 2,3,4,5; DSE v1 = 65 (0x41), DSE v2 = 66 (0x42): the DSE version number already carries the
   "dse private version" bit 0x40 of DSE1/DSE2 2.1. *)
From Coq Require Import ZArith List Bool.
From GCNP Require Import base.Bytes model.Prim model.DataType.
Import ListNotations.
Open Scope Z_scope.

(* ---- versions ---- *)
Definition spec_supported_versions : list Z := [2; 3; 4; 5; 65; 66].
Definition spec_is_version (v : Z) : bool := existsb (Z.eqb v) spec_supported_versions.
Definition spec_is_dse (v : Z) : bool := (v =? 65) || (v =? 66).
Definition spec_from_v3 (v : Z) : bool := existsb (Z.eqb v) [3; 4; 5; 65; 66].
Definition spec_from_v4 (v : Z) : bool := existsb (Z.eqb v) [4; 5; 65; 66].
(* DSE v1 is "v5 minus keyspace / PREPARE flags" (DSE1 10) and was cut before result_metadata_id; DSE v2 has them (DSE2 10.2) *)
Definition spec_v5_or_dse2 (v : Z) : bool := (v =? 5) || (v =? 66).
Definition spec_v5_or_dse (v : Z) : bool := (v =? 5) || spec_is_dse v.

(* ---- [value] (v4 3, v5 3, DSE1/DSE2 3): three cases ---- *)
Inductive spec_value :=
| SVBytes (b : bytes)   (* n >= 0 followed by n bytes *)
| SVNull                (* n == -1 *)
| SVNotSet.             (* n == -2 *)

(* ---- the notations of section 3 ---- *)
Inductive notation :=
| NByte (z : Z)                               (* [byte]   v5 3, DSE 3: "A 1 byte unsigned integer" (v2-v4 use the word without defining it) *)
| NShort (z : Z)                              (* [short]  "A 2 bytes unsigned integer" *)
| NInt (z : Z)                                (* [int]    "A 4 bytes integer" (v3 3: "signed") *)
| NLong (z : Z)                               (* [long]   "A 8 bytes integer" (from v3; v3 3: "signed") *)
| NString (s : bytes)                         (* [string] "A [short] n, followed by n bytes representing an UTF-8 string" *)
| NLongString (s : bytes)                     (* [long string] "An [int] n, followed by n bytes" *)
| NUuid (b : bytes)                           (* [uuid]   "A 16 bytes long uuid" *)
| NStringList (l : list bytes)                (* [string list] "A [short] n, followed by n [string]" *)
| NBytes (b : option bytes)                   (* [bytes]  "A [int] n, followed by n bytes if n >= 0. If n < 0, no byte should follow and the value represented is `null`" *)
| NValue (v : spec_value)                     (* [value]  v4+ *)
| NShortBytes (b : bytes)                     (* [short bytes] "A [short] n, followed by n bytes if n >= 0" *)
| NOption (t : DataType)                      (* [option] "<id><value>, <id> a [short]", ids of section 4.2.5.2 *)
| NInet (addr : bytes) (port : Z)             (* [inet]   "one [byte] n ... followed by n [byte] representing the IP address ..., following by one [int] representing the port" *)
| NInetAddr (addr : bytes)                    (* [inetaddr] v5 3, DSE 3: "one [byte] n ... followed by n [byte]" *)
| NConsistency (z : Z)                        (* [consistency] "This is a [short]" *)
| NStringMap (m : list (bytes * bytes))       (* [string map] "A [short] n, followed by n pair <k><v> where <k> and <v> are [string]" *)
| NStringMultimap (m : list (bytes * list bytes))  (* [string multimap] "<k> is a [string] and <v> is a [string list]" *)
| NBytesMap (m : list (bytes * option bytes)) (* [bytes map] v4+: "<k> is a [string] and <v> is a [bytes]" *)
| NRaw (b : bytes).                           (* bytes copied as they are (not a notation of the specification) *)
(* [option list] (all versions) and [vint]/[unsigned vint] (v5 3, DSE 3) are defined by section 3 but used by no
   message body of section 4 (vints appear only inside the duration data type, section 5/6): not needed here. *)

(* ---- fixed-width integers ---- *)
Definition ser_byte (z : Z) : bytes := be_bytes 1 z.
Definition ser_short (z : Z) : bytes := be_bytes 2 z.
Definition ser_int (z : Z) : bytes := be_bytes 4 z.
Definition ser_long (z : Z) : bytes := be_bytes 8 z.

(* [string]: [short] n + n bytes *)
Definition ser_string (s : bytes) : bytes := ser_short (zlen s) ++ s.
(* [long string]: [int] n + n bytes *)
Definition ser_long_string (s : bytes) : bytes := ser_int (zlen s) ++ s.
(* [string list]: [short] n + n [string] *)
Definition ser_string_list (l : list bytes) : bytes := ser_short (zlen l) ++ concat (map ser_string l).
(* [bytes]: [int] n + n bytes; null is "n < 0": the specification fixes no particular negative number;
   CHOICE: -1, the value that [value] prescribes for null (v4 3) and that "6.20 tuple" uses ("length -1"). *)
Definition ser_bytes (b : option bytes) : bytes :=
  match b with
  | Some x => ser_int (zlen x) ++ x
  | None => ser_int (-1)
  end.
(* [value] *)
Definition ser_value (v : spec_value) : bytes :=
  match v with
  | SVBytes x => ser_int (zlen x) ++ x
  | SVNull => ser_int (-1)
  | SVNotSet => ser_int (-2)
  end.
(* [short bytes] *)
Definition ser_short_bytes (b : bytes) : bytes := ser_short (zlen b) ++ b.
(* [inetaddr] / [inet] *)
Definition ser_inetaddr (a : bytes) : bytes := ser_byte (zlen a) ++ a.
Definition ser_inet (a : bytes) (port : Z) : bytes := ser_byte (zlen a) ++ a ++ ser_int port.
(* maps: [short] n + n pairs *)
Definition ser_string_map (m : list (bytes * bytes)) : bytes :=
  ser_short (zlen m) ++ concat (map (fun kv => ser_string (fst kv) ++ ser_string (snd kv)) m).
Definition ser_string_multimap (m : list (bytes * list bytes)) : bytes :=
  ser_short (zlen m) ++ concat (map (fun kv => ser_string (fst kv) ++ ser_string_list (snd kv)) m).
Definition ser_bytes_map (m : list (bytes * option bytes)) : bytes :=
  ser_short (zlen m) ++ concat (map (fun kv => ser_string (fst kv) ++ ser_bytes (snd kv)) m).

(* ---- [option] for column types: the id table of section 4.2.5.2 (v2, v3, v4, v5, DSE1, DSE2) ----
     0x0000 Custom: the value is a [string]
     0x0001..0x0015 native types: "the option has no value"
     0x0020 List: the value is an [option]           0x0021 Map: the value is two [option] (keys, values)
     0x0022 Set: the value is an [option]
     0x0030 UDT: <ks><udt_name><n><name_1><type_1>...<name_n><type_n>, ks/udt_name/name_i [string], n [short] (v3+)
     0x0031 Tuple: <n><type_1>...<type_n>, n [short] (v3+)
   Recursion on the DataType term.  A missing component (a nil Go interface, [None]) has no representation: it
   contributes no bytes here and is excluded by [spec_type_defined] below, which [spec_body] checks first. *)
Definition spec_id_custom := 0.      (* 0x0000 *)
Definition spec_id_list := 32.       (* 0x0020 *)
Definition spec_id_map := 33.        (* 0x0021 *)
Definition spec_id_set := 34.        (* 0x0022 *)
Definition spec_id_udt := 48.        (* 0x0030 *)
Definition spec_id_tuple := 49.      (* 0x0031 *)

Fixpoint ser_option (t : DataType) : bytes :=
  let oo := fun (o : option DataType) => match o with Some t' => ser_option t' | None => [] end in
  match t with
  | DT_Primitive id => ser_short id
  | DT_Custom cls => ser_short spec_id_custom ++ ser_string cls
  | DT_List e => ser_short spec_id_list ++ oo e
  | DT_Map k v => ser_short spec_id_map ++ oo k ++ oo v
  | DT_Set e => ser_short spec_id_set ++ oo e
  | DT_Tuple fs => ser_short spec_id_tuple ++ ser_short (zlen fs) ++ concat (map oo fs)
  | DT_Udt ks name names types =>
      ser_short spec_id_udt ++ ser_string ks ++ ser_string name ++ ser_short (zlen types) ++
      (fix fields (ns : list bytes) (ts : list (option DataType)) {struct ts} : bytes :=
         match ts with
         | [] => []
         | ty :: ts' => ser_string (hd [] ns) ++ oo ty ++ fields (tl ns) ts'
         end) names types
  end.

(* native type ids listed by each version's table (4.2.5.2):
     v2:  0x0001..0x0010 including 0x000A Text
     v3:  0x0001..0x0009, 0x000B..0x0010   (0x000A is no longer listed, in no later text either)
     v4:  v3 + 0x0011 Date, 0x0012 Time, 0x0013 Smallint, 0x0014 Tinyint
     v5, DSE1, DSE2: v4 + 0x0015 Duration *)
Definition spec_native_type_ids (v : Z) : list Z :=
  if v =? 2 then [1;2;3;4;5;6;7;8;9;10;11;12;13;14;15;16]
  else if v =? 3 then [1;2;3;4;5;6;7;8;9;11;12;13;14;15;16]
  else if v =? 4 then [1;2;3;4;5;6;7;8;9;11;12;13;14;15;16;17;18;19;20]
  else if spec_v5_or_dse v then [1;2;3;4;5;6;7;8;9;11;12;13;14;15;16;17;18;19;20;21]
  else [].

(* does version v's table define every id occurring in t, and is t complete (no missing component, one name per UDT field)? *)
Fixpoint spec_type_defined (v : Z) (t : DataType) : bool :=
  let oo := fun (o : option DataType) => match o with Some t' => spec_type_defined v t' | None => false end in
  match t with
  | DT_Primitive id => existsb (Z.eqb id) (spec_native_type_ids v)
  | DT_Custom _ => spec_is_version v
  | DT_List e => oo e
  | DT_Map k x => oo k && oo x
  | DT_Set e => oo e
  | DT_Tuple fs => spec_from_v3 v && forallb oo fs                                   (* 0x0031: v3 4.2.5.2 and later *)
  | DT_Udt _ _ names types =>
      spec_from_v3 v && (zlen names =? zlen types) && forallb oo types                (* 0x0030: v3 4.2.5.2 and later *)
  end.

(* ---- ser: section 3 ---- *)
Definition ser (n : notation) : bytes :=
  match n with
  | NByte z => ser_byte z
  | NShort z => ser_short z
  | NInt z => ser_int z
  | NLong z => ser_long z
  | NString s => ser_string s
  | NLongString s => ser_long_string s
  | NUuid b => b
  | NStringList l => ser_string_list l
  | NBytes b => ser_bytes b
  | NValue v => ser_value v
  | NShortBytes b => ser_short_bytes b
  | NOption t => ser_option t
  | NInet a p => ser_inet a p
  | NInetAddr a => ser_inetaddr a
  | NConsistency z => ser_short z
  | NStringMap m => ser_string_map m
  | NStringMultimap m => ser_string_multimap m
  | NBytesMap m => ser_bytes_map m
  | NRaw b => b
  end.
Definition ser_all (l : list notation) : bytes := concat (map ser l).

(* ---- representability: does the value fit the notation? ----
   [short] is unsigned 16 bit; [byte] unsigned 8 bit; an [int]/[long] field is accepted when it fits the width either as
   a signed or as an unsigned number (the <flags> [int] of DSE uses bit 0x80000000); the length prefix of a [string] /
   [short bytes] / list / map is a [short], that of [long string] / [bytes] / [value] an [int] n >= 0;
   [uuid] is 16 bytes; the address of [inet]/[inetaddr] is 4 or 16 bytes ("in practice n can only be either 4 (IPv4)
   or 16 (IPv6)").  Element values of byte strings are not inspected (see below). *)
Definition fits_u (bits : Z) (z : Z) : bool := (0 <=? z) && (z <? 2 ^ bits).
Definition fits_any (bits : Z) (z : Z) : bool := (- 2 ^ (bits - 1) <=? z) && (z <? 2 ^ bits).
(* (phase 2 correction, see notes/spec.md "Corrections after the freeze") the elements of a [bytes] value are not inspected:
   a [bytes] stands for a Go string / []byte, whose elements are bytes by typing; that the Coq carrier [list Z] is wider is a
   matter of representation, not of the specification.  Until phase 2 these predicates also demanded [bytes_okb]. *)
Definition string_ok (s : bytes) : bool := fits_u 16 (zlen s).
Definition blob_ok (s : bytes) : bool := fits_u 31 (zlen s).
Definition addr_ok (a : bytes) : bool := (zlen a =? 4) || (zlen a =? 16).

Fixpoint option_ok (t : DataType) : bool :=
  let oo := fun (o : option DataType) => match o with Some t' => option_ok t' | None => false end in
  match t with
  | DT_Primitive id => fits_u 16 id
  | DT_Custom cls => string_ok cls
  | DT_List e => oo e
  | DT_Map k v => oo k && oo v
  | DT_Set e => oo e
  | DT_Tuple fs => fits_u 16 (zlen fs) && forallb oo fs
  | DT_Udt ks name names types =>
      string_ok ks && string_ok name && fits_u 16 (zlen types) && (zlen names =? zlen types) &&
      forallb string_ok names && forallb oo types
  end.

Definition notation_ok (n : notation) : bool :=
  match n with
  | NByte z => fits_u 8 z
  | NShort z => fits_u 16 z
  | NInt z => fits_any 32 z
  | NLong z => fits_any 64 z
  | NString s => string_ok s
  | NLongString s => blob_ok s
  | NUuid b => zlen b =? 16
  | NStringList l => fits_u 16 (zlen l) && forallb string_ok l
  | NBytes b => match b with Some x => blob_ok x | None => true end
  | NValue v => match v with SVBytes x => blob_ok x | _ => true end
  | NShortBytes b => string_ok b
  | NOption t => option_ok t
  | NInet a p => addr_ok a && fits_any 32 p
  | NInetAddr a => addr_ok a
  | NConsistency z => fits_u 16 z
  | NStringMap m => fits_u 16 (zlen m) && forallb (fun kv => string_ok (fst kv) && string_ok (snd kv)) m
  | NStringMultimap m =>
      fits_u 16 (zlen m) &&
      forallb (fun kv => string_ok (fst kv) && fits_u 16 (zlen (snd kv)) && forallb string_ok (snd kv)) m
  | NBytesMap m =>
      fits_u 16 (zlen m) &&
      forallb (fun kv => string_ok (fst kv) && match snd kv with Some x => blob_ok x | None => true end) m
  | NRaw b => true
  end.

(* ================= worked examples: right-hand sides derived BY HAND from section 3 ================= *)

(* [int] -1 is FF FF FF FF (two's complement); [short] 0x1234; [long] 1000 = 0x3E8 *)
Example ex_int_m1 : ser (NInt (-1)) = [255;255;255;255]. Proof. vm_compute. reflexivity. Qed.
Example ex_short : ser (NShort 4660) = [18;52]. Proof. vm_compute. reflexivity. Qed.
Example ex_long : ser (NLong 1000) = [0;0;0;0;0;0;3;232]. Proof. vm_compute. reflexivity. Qed.
(* [string] "ks" = 00 02 6B 73 *)
Example ex_string : ser (NString [107;115]) = [0;2;107;115]. Proof. vm_compute. reflexivity. Qed.
(* [long string] "SELECT" = 00 00 00 06 53 45 4C 45 43 54 *)
Example ex_long_string : ser (NLongString [83;69;76;69;67;84]) = [0;0;0;6;83;69;76;69;67;84]. Proof. vm_compute. reflexivity. Qed.
(* [string list] ["a";"ks"] = 00 02 | 00 01 61 | 00 02 6B 73 *)
Example ex_string_list : ser (NStringList [[97];[107;115]]) = [0;2; 0;1;97; 0;2;107;115]. Proof. vm_compute. reflexivity. Qed.
(* [bytes] 01 02 = 00 00 00 02 01 02; empty = 00 00 00 00 (distinct from null); null = FF FF FF FF *)
Example ex_bytes : ser (NBytes (Some [1;2])) = [0;0;0;2;1;2]. Proof. vm_compute. reflexivity. Qed.
Example ex_bytes_empty : ser (NBytes (Some [])) = [0;0;0;0]. Proof. vm_compute. reflexivity. Qed.
Example ex_bytes_null : ser (NBytes None) = [255;255;255;255]. Proof. vm_compute. reflexivity. Qed.
(* [value]: null -1 = FF FF FF FF, not set -2 = FF FF FF FE *)
Example ex_value_null : ser (NValue SVNull) = [255;255;255;255]. Proof. vm_compute. reflexivity. Qed.
Example ex_value_unset : ser (NValue SVNotSet) = [255;255;255;254]. Proof. vm_compute. reflexivity. Qed.
Example ex_value : ser (NValue (SVBytes [7])) = [0;0;0;1;7]. Proof. vm_compute. reflexivity. Qed.
(* [short bytes] CA FE = 00 02 CA FE *)
Example ex_short_bytes : ser (NShortBytes [202;254]) = [0;2;202;254]. Proof. vm_compute. reflexivity. Qed.
(* [inet] 127.0.0.1 port 9042 (0x2352) = 04 7F 00 00 01 00 00 23 52 *)
Example ex_inet4 : ser (NInet [127;0;0;1] 9042) = [4;127;0;0;1;0;0;35;82]. Proof. vm_compute. reflexivity. Qed.
(* [inet] ::1 port 9042 = 10 (16) + 15 zero bytes + 01 + 00 00 23 52 *)
Example ex_inet6 : ser (NInet [0;0;0;0;0;0;0;0;0;0;0;0;0;0;0;1] 9042)
  = [16; 0;0;0;0;0;0;0;0;0;0;0;0;0;0;0;1; 0;0;35;82]. Proof. vm_compute. reflexivity. Qed.
(* [inetaddr] 10.0.0.2 = 04 0A 00 00 02 *)
Example ex_inetaddr : ser (NInetAddr [10;0;0;2]) = [4;10;0;0;2]. Proof. vm_compute. reflexivity. Qed.
(* [consistency] LOCAL_ONE = 00 0A *)
Example ex_consistency : ser (NConsistency 10) = [0;10]. Proof. vm_compute. reflexivity. Qed.
(* [string map] {"a":"b"} = 00 01 | 00 01 61 | 00 01 62 *)
Example ex_string_map : ser (NStringMap [([97],[98])]) = [0;1; 0;1;97; 0;1;98]. Proof. vm_compute. reflexivity. Qed.
(* [string multimap] {"a":["b";"c"]} = 00 01 | 00 01 61 | 00 02 | 00 01 62 | 00 01 63 *)
Example ex_string_multimap : ser (NStringMultimap [([97],[[98];[99]])]) = [0;1; 0;1;97; 0;2; 0;1;98; 0;1;99].
Proof. vm_compute. reflexivity. Qed.
(* [bytes map] {"k": 01, "n": null} = 00 02 | 00 01 6B | 00 00 00 01 01 | 00 01 6E | FF FF FF FF *)
Example ex_bytes_map : ser (NBytesMap [([107], Some [1]); ([110], None)])
  = [0;2; 0;1;107; 0;0;0;1;1; 0;1;110; 255;255;255;255]. Proof. vm_compute. reflexivity. Qed.

(* [option]: int = 00 09;  custom "x" = 00 00 00 01 78;
   map<int, list<varchar>> = 00 21 | 00 09 | 00 20 | 00 0D;
   set<uuid> = 00 22 00 0C;
   tuple<int, varchar> = 00 31 | 00 02 | 00 09 | 00 0D;
   udt ks.u {a: int, b: list<int>} = 00 30 | 00 02 6B 73 | 00 01 75 | 00 02 | 00 01 61 | 00 09 | 00 01 62 | 00 20 00 09 *)
Example ex_option_int : ser (NOption (DT_Primitive 9)) = [0;9]. Proof. vm_compute. reflexivity. Qed.
Example ex_option_custom : ser (NOption (DT_Custom [120])) = [0;0;0;1;120]. Proof. vm_compute. reflexivity. Qed.
Example ex_option_map : ser (NOption (DT_Map (Some (DT_Primitive 9)) (Some (DT_List (Some (DT_Primitive 13))))))
  = [0;33; 0;9; 0;32; 0;13]. Proof. vm_compute. reflexivity. Qed.
Example ex_option_set : ser (NOption (DT_Set (Some (DT_Primitive 12)))) = [0;34;0;12]. Proof. vm_compute. reflexivity. Qed.
Example ex_option_tuple : ser (NOption (DT_Tuple [Some (DT_Primitive 9); Some (DT_Primitive 13)]))
  = [0;49; 0;2; 0;9; 0;13]. Proof. vm_compute. reflexivity. Qed.
Example ex_option_udt :
  ser (NOption (DT_Udt [107;115] [117] [[97];[98]] [Some (DT_Primitive 9); Some (DT_List (Some (DT_Primitive 9)))]))
  = [0;48; 0;2;107;115; 0;1;117; 0;2; 0;1;97; 0;9; 0;1;98; 0;32;0;9]. Proof. vm_compute. reflexivity. Qed.

(* which version defines which type: text id 0x000A only in v2; tuple/udt from v3; date from v4; duration v5/DSE *)
Example ex_type_defined :
  map (fun v => map (spec_type_defined v)
                  [DT_Primitive 10; DT_Tuple [Some (DT_Primitive 9)]; DT_Primitive 17; DT_Primitive 21;
                   DT_List None; DT_Udt [] [] [[97]] []])
      [2; 3; 4; 5; 65; 66]
  = [[true;  false; false; false; false; false];
     [false; true;  false; false; false; false];
     [false; true;  true;  false; false; false];
     [false; true;  true;  true;  false; false];
     [false; true;  true;  true;  false; false];
     [false; true;  true;  true;  false; false]].
Proof. vm_compute. reflexivity. Qed.

(* representability *)
Example ex_notation_ok :
  map notation_ok [NShort 65535; NShort 65536; NShort (-1); NByte 256; NInt 4294967295; NInt 4294967296;
                   NInt (-2147483648); NInt (-2147483649); NUuid [1;2]; NInet [1;2;3] 1; NInetAddr [1;2;3;4]]
  = [true; false; false; false; true; false; true; false; false; false; true].
Proof. vm_compute. reflexivity. Qed.
