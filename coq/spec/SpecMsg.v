(* SPEC SIDE (property C02).  The body of every message kind of model/MsgTypes.v as the list of section-3 notations
   that the specification OF THE GIVEN VERSION prescribes (sections 4.1.x requests, 4.2.x responses, error bodies of
   section 9 (v3, v4, DSE), 8 (v2, v5)).  Transcribed BY HAND from /repo/specs/native_protocol_v2..v5.spec and
   /repo/specs/dse_protocol_v1..v2.spec; nothing is taken from the Go code or from coq/model/Msg*.v (only the TYPES
   of model/MsgTypes.v, model/Prim.v, model/DataType.v are used: they are what a message value is).

   [spec_body v m = None] means: version v's specification does not define the message, or does not define a field
   or a value that m uses, or m is not a complete message (a nil component): nothing is prescribed.
   Interpretation of Go-typed fields (stated once here, details next to each clause and in notes/spec.md):
     option X  = "absent / present";  a flag bit that announces an optional field is set iff the field is present
     bytes ""  = absent, for the string fields Keyspace of QUERY/PREPARE/BATCH
     Z fields PageSize / ContinuousPageNumber: present iff > 0
     net.IP    = Go convention: 4 bytes, or 16 bytes where ::ffff:a.b.c.d denotes the IPv4 address a.b.c.d *)
From Coq Require Import ZArith List Bool.
From GCNP Require Import base.Bytes model.Prim model.DataType model.MsgTypes spec.SpecNotation.
Import ListNotations.
Open Scope Z_scope.

(* ---- option plumbing ---- *)
Definition obind {A B} (o : option A) (f : A -> option B) : option B := match o with Some a => f a | None => None end.
Notation "'do' x <- e ; k" := (obind e (fun x => k)) (at level 200, x name, e at level 100, k at level 200).
Definition guard (b : bool) : option unit := if b then Some tt else None.
Fixpoint oall {A B} (f : A -> option B) (l : list A) : option (list B) :=
  match l with
  | [] => Some []
  | a :: r => do b <- f a; do bs <- oall f r; Some (b :: bs)
  end.
Definition isSome {A} (o : option A) : bool := match o with Some _ => true | None => false end.
Definition flag (b : bool) (mask : Z) : Z := if b then mask else 0.   (* masks are distinct bits: the sum is the bitwise or *)
Definition opt_list {A} (o : option A) (f : A -> list notation) : list notation := match o with Some a => f a | None => [] end.
Fixpoint beq (a b : bytes) : bool :=
  match a, b with
  | [], [] => true
  | x :: a', y :: b' => (x =? y) && beq a' b'
  | _, _ => false
  end.
Definition nonempty {A} (l : list A) : bool := match l with [] => false | _ => true end.

(* ---- ASCII constants used by the layouts ---- *)
Definition s_CAS : bytes := [67;65;83].                                                (* "CAS" *)
Definition s_KEYSPACE : bytes := [75;69;89;83;80;65;67;69].                            (* "KEYSPACE" *)
Definition s_TABLE : bytes := [84;65;66;76;69].                                        (* "TABLE" *)
Definition s_TYPE : bytes := [84;89;80;69].                                            (* "TYPE" *)
Definition s_FUNCTION : bytes := [70;85;78;67;84;73;79;78].                            (* "FUNCTION" *)
Definition s_AGGREGATE : bytes := [65;71;71;82;69;71;65;84;69].                        (* "AGGREGATE" *)
Definition s_TOPOLOGY_CHANGE : bytes := [84;79;80;79;76;79;71;89;95;67;72;65;78;71;69]. (* "TOPOLOGY_CHANGE" *)
Definition s_STATUS_CHANGE : bytes := [83;84;65;84;85;83;95;67;72;65;78;71;69].         (* "STATUS_CHANGE" *)
Definition s_SCHEMA_CHANGE : bytes := [83;67;72;69;77;65;95;67;72;65;78;71;69].         (* "SCHEMA_CHANGE" *)

(* ---- Go net.IP -> the IP address it denotes (section 3 [inet]: "n can only be either 4 (IPv4) or 16 (IPv6)") ----
   Go's net.IP holds an IPv4 address either in 4 bytes or in the 16-byte form ::ffff:a.b.c.d (net.IPv4 builds the
   latter); both denote the IPv4 address, which the specification writes with n = 4.  Any other 16 bytes: IPv6. *)
Definition spec_ip (ip : option bytes) : option bytes :=
  match ip with
  | None => None
  | Some a =>
      if zlen a =? 4 then Some a
      else if zlen a =? 16 then
        if beq (firstn 12 a) [0;0;0;0;0;0;0;0;0;0;255;255] then Some (skipn 12 a) else Some a
      else None
  end.
Definition spec_inet (i : option Inet) : option notation :=
  do x <- i; do a <- spec_ip (inet_addr x); Some (NInet a (inet_port x)).

(* ---- values of QUERY / EXECUTE / BATCH ----
   v2 4.1.4 / 4.1.7, v3 4.1.4 / 4.1.7: the values are [bytes] (null = negative length, no "not set").
   v4, v5, DSE 4.1.4 / 4.1.7: the values are [value] (-1 null, -2 not set).
   A Go Value is {Type; Contents}: Type regular (with contents) / null / unset (ValueTypeRegular, ValueTypeNull, ValueTypeUnset of Prim.v).  A regular value
   without contents, an unknown Type and a nil *Value denote nothing: None. *)
Definition spec_value_notation (v : Z) (x : option Value) : option notation :=
  do val <- x;
  if value_type val =? ValueTypeRegular then
    do b <- value_contents val; Some (if spec_from_v4 v then NValue (SVBytes b) else NBytes (Some b))
  else if value_type val =? ValueTypeNull then Some (if spec_from_v4 v then NValue SVNull else NBytes None)
  else if value_type val =? ValueTypeUnset then (if spec_from_v4 v then Some (NValue SVNotSet) else None)
  else None.

(* [<n><value_1>...<value_n>]: "a [short] <n> followed by <n> [value]" *)
Definition spec_positional (v : Z) (l : list (option Value)) : option (list notation) :=
  do vs <- oall (spec_value_notation v) l; Some (NShort (zlen l) :: vs).
(* [<n>[name_1]<value_1>...]: v3+ 4.1.4 flag 0x40 "each value will be preceded by a [string] name" *)
Definition spec_named (v : Z) (l : list (bytes * option Value)) : option (list notation) :=
  do vs <- oall (fun nv => do x <- spec_value_notation v (snd nv); Some [NString (fst nv); x]) l;
  Some (NShort (zlen l) :: concat vs).

(* ---- <query_parameters> (4.1.4 of every version) ----
   v2:   <consistency><flags>[<n><value_1>...<value_n>][<result_page_size>][<paging_state>][<serial_consistency>]
   v3,4: <consistency><flags>[<n>[name_1]<value_1>...][<result_page_size>][<paging_state>][<serial_consistency>][<timestamp>]
   v5:   ... [<timestamp>][<keyspace>][<now_in_seconds>]
   DSE1: ... [<timestamp>][continuous_paging_options]
   DSE2: ... [<timestamp>][<keyspace>][continuous_paging_options]
   <flags> is a [byte] in v2, v3, v4 and an [int] in v5, DSE1, DSE2.
   Flag bits: 0x01 Values, 0x02 Skip_metadata, 0x04 Page_size, 0x08 With_paging_state, 0x10 With serial consistency,
   0x20 With default timestamp (v3+), 0x40 With names for values (v3+), 0x80 With keyspace (v5, DSE2),
   0x100 With now in seconds (v5), 0x40000000 Page_size_bytes (DSE), 0x80000000 With continuous paging (DSE).
   CHOICE (the specification allows both "flag 0x01 with n = 0" and "no flag" for an empty value list): a value list that
   is present (Some, even empty) is announced by 0x01 and written with its <n>; an absent one (None) is not. *)
Definition spec_query_parameters (v : Z) (o : QueryOptions) : option (list notation) :=
  let pos := qo_PositionalValues o in
  let named := qo_NamedValues o in
  let ps := qo_PageSize o in
  let ks := qo_Keyspace o in
  let cp := qo_ContinuousPagingOptions o in
  do _ <- guard (spec_is_version v);
  do _ <- guard (negb (isSome pos && isSome named));                        (* one list of values only *)
  do _ <- guard (negb (isSome named) || spec_from_v3 v);                    (* 0x40: v3 4.1.4 and later *)
  do _ <- guard (0 <=? ps);
  do _ <- guard (negb (qo_PageSizeInBytes o) || (spec_is_dse v && (0 <? ps))); (* DSE 4.1.4 0x40000000 qualifies <result_page_size> *)
  do _ <- guard (negb (isSome (qo_DefaultTimestamp o)) || spec_from_v3 v);  (* 0x20: v3 4.1.4 and later *)
  do _ <- guard (negb (nonempty ks) || spec_v5_or_dse2 v);                  (* 0x80: v5 4.1.4, DSE2 4.1.4 *)
  do _ <- guard (negb (isSome (qo_NowInSeconds o)) || (v =? 5));            (* 0x100: v5 4.1.4 only *)
  do _ <- guard (negb (isSome cp) || spec_is_dse v);                        (* 0x80000000: DSE1/DSE2 4.1.4 *)
  do _ <- guard (match cp with Some c => (v =? 66) || (cpo_NextPages c =? 0) | None => true end); (* <next_pages>: DSE2 only *)
  do values <- match pos, named with
               | Some l, _ => spec_positional v l
               | None, Some l => spec_named v l
               | None, None => Some []
               end;
  let flags :=
      flag (isSome pos || isSome named) 1 + flag (qo_SkipMetadata o) 2 + flag (0 <? ps) 4 +
      flag (isSome (qo_PagingState o)) 8 + flag (isSome (qo_SerialConsistency o)) 16 +
      flag (isSome (qo_DefaultTimestamp o)) 32 + flag (isSome named) 64 + flag (nonempty ks) 128 +
      flag (isSome (qo_NowInSeconds o)) 256 + flag (qo_PageSizeInBytes o) 1073741824 + flag (isSome cp) 2147483648 in
  let keyspace := if nonempty ks then [NString ks] else [] in                  (* "<keyspace> is a [string]" *)
  let now := opt_list (qo_NowInSeconds o) (fun n => [NInt n]) in              (* "<now_in_seconds> is an [int]" *)
  let paging := opt_list cp (fun c =>
      [NInt (cpo_MaxPages c); NInt (cpo_PagesPerSecond c)]                    (* DSE 4.1.4 <max_num_pages> [int], <pages_per_second> [int] *)
      ++ (if v =? 66 then [NInt (cpo_NextPages c)] else [])) in               (* DSE2 4.1.4 <next_pages> [int] *)
  Some ([NConsistency (qo_Consistency o);
         if spec_v5_or_dse v then NInt flags else NByte flags]
        ++ values
        ++ (if 0 <? ps then [NInt ps] else [])                                 (* "<result_page_size> is an [int]" *)
        ++ opt_list (qo_PagingState o) (fun b => [NBytes (Some b)])           (* "<paging_state> is a [bytes] value" *)
        ++ opt_list (qo_SerialConsistency o) (fun c => [NConsistency c])      (* "<serial_consistency> is the [consistency] level" *)
        ++ opt_list (qo_DefaultTimestamp o) (fun t => [NLong t])              (* "<timestamp> is a [long]" *)
        ++ (if v =? 5 then keyspace ++ now                                     (* v5 4.1.4 *)
            else if v =? 65 then paging                                        (* DSE1 4.1.4 *)
            else if v =? 66 then keyspace ++ paging                            (* DSE2 4.1.4 *)
            else [])).

(* ---- requests ---- *)

(* 4.1.1 STARTUP (all versions): "The body is a [string map] of options" *)
Definition spec_startup (v : Z) (m : Startup) : option (list notation) := Some [NStringMap (st_Options m)].

(* 4.1.2 AUTH_RESPONSE (all versions): "The body of this message is a single [bytes] token" (may be null) *)
Definition spec_auth_response (v : Z) (m : AuthResponse) : option (list notation) := Some [NBytes (ar_Token m)].

(* 4.1.4 QUERY (all versions): <query><query_parameters>, "<query> is a [long string]".
   A Query without options has no <consistency>: nothing is prescribed. *)
Definition spec_query (v : Z) (m : Query) : option (list notation) :=
  do o <- q_Options m; do ps <- spec_query_parameters v o; Some (NLongString (q_Query m) :: ps).

(* 4.1.5 PREPARE.  v2, v3, v4, DSE1: "The body consists of the CQL query to prepare as a [long string]".
   v5 4.1.5, DSE2 4.1.5: <query><flags>[<keyspace>], <flags> an [int], 0x01 With keyspace, <keyspace> a [string]. *)
Definition spec_prepare (v : Z) (m : Prepare) : option (list notation) :=
  let ks := p_Keyspace m in
  if spec_v5_or_dse2 v then
    Some ([NLongString (p_Query m); NInt (flag (nonempty ks) 1)] ++ (if nonempty ks then [NString ks] else []))
  else if nonempty ks then None
  else Some [NLongString (p_Query m)].

(* 4.1.6 EXECUTE.  v2, v3, v4, DSE1: <id><query_parameters>, "<id> ... [short bytes]".
   v5 4.1.6, DSE2 4.1.6: <id><result_metadata_id><query_parameters>; the type of <result_metadata_id> is given where it
   is produced (4.2.5.4): [short bytes].  A nil id denotes no id: None. *)
Definition spec_execute (v : Z) (m : Execute) : option (list notation) :=
  do id <- ex_QueryId m;
  do o <- ex_Options m;
  do ps <- spec_query_parameters v o;
  if spec_v5_or_dse2 v then
    do rid <- ex_ResultMetadataId m; Some ([NShortBytes id; NShortBytes rid] ++ ps)
  else
    do _ <- guard (negb (isSome (ex_ResultMetadataId m))); Some (NShortBytes id :: ps).

(* 4.1.8 REGISTER (all versions): "a [string list] representing the event types to register for" *)
Definition spec_register (v : Z) (m : Register) : option (list notation) := Some [NStringList (rg_EventTypes m)].

(* 4.1.7 BATCH.
   v2:  <type><n><query_1>...<query_n><consistency>
   v3, v4: ...<consistency><flags>[<serial_consistency>][<timestamp>], <flags> a [byte]
   v5:  ...<flags>[<serial_consistency>][<timestamp>][<keyspace>][<now_in_seconds>], <flags> an [int]
   DSE1: as v4 with <flags> an [int];  DSE2: ...[<timestamp>][<keyspace>], <flags> an [int]
   <type> [byte]; <n> [short]; <query_i> = <kind><string_or_id><n><value_1>...<value_n>: <kind> [byte] 0 = [long string]
   query, 1 = [short bytes] prepared id; <n> [short]; values [bytes] in v2/v3, [value] from v4.
   Flag 0x40 (names for values) "does not work and should not be used": a BatchChild has positional values only, never set.
   A child is a prepared one iff it carries an Id; a child with both an Id and a query text is ambiguous: None. *)
Definition spec_batch_child (v : Z) (c : option BatchChild) : option (list notation) :=
  do ch <- c;
  do vals <- spec_positional v (bc_Values ch);
  match bc_Id ch with
  | Some id => if nonempty (bc_Query ch) then None else Some ([NByte 1; NShortBytes id] ++ vals)
  | None => Some ([NByte 0; NLongString (bc_Query ch)] ++ vals)
  end.
Definition spec_batch (v : Z) (m : Batch) : option (list notation) :=
  let ks := b_Keyspace m in
  do _ <- guard (spec_is_version v);
  do children <- oall (spec_batch_child v) (b_Children m);
  do _ <- guard (negb (isSome (b_SerialConsistency m)) || spec_from_v3 v);   (* v2 BATCH has no <flags> *)
  do _ <- guard (negb (isSome (b_DefaultTimestamp m)) || spec_from_v3 v);
  do _ <- guard (negb (nonempty ks) || spec_v5_or_dse2 v);                   (* 0x80: v5 4.1.7, DSE2 4.1.7 *)
  do _ <- guard (negb (isSome (b_NowInSeconds m)) || (v =? 5));              (* 0x100: v5 4.1.7 *)
  let flags := flag (isSome (b_SerialConsistency m)) 16 + flag (isSome (b_DefaultTimestamp m)) 32 +
               flag (nonempty ks) 128 + flag (isSome (b_NowInSeconds m)) 256 in
  Some ([NByte (b_Type m); NShort (zlen (b_Children m))] ++ concat children ++ [NConsistency (b_Consistency m)]
        ++ (if v =? 2 then []
            else [if spec_v5_or_dse v then NInt flags else NByte flags]
                 ++ opt_list (b_SerialConsistency m) (fun c => [NConsistency c])
                 ++ opt_list (b_DefaultTimestamp m) (fun t => [NLong t])
                 ++ (if nonempty ks then [NString ks] else [])
                 ++ opt_list (b_NowInSeconds m) (fun n => [NInt n]))).

(* DSE1 4.1.9 CANCEL (opcode 0xFF): "an [int] identifying the operation type: 0x00000001 for continuous paging;
   an [int] equal to the stream id of the initial request message".
   DSE2 4.1.9 REVISE_REQUEST: revision type [int] 1 (cancel) or 2 (more pages); [int] stream id; "for revision type 2,
   then [next_pages]" (an [int], 4.1.4).  Not defined by the OSS versions.  NextPages with a type that has no such
   parameter: None. *)
Definition spec_revise (v : Z) (m : Revise) : option (list notation) :=
  let ty := rv_RevisionType m in
  if spec_is_dse v then
    if ty =? 1 then
      if rv_NextPages m =? 0 then Some [NInt 1; NInt (rv_TargetStreamId m)] else None
    else if (ty =? 2) && (v =? 66) then Some [NInt 2; NInt (rv_TargetStreamId m); NInt (rv_NextPages m)]
    else None
  else None.

(* ---- simple responses ---- *)
(* 4.2.3 AUTHENTICATE: "a single [string] indicating the full class name of the IAuthenticator in use" *)
Definition spec_authenticate (v : Z) (m : Authenticate) : option (list notation) := Some [NString (au_Authenticator m)].
(* 4.2.4 SUPPORTED: "The body of a SUPPORTED message is a [string multimap]" *)
Definition spec_supported (v : Z) (m : Supported) : option (list notation) := Some [NStringMultimap (su_Options m)].
(* 4.2.7 AUTH_CHALLENGE, 4.2.8 AUTH_SUCCESS (numbered 4.2.7 twice in v2/v3): "a single [bytes] token" *)
Definition spec_auth_challenge (v : Z) (m : AuthChallenge) : option (list notation) := Some [NBytes (ac_Token m)].
Definition spec_auth_success (v : Z) (m : AuthSuccess) : option (list notation) := Some [NBytes (as_Token m)].

(* ---- 4.2.1 ERROR: "an error code ([int]) followed by a [string] error message. Then, depending on the exception, more
   content may follow" (codes: section 8 of v2 and v5, section 9 of v3, v4, DSE1, DSE2) ---- *)
Definition spec_error (code : Z) (msg : bytes) (rest : list notation) : option (list notation) :=
  Some ([NInt code; NString msg] ++ rest).

(* <data_present> "is a single byte. If its value is 0, it means the replica that was asked for data has not responded.
   Otherwise, the value is != 0".  CHOICE: 1 for true (any non-zero byte conforms). *)
Definition spec_bool_byte (b : bool) : notation := NByte (if b then 1 else 0).

(* 0x1000 Unavailable: <cl><required><alive>, [consistency] [int] [int] (all versions) *)
Definition spec_unavailable (v : Z) (m : Unavailable) : option (list notation) :=
  spec_error 4096 (un_ErrorMessage m) [NConsistency (un_Consistency m); NInt (un_Required m); NInt (un_Alive m)].
(* 0x1200 Read_timeout: <cl><received><blockfor><data_present>, [consistency] [int] [int] byte (all versions) *)
Definition spec_read_timeout (v : Z) (m : ReadTimeout) : option (list notation) :=
  spec_error 4608 (rt_ErrorMessage m)
    [NConsistency (rt_Consistency m); NInt (rt_Received m); NInt (rt_BlockFor m); spec_bool_byte (rt_DataPresent m)].
(* 0x1100 Write_timeout: <cl><received><blockfor><writeType>, [consistency] [int] [int] [string] (v2, v3, v4, DSE1, DSE2);
   v5 8: <cl><received><blockfor><writeType><contentions>, "<contentions> is a [short] ... The field only presents when the
   <writeType> is "CAS"".  A non-zero Contentions where the field is not defined: None. *)
Definition spec_write_timeout (v : Z) (m : WriteTimeout) : option (list notation) :=
  let cas := (v =? 5) && beq (wt_WriteType m) s_CAS in
  do _ <- guard (cas || (wt_Contentions m =? 0));
  spec_error 4352 (wt_ErrorMessage m)
    ([NConsistency (wt_Consistency m); NInt (wt_Received m); NInt (wt_BlockFor m); NString (wt_WriteType m)]
     ++ (if cas then [NShort (wt_Contentions m)] else [])).

(* <reasonmap> (v5 8, DSE1 9, DSE2 9): "encoded starting with an [int] n followed by n pairs of <endpoint><failurecode> where
   <endpoint> is an [inetaddr] and <failurecode> is a [short]" *)
Definition spec_reason_map (l : list (option FailureReason)) : option (list notation) :=
  do ps <- oall (fun r => do x <- r; do a <- spec_ip (fr_endpoint x); Some [NInetAddr a; NShort (fr_code x)]) l;
  Some (NInt (zlen l) :: concat ps).
(* 0x1300 Read_failure (not in v2, v3).  v4 9: <cl><received><blockfor><numfailures><data_present>, <numfailures> [int].
   v5, DSE1, DSE2: <cl><received><blockfor><reasonmap><data_present>; the number of failures is the n of the map, the
   NumFailures field has no place of its own and is not looked at.  A reason map in v4: None. *)
Definition spec_read_failure (v : Z) (m : ReadFailure) : option (list notation) :=
  let head := [NConsistency (rf_Consistency m); NInt (rf_Received m); NInt (rf_BlockFor m)] in
  if v =? 4 then
    do _ <- guard (negb (nonempty (rf_FailureReasons m)));
    spec_error 4864 (rf_ErrorMessage m) (head ++ [NInt (rf_NumFailures m); spec_bool_byte (rf_DataPresent m)])
  else if spec_v5_or_dse v then
    do rm <- spec_reason_map (rf_FailureReasons m);
    spec_error 4864 (rf_ErrorMessage m) (head ++ rm ++ [spec_bool_byte (rf_DataPresent m)])
  else None.
(* 0x1500 Write_failure (not in v2, v3).  v4 9: <cl><received><blockfor><numfailures><write_type>;
   v5, DSE1, DSE2: <cl><received><blockfor><reasonmap><write_type>; <writeType> a [string] *)
Definition spec_write_failure (v : Z) (m : WriteFailure) : option (list notation) :=
  let head := [NConsistency (wf_Consistency m); NInt (wf_Received m); NInt (wf_BlockFor m)] in
  if v =? 4 then
    do _ <- guard (negb (nonempty (wf_FailureReasons m)));
    spec_error 5376 (wf_ErrorMessage m) (head ++ [NInt (wf_NumFailures m); NString (wf_WriteType m)])
  else if spec_v5_or_dse v then
    do rm <- spec_reason_map (wf_FailureReasons m);
    spec_error 5376 (wf_ErrorMessage m) (head ++ rm ++ [NString (wf_WriteType m)])
  else None.
(* 0x1400 Function_failure (v4 9, v5 8, DSE 9; not in v2, v3): <keyspace><function><arg_types>, [string] [string] [string list] *)
Definition spec_function_failure (v : Z) (m : FunctionFailure) : option (list notation) :=
  if spec_from_v4 v then
    spec_error 5120 (ff_ErrorMessage m) [NString (ff_Keyspace m); NString (ff_Function m); NStringList (ff_Arguments m)]
  else None.
(* 0x2400 Already_exists: <ks><table>, two [string] (all versions) *)
Definition spec_already_exists (v : Z) (m : AlreadyExists) : option (list notation) :=
  spec_error 9216 (ae_ErrorMessage m) [NString (ae_Keyspace m); NString (ae_Table m)].
(* 0x2500 Unprepared: "[short bytes] representing the unknown ID" (all versions) *)
Definition spec_unprepared (v : Z) (m : Unprepared) : option (list notation) :=
  do id <- up_Id m; spec_error 9472 (up_ErrorMessage m) [NShortBytes id].

(* ---- 4.2.6 EVENT and 4.2.5.5 Schema_change ----
   <change_type><target><options> (v3+) / <change><keyspace><table> (v2 4.2.5.5, v2 4.2.6: no <target>).
   v2: three [string]; "<table> will be empty (i.e. the empty string "") if the change was affecting a keyspace".  The Go
       struct always has a Target: KEYSPACE (Object must be empty) and TABLE are expressible, other targets are not.
   v3 4.2.6: target KEYSPACE -> <options> is a single [string]; TABLE or TYPE -> 2 [string] (keyspace, object name).
   v4, v5, DSE: additionally FUNCTION or AGGREGATE -> [string] keyspace, [string] name, [string list] argument types.
   Object / Arguments where the target has none: None. *)
Definition spec_schema_change (v : Z) (change target ks obj : bytes) (args : list bytes) : option (list notation) :=
  let is_ks := beq target s_KEYSPACE in
  let is_tbl := beq target s_TABLE in
  let is_type := beq target s_TYPE in
  let is_fun := beq target s_FUNCTION || beq target s_AGGREGATE in
  if v =? 2 then
    if is_ks && negb (nonempty obj) && negb (nonempty args) then Some [NString change; NString ks; NString []]
    else if is_tbl && negb (nonempty args) then Some [NString change; NString ks; NString obj]
    else None
  else if spec_from_v3 v then
    if is_ks then
      if negb (nonempty obj) && negb (nonempty args) then Some [NString change; NString target; NString ks] else None
    else if is_tbl || is_type then
      if negb (nonempty args) then Some [NString change; NString target; NString ks; NString obj] else None
    else if is_fun && spec_from_v4 v then
      Some [NString change; NString target; NString ks; NString obj; NStringList args]
    else None
  else None.

(* "The body of an EVENT message will start with a [string] representing the event type" *)
Definition spec_schema_change_event (v : Z) (m : SchemaChangeEvent) : option (list notation) :=
  do r <- spec_schema_change v (sce_ChangeType m) (sce_Target m) (sce_Keyspace m) (sce_Object m) (sce_Arguments m);
  Some (NString s_SCHEMA_CHANGE :: r).
(* "STATUS_CHANGE": "a [string] and an [inet], ... the type of status change ("UP" or "DOWN") followed by the address" *)
Definition spec_status_change_event (v : Z) (m : StatusChangeEvent) : option (list notation) :=
  do a <- spec_inet (ste_Address m); Some [NString s_STATUS_CHANGE; NString (ste_ChangeType m); a].
(* "TOPOLOGY_CHANGE": "a [string] and an [inet], ... the type of change ("NEW_NODE" or "REMOVED_NODE") followed by the address" *)
Definition spec_topology_change_event (v : Z) (m : TopologyChangeEvent) : option (list notation) :=
  do a <- spec_inet (tce_Address m); Some [NString s_TOPOLOGY_CHANGE; NString (tce_ChangeType m); a].

(* ---- 4.2.5 RESULT: "The first element of the body of a RESULT message is an [int] representing the `kind`":
   0x0001 Void, 0x0002 Rows, 0x0003 Set_keyspace, 0x0004 Prepared, 0x0005 Schema_change ---- *)

(* <col_spec_i> = (<ksname><tablename>)?<name><type>: "<ksname> and <tablename> are two [string] ... only present if the
   Global_tables_spec flag is not set. The <column_name> is a [string] and <type> is an [option]" *)
Definition spec_col_spec (v : Z) (global : bool) (c : ColumnMetadata) : option (list notation) :=
  do t <- cm_Type c;
  do _ <- guard (spec_type_defined v t);
  Some ((if global then [] else [NString (cm_Keyspace c); NString (cm_Table c)]) ++ [NString (cm_Name c); NOption t]).

(* CHOICE.  Global_tables_spec 0x0001 "if set, only one table spec (keyspace and table name) is provided": a sender MAY use it
   whenever all columns belong to one table and never has to.  Transcribed: it is used whenever it can be, i.e. there is at
   least one column and all columns have the keyspace and table of the first (this is the shorter encoding and what the
   text calls the "(unique) keyspace name and table name the columns belong to"). *)
Definition spec_global_spec (cols : list ColumnMetadata) : bool :=
  match cols with
  | [] => false
  | c :: r => forallb (fun d => beq (cm_Keyspace d) (cm_Keyspace c) && beq (cm_Table d) (cm_Table c)) r
  end.
Definition spec_col_specs (v : Z) (cols : list ColumnMetadata) : option (list notation) :=
  let g := spec_global_spec cols in
  do cs <- oall (spec_col_spec v g) cols;
  Some ((match cols with
         | c :: _ => if g then [NString (cm_Keyspace c); NString (cm_Table c)] else []   (* <global_table_spec>: two [string] *)
         | [] => []
         end) ++ concat cs).

(* 4.2.5.2 <metadata> of Rows (and <result_metadata> of Prepared):
   v2, v3, v4: <flags><columns_count>[<paging_state>][<global_table_spec>?<col_spec_1>...<col_spec_n>]
   v5:   <flags><columns_count>[<paging_state>][<new_metadata_id>][<global_table_spec>?<col_spec_1>...]
   DSE1: <flags><columns_count>[<paging_state>][<continuous_page_no>][<global_table_spec>?...]
   DSE2: <flags><columns_count>[<paging_state>][<new_metadata_id>][<continuous_page_no>][<global_table_spec>?...]
   <flags> [int]: 0x0001 Global_tables_spec, 0x0002 Has_more_pages ("If set, the <paging_state> will be present", a [bytes]),
   0x0004 No_metadata ("only composed of these <flags>, the <column_count> and optionally the <paging_state>"),
   0x0008 Metadata_changed (v5, DSE2: "the No_metadata flag has to be unset and <new_metadata_id> has to be supplied",
   a [short bytes]), 0x40000000 continuous paging (DSE: "<continuous_page_no> will be present, this is an [int]"),
   0x80000000 Last_continuous_page (DSE: "can only be set when the continuous paging flag is also set").
   <columns_count> [int].
   Mapping of the Go struct: No_metadata iff there are no column specifications (then <columns_count> is the ColumnCount
   field; otherwise it "defines the number of <col_spec_i> elements", i.e. it is the number of column specifications);
   Has_more_pages iff a paging state is present; Metadata_changed iff a new result metadata id is present; continuous
   paging iff ContinuousPageNumber > 0. *)
Definition spec_rows_metadata (v : Z) (md : RowsMetadata) : option (list notation * Z) :=
  do _ <- guard (spec_is_version v);
  do cols <- oall (fun c => c) (rm_Columns md);
  let no_md := negb (nonempty cols) in
  let changed := isSome (rm_NewResultMetadataId md) in
  let pno := rm_ContinuousPageNumber md in
  let cont := 0 <? pno in
  do _ <- guard (negb changed || spec_v5_or_dse2 v);          (* v5 4.2.5.2, DSE2 4.2.5.2 *)
  do _ <- guard (negb (changed && no_md));                    (* "the No_metadata flag has to be unset" *)
  do _ <- guard (0 <=? pno);
  do _ <- guard (negb cont || spec_is_dse v);                 (* DSE1/DSE2 4.2.5.2 *)
  do _ <- guard (negb (rm_LastContinuousPage md) || cont);    (* "can only be set when the continuous paging flag is also set" *)
  do specs <- spec_col_specs v cols;
  let count := if no_md then rm_ColumnCount md else zlen cols in
  let flags := flag (spec_global_spec cols) 1 + flag (isSome (rm_PagingState md)) 2 + flag no_md 4 + flag changed 8 +
               flag cont 1073741824 + flag (rm_LastContinuousPage md) 2147483648 in
  Some ([NInt flags; NInt count]
        ++ opt_list (rm_PagingState md) (fun b => [NBytes (Some b)])
        ++ opt_list (rm_NewResultMetadataId md) (fun b => [NShortBytes b])
        ++ (if cont then [NInt pno] else [])
        ++ specs, count).

(* 4.2.5.2 Rows: <metadata><rows_count><rows_content>; <rows_count> [int]; "<rows_content> is composed of
   (<rows_count> * <columns_count>) [bytes]": every row must have <columns_count> values.  Rows without metadata: None. *)
Definition spec_rows (v : Z) (m : RowsResult) : option (list notation) :=
  do md <- rr_Metadata m;
  do mc <- spec_rows_metadata v md;
  let '(mdn, count) := mc in
  do _ <- guard (forallb (fun row => zlen row =? count) (rr_Data m));
  Some ([NInt 2] ++ mdn ++ [NInt (zlen (rr_Data m))] ++ concat (map (map NBytes) (rr_Data m))).

(* 4.2.5.4 <metadata> of Prepared (the bind variables).
   v2, v3: "defined exactly as for a Rows RESULT (... the Has_more_pages flag is always off)": <flags><columns_count>
           [<global_table_spec>?<col_spec_1>...]; No_metadata "will only ever be the case if this was requested during the
           query", which a PREPARE cannot do: flags = Global_tables_spec only, also for zero variables.
   v4, v5, DSE: <flags><columns_count><pk_count>[<pk_index_1>...<pk_index_n>][<global_table_spec>?<col_spec_1>...],
           <flags> [int] (only 0x0001 Global_tables_spec), <columns_count> [int], <pk_count> [int], <pk_index_i> "a short".
   Partition key indices before v4: None. *)
Definition spec_variables_metadata (v : Z) (vm : VariablesMetadata) : option (list notation) :=
  do _ <- guard (spec_is_version v);
  do cols <- oall (fun c => c) (vm_Columns vm);
  do specs <- spec_col_specs v cols;
  do _ <- guard (spec_from_v4 v || negb (nonempty (vm_PkIndices vm)));
  Some ([NInt (flag (spec_global_spec cols) 1); NInt (zlen cols)]
        ++ (if spec_from_v4 v then NInt (zlen (vm_PkIndices vm)) :: map NShort (vm_PkIndices vm) else [])
        ++ specs).

(* 4.2.5.4 Prepared.  v2, v3, v4, DSE1: <id><metadata><result_metadata>; v5, DSE2: <id><result_metadata_id><metadata>
   <result_metadata>; <id> and <result_metadata_id> [short bytes].
   "<result_metadata> may be empty (have the No_metadata flag and 0 columns ...) and will be for any query that is not a
   Select": an absent ResultMetadata is that empty metadata, flags 0x0004 and 0 columns.
   An absent variables metadata or id: None. *)
Definition spec_prepared (v : Z) (m : PreparedResult) : option (list notation) :=
  do id <- pr_PreparedQueryId m;
  do vm <- pr_VariablesMetadata m;
  do vmn <- spec_variables_metadata v vm;
  do rmn <- match pr_ResultMetadata m with
            | Some md => do mc <- spec_rows_metadata v md; Some (fst mc)
            | None => Some [NInt 4; NInt 0]
            end;
  if spec_v5_or_dse2 v then
    do rid <- pr_ResultMetadataId m; Some ([NInt 4; NShortBytes id; NShortBytes rid] ++ vmn ++ rmn)
  else
    do _ <- guard (negb (isSome (pr_ResultMetadataId m))); Some ([NInt 4; NShortBytes id] ++ vmn ++ rmn).

(* 4.2.5.3 Set_keyspace: "a single [string] indicating the name of the keyspace that has been set" *)
Definition spec_set_keyspace (v : Z) (m : SetKeyspaceResult) : option (list notation) := Some [NInt 3; NString (sk_Keyspace m)].
(* 4.2.5.5 Schema_change: v2 three [string]; v3+ "the same as the body for a "SCHEMA_CHANGE" event" *)
Definition spec_schema_change_result (v : Z) (m : SchemaChangeResult) : option (list notation) :=
  do r <- spec_schema_change v (scr_ChangeType m) (scr_Target m) (scr_Keyspace m) (scr_Object m) (scr_Arguments m);
  Some (NInt 5 :: r).

(* ---- every message kind ---- *)
Definition spec_body_raw (v : Z) (m : Message) : option (list notation) :=
  if negb (spec_is_version v) then None else
  match m with
  | M_Startup x => spec_startup v x
  | M_Options => Some []                                (* 4.1.3 "The body of an OPTIONS message should be empty" *)
  | M_Query x => spec_query v x
  | M_Prepare x => spec_prepare v x
  | M_Execute x => spec_execute v x
  | M_Register x => spec_register v x
  | M_Batch x => spec_batch v x
  | M_AuthResponse x => spec_auth_response v x
  | M_Revise x => spec_revise v x
  | M_Ready => Some []                                  (* 4.2.2 "The body of a READY message is empty" *)
  | M_Authenticate x => spec_authenticate v x
  | M_Supported x => spec_supported v x
  | M_AuthChallenge x => spec_auth_challenge v x
  | M_AuthSuccess x => spec_auth_success v x
  (* error codes without additional content (section 8/9 of every version) *)
  | M_ServerError msg => spec_error 0 msg []            (* 0x0000 Server error *)
  | M_ProtocolError msg => spec_error 10 msg []         (* 0x000A Protocol error *)
  | M_AuthenticationError msg => spec_error 256 msg []  (* 0x0100 Bad credentials (v2, v3) / Authentication error (v4+) *)
  | M_Overloaded msg => spec_error 4097 msg []          (* 0x1001 Overloaded *)
  | M_IsBootstrapping msg => spec_error 4098 msg []     (* 0x1002 Is_bootstrapping *)
  | M_TruncateError msg => spec_error 4099 msg []       (* 0x1003 Truncate_error *)
  | M_SyntaxError msg => spec_error 8192 msg []         (* 0x2000 Syntax_error *)
  | M_Unauthorized msg => spec_error 8448 msg []        (* 0x2100 Unauthorized *)
  | M_Invalid msg => spec_error 8704 msg []             (* 0x2200 Invalid *)
  | M_ConfigError msg => spec_error 8960 msg []         (* 0x2300 Config_error *)
  | M_Unavailable x => spec_unavailable v x
  | M_ReadTimeout x => spec_read_timeout v x
  | M_WriteTimeout x => spec_write_timeout v x
  | M_ReadFailure x => spec_read_failure v x
  | M_WriteFailure x => spec_write_failure v x
  | M_FunctionFailure x => spec_function_failure v x
  | M_Unprepared x => spec_unprepared v x
  | M_AlreadyExists x => spec_already_exists v x
  | M_SchemaChangeEvent x => spec_schema_change_event v x
  | M_StatusChangeEvent x => spec_status_change_event v x
  | M_TopologyChangeEvent x => spec_topology_change_event v x
  | M_VoidResult => Some [NInt 1]                       (* 4.2.5.1 "The rest of the body for a Void result is empty" *)
  | M_SetKeyspaceResult x => spec_set_keyspace v x
  | M_SchemaChangeResult x => spec_schema_change_result v x
  | M_PreparedResult x => spec_prepared v x
  | M_RowsResult x => spec_rows v x
  end.

(* the layout, provided every value fits its notation (a 70000-byte [string] has no representation) *)
Definition spec_body (v : Z) (m : Message) : option (list notation) :=
  do l <- spec_body_raw v m; if forallb notation_ok l then Some l else None.
Definition spec_body_bytes (v : Z) (m : Message) : option bytes := do l <- spec_body v m; Some (ser_all l).

(* ================= worked examples: every right-hand side is derived BY HAND from the specification text ================= *)
Definition xSELECT : bytes := [83;69;76;69;67;84].       (* "SELECT" *)
Definition xks : bytes := [107;115].                     (* "ks" *)
Definition xtbl : bytes := [116;98;108].                 (* "tbl" *)
Definition xerr : bytes := [101;114;114].                (* "err" *)
Definition xCREATED : bytes := [67;82;69;65;84;69;68].   (* "CREATED" *)
Definition xint : bytes := [105;110;116].                (* "int" *)
Definition qo0 (c : Z) : QueryOptions :=
  {| qo_Consistency := c; qo_PositionalValues := None; qo_NamedValues := None; qo_SkipMetadata := false; qo_PageSize := 0;
     qo_PageSizeInBytes := false; qo_PagingState := None; qo_SerialConsistency := None; qo_DefaultTimestamp := None;
     qo_Keyspace := []; qo_NowInSeconds := None; qo_ContinuousPagingOptions := None |}.
Definition xval (b : bytes) : option Value := Some {| value_type := ValueTypeRegular; value_contents := Some b |}.
Definition xnull : option Value := Some {| value_type := ValueTypeNull; value_contents := None |}.
Definition xunset : option Value := Some {| value_type := ValueTypeUnset; value_contents := None |}.
Definition bodies (m : Message) : list (option bytes) := map (fun v => spec_body_bytes v m) [2; 3; 4; 5; 65; 66].

(* 4.1.1 STARTUP {"CQL_VERSION": "3.0.0"} = 00 01 | 00 0B CQL_VERSION | 00 05 3.0.0 *)
Example ex_startup : spec_body_bytes 4 (M_Startup {| st_Options := [([67;81;76;95;86;69;82;83;73;79;78], [51;46;48;46;48])] |})
  = Some [0;1; 0;11;67;81;76;95;86;69;82;83;73;79;78; 0;5;51;46;48;46;48]. Proof. vm_compute. reflexivity. Qed.
(* 4.1.3 OPTIONS / 4.2.2 READY: empty in every version *)
Example ex_options : bodies M_Options = [Some []; Some []; Some []; Some []; Some []; Some []]. Proof. vm_compute. reflexivity. Qed.
Example ex_ready : bodies M_Ready = [Some []; Some []; Some []; Some []; Some []; Some []]. Proof. vm_compute. reflexivity. Qed.
(* 4.1.2 AUTH_RESPONSE token 01 02 03 = 00 00 00 03 01 02 03; null token = FF FF FF FF *)
Example ex_auth_response : spec_body_bytes 4 (M_AuthResponse {| ar_Token := Some [1;2;3] |}) = Some [0;0;0;3;1;2;3].
Proof. vm_compute. reflexivity. Qed.
Example ex_auth_response_null : spec_body_bytes 2 (M_AuthResponse {| ar_Token := None |}) = Some [255;255;255;255].
Proof. vm_compute. reflexivity. Qed.

(* 4.1.4 QUERY "SELECT", consistency ONE, no flags.  <query> 00 00 00 06 SELECT | <consistency> 00 01 | <flags>:
   one byte 00 in v2, v3, v4; four bytes 00 00 00 00 in v5, DSE1, DSE2 *)
Example ex_query_plain : bodies (M_Query {| q_Query := xSELECT; q_Options := Some (qo0 1) |})
  = [Some [0;0;0;6;83;69;76;69;67;84; 0;1; 0];
     Some [0;0;0;6;83;69;76;69;67;84; 0;1; 0];
     Some [0;0;0;6;83;69;76;69;67;84; 0;1; 0];
     Some [0;0;0;6;83;69;76;69;67;84; 0;1; 0;0;0;0];
     Some [0;0;0;6;83;69;76;69;67;84; 0;1; 0;0;0;0];
     Some [0;0;0;6;83;69;76;69;67;84; 0;1; 0;0;0;0]]. Proof. vm_compute. reflexivity. Qed.
(* no options: no <consistency>, nothing prescribed *)
Example ex_query_no_options : bodies (M_Query {| q_Query := xSELECT; q_Options := None |}) = [None; None; None; None; None; None].
Proof. vm_compute. reflexivity. Qed.

(* QUERY v4 with values (01 02, null, not set), page size 100, paging state 09, serial consistency SERIAL, timestamp 1000.
   flags = 0x01|0x04|0x08|0x10|0x20 = 0x3D = 61.
   00 00 00 06 SELECT | 00 01 | 3D | 00 03 | 00 00 00 02 01 02 | FF FF FF FF | FF FF FF FE | 00 00 00 64 | 00 00 00 01 09 |
   00 08 | 00 00 00 00 00 00 03 E8.   v2, v3: no "not set" -> None; v5: flags as [int] 00 00 00 3D. *)
Definition xq_rich := M_Query {| q_Query := xSELECT; q_Options := Some
  {| qo_Consistency := 1; qo_PositionalValues := Some [xval [1;2]; xnull; xunset]; qo_NamedValues := None;
     qo_SkipMetadata := false; qo_PageSize := 100; qo_PageSizeInBytes := false; qo_PagingState := Some [9];
     qo_SerialConsistency := Some 8; qo_DefaultTimestamp := Some 1000; qo_Keyspace := []; qo_NowInSeconds := None;
     qo_ContinuousPagingOptions := None |} |}.
Example ex_query_rich : bodies xq_rich
  = [None; None;
     Some [0;0;0;6;83;69;76;69;67;84; 0;1; 61; 0;3; 0;0;0;2;1;2; 255;255;255;255; 255;255;255;254; 0;0;0;100; 0;0;0;1;9; 0;8;
           0;0;0;0;0;0;3;232];
     Some [0;0;0;6;83;69;76;69;67;84; 0;1; 0;0;0;61; 0;3; 0;0;0;2;1;2; 255;255;255;255; 255;255;255;254; 0;0;0;100; 0;0;0;1;9; 0;8;
           0;0;0;0;0;0;3;232];
     Some [0;0;0;6;83;69;76;69;67;84; 0;1; 0;0;0;61; 0;3; 0;0;0;2;1;2; 255;255;255;255; 255;255;255;254; 0;0;0;100; 0;0;0;1;9; 0;8;
           0;0;0;0;0;0;3;232];
     Some [0;0;0;6;83;69;76;69;67;84; 0;1; 0;0;0;61; 0;3; 0;0;0;2;1;2; 255;255;255;255; 255;255;255;254; 0;0;0;100; 0;0;0;1;9; 0;8;
           0;0;0;0;0;0;3;232]]. Proof. vm_compute. reflexivity. Qed.
(* v2: values are [bytes], no timestamp.  values (07, null), skip metadata: flags 0x01|0x02 = 03:
   ... 00 01 | 03 | 00 02 | 00 00 00 01 07 | FF FF FF FF *)
Example ex_query_v2_values : spec_body_bytes 2 (M_Query {| q_Query := xSELECT; q_Options := Some
  {| qo_Consistency := 1; qo_PositionalValues := Some [xval [7]; xnull]; qo_NamedValues := None; qo_SkipMetadata := true;
     qo_PageSize := 0; qo_PageSizeInBytes := false; qo_PagingState := None; qo_SerialConsistency := None;
     qo_DefaultTimestamp := None; qo_Keyspace := []; qo_NowInSeconds := None; qo_ContinuousPagingOptions := None |} |})
  = Some [0;0;0;6;83;69;76;69;67;84; 0;1; 3; 0;2; 0;0;0;1;7; 255;255;255;255]. Proof. vm_compute. reflexivity. Qed.
(* named values {"a": 07}: flags 0x01|0x40 = 0x41 = 65: ... 00 01 | 41 | 00 01 | 00 01 61 | 00 00 00 01 07; not in v2 *)
Definition xq_named := M_Query {| q_Query := xSELECT; q_Options := Some
  {| qo_Consistency := 1; qo_PositionalValues := None; qo_NamedValues := Some [([97], xval [7])]; qo_SkipMetadata := false;
     qo_PageSize := 0; qo_PageSizeInBytes := false; qo_PagingState := None; qo_SerialConsistency := None;
     qo_DefaultTimestamp := None; qo_Keyspace := []; qo_NowInSeconds := None; qo_ContinuousPagingOptions := None |} |}.
Example ex_query_named : map (fun v => spec_body_bytes v xq_named) [2; 3; 5]
  = [None;
     Some [0;0;0;6;83;69;76;69;67;84; 0;1; 65; 0;1; 0;1;97; 0;0;0;1;7];
     Some [0;0;0;6;83;69;76;69;67;84; 0;1; 0;0;0;65; 0;1; 0;1;97; 0;0;0;1;7]]. Proof. vm_compute. reflexivity. Qed.
(* v5 keyspace "ks" and now_in_seconds 5: flags 0x80|0x100 = 0x180: 00 00 01 80 | 00 02 6B 73 | 00 00 00 05.
   DSE2 has the keyspace but no now_in_seconds; the others neither. *)
Definition xq_ks (now : option Z) := M_Query {| q_Query := xSELECT; q_Options := Some
  {| qo_Consistency := 1; qo_PositionalValues := None; qo_NamedValues := None; qo_SkipMetadata := false; qo_PageSize := 0;
     qo_PageSizeInBytes := false; qo_PagingState := None; qo_SerialConsistency := None; qo_DefaultTimestamp := None;
     qo_Keyspace := xks; qo_NowInSeconds := now; qo_ContinuousPagingOptions := None |} |}.
Example ex_query_v5_ks_now : bodies (xq_ks (Some 5))
  = [None; None; None; Some [0;0;0;6;83;69;76;69;67;84; 0;1; 0;0;1;128; 0;2;107;115; 0;0;0;5]; None; None].
Proof. vm_compute. reflexivity. Qed.
Example ex_query_ks : bodies (xq_ks None)
  = [None; None; None; Some [0;0;0;6;83;69;76;69;67;84; 0;1; 0;0;0;128; 0;2;107;115]; None;
     Some [0;0;0;6;83;69;76;69;67;84; 0;1; 0;0;0;128; 0;2;107;115]]. Proof. vm_compute. reflexivity. Qed.
(* DSE continuous paging: page size 5000 (0x1388) in bytes, options max 10, 2 per second, next 3 (DSE2) / 0 (DSE1).
   DSE2 with keyspace: flags 0x04|0x80|0x40000000|0x80000000 = C0 00 00 84; order <result_page_size> ... <keyspace> <options>:
     C0 00 00 84 | 00 00 13 88 | 00 02 6B 73 | 00 00 00 0A | 00 00 00 02 | 00 00 00 03
   DSE1 without keyspace: flags C0 00 00 04 | 00 00 13 88 | 00 00 00 0A | 00 00 00 02 *)
Definition xq_cp (ks : bytes) (next : Z) := M_Query {| q_Query := xSELECT; q_Options := Some
  {| qo_Consistency := 1; qo_PositionalValues := None; qo_NamedValues := None; qo_SkipMetadata := false; qo_PageSize := 5000;
     qo_PageSizeInBytes := true; qo_PagingState := None; qo_SerialConsistency := None; qo_DefaultTimestamp := None;
     qo_Keyspace := ks; qo_NowInSeconds := None;
     qo_ContinuousPagingOptions := Some {| cpo_MaxPages := 10; cpo_PagesPerSecond := 2; cpo_NextPages := next |} |} |}.
Example ex_query_dse2_cp : bodies (xq_cp xks 3)
  = [None; None; None; None; None;
     Some [0;0;0;6;83;69;76;69;67;84; 0;1; 192;0;0;132; 0;0;19;136; 0;2;107;115; 0;0;0;10; 0;0;0;2; 0;0;0;3]].
Proof. vm_compute. reflexivity. Qed.
Example ex_query_dse1_cp : bodies (xq_cp [] 0)
  = [None; None; None; None;
     Some [0;0;0;6;83;69;76;69;67;84; 0;1; 192;0;0;4; 0;0;19;136; 0;0;0;10; 0;0;0;2];
     Some [0;0;0;6;83;69;76;69;67;84; 0;1; 192;0;0;4; 0;0;19;136; 0;0;0;10; 0;0;0;2; 0;0;0;0]].
Proof. vm_compute. reflexivity. Qed.

(* 4.1.5 PREPARE "SELECT": [long string] alone in v2, v3, v4, DSE1; + [int] flags 00 00 00 00 in v5, DSE2;
   with keyspace "ks" (v5, DSE2 only): 00 00 00 01 | 00 02 6B 73 *)
Example ex_prepare : bodies (M_Prepare {| p_Query := xSELECT; p_Keyspace := [] |})
  = [Some [0;0;0;6;83;69;76;69;67;84]; Some [0;0;0;6;83;69;76;69;67;84]; Some [0;0;0;6;83;69;76;69;67;84];
     Some [0;0;0;6;83;69;76;69;67;84; 0;0;0;0]; Some [0;0;0;6;83;69;76;69;67;84]; Some [0;0;0;6;83;69;76;69;67;84; 0;0;0;0]].
Proof. vm_compute. reflexivity. Qed.
Example ex_prepare_ks : bodies (M_Prepare {| p_Query := xSELECT; p_Keyspace := xks |})
  = [None; None; None; Some [0;0;0;6;83;69;76;69;67;84; 0;0;0;1; 0;2;107;115]; None;
     Some [0;0;0;6;83;69;76;69;67;84; 0;0;0;1; 0;2;107;115]]. Proof. vm_compute. reflexivity. Qed.

(* 4.1.6 EXECUTE id CA FE, consistency ONE: 00 02 CA FE | 00 01 | 00 (v2-v4), flags as [int] in DSE1;
   v5, DSE2 need <result_metadata_id> (here 07): 00 02 CA FE | 00 01 07 | 00 01 | 00 00 00 00 *)
Example ex_execute : bodies (M_Execute {| ex_QueryId := Some [202;254]; ex_ResultMetadataId := None; ex_Options := Some (qo0 1) |})
  = [Some [0;2;202;254; 0;1; 0]; Some [0;2;202;254; 0;1; 0]; Some [0;2;202;254; 0;1; 0]; None;
     Some [0;2;202;254; 0;1; 0;0;0;0]; None]. Proof. vm_compute. reflexivity. Qed.
Example ex_execute_rid : bodies (M_Execute {| ex_QueryId := Some [202;254]; ex_ResultMetadataId := Some [7]; ex_Options := Some (qo0 1) |})
  = [None; None; None; Some [0;2;202;254; 0;1;7; 0;1; 0;0;0;0]; None; Some [0;2;202;254; 0;1;7; 0;1; 0;0;0;0]].
Proof. vm_compute. reflexivity. Qed.

(* 4.1.8 REGISTER ["STATUS_CHANGE"] = 00 01 | 00 0D STATUS_CHANGE *)
Example ex_register : spec_body_bytes 3 (M_Register {| rg_EventTypes := [s_STATUS_CHANGE] |})
  = Some [0;1; 0;13;83;84;65;84;85;83;95;67;72;65;78;71;69]. Proof. vm_compute. reflexivity. Qed.

(* 4.1.7 BATCH unlogged (01), two queries: "SELECT" with one value 01; prepared CA FE without values; consistency QUORUM.
   common: 01 | 00 02 | 00 | 00 00 00 06 SELECT | 00 01 | 00 00 00 01 01 | 01 | 00 02 CA FE | 00 00 | 00 04
   v2: nothing more; v3, v4: <flags> byte 00; v5, DSE1, DSE2: <flags> int 00 00 00 00 *)
Definition xbatch (serial ts : option Z) (ks : bytes) (now : option Z) := M_Batch
  {| b_Type := 1;
     b_Children := [Some {| bc_Query := xSELECT; bc_Id := None; bc_Values := [xval [1]] |};
                    Some {| bc_Query := []; bc_Id := Some [202;254]; bc_Values := [] |}];
     b_Consistency := 4; b_SerialConsistency := serial; b_DefaultTimestamp := ts; b_Keyspace := ks; b_NowInSeconds := now |}.
Definition xbatch_common : bytes := [1; 0;2; 0; 0;0;0;6;83;69;76;69;67;84; 0;1; 0;0;0;1;1; 1; 0;2;202;254; 0;0; 0;4].
Example ex_batch : bodies (xbatch None None [] None)
  = [Some xbatch_common; Some (xbatch_common ++ [0]); Some (xbatch_common ++ [0]); Some (xbatch_common ++ [0;0;0;0]);
     Some (xbatch_common ++ [0;0;0;0]); Some (xbatch_common ++ [0;0;0;0])]. Proof. vm_compute. reflexivity. Qed.
(* serial consistency LOCAL_SERIAL (00 09) and timestamp 1000: flags 0x10|0x20 = 0x30 = 48; no such fields in v2 *)
Example ex_batch_serial_ts : bodies (xbatch (Some 9) (Some 1000) [] None)
  = [None; Some (xbatch_common ++ [48; 0;9; 0;0;0;0;0;0;3;232]); Some (xbatch_common ++ [48; 0;9; 0;0;0;0;0;0;3;232]);
     Some (xbatch_common ++ [0;0;0;48; 0;9; 0;0;0;0;0;0;3;232]); Some (xbatch_common ++ [0;0;0;48; 0;9; 0;0;0;0;0;0;3;232]);
     Some (xbatch_common ++ [0;0;0;48; 0;9; 0;0;0;0;0;0;3;232])]. Proof. vm_compute. reflexivity. Qed.
(* v5: keyspace and now_in_seconds 5: flags 0x80|0x100: 00 00 01 80 | 00 02 6B 73 | 00 00 00 05 *)
Example ex_batch_v5 : bodies (xbatch None None xks (Some 5))
  = [None; None; None; Some (xbatch_common ++ [0;0;1;128; 0;2;107;115; 0;0;0;5]); None; None]. Proof. vm_compute. reflexivity. Qed.

(* DSE 4.1.9: DSE1 CANCEL / DSE2 REVISE_REQUEST type 1 of stream 5 = 00 00 00 01 | 00 00 00 05;
   DSE2 type 2, stream 5, next_pages 10 = 00 00 00 02 | 00 00 00 05 | 00 00 00 0A; not defined elsewhere *)
Example ex_revise_cancel : bodies (M_Revise {| rv_RevisionType := 1; rv_TargetStreamId := 5; rv_NextPages := 0 |})
  = [None; None; None; None; Some [0;0;0;1; 0;0;0;5]; Some [0;0;0;1; 0;0;0;5]]. Proof. vm_compute. reflexivity. Qed.
Example ex_revise_more : bodies (M_Revise {| rv_RevisionType := 2; rv_TargetStreamId := 5; rv_NextPages := 10 |})
  = [None; None; None; None; None; Some [0;0;0;2; 0;0;0;5; 0;0;0;10]]. Proof. vm_compute. reflexivity. Qed.

(* 4.2.3 AUTHENTICATE "x" = 00 01 78;  4.2.4 SUPPORTED {"COMPRESSION": ["lz4"; "snappy"]} =
   00 01 | 00 0B COMPRESSION | 00 02 | 00 03 lz4 | 00 06 snappy;  4.2.7/4.2.8 token 01 = 00 00 00 01 01 *)
Example ex_authenticate : spec_body_bytes 4 (M_Authenticate {| au_Authenticator := [120] |}) = Some [0;1;120].
Proof. vm_compute. reflexivity. Qed.
Example ex_supported : spec_body_bytes 4 (M_Supported {| su_Options :=
    [([67;79;77;80;82;69;83;83;73;79;78], [[108;122;52]; [115;110;97;112;112;121]])] |})
  = Some [0;1; 0;11;67;79;77;80;82;69;83;83;73;79;78; 0;2; 0;3;108;122;52; 0;6;115;110;97;112;112;121].
Proof. vm_compute. reflexivity. Qed.
Example ex_auth_challenge : spec_body_bytes 4 (M_AuthChallenge {| ac_Token := Some [1] |}) = Some [0;0;0;1;1].
Proof. vm_compute. reflexivity. Qed.
Example ex_auth_success : spec_body_bytes 4 (M_AuthSuccess {| as_Token := None |}) = Some [255;255;255;255].
Proof. vm_compute. reflexivity. Qed.

(* ERROR.  Server error "err" = 00 00 00 00 | 00 03 65 72 72;  Invalid = 00 00 22 00 | ... *)
Example ex_server_error : spec_body_bytes 4 (M_ServerError xerr) = Some [0;0;0;0; 0;3;101;114;114]. Proof. vm_compute. reflexivity. Qed.
Example ex_invalid : spec_body_bytes 2 (M_Invalid xerr) = Some [0;0;34;0; 0;3;101;114;114]. Proof. vm_compute. reflexivity. Qed.
(* Unavailable "err", QUORUM, required 3, alive 2 = 00 00 10 00 | 00 03 err | 00 04 | 00 00 00 03 | 00 00 00 02 *)
Example ex_unavailable : spec_body_bytes 4 (M_Unavailable {| un_ErrorMessage := xerr; un_Consistency := 4; un_Required := 3; un_Alive := 2 |})
  = Some [0;0;16;0; 0;3;101;114;114; 0;4; 0;0;0;3; 0;0;0;2]. Proof. vm_compute. reflexivity. Qed.
(* Read_timeout ONE, received 1, blockfor 2, data present = 00 00 12 00 | err | 00 01 | 00 00 00 01 | 00 00 00 02 | 01 *)
Example ex_read_timeout : spec_body_bytes 3 (M_ReadTimeout
    {| rt_ErrorMessage := xerr; rt_Consistency := 1; rt_Received := 1; rt_BlockFor := 2; rt_DataPresent := true |})
  = Some [0;0;18;0; 0;3;101;114;114; 0;1; 0;0;0;1; 0;0;0;2; 1]. Proof. vm_compute. reflexivity. Qed.
(* Write_timeout ONE 0 1 "SIMPLE" = 00 00 11 00 | err | 00 01 | 00 00 00 00 | 00 00 00 01 | 00 06 SIMPLE (every version) *)
Example ex_write_timeout : bodies (M_WriteTimeout
    {| wt_ErrorMessage := xerr; wt_Consistency := 1; wt_Received := 0; wt_BlockFor := 1; wt_WriteType := [83;73;77;80;76;69]; wt_Contentions := 0 |})
  = let b := [0;0;17;0; 0;3;101;114;114; 0;1; 0;0;0;0; 0;0;0;1; 0;6;83;73;77;80;76;69] in
    [Some b; Some b; Some b; Some b; Some b; Some b]. Proof. vm_compute. reflexivity. Qed.
(* v5: "CAS" with 3 contentions: ... 00 03 43 41 53 | 00 03; the field exists nowhere else *)
Example ex_write_timeout_cas : bodies (M_WriteTimeout
    {| wt_ErrorMessage := xerr; wt_Consistency := 1; wt_Received := 0; wt_BlockFor := 1; wt_WriteType := s_CAS; wt_Contentions := 3 |})
  = [None; None; None; Some [0;0;17;0; 0;3;101;114;114; 0;1; 0;0;0;0; 0;0;0;1; 0;3;67;65;83; 0;3]; None; None].
Proof. vm_compute. reflexivity. Qed.
(* Read_failure.  v4: <numfailures> 1: 00 00 13 00 | err | 00 01 | 00 00 00 00 | 00 00 00 01 | 00 00 00 01 | 00
   v5/DSE: reason map {10.0.0.2: 0x0001}: ... | 00 00 00 01 | 04 0A 00 00 02 | 00 01 | 00;  not in v2, v3 *)
Example ex_read_failure_v4 : bodies (M_ReadFailure {| rf_ErrorMessage := xerr; rf_Consistency := 1; rf_Received := 0; rf_BlockFor := 1;
    rf_NumFailures := 1; rf_FailureReasons := []; rf_DataPresent := false |})
  = [None; None; Some [0;0;19;0; 0;3;101;114;114; 0;1; 0;0;0;0; 0;0;0;1; 0;0;0;1; 0];
     Some [0;0;19;0; 0;3;101;114;114; 0;1; 0;0;0;0; 0;0;0;1; 0;0;0;0; 0];
     Some [0;0;19;0; 0;3;101;114;114; 0;1; 0;0;0;0; 0;0;0;1; 0;0;0;0; 0];
     Some [0;0;19;0; 0;3;101;114;114; 0;1; 0;0;0;0; 0;0;0;1; 0;0;0;0; 0]]. Proof. vm_compute. reflexivity. Qed.
Example ex_read_failure_v5 : bodies (M_ReadFailure {| rf_ErrorMessage := xerr; rf_Consistency := 1; rf_Received := 0; rf_BlockFor := 1;
    rf_NumFailures := 1; rf_FailureReasons := [Some {| fr_endpoint := Some [10;0;0;2]; fr_code := 1 |}]; rf_DataPresent := false |})
  = let b := [0;0;19;0; 0;3;101;114;114; 0;1; 0;0;0;0; 0;0;0;1; 0;0;0;1; 4;10;0;0;2; 0;1; 0] in
    [None; None; None; Some b; Some b; Some b]. Proof. vm_compute. reflexivity. Qed.
(* Write_failure v5, reason map {::1 -> 0}, "SIMPLE": 00 00 15 00 | err | 00 01 | 0 | 1 | 00 00 00 01 | 10 00..01 | 00 00 | 00 06 SIMPLE *)
Example ex_write_failure_v5 : spec_body_bytes 5 (M_WriteFailure {| wf_ErrorMessage := xerr; wf_Consistency := 1; wf_Received := 0;
    wf_BlockFor := 1; wf_NumFailures := 1;
    wf_FailureReasons := [Some {| fr_endpoint := Some [0;0;0;0;0;0;0;0;0;0;0;0;0;0;0;1]; fr_code := 0 |}]; wf_WriteType := [83;73;77;80;76;69] |})
  = Some [0;0;21;0; 0;3;101;114;114; 0;1; 0;0;0;0; 0;0;0;1; 0;0;0;1; 16;0;0;0;0;0;0;0;0;0;0;0;0;0;0;0;1; 0;0; 0;6;83;73;77;80;76;69].
Proof. vm_compute. reflexivity. Qed.
Example ex_write_failure_v4 : spec_body_bytes 4 (M_WriteFailure {| wf_ErrorMessage := xerr; wf_Consistency := 1; wf_Received := 0;
    wf_BlockFor := 1; wf_NumFailures := 2; wf_FailureReasons := []; wf_WriteType := [83;73;77;80;76;69] |})
  = Some [0;0;21;0; 0;3;101;114;114; 0;1; 0;0;0;0; 0;0;0;1; 0;0;0;2; 0;6;83;73;77;80;76;69]. Proof. vm_compute. reflexivity. Qed.
(* Function_failure ks.f(int) = 00 00 14 00 | err | 00 02 ks | 00 01 66 | 00 01 00 03 int; v4+ *)
Example ex_function_failure : map (fun v => spec_body_bytes v (M_FunctionFailure
    {| ff_ErrorMessage := xerr; ff_Keyspace := xks; ff_Function := [102]; ff_Arguments := [xint] |})) [3; 4]
  = [None; Some [0;0;20;0; 0;3;101;114;114; 0;2;107;115; 0;1;102; 0;1; 0;3;105;110;116]]. Proof. vm_compute. reflexivity. Qed.
(* Already_exists ks.tbl = 00 00 24 00 | err | 00 02 ks | 00 03 tbl;  Unprepared CA FE = 00 00 25 00 | err | 00 02 CA FE *)
Example ex_already_exists : spec_body_bytes 4 (M_AlreadyExists {| ae_ErrorMessage := xerr; ae_Keyspace := xks; ae_Table := xtbl |})
  = Some [0;0;36;0; 0;3;101;114;114; 0;2;107;115; 0;3;116;98;108]. Proof. vm_compute. reflexivity. Qed.
Example ex_unprepared : spec_body_bytes 4 (M_Unprepared {| up_ErrorMessage := xerr; up_Id := Some [202;254] |})
  = Some [0;0;37;0; 0;3;101;114;114; 0;2;202;254]. Proof. vm_compute. reflexivity. Qed.

(* EVENT STATUS_CHANGE "UP" 127.0.0.1:9042 = 00 0D STATUS_CHANGE | 00 02 55 50 | 04 7F 00 00 01 | 00 00 23 52;
   the Go 16-byte form ::ffff:127.0.0.1 denotes the same IPv4 address *)
Definition xstatus (a : bytes) := M_StatusChangeEvent {| ste_ChangeType := [85;80]; ste_Address := Some {| inet_addr := Some a; inet_port := 9042 |} |}.
Example ex_status_change : map (spec_body_bytes 4) [xstatus [127;0;0;1]; xstatus [0;0;0;0;0;0;0;0;0;0;255;255;127;0;0;1]; xstatus [1;2;3]]
  = let b := [0;13;83;84;65;84;85;83;95;67;72;65;78;71;69; 0;2;85;80; 4;127;0;0;1; 0;0;35;82] in [Some b; Some b; None].
Proof. vm_compute. reflexivity. Qed.
(* TOPOLOGY_CHANGE "NEW_NODE" ::1 port 9042 = 00 0F TOPOLOGY_CHANGE | 00 08 NEW_NODE | 10 00 .. 01 | 00 00 23 52 *)
Example ex_topology_change : spec_body_bytes 3 (M_TopologyChangeEvent {| tce_ChangeType := [78;69;87;95;78;79;68;69];
    tce_Address := Some {| inet_addr := Some [0;0;0;0;0;0;0;0;0;0;0;0;0;0;0;1]; inet_port := 9042 |} |})
  = Some [0;15;84;79;80;79;76;79;71;89;95;67;72;65;78;71;69; 0;8;78;69;87;95;78;79;68;69; 16;0;0;0;0;0;0;0;0;0;0;0;0;0;0;0;1; 0;0;35;82].
Proof. vm_compute. reflexivity. Qed.
(* SCHEMA_CHANGE CREATED keyspace "ks": v2 = SCHEMA_CHANGE | 00 07 CREATED | 00 02 ks | 00 00 (empty table);
   v3+ = SCHEMA_CHANGE | CREATED | 00 08 KEYSPACE | 00 02 ks *)
Definition xhead : bytes := [0;13;83;67;72;69;77;65;95;67;72;65;78;71;69; 0;7;67;82;69;65;84;69;68].
Example ex_schema_event_keyspace : bodies (M_SchemaChangeEvent
    {| sce_ChangeType := xCREATED; sce_Target := s_KEYSPACE; sce_Keyspace := xks; sce_Object := []; sce_Arguments := [] |})
  = let b := xhead ++ [0;8;75;69;89;83;80;65;67;69; 0;2;107;115] in
    [Some (xhead ++ [0;2;107;115; 0;0]); Some b; Some b; Some b; Some b; Some b]. Proof. vm_compute. reflexivity. Qed.
(* table ks.tbl: v2 = ... | 00 02 ks | 00 03 tbl; v3+ = ... | 00 05 TABLE | 00 02 ks | 00 03 tbl *)
Example ex_schema_event_table : map (fun v => spec_body_bytes v (M_SchemaChangeEvent
    {| sce_ChangeType := xCREATED; sce_Target := s_TABLE; sce_Keyspace := xks; sce_Object := xtbl; sce_Arguments := [] |})) [2; 3]
  = [Some (xhead ++ [0;2;107;115; 0;3;116;98;108]); Some (xhead ++ [0;5;84;65;66;76;69; 0;2;107;115; 0;3;116;98;108])].
Proof. vm_compute. reflexivity. Qed.
(* type (v3+) and function ks.f(int) (v4+): ... | 00 08 FUNCTION | 00 02 ks | 00 01 66 | 00 01 00 03 int *)
Example ex_schema_event_type : map (fun v => isSome (spec_body_bytes v (M_SchemaChangeEvent
    {| sce_ChangeType := xCREATED; sce_Target := s_TYPE; sce_Keyspace := xks; sce_Object := [117]; sce_Arguments := [] |}))) [2; 3; 4; 5; 65; 66]
  = [false; true; true; true; true; true]. Proof. vm_compute. reflexivity. Qed.
Example ex_schema_event_function : bodies (M_SchemaChangeEvent
    {| sce_ChangeType := xCREATED; sce_Target := s_FUNCTION; sce_Keyspace := xks; sce_Object := [102]; sce_Arguments := [xint] |})
  = let b := xhead ++ [0;8;70;85;78;67;84;73;79;78; 0;2;107;115; 0;1;102; 0;1; 0;3;105;110;116] in
    [None; None; Some b; Some b; Some b; Some b]. Proof. vm_compute. reflexivity. Qed.

(* RESULT Void = 00 00 00 01;  Set_keyspace "ks" = 00 00 00 03 | 00 02 6B 73;
   Schema_change (v4) DROPPED-like layout: 00 00 00 05 | CREATED | TABLE | ks | tbl *)
Example ex_void : bodies M_VoidResult = [Some [0;0;0;1]; Some [0;0;0;1]; Some [0;0;0;1]; Some [0;0;0;1]; Some [0;0;0;1]; Some [0;0;0;1]].
Proof. vm_compute. reflexivity. Qed.
Example ex_set_keyspace : spec_body_bytes 4 (M_SetKeyspaceResult {| sk_Keyspace := xks |}) = Some [0;0;0;3; 0;2;107;115].
Proof. vm_compute. reflexivity. Qed.
Example ex_schema_result : spec_body_bytes 4 (M_SchemaChangeResult
    {| scr_ChangeType := xCREATED; scr_Target := s_TABLE; scr_Keyspace := xks; scr_Object := xtbl; scr_Arguments := [] |})
  = Some [0;0;0;5; 0;7;67;82;69;65;84;69;68; 0;5;84;65;66;76;69; 0;2;107;115; 0;3;116;98;108]. Proof. vm_compute. reflexivity. Qed.

(* RESULT Rows, one int column ks.tbl.c, one row holding 42: global tables spec.
   00 00 00 02 | flags 00 00 00 01 | count 00 00 00 01 | 00 02 ks | 00 03 tbl | 00 01 63 | 00 09 | rows 00 00 00 01 |
   00 00 00 04 00 00 00 2A *)
Definition xcol (ks tbl name : bytes) (t : DataType) : option ColumnMetadata :=
  Some {| cm_Keyspace := ks; cm_Table := tbl; cm_Name := name; cm_Index := 0; cm_Type := Some t |}.
Definition xmd (cols : list (option ColumnMetadata)) (count : Z) (ps newid : option bytes) (pno : Z) (last : bool) : RowsMetadata :=
  {| rm_ColumnCount := count; rm_PagingState := ps; rm_NewResultMetadataId := newid; rm_ContinuousPageNumber := pno;
     rm_LastContinuousPage := last; rm_Columns := cols |}.
Example ex_rows_global : bodies (M_RowsResult {| rr_Metadata := Some (xmd [xcol xks xtbl [99] (DT_Primitive 9)] 1 None None 0 false);
                                                 rr_Data := [[Some [0;0;0;42]]] |})
  = let b := [0;0;0;2; 0;0;0;1; 0;0;0;1; 0;2;107;115; 0;3;116;98;108; 0;1;99; 0;9; 0;0;0;1; 0;0;0;4;0;0;0;42] in
    [Some b; Some b; Some b; Some b; Some b; Some b]. Proof. vm_compute. reflexivity. Qed.
(* two columns of different tables (ks.tbl.a int, ks.t.b varchar), paging state 09, one row (01, null):
   flags 0x0002 only: 00 00 00 02 | 00 00 00 02 | 00 00 00 02 | 00 00 00 01 09 |
   00 02 ks 00 03 tbl 00 01 61 00 09 | 00 02 ks 00 01 74 00 01 62 00 0D | 00 00 00 01 | 00 00 00 01 01 | FF FF FF FF *)
Example ex_rows_two_tables : spec_body_bytes 3 (M_RowsResult
    {| rr_Metadata := Some (xmd [xcol xks xtbl [97] (DT_Primitive 9); xcol xks [116] [98] (DT_Primitive 13)] 2 (Some [9]) None 0 false);
       rr_Data := [[Some [1]; None]] |})
  = Some [0;0;0;2; 0;0;0;2; 0;0;0;2; 0;0;0;1;9; 0;2;107;115; 0;3;116;98;108; 0;1;97; 0;9; 0;2;107;115; 0;1;116; 0;1;98; 0;13;
          0;0;0;1; 0;0;0;1;1; 255;255;255;255]. Proof. vm_compute. reflexivity. Qed.
(* no metadata, 2 columns, one row (01, null): 00 00 00 02 | 00 00 00 04 | 00 00 00 02 | 00 00 00 01 | 00 00 00 01 01 | FF FF FF FF;
   a row of the wrong width is not a Rows result *)
Example ex_rows_no_metadata : spec_body_bytes 4 (M_RowsResult {| rr_Metadata := Some (xmd [] 2 None None 0 false); rr_Data := [[Some [1]; None]] |})
  = Some [0;0;0;2; 0;0;0;4; 0;0;0;2; 0;0;0;1; 0;0;0;1;1; 255;255;255;255]. Proof. vm_compute. reflexivity. Qed.
Example ex_rows_bad_width : spec_body_bytes 4 (M_RowsResult {| rr_Metadata := Some (xmd [] 2 None None 0 false); rr_Data := [[Some [1]]] |}) = None.
Proof. vm_compute. reflexivity. Qed.
(* v5 / DSE2 Metadata_changed with new id 07: flags 0x0001|0x0008 = 9: 00 00 00 09 | 00 00 00 01 | 00 01 07 | ks tbl | c int | 0 rows *)
Example ex_rows_metadata_changed : bodies (M_RowsResult
    {| rr_Metadata := Some (xmd [xcol xks xtbl [99] (DT_Primitive 9)] 1 None (Some [7]) 0 false); rr_Data := [] |})
  = let b := [0;0;0;2; 0;0;0;9; 0;0;0;1; 0;1;7; 0;2;107;115; 0;3;116;98;108; 0;1;99; 0;9; 0;0;0;0] in
    [None; None; None; Some b; None; Some b]. Proof. vm_compute. reflexivity. Qed.
(* DSE continuous paging, page 3, last page, no metadata, paging state 09:
   flags 0x02|0x04|0x40000000|0x80000000 = C0 00 00 06 | 00 00 00 01 | 00 00 00 01 09 | 00 00 00 03 | 0 rows *)
Example ex_rows_continuous : bodies (M_RowsResult {| rr_Metadata := Some (xmd [] 1 (Some [9]) None 3 true); rr_Data := [] |})
  = let b := [0;0;0;2; 192;0;0;6; 0;0;0;1; 0;0;0;1;9; 0;0;0;3; 0;0;0;0] in [None; None; None; None; Some b; Some b].
Proof. vm_compute. reflexivity. Qed.
(* a column of a type the version does not list (duration 0x0015 before v5/DSE; tuple in v2) *)
Example ex_rows_duration : map (fun v => isSome (spec_body_bytes v (M_RowsResult
    {| rr_Metadata := Some (xmd [xcol xks xtbl [99] (DT_Primitive 21)] 1 None None 0 false); rr_Data := [] |}))) [2; 3; 4; 5; 65; 66]
  = [false; false; false; true; true; true]. Proof. vm_compute. reflexivity. Qed.

(* RESULT Prepared id CA FE, one variable ks.tbl.c int that is the partition key (index 0), no result metadata.
   v4, DSE1: 00 00 00 04 | 00 02 CA FE | 00 00 00 01 | 00 00 00 01 | 00 00 00 01 | 00 00 | 00 02 ks 00 03 tbl | 00 01 63 00 09 |
             00 00 00 04 | 00 00 00 00
   v5, DSE2 need the result metadata id;  v2, v3 have no pk indices *)
Definition xprep (rid : option bytes) (pk : list Z) := M_PreparedResult
  {| pr_PreparedQueryId := Some [202;254]; pr_ResultMetadataId := rid;
     pr_VariablesMetadata := Some {| vm_PkIndices := pk; vm_Columns := [xcol xks xtbl [99] (DT_Primitive 9)] |};
     pr_ResultMetadata := None |}.
Example ex_prepared_v4 : bodies (xprep None [0])
  = let b := [0;0;0;4; 0;2;202;254; 0;0;0;1; 0;0;0;1; 0;0;0;1; 0;0; 0;2;107;115; 0;3;116;98;108; 0;1;99; 0;9; 0;0;0;4; 0;0;0;0] in
    [None; None; Some b; None; Some b; None]. Proof. vm_compute. reflexivity. Qed.
Example ex_prepared_v5 : bodies (xprep (Some [7]) [0])
  = let b := [0;0;0;4; 0;2;202;254; 0;1;7; 0;0;0;1; 0;0;0;1; 0;0;0;1; 0;0; 0;2;107;115; 0;3;116;98;108; 0;1;99; 0;9; 0;0;0;4; 0;0;0;0] in
    [None; None; None; Some b; None; Some b]. Proof. vm_compute. reflexivity. Qed.
(* v2, v3: <metadata> as for Rows: 00 00 00 04 | 00 02 CA FE | 00 00 00 01 | 00 00 00 01 | ks tbl | c int | 00 00 00 04 | 00 00 00 00;
   v4, DSE1 with no pk index: pk_count 00 00 00 00 *)
Example ex_prepared_v3 : bodies (xprep None [])
  = let b := [0;0;0;4; 0;2;202;254; 0;0;0;1; 0;0;0;1; 0;2;107;115; 0;3;116;98;108; 0;1;99; 0;9; 0;0;0;4; 0;0;0;0] in
    let c := [0;0;0;4; 0;2;202;254; 0;0;0;1; 0;0;0;1; 0;0;0;0; 0;2;107;115; 0;3;116;98;108; 0;1;99; 0;9; 0;0;0;4; 0;0;0;0] in
    [Some b; Some b; Some c; None; Some c; None]. Proof. vm_compute. reflexivity. Qed.

(* values that do not fit their notation have no layout: a 65536-byte keyspace name *)
Example ex_too_long : spec_body 4 (M_SetKeyspaceResult {| sk_Keyspace := repeat 97 (Z.to_nat 65536) |}) = None. Proof. vm_compute. reflexivity. Qed.
(* every message kind has a layout in at least one version (totality check on concrete messages is above); unknown version: None *)
Example ex_unknown_version : map (fun v => spec_body v M_Options) [0; 1; 6; 64; 67] = [None; None; None; None; None].
Proof. vm_compute. reflexivity. Qed.
