(* Independent transcription of the v5 framing ("segments").
   Source: /repo/specs/native_protocol_v5.spec
     section 2.1  Uncompressed Format  - fields in transmission order: payload length (17 bits), isSelfContained (1 bit),
                  header padding (6 bits), CRC24 of the header (24 bits), payload, CRC32 of the payload (32 bits);
                  "The max size for the payload is 128KiB" with a 17-bit length field, i.e. 2^17 - 1 bytes.
     section 2.2  LZ4 Compressed Format - compressed length (17 bits), uncompressed length (17 bits), isSelfContained
                  (1 bit), padding (5 bits), CRC24 of the header contents (24 bits), compressed payload, CRC32 of the
                  compressed payload.
     section 2.3.2  a payload sent uncompressed on a compressing connection is signalled in the header lengths.
                  The prose says "by setting the compressed length to 0"; Cassandra (FrameEncoderLZ4) and the
                  property's anchor use: uncompressed-length field 0, compressed-length field = payload length.
                  Both readings are defined below.
   The document does not spell out the byte order of the header or the checksum parameters; they are those of the
   reference implementation (org.apache.cassandra.net.Crc and FrameEncoderCrc/FrameDecoderCrc): the header fields are
   packed from the least significant bit of a little-endian integer of 3 resp. 5 bytes; CRC-24 with polynomial 0x1974F0B
   and initial value 0x875060 over the header bytes, most significant bit of each byte first, no reflection, no final
   xor, stored little-endian; CRC-32 (IEEE, reflected 0xEDB88320, initial value and final xor all ones) over the four bytes
   FA 2D 55 CA followed by the payload as transmitted, stored little-endian.
   Nothing here refers to the model of the Go code. *)
From Coq Require Import ZArith NArith List.
From GCNP Require Import base.Bytes.
Import ListNotations.
Open Scope Z_scope.

Definition spec_max_payload : Z := 2 ^ 17 - 1.
Definition b2z (b : bool) : Z := if b then 1 else 0.

(* section 2.1: length in bits 0..16, flag in bit 17 *)
Definition spec_header_uncompressed (len : Z) (sc : bool) : Z := len + 2 ^ 17 * b2z sc.
(* section 2.2: compressed length in bits 0..16, uncompressed length in bits 17..33, flag in bit 34 *)
Definition spec_header_compressed (clen ulen : Z) (sc : bool) : Z := clen + 2 ^ 17 * ulen + 2 ^ 34 * b2z sc.

(* ---- CRC-24, textbook bit-at-a-time form over the header bytes *)
Definition spec_crc24_init : Z := 8867936.          (* 0x875060 *)
Definition spec_crc24_poly : Z := 26693387.         (* 0x1974F0B, x^24 term included *)

(* register as a natural number below 2^24; "top" is bit 23; doubling drops it *)
Definition spec_crc24_bit (reg : N) (inbit : bool) : N :=
  let top := xorb (N.odd (reg / 2 ^ 23)) inbit in
  let reg' := ((2 * reg) mod 2 ^ 24)%N in
  if top then N.lxor reg' (Z.to_N spec_crc24_poly mod 2 ^ 24) else reg'.

Definition spec_crc24_byte (reg : N) (b : Z) : N :=
  fold_left (fun r i => spec_crc24_bit r (Z.odd (b / 2 ^ i))) [7; 6; 5; 4; 3; 2; 1; 0] reg.

Definition spec_crc24 (bytes : list Z) : Z := Z.of_N (fold_left spec_crc24_byte bytes (Z.to_N spec_crc24_init)).

(* ---- CRC-32 over seed || payload, textbook reflected bit-at-a-time form *)
Definition spec_crc32_seed : list Z := [250; 45; 85; 202].      (* FA 2D 55 CA *)
Definition spec_crc32_poly : N := 3988292384.                   (* 0xEDB88320 *)
Definition all_ones32 : N := 4294967295.

Definition spec_crc32_bit (reg : N) (inbit : bool) : N :=
  if xorb (N.odd reg) inbit then N.lxor (reg / 2) spec_crc32_poly else (reg / 2)%N.

Definition spec_crc32_byte (reg : N) (b : Z) : N :=
  fold_left (fun r i => spec_crc32_bit r (Z.odd (b / 2 ^ i))) [0; 1; 2; 3; 4; 5; 6; 7] reg.

Definition spec_crc32 (payload : list Z) : Z :=
  Z.of_N (N.lxor (fold_left spec_crc32_byte (spec_crc32_seed ++ payload) all_ones32) all_ones32).

(* ---- the segment, parametrised by what goes into the header fields and what is transmitted *)
Definition spec_segment_with (crc24f : list Z -> Z) (compressed sc : bool) (ulen_field clen_field : Z) (transmitted : list Z) : list Z :=
  let h := if compressed then le_bytes 5 (spec_header_compressed clen_field ulen_field sc)
           else le_bytes 3 (spec_header_uncompressed ulen_field sc) in
  h ++ le_bytes 3 (crc24f h) ++ transmitted ++ le_bytes 4 (spec_crc32 transmitted).

Definition spec_segment := spec_segment_with spec_crc24.

(* section 2.1 *)
Definition spec_uncompressed_segment (sc : bool) (payload : list Z) : list Z :=
  spec_segment false sc (zlen payload) 0 payload.
(* section 2.2 *)
Definition spec_compressed_segment (sc : bool) (payload compressed : list Z) : list Z :=
  spec_segment true sc (zlen payload) (zlen compressed) compressed.
(* section 2.3.2, as Cassandra and the property's anchor read it: uncompressed-length field 0 *)
Definition spec_fallback_segment (sc : bool) (payload : list Z) : list Z :=
  spec_segment true sc 0 (zlen payload) payload.
(* section 2.3.2, literal prose: compressed-length field 0 *)
Definition spec_fallback_segment_prose (sc : bool) (payload : list Z) : list Z :=
  spec_segment true sc (zlen payload) 0 payload.
