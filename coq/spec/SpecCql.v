(* SpecCql - an independent serializer for CQL values, transcribed from the TEXT of
     specs/native_protocol_v5.spec  section 3 (notations [int] [short] [bytes] [short bytes] [unsigned vint] [vint]),
                                    section 5 "Data Type Serialization Formats" (5.1 - 5.24),
                                    section 6 "User Defined Types",
     specs/native_protocol_v2.spec  section 6 (collections: [short] count, [short bytes] elements),
     specs/native_protocol_v3.spec  section 6 (collections use [int] and [bytes] from v3 on).
   Nothing here is derived from the Go code.  Shapes are deliberately different from model/CqlWire.v:
   integers are written digit by digit, most significant first, by division by powers of 256; two's complement is
   "x if x >= 0, 2^(8n) + x otherwise"; the varint length is found by searching upward from 1 byte; zig-zag is the
   arithmetic table of section 3; the vint prefix is an arithmetic sum.  Definitions only. *)
From Coq Require Import ZArith List Bool String.
Import ListNotations.
Open Scope Z_scope.

(* ------------------------------------------------------------------------------------------------ types *)

(* 5.1 - 5.24 minus the collection types; counter (a bigint, section 4.2.5.2 option 0x0005) and custom *)
Inductive scalar : Type :=
  | SAscii | SBigint | SBlob | SBoolean | SCounter | SDate | SDecimal | SDouble | SDuration | SFloat | SInet
  | SInt | SSmallint | STime | STimestamp | STimeuuid | STinyint | SUuid | SVarchar | SVarint | SCustom.

Inductive cqltype : Type :=
  | TScalar (s : scalar)
  | TList (e : cqltype)
  | TSet (e : cqltype)
  | TMap (k v : cqltype)
  | TTuple (fs : list cqltype)
  | TUdt (names : list string) (fs : list cqltype).

(* abstract CQL values.  Floats are IEEE bit patterns (no real arithmetic anywhere in this development). *)
Inductive cval : Type :=
  | VNull
  | VInt (z : Z)                       (* tinyint smallint int bigint counter varint; date = days since the unix epoch;
                                          time = ns since midnight; timestamp = ms since the unix epoch *)
  | VBytes (bs : list Z)               (* ascii varchar/text blob custom *)
  | VBool (b : bool)
  | VDecimal (scale unscaled : Z)      (* unscaled * 10^(-scale) *)
  | VDuration (months days nanos : Z)
  | VInet (bs : list Z)                (* 4 or 16 bytes *)
  | VUuid (bs : list Z)                (* 16 bytes *)
  | VFloat (bits : Z)                  (* binary32 / binary64 bit pattern as an unsigned number *)
  | VList (es : list cval)             (* list and set *)
  | VMap (kvs : list (cval * cval))
  | VTuple (es : list cval)
  | VUdt (es : list cval).

(* protocol version as its number; section 6 of the v3 spec: collections use 4-byte sizes from version 3 on *)
Definition int_sized_collections (v : Z) : bool := 3 <=? v.

(* ------------------------------------------------------------------------------------------------ integers *)

(* "all encodings are big-endian" (section 5): the n digits of x in base 256, most significant first *)
Definition spec_uint (n : nat) (x : Z) : list Z :=
  map (fun i => (x / 256 ^ Z.of_nat (n - 1 - i)) mod 256) (seq 0 n).

Definition fits_unsigned (n : nat) (x : Z) : bool := (0 <=? x) && (x <? 256 ^ Z.of_nat n).
(* an n-byte two's complement integer holds -2^(8n-1) <= x < 2^(8n-1) *)
Definition fits_twos (n : nat) (x : Z) : bool :=
  (- 2 ^ (8 * Z.of_nat n - 1) <=? x) && (x <? 2 ^ (8 * Z.of_nat n - 1)).

(* two's complement: a non-negative number is itself, a negative x is 2^(8n) + x *)
Definition twos (n : nat) (x : Z) : Z := if x <? 0 then 2 ^ (8 * Z.of_nat n) + x else x.

Definition spec_twos (n : nat) (x : Z) : option (list Z) :=
  if fits_twos n x then Some (spec_uint n (twos n x)) else None.

Definition spec_unsigned (n : nat) (x : Z) : option (list Z) :=
  if fits_unsigned n x then Some (spec_uint n x) else None.

(* section 3: [int] 4 bytes, [short] 2 bytes unsigned *)
Definition spec_int (x : Z) : option (list Z) := spec_twos 4 x.
Definition spec_short (x : Z) : option (list Z) := spec_unsigned 2 x.

(* 5.24 varint: "A variable-length two's complement encoding of a signed integer"; the examples and the note fix it to
   be the SHORTEST two's complement form (127 = 7F, 128 = 0080, -128 = 80, -129 = FF7F).  The length is found by
   trying 1, 2, 3, ... bytes; the fuel (number of bits of |x|, plus 2) is always enough (SpecCqlProofs.varint_len_fits). *)
Fixpoint first_fit (fuel : nat) (n : nat) (x : Z) : nat :=
  match fuel with
  | O => n
  | S f => if fits_twos n x then n else first_fit f (S n) x
  end.
Definition varint_len (x : Z) : nat := first_fit (Z.to_nat (Z.log2 (Z.abs x) + 2)) 1 x.
Definition spec_varint (x : Z) : list Z := spec_uint (varint_len x) (twos (varint_len x) x).

(* section 3 [unsigned vint]: "The number of extra bytes to read is encoded as 1 bits on the left side" of the first byte,
   which also holds the most significant bits of the integer; 9 bytes with first byte 11111111 for an 8-byte integer.
   With e extra bytes (e < 8) the first byte has e ones, a zero, and 7-e value bits: 7(e+1) value bits in all. *)
Definition vint_extra (u : Z) : nat :=
  if u <? 2 ^ 7 then 0 else if u <? 2 ^ 14 then 1 else if u <? 2 ^ 21 then 2 else if u <? 2 ^ 28 then 3
  else if u <? 2 ^ 35 then 4 else if u <? 2 ^ 42 then 5 else if u <? 2 ^ 49 then 6 else if u <? 2 ^ 56 then 7 else 8.
Definition spec_uvint (u : Z) : option (list Z) :=
  if fits_unsigned 8 u then
    let e := vint_extra u in
    (* e ones on the left: 2^8 - 2^(8-e);  then the high bits of u *)
    Some ((2 ^ 8 - 2 ^ (8 - Z.of_nat e) + u / 256 ^ Z.of_nat e) :: spec_uint e (u mod 256 ^ Z.of_nat e))
  else None.
(* section 3 [vint]: zig-zag "0 = 0, -1 = 1, 1 = 2, -2 = 3, 2 = 4, -3 = 5, 3 = 6 and so forth" *)
Definition zigzag (n : Z) : Z := if n <? 0 then - 2 * n - 1 else 2 * n.
Definition spec_vint (n : Z) : option (list Z) :=
  if fits_twos 8 n then spec_uvint (zigzag n) else None.

(* ------------------------------------------------------------------------------------------------ option plumbing *)

Definition obind {A B} (o : option A) (f : A -> option B) : option B := match o with Some a => f a | None => None end.
Notation "x <-? e ; k" := (obind e (fun x => k)) (at level 61, e at next level, right associativity).

Fixpoint oconcat (l : list (option (list Z))) : option (list Z) :=
  match l with
  | [] => Some []
  | o :: r => a <-? o; b <-? oconcat r; Some (a ++ b)
  end.

Definition lenZ {A} (l : list A) : Z := Z.of_nat (List.length l).
Definition is_byte (b : Z) : bool := (0 <=? b) && (b <? 256).
Definition all_bytes (bs : list Z) : bool := forallb is_byte bs.

(* section 3 [bytes]: "A [int] n, followed by n bytes if n >= 0. If n < 0 ... the value represented is null";
   a serializer emits -1 (5.21: "Null values may be represented by using length -1") *)
Definition spec_bytes (o : option (list Z)) : option (list Z) :=
  match o with
  | None => spec_int (-1)
  | Some b => n <-? spec_int (lenZ b); Some (n ++ b)
  end.
(* section 3 [short bytes]: "A [short] n, followed by n bytes if n >= 0" - no null *)
Definition spec_short_bytes (o : option (list Z)) : option (list Z) :=
  match o with
  | None => None
  | Some b => n <-? spec_short (lenZ b); Some (n ++ b)
  end.

(* ------------------------------------------------------------------------------------------------ scalars (5.x) *)

Definition spec_scalar (s : scalar) (x : cval) : option (list Z) :=
  match s, x with
  | SAscii, VBytes bs | SVarchar, VBytes bs | SBlob, VBytes bs | SCustom, VBytes bs =>   (* 5.1 5.16 5.23 5.3 *)
      if all_bytes bs then Some bs else None
  | SBigint, VInt z | SCounter, VInt z => spec_twos 8 z                                   (* 5.2 *)
  | SBoolean, VBool b => Some [if b then 1 else 0]                                        (* 5.4 (1 recommended for true) *)
  | SDate, VInt days => spec_unsigned 4 (days + 2 ^ 31)                                   (* 5.5 unsigned, epoch at 2^31 *)
  | SDecimal, VDecimal scale unscaled => sc <-? spec_int scale; Some (sc ++ spec_varint unscaled)   (* 5.6 *)
  | SDouble, VFloat bits => spec_unsigned 8 bits                                          (* 5.7 *)
  | SDuration, VDuration m d n =>                                                          (* 5.8 *)
      if fits_twos 4 m && fits_twos 4 d then
        a <-? spec_vint m; b <-? spec_vint d; c <-? spec_vint n; Some (a ++ b ++ c)
      else None
  | SFloat, VFloat bits => spec_unsigned 4 bits                                           (* 5.9 *)
  | SInet, VInet bs =>                                                                     (* 5.10 *)
      if all_bytes bs && ((List.length bs =? 4)%nat || (List.length bs =? 16)%nat) then Some bs else None
  | SInt, VInt z => spec_twos 4 z                                                          (* 5.11 *)
  | SSmallint, VInt z => spec_twos 2 z                                                     (* 5.15 *)
  | STime, VInt z => spec_twos 8 z                                                         (* 5.17 *)
  | STimestamp, VInt z => spec_twos 8 z                                                    (* 5.18 *)
  | STimeuuid, VUuid bs | SUuid, VUuid bs =>                                               (* 5.19 5.22 *)
      if all_bytes bs && (List.length bs =? 16)%nat then Some bs else None
  | STinyint, VInt z => spec_twos 1 z                                                      (* 5.20 *)
  | SVarint, VInt z => Some (spec_varint z)                                                (* 5.24 *)
  | _, _ => None
  end.

(* value constraints the spec states beyond the format (none of them changes the bytes of a valid value) *)
Definition spec_valid_scalar (s : scalar) (x : cval) : bool :=
  match s, x with
  | SAscii, VBytes bs => forallb (fun b => (0 <=? b) && (b <=? 127)) bs                    (* 5.1 *)
  | STime, VInt z => (0 <=? z) && (z <=? 86399999999999)                                   (* 5.17 *)
  | SDuration, VDuration m d n =>                                                          (* 5.8 sign rule *)
      ((0 <=? m) && (0 <=? d) && (0 <=? n)) || ((m <=? 0) && (d <=? 0) && (n <=? 0))
  | _, _ => true
  end.

(* ------------------------------------------------------------------------------------------------ all types *)

(* element of a collection: [bytes] from v3 (null allowed), [short bytes] in v2 (no null) *)
Definition spec_elem (v : Z) (o : option (option (list Z))) : option (list Z) :=
  e <-? o; if int_sized_collections v then spec_bytes e else spec_short_bytes e.
Definition spec_count (v : Z) (n : Z) : option (list Z) :=
  if int_sized_collections v then (if 0 <=? n then spec_int n else None) else spec_short n.

(* spec_ser: the serialized form of a non-null value; spec_val: Some None for NULL *)
Fixpoint spec_ser (v : Z) (t : cqltype) (x : cval) {struct t} : option (list Z) :=
  let spec_val (t' : cqltype) (ser : cval -> option (list Z)) (x : cval) : option (option (list Z)) :=
    match x with VNull => Some None | _ => b <-? ser x; Some (Some b) end in
  match t, x with
  | TScalar s, _ => spec_scalar s x
  | TList e, VList xs | TSet e, VList xs =>                                  (* 5.12 5.14; v2 spec section 6 *)
      c <-? spec_count v (lenZ xs);
      b <-? oconcat (map (fun x => spec_elem v (spec_val e (spec_ser v e) x)) xs);
      Some (c ++ b)
  | TMap k w, VMap kvs =>                                                     (* 5.13 *)
      c <-? spec_count v (lenZ kvs);
      b <-? oconcat (map (fun kv => a <-? spec_elem v (spec_val k (spec_ser v k) (fst kv));
                                     b <-? spec_elem v (spec_val w (spec_ser v w) (snd kv)); Some (a ++ b)) kvs);
      Some (c ++ b)
  | TTuple fs, VTuple xs =>                                                   (* 5.21: a sequence of [bytes], all versions *)
      (fix fields (fs : list cqltype) (xs : list cval) {struct fs} : option (list Z) :=
         match fs, xs with
         | [], [] => Some []
         | f :: fs', x :: xs' =>
             a <-? (e <-? spec_val f (spec_ser v f) x; spec_bytes e); b <-? fields fs' xs'; Some (a ++ b)
         | _, _ => None
         end) fs xs
  | TUdt _ fs, VUdt xs =>                                                     (* section 6: successive [bytes], one per field *)
      (fix fields (fs : list cqltype) (xs : list cval) {struct fs} : option (list Z) :=
         match fs, xs with
         | [], [] => Some []
         | f :: fs', x :: xs' =>
             a <-? (e <-? spec_val f (spec_ser v f) x; spec_bytes e); b <-? fields fs' xs'; Some (a ++ b)
         | _, _ => None
         end) fs xs
  | _, _ => None
  end.

Definition spec_val (v : Z) (t : cqltype) (x : cval) : option (option (list Z)) :=
  match x with VNull => Some None | _ => b <-? spec_ser v t x; Some (Some b) end.

(* Section 6: "A UDT value will generally have one value for each field of the type it represents, but it is allowed to have
   less values than the type has fields."  A reader must therefore accept a prefix; the missing fields are null.
   udt_short_form v fs xs k = the serialization of the first k fields only. *)
Definition spec_udt_prefix (v : Z) (fs : list cqltype) (xs : list cval) (k : nat) : option (list Z) :=
  oconcat (map (fun fx => e <-? spec_val v (fst fx) (snd fx); spec_bytes e) (firstn k (combine fs xs))).

(* 5.24: the specification's own example table *)
Definition spec_varint_examples : list (Z * list Z) :=
  [ (0, [0]); (1, [1]); (127, [127]); (128, [0; 128]); (129, [0; 129]); (-1, [255]); (-128, [128]); (-129, [255; 127]) ].
(* section 3: "256 000 will be encoded on 3 bytes as [110]00011 11101000 00000000" *)
Definition spec_uvint_example : Z * list Z := (256000, [195; 232; 0]).
