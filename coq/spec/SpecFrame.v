(* SPEC SIDE (property C02).  Frame header (section 2 of v2, v3, v4, DSE1, DSE2; section 2.4 "Frame Payload" of v5, where
   the old frame is called an envelope), the elements that the header flags put in front of the message body, whole
   uncompressed frames, the opcode table with directions and the header rejection predicate.
   Transcribed BY HAND from /repo/specs/native_protocol_v2..v5.spec and dse_protocol_v1..v2.spec; nothing comes from the Go
   code or from coq/model/Frame.v.
   Not covered here: compressed bodies (section 5; flag 0x01) and the v5 outer framing in segments (v5 2.1-2.3, property of
   its own); for v5 this file describes the envelope. *)
From Coq Require Import ZArith List Bool.
From GCNP Require Import base.Bytes model.Prim model.DataType model.MsgTypes spec.SpecNotation spec.SpecMsg.
Import ListNotations.
Open Scope Z_scope.

(* ---- 2.4 opcode (v5 2.4.1.4): the same table in v2, v3, v4, v5; DSE1/DSE2 2.4 add 0xFF (CANCEL / REVISE_REQUEST).
   Section 2.4 lists numbers and names only; the direction is the section in which the message is defined: 4.1 "Requests"
   (STARTUP, AUTH_RESPONSE, OPTIONS, QUERY, PREPARE, EXECUTE, BATCH, REGISTER, DSE 4.1.9) or 4.2 "Responses" (ERROR, READY,
   AUTHENTICATE, SUPPORTED, RESULT, EVENT, AUTH_CHALLENGE, AUTH_SUCCESS).  "there is no 0x04 message". ---- *)
Definition spec_oss_opcodes : list (Z * bool (* is request *)) := [
  (0,  false);  (* 0x00 ERROR *)
  (1,  true);   (* 0x01 STARTUP *)
  (2,  false);  (* 0x02 READY *)
  (3,  false);  (* 0x03 AUTHENTICATE *)
  (5,  true);   (* 0x05 OPTIONS *)
  (6,  false);  (* 0x06 SUPPORTED *)
  (7,  true);   (* 0x07 QUERY *)
  (8,  false);  (* 0x08 RESULT *)
  (9,  true);   (* 0x09 PREPARE *)
  (10, true);   (* 0x0A EXECUTE *)
  (11, true);   (* 0x0B REGISTER *)
  (12, false);  (* 0x0C EVENT *)
  (13, true);   (* 0x0D BATCH *)
  (14, false);  (* 0x0E AUTH_CHALLENGE *)
  (15, true);   (* 0x0F AUTH_RESPONSE *)
  (16, false)   (* 0x10 AUTH_SUCCESS *)
].
Definition spec_dse_only_opcodes : list (Z * bool) := [(255, true)].   (* 0xFF CANCEL (DSE1) / REVISE_REQUEST (DSE2) *)
(* every opcode some supported version knows *)
Definition spec_opcodes : list (Z * bool) := spec_oss_opcodes ++ spec_dse_only_opcodes.
(* the opcodes of one version *)
Definition spec_opcodes_of (v : Z) : list (Z * bool) :=
  if spec_is_dse v then spec_opcodes else if spec_is_version v then spec_oss_opcodes else [].
Definition spec_opcode_is_request (tbl : list (Z * bool)) (op : Z) : option bool :=
  option_map snd (find (fun e => fst e =? op) tbl).

(* opcode of each message kind: by the name of the section that defines its body *)
Definition spec_msg_opcode (m : Message) : Z :=
  match m with
  | M_Startup _ => 1 | M_Options => 5 | M_Query _ => 7 | M_Prepare _ => 9 | M_Execute _ => 10 | M_Register _ => 11
  | M_Batch _ => 13 | M_AuthResponse _ => 15 | M_Revise _ => 255
  | M_Ready => 2 | M_Authenticate _ => 3 | M_Supported _ => 6 | M_AuthChallenge _ => 14 | M_AuthSuccess _ => 16
  | M_ServerError _ | M_ProtocolError _ | M_AuthenticationError _ | M_Overloaded _ | M_IsBootstrapping _
  | M_TruncateError _ | M_SyntaxError _ | M_Unauthorized _ | M_Invalid _ | M_ConfigError _
  | M_Unavailable _ | M_ReadTimeout _ | M_WriteTimeout _ | M_ReadFailure _ | M_WriteFailure _
  | M_FunctionFailure _ | M_Unprepared _ | M_AlreadyExists _ => 0
  | M_SchemaChangeEvent _ | M_StatusChangeEvent _ | M_TopologyChangeEvent _ => 12
  | M_VoidResult | M_SetKeyspaceResult _ | M_SchemaChangeResult _ | M_PreparedResult _ | M_RowsResult _ => 8
  end.
Definition spec_msg_is_response (m : Message) : bool :=
  match spec_opcode_is_request spec_opcodes (spec_msg_opcode m) with Some req => negb req | None => false end.

(* ---- 2 Frame header ----
   2.1 version: "a single byte that indicates both the direction of the message (request or response) and the version of the
       protocol in use. The most significant bit of version is used to define the direction of the message: 0 indicates a
       request, 1 indicates a response"; DSE 2.1: "The next most significant bit must be set to one" (0x41 / 0xC1; carried by
       the version numbers 65, 66).
   2.2 flags: one byte.
   2.3 stream: v2 "one signed byte"; v3, v4, v5, DSE "a [short] value" (negative ids for server-initiated streams: two's
       complement on 2 bytes; v3 10: "stream id is now 2 bytes long ..., so the header is now 1 byte longer (9 bytes total)").
   2.4 opcode: "An integer byte".
   2.5 length: "A 4 byte integer representing the length of the body of the frame".
   Layout (section 1 diagram): version | flags | stream | opcode | length. *)
Definition spec_header (version : Z) (is_response : bool) (flags stream opcode body_length : Z) : bytes :=
  be_bytes 1 (version + (if is_response then 128 else 0))
  ++ be_bytes 1 flags
  ++ (if version =? 2 then be_bytes 1 stream else be_bytes 2 stream)
  ++ be_bytes 1 opcode
  ++ be_bytes 4 body_length.
Definition spec_header_length (version : Z) : Z := if version =? 2 then 8 else 9.   (* v2 1: "(8 bytes)"; v3+ 1: "(9 bytes)" *)

(* ---- header flags (2.2; v5 2.4.1.2) ---- *)
Definition spec_flag_compression := 1.   (* 0x01; v5: "deprecated and ignored" *)
Definition spec_flag_tracing := 2.       (* 0x02 *)
Definition spec_flag_payload := 4.       (* 0x04 custom payload: v4, v5, DSE *)
Definition spec_flag_warning := 8.       (* 0x08 warnings: v4, v5, DSE *)
Definition spec_flag_beta := 16.         (* 0x10 use beta: v5, DSE; no effect on the layout *)
Definition has_flag (flags mask : Z) : bool := negb (Z.land flags mask =? 0).

(* ---- what precedes the message in the body ----
   0x02: "If a response frame has the tracing flag set, its body contains a tracing ID. The tracing ID is a [uuid] and is the
         first thing in the frame body."  On a request the flag only asks for tracing: nothing in the body.
   0x08 (v4+): "If a response frame has the warning flag set, its body will contain the text of the warnings. The warnings are
         a [string list] and will be the first value in the frame body if the tracing flag is not set, or directly after the
         tracing ID if it is."
   0x04 (v4+): "For a request or response frame ... Type of custom payload is [bytes map]".  v4 and DSE do not say where it
         stands; as the warnings are DIRECTLY after the tracing id (or first), it can only follow them.  v5 says so twice:
         2.4.1.2 "If either or both of the tracing and warning flags are set, the custom payload will follow those indicated
         elements in the body" and section 4: "[<tracing_id>][<warnings>][<custom_payload>]<message>".
   ORDER TRANSCRIBED: tracing id, warnings, custom payload, message.
   v2, v3: flags other than 0x01, 0x02 are "currently unused and ignored": nothing is added for them.
   v5 section 4 restricts the payload to "message types which support custom payloads (QUERY, PREPARE, EXECUTE and BATCH)" while
   2.4.1.2 says "request or response"; no restriction by message kind is transcribed (see notes/spec.md). *)
Definition spec_frame_prefix (version flags : Z) (is_response : bool) (tracing_id : option bytes)
           (custom_payload : list (bytes * option bytes)) (warnings : list bytes) : option (list notation) :=
  do tr <- (if has_flag flags spec_flag_tracing && is_response
            then do t <- tracing_id; Some [NUuid t]
            else Some []);
  Some (tr
        ++ (if spec_from_v4 version && has_flag flags spec_flag_warning && is_response then [NStringList warnings] else [])
        ++ (if spec_from_v4 version && has_flag flags spec_flag_payload then [NBytesMap custom_payload] else [])).

Definition spec_frame_body (version flags : Z) (tracing_id : option bytes) (custom_payload : list (bytes * option bytes))
           (warnings : list bytes) (m : Message) : option bytes :=
  do body <- spec_body version m;
  do pre <- spec_frame_prefix version flags (spec_msg_is_response m) tracing_id custom_payload warnings;
  do _ <- guard (forallb notation_ok pre);
  Some (ser_all (pre ++ body)).

(* ---- a whole uncompressed frame: header ++ body, <length> = number of body bytes ----
   The stream id must fit its field (v2: signed byte; v3+: signed [short]), the flags their byte.
   Compressed bodies (0x01 in v2, v3, v4, DSE) are not described by this function: None.  v5: the flag is ignored. *)
Definition spec_stream_ok (version stream : Z) : bool :=
  if version =? 2 then (-128 <=? stream) && (stream <=? 127) else (-32768 <=? stream) && (stream <=? 32767).
Definition spec_frame (version flags stream : Z) (tracing_id : option bytes) (custom_payload : list (bytes * option bytes))
           (warnings : list bytes) (m : Message) : option bytes :=
  do _ <- guard (spec_is_version version);
  do _ <- guard ((0 <=? flags) && (flags <? 256));
  do _ <- guard (spec_stream_ok version stream);
  do _ <- guard ((version =? 5) || negb (has_flag flags spec_flag_compression));
  do body <- spec_frame_body version flags tracing_id custom_payload warnings m;
  Some (spec_header version (spec_msg_is_response m) flags stream (spec_msg_opcode m) (zlen body) ++ body).

(* ---- rejection clause of C02: which (version byte, opcode) pairs does the specification allow at all? ----
   low 7 bits = a supported version number (2, 3, 4, 5, 0x41, 0x42); the opcode is known; bit 0x80 says "response" exactly when the
   opcode is a response opcode.  [spec_header_acceptable] takes "known" as "known to some supported version" (the table above);
   [spec_header_acceptable_strict] as "known to THAT version" (0xFF only with a DSE version). *)
Definition spec_header_acceptable_in (tbl : Z -> list (Z * bool)) (version_byte opcode : Z) : bool :=
  let v := version_byte mod 128 in
  let response := 128 <=? version_byte in
  (0 <=? version_byte) && (version_byte <? 256) && spec_is_version v &&
  match spec_opcode_is_request (tbl v) opcode with
  | Some req => Bool.eqb req (negb response)
  | None => false
  end.
Definition spec_header_acceptable (version_byte opcode : Z) : bool :=
  spec_header_acceptable_in (fun _ => spec_opcodes) version_byte opcode.
Definition spec_header_acceptable_strict (version_byte opcode : Z) : bool :=
  spec_header_acceptable_in spec_opcodes_of version_byte opcode.

(* ================= worked examples: right-hand sides derived BY HAND from section 2 (and the bodies of SpecMsg.v) ================= *)

(* OPTIONS request, v4, stream 0 = 04 00 00 00 05 00 00 00 00;  v2, stream 1 = 02 00 01 05 00 00 00 00 (8-byte header);
   DSE1 = 41 ..., DSE2 = 42 ... *)
Example ex_frame_options_v4 : spec_frame 4 0 0 None [] [] M_Options = Some [4;0;0;0;5;0;0;0;0]. Proof. vm_compute. reflexivity. Qed.
Example ex_frame_options_v2 : spec_frame 2 0 1 None [] [] M_Options = Some [2;0;1;5;0;0;0;0]. Proof. vm_compute. reflexivity. Qed.
Example ex_frame_options_dse : map (fun v => spec_frame v 0 0 None [] [] M_Options) [65; 66]
  = [Some [65;0;0;0;5;0;0;0;0]; Some [66;0;0;0;5;0;0;0;0]]. Proof. vm_compute. reflexivity. Qed.
(* READY response, v4 = 84 00 00 00 02 00 00 00 00; v5 = 85...; DSE1 = C1...; v2 = 82 00 00 02 00 00 00 00 *)
Example ex_frame_ready : map (fun v => spec_frame v 0 0 None [] [] M_Ready) [2; 4; 5; 65]
  = [Some [130;0;0;2;0;0;0;0]; Some [132;0;0;0;2;0;0;0;0]; Some [133;0;0;0;2;0;0;0;0]; Some [193;0;0;0;2;0;0;0;0]].
Proof. vm_compute. reflexivity. Qed.
(* STARTUP v4 stream 0, {"CQL_VERSION": "3.0.0"}: body 2+2+11+2+5 = 22 = 0x16: 04 00 00 00 01 00 00 00 16 | body *)
Example ex_frame_startup : spec_frame 4 0 0 None [] [] (M_Startup {| st_Options := [([67;81;76;95;86;69;82;83;73;79;78], [51;46;48;46;48])] |})
  = Some [4;0;0;0;1;0;0;0;22; 0;1; 0;11;67;81;76;95;86;69;82;83;73;79;78; 0;5;51;46;48;46;48]. Proof. vm_compute. reflexivity. Qed.
(* QUERY "SELECT" ONE, v4, stream 1: body 4+6+2+1 = 13 = 0x0D: 04 00 00 01 07 00 00 00 0D | 00 00 00 06 SELECT 00 01 00;
   v5: body 16 = 0x10 *)
Definition xquery := M_Query {| q_Query := xSELECT; q_Options := Some (qo0 1) |}.
Example ex_frame_query_v4 : spec_frame 4 0 1 None [] [] xquery = Some [4;0;0;1;7;0;0;0;13; 0;0;0;6;83;69;76;69;67;84; 0;1; 0].
Proof. vm_compute. reflexivity. Qed.
Example ex_frame_query_v5 : spec_frame 5 0 1 None [] [] xquery = Some [5;0;0;1;7;0;0;0;16; 0;0;0;6;83;69;76;69;67;84; 0;1; 0;0;0;0].
Proof. vm_compute. reflexivity. Qed.
(* the tracing flag on a REQUEST asks for tracing and adds nothing to the body: 04 02 00 01 07 00 00 00 0D | same body *)
Example ex_frame_query_tracing : spec_frame 4 2 1 (Some (repeat 9 16)) [] [] xquery
  = Some [4;2;0;1;7;0;0;0;13; 0;0;0;6;83;69;76;69;67;84; 0;1; 0]. Proof. vm_compute. reflexivity. Qed.
(* custom payload {"k": 01} on a v4 request: flags 04, body = 00 01 00 01 6B 00 00 00 01 01 (10 bytes) + 13 = 23 = 0x17;
   in v3 the bit is unused and ignored *)
Example ex_frame_query_payload : map (fun v => spec_frame v 4 1 None [([107], Some [1])] [] xquery) [3; 4]
  = [Some [3;4;0;1;7;0;0;0;13; 0;0;0;6;83;69;76;69;67;84; 0;1; 0];
     Some [4;4;0;1;7;0;0;0;23; 0;1; 0;1;107; 0;0;0;1;1; 0;0;0;6;83;69;76;69;67;84; 0;1; 0]]. Proof. vm_compute. reflexivity. Qed.
(* ERROR Unavailable, v4 response, stream 1: body 4+5+2+4+4 = 19 = 0x13: 84 00 00 01 00 00 00 00 13 | body *)
Example ex_frame_unavailable : spec_frame 4 0 1 None [] []
    (M_Unavailable {| un_ErrorMessage := xerr; un_Consistency := 4; un_Required := 3; un_Alive := 2 |})
  = Some [132;0;0;1;0;0;0;0;19; 0;0;16;0; 0;3;101;114;114; 0;4; 0;0;0;3; 0;0;0;2]. Proof. vm_compute. reflexivity. Qed.
(* RESULT Void, v3 response, stream 0 = 83 00 00 00 08 00 00 00 04 | 00 00 00 01 *)
Example ex_frame_void : spec_frame 3 0 0 None [] [] M_VoidResult = Some [131;0;0;0;8;0;0;0;4; 0;0;0;1]. Proof. vm_compute. reflexivity. Qed.
(* RESULT Rows (one int column ks.tbl.c, global tables spec, one row 42), v4, stream 2:
   body 4+4+4+4+5+3+2+4+8 = 38 = 0x26: 84 00 00 02 08 00 00 00 26 | body *)
Example ex_frame_rows : spec_frame 4 0 2 None [] []
    (M_RowsResult {| rr_Metadata := Some (xmd [xcol xks xtbl [99] (DT_Primitive 9)] 1 None None 0 false); rr_Data := [[Some [0;0;0;42]]] |})
  = Some [132;0;0;2;8;0;0;0;38; 0;0;0;2; 0;0;0;1; 0;0;0;1; 0;2;107;115; 0;3;116;98;108; 0;1;99; 0;9; 0;0;0;1; 0;0;0;4;0;0;0;42].
Proof. vm_compute. reflexivity. Qed.
(* EVENT on stream -1: v3 83 00 FF FF 0C | v2 82 00 FF 0C; body STATUS_CHANGE UP 127.0.0.1:9042 = 15+4+9 = 28 = 0x1C *)
Definition xevent_body : bytes := [0;13;83;84;65;84;85;83;95;67;72;65;78;71;69; 0;2;85;80; 4;127;0;0;1; 0;0;35;82].
Example ex_frame_event : map (fun v => spec_frame v 0 (-1) None [] [] (xstatus [127;0;0;1])) [2; 3]
  = [Some ([130;0;255;12;0;0;0;28] ++ xevent_body); Some ([131;0;255;255;12;0;0;0;28] ++ xevent_body)]. Proof. vm_compute. reflexivity. Qed.
(* stream ids that do not fit: 128 in v2 (fits v3), 32768 in v3 *)
Example ex_frame_stream_range : map (fun vs => isSome (spec_frame (fst vs) 0 (snd vs) None [] [] M_Options)) [(2, 128); (3, 128); (3, 32768); (2, -128)]
  = [false; true; false; true]. Proof. vm_compute. reflexivity. Qed.
(* DSE2 REVISE_REQUEST type 2, stream 3: 42 00 00 03 FF 00 00 00 0C | 00 00 00 02 | 00 00 00 05 | 00 00 00 0A *)
Example ex_frame_revise : spec_frame 66 0 3 None [] [] (M_Revise {| rv_RevisionType := 2; rv_TargetStreamId := 5; rv_NextPages := 10 |})
  = Some [66;0;0;3;255;0;0;0;12; 0;0;0;2; 0;0;0;5; 0;0;0;10]. Proof. vm_compute. reflexivity. Qed.
(* RESULT Void response with tracing id 01..10, warnings ["w"], custom payload {"k": 01}: flags 0x02|0x04|0x08 = 0x0E.
   v4: body = 16 (uuid) | 00 01 00 01 77 (warnings, 5) | 00 01 00 01 6B 00 00 00 01 01 (payload, 10) | 00 00 00 01 = 35 = 0x23
   v3: only the tracing id: 16 + 4 = 20 = 0x14 *)
Definition xuuid : bytes := [1;2;3;4;5;6;7;8;9;10;11;12;13;14;15;16].
Example ex_frame_all_flags : map (fun v => spec_frame v 14 0 (Some xuuid) [([107], Some [1])] [[119]] M_VoidResult) [3; 4; 5; 66]
  = let b := xuuid ++ [0;1; 0;1;119] ++ [0;1; 0;1;107; 0;0;0;1;1] ++ [0;0;0;1] in
    [Some ([131;14;0;0;8;0;0;0;20] ++ xuuid ++ [0;0;0;1]);
     Some ([132;14;0;0;8;0;0;0;35] ++ b); Some ([133;14;0;0;8;0;0;0;35] ++ b); Some ([194;14;0;0;8;0;0;0;35] ++ b)].
Proof. vm_compute. reflexivity. Qed.
(* tracing flag on a response without a 16-byte id: nothing can be written *)
Example ex_frame_tracing_missing : map (fun t => spec_frame 4 2 0 t [] [] M_VoidResult) [None; Some [1;2]] = [None; None].
Proof. vm_compute. reflexivity. Qed.
(* compressed frames are outside; in v5 the bit is ignored *)
Example ex_frame_compressed : map (fun v => isSome (spec_frame v 1 0 None [] [] M_Options)) [4; 5] = [false; true].
Proof. vm_compute. reflexivity. Qed.
(* a message the version does not define has no frame: REVISE in v4; Read_failure in v3 *)
Example ex_frame_undefined : spec_frame 4 0 0 None [] [] (M_Revise {| rv_RevisionType := 1; rv_TargetStreamId := 5; rv_NextPages := 0 |}) = None.
Proof. vm_compute. reflexivity. Qed.

(* header acceptance: 0x04/0x05 request OPTIONS yes; 0x84/0x05 no (request opcode marked response); 0x04/0x02 no (READY marked
   request); 0x84/0x02 yes; opcode 0x04 unknown; version 1, 6, 0x43 unsupported; 0xFF: DSE only under the strict reading *)
Example ex_acceptable :
  map (fun p => spec_header_acceptable (fst p) (snd p))
      [(4,5); (132,5); (4,2); (132,2); (4,4); (1,5); (6,5); (67,5); (65,5); (193,8); (65,255); (193,255); (4,255); (2,13); (130,16)]
  = [true; false; false; true; false; false; false; false; true; true; true; false; true; true; true].
Proof. vm_compute. reflexivity. Qed.
Example ex_acceptable_strict :
  map (fun p => spec_header_acceptable_strict (fst p) (snd p)) [(65,255); (66,255); (4,255); (5,255); (194,255)]
  = [true; true; false; false; false]. Proof. vm_compute. reflexivity. Qed.
(* over all 2^16 (version byte, opcode) pairs: 6 versions x 17 opcodes, each in exactly one direction = 102 acceptable pairs;
   strict: 4 x 16 + 2 x 17 = 98 *)
Definition all_bytes : list Z := map Z.of_nat (seq 0 256).
Definition count_acceptable (f : Z -> Z -> bool) : Z :=
  zlen (filter (fun p => f (fst p) (snd p)) (list_prod all_bytes all_bytes)).
Example ex_acceptable_count : (count_acceptable spec_header_acceptable, count_acceptable spec_header_acceptable_strict) = (102, 98).
Proof. vm_compute. reflexivity. Qed.
(* the opcode assigned to each message kind is in the table with the matching direction *)
Example ex_directions :
  map spec_msg_is_response [M_Options; M_Ready; M_VoidResult; M_Revise {| rv_RevisionType := 1; rv_TargetStreamId := 0; rv_NextPages := 0 |};
                            M_ServerError []; M_AuthSuccess {| as_Token := None |}; M_AuthResponse {| ar_Token := None |}]
  = [false; true; true; false; true; true; false]. Proof. vm_compute. reflexivity. Qed.
