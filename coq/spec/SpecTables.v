(* Per-version feature tables, transcribed BY HAND from /repo/specs/*.spec (section numbers cited).
   Nothing here is derived from the Go code.  A table row gives, for each of the six versions the
   library supports, what the specification of that version says:
     Some true  - the feature is defined by that version's specification
     Some false - that version's specification does not define it
     None       - the specification texts are silent or inconsistent; nothing is demanded.
   Versions: OSS 2,3,4,5 = 2,3,4,5; DSE v1 = 65; DSE v2 = 66 (version byte with the DSE bit 0x40). *)
From Coq Require Import ZArith List String Bool.
Import ListNotations.
Open Scope Z_scope.

Definition V2 := 2. Definition V3 := 3. Definition V4 := 4. Definition V5 := 5.
Definition DSE1 := 65. Definition DSE2 := 66.
Definition spec_versions : list Z := [V2; V3; V4; V5; DSE1; DSE2].

Definition row := list (Z * option bool).
Definition mk (v2 v3 v4 v5 d1 d2 : option bool) : row :=
  [(V2, v2); (V3, v3); (V4, v4); (V5, v5); (DSE1, d1); (DSE2, d2)].
Definition T := Some true. Definition F := Some false. Definition U : option bool := None.

(* v3 spec section 10 "Changes from v2": collection sizes/elements become [int]; stream id becomes [short] (9-byte header) *)
Definition spec_4byte_collection_length := mk F T T T T T.
Definition spec_header_length : list (Z * Z) := [(V2, 8); (V3, 9); (V4, 9); (V5, 9); (DSE1, 9); (DSE2, 9)].
(* QUERY <flags>: [byte] in v2 4.1.4, v3 4.1.4, v4 4.1.4; [int] in v5 4.1.4, DSE v1 4.1.4, DSE v2 4.1.4 *)
Definition spec_4byte_query_flags := mk F F F T T T.
(* BATCH <flags> exists from v3 (v3 4.1.7); v2 BATCH has none *)
Definition spec_batch_flags := mk F T T T T T.
(* PREPARE <flags>/keyspace: v5 4.1.5, DSE v2 4.1.5; absent elsewhere *)
Definition spec_prepare_flags := mk F F F T F T.
(* result_metadata_id: v5 4.1.6 / 4.2.5.4, DSE v2 4.1.6 / 4.2.5.4 *)
Definition spec_result_metadata_id := mk F F F T F T.
(* READ_FAILURE/WRITE_FAILURE <reasonmap>: v5 section 9, DSE v1 section 9, DSE v2 section 9; v4 has <numfailures> *)
Definition spec_failure_reason_map := mk F F F T T T.
(* WRITE_TIMEOUT <contentions>: v5 section 9 only *)
Definition spec_write_timeout_contentions := mk F F F T F F.
(* v5 section 2 framing (segments): v5 only *)
Definition spec_modern_framing := mk F F F T F F.
(* [value] n == -2 "not set": v4 section 3, DSE v1/v2 section 3, v5 section 3 *)
Definition spec_unset_values := mk F F T T T T.

(* query flags, by mask *)
Definition spec_query_flag : list (Z * row) := [
  (1,   mk T T T T T T);   (* 0x01 Values *)
  (2,   mk T T T T T T);   (* 0x02 Skip_metadata *)
  (4,   mk T T T T T T);   (* 0x04 Page_size *)
  (8,   mk T T T T T T);   (* 0x08 With_paging_state *)
  (16,  mk T T T T T T);   (* 0x10 With_serial_consistency *)
  (32,  mk F T T T T T);   (* 0x20 With_default_timestamp: v3+ *)
  (64,  mk F T T T T T);   (* 0x40 With_names_for_values: v3+ *)
  (128, mk F F F T F T);   (* 0x80 With_keyspace: v5, DSE v2 *)
  (256, mk F F F T F F);   (* 0x100 With_now_in_seconds: v5 *)
  (1073741824, mk F F F F T T);  (* 0x40000000 page size in bytes: DSE *)
  (2147483648, mk F F F F T T)   (* 0x80000000 continuous paging options: DSE *)
].

(* schema change targets: v3 4.2.6 KEYSPACE/TABLE/TYPE; v4, v5, DSE add FUNCTION/AGGREGATE.
   v2 has no <target> field: keyspace and table changes exist, expressed by the two strings. *)
Definition spec_schema_target : list (string * row) := [
  ("KEYSPACE"%string,  mk T T T T T T);
  ("TABLE"%string,     mk T T T T T T);
  ("TYPE"%string,      mk F T T T T T);
  ("FUNCTION"%string,  mk F F T T T T);
  ("AGGREGATE"%string, mk F F T T T T)
].

(* topology change: NEW_NODE / REMOVED_NODE everywhere; MOVED_NODE is listed by v3 4.2.6 only, the later
   texts drop the mention while servers keep sending it: unconstrained there. *)
Definition spec_topology_change : list (string * row) := [
  ("NEW_NODE"%string,     mk T T T T T T);
  ("REMOVED_NODE"%string, mk T T T T T T);
  ("MOVED_NODE"%string,   mk F T U U U U)
].

(* DSE REVISE_REQUEST: cancel (1) from DSE v1, more pages (2) from DSE v2 *)
Definition spec_dse_revision : list (Z * row) := [
  (1, mk F F F F T T);
  (2, mk F F F F F T)
].

(* compression algorithms: lz4 and snappy up to v4 and in DSE (section 5); v5 section 5: lz4 only *)
Definition spec_compression : list (string * row) := [
  ("NONE"%string,   mk T T T T T T);
  ("LZ4"%string,    mk T T T T T T);
  ("SNAPPY"%string, mk T T T F T T)
].

Definition agrees (f : Z -> bool) (r : row) : bool :=
  forallb (fun vo => match snd vo with Some b => Bool.eqb (f (fst vo)) b | None => true end) r.
Definition agrees2 {A} (f : Z -> A -> bool) (tbl : list (A * row)) : bool :=
  forallb (fun ar => agrees (fun v => f v (fst ar)) (snd ar)) tbl.
