(* Which frames the specification gives a layout for, and the specification's bytes for a model frame: DEFINITIONS ONLY
   (no proofs), so that the byte comparison of C02 can still be evaluated when a proof file no longer checks.
   [x_clean] = the value is one whose specification layout is unambiguous for that version (the agreement theorems of
   proofs/SpecAgree*.v are stated for clean messages; a non-clean frame is counted, not compared). *)
From Coq Require Import ZArith List Bool.
From GCNP Require Import base.GoInt base.Bytes base.Codec gen.Constants_gen spec.SpecTables model.Prim model.DataType
  model.MsgTypes model.Frame model.MsgRequests model.MsgErrors model.MsgResults model.MsgCodec model.MsgValid model.FrameValid
  spec.SpecNotation spec.SpecMsg spec.SpecFrame.
Import ListNotations.
Open Scope Z_scope.

(* Value{Regular, nil contents}: the Go encoder writes null; the specification side gives it no meaning *)
Definition value_clean (x : option Value) : bool :=
  match x with
  | Some val => negb (value_type val =? ValueTypeRegular) || is_some (value_contents val)
  | None => true
  end.

Definition qo_clean (o : QueryOptions) : bool :=
  negb (is_some (qo_PositionalValues o) && is_some (qo_NamedValues o))
  && (0 <=? qo_PageSize o)
  && (negb (qo_PageSizeInBytes o) || (qo_PageSize o >? 0))
  && forallb value_clean (olist (qo_PositionalValues o))
  && forallb (fun kv => value_clean (snd kv)) (olist (qo_NamedValues o)).

Definition oqo_clean (oo : option QueryOptions) : bool := match oo with Some o => qo_clean o | None => false end.

(* beyond Execute_okb: no result metadata id where the version has none (an empty non-nil slice is accepted and dropped by Go) *)
Definition execute_clean (v : Z) (m : Execute) : bool :=
  oqo_clean (ex_Options m) && (spec_v5_or_dse2 v || negb (is_some (ex_ResultMetadataId m))).

Definition batch_child_clean (oc : option BatchChild) : bool :=
  match oc with
  | Some c => (negb (MsgRequests.nonempty (bc_Query c)) || negb (is_some (bc_Id c))) && forallb value_clean (bc_Values c)
  | None => true
  end.

(* the types of the columns are defined by the version (not checked by the Go encoder) *)
Definition column_type_defined (v : Z) (oc : option ColumnMetadata) : bool :=
  match oc with Some c => match cm_Type c with Some t => spec_type_defined v t | None => false end | None => false end.

Definition rows_md_clean (v : Z) (md : RowsMetadata) : bool :=
  forallb (column_type_defined v) (rm_Columns md)
  && negb (MsgResultsValid.is_some (rm_NewResultMetadataId md) && (zlen (rm_Columns md) =? 0))
  && (0 <=? rm_ContinuousPageNumber md)
  && (negb (rm_LastContinuousPage md) || (rm_ContinuousPageNumber md >? 0)).

Definition prepared_clean (v : Z) (m : PreparedResult) : bool :=
  match pr_VariablesMetadata m with
  | Some vm => forallb (column_type_defined v) (vm_Columns vm)
  | None => false
  end
  && (spec_v5_or_dse2 v || negb (MsgResultsValid.is_some (pr_ResultMetadataId m)))
  && match pr_ResultMetadata m with Some md => rows_md_clean v md | None => true end.

Definition scr_clean (m : SchemaChangeResult) : bool :=
  (if str_is (scr_Target m) SchemaChangeTargetKeyspace then is_nil (scr_Object m) else true)
  && (if str_is (scr_Target m) SchemaChangeTargetFunction || str_is (scr_Target m) SchemaChangeTargetAggregate then true
      else is_nil (scr_Arguments m)).

Definition msg_clean (v : Z) (m : Message) : bool :=
  match m with
  | M_Query x => oqo_clean (q_Options x)
  | M_Execute x => execute_clean v x
  | M_Batch x => forallb batch_child_clean (b_Children x)
  | M_WriteTimeout x => bytes_okb (wt_WriteType x)
  | M_ReadFailure _ | M_WriteFailure _ | M_FunctionFailure _ => spec_from_v4 v
  | M_Unprepared x => MsgRequests.is_some (up_Id x)
  | M_SchemaChangeResult x => scr_clean x
  | M_PreparedResult x => prepared_clean v x
  | M_RowsResult x => match rr_Metadata x with Some md => rows_md_clean v md | None => false end
  | _ => true
  end.

Definition frame_clean (f : Frame) : bool := msg_clean (h_Version (f_Header f)) (bd_Message (f_Body f)).

(* the specification's frame for the fields of a model frame *)
Definition spec_frame_of (f : Frame) : option bytes :=
  let h := f_Header f in let b := f_Body f in
  spec_frame (h_Version h) (h_Flags h) (h_StreamId h) (bd_TracingId b) (bd_CustomPayload b) (olist (bd_Warnings b)) (bd_Message b).
