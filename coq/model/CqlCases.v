(* CqlCases - what the correspondence files coq/run/Cases_C1x.v evaluate: hex parsing, structural equality of abstract
   values (and equality up to the order of map entries, because Go iterates maps in random order), and the comparison of
   one observation of the real code with model/CqlContainers.v and spec/SpecCql.v.  Definitions only. *)
From Coq Require Import ZArith List Bool String Ascii.
From GCNP Require Import base.GoInt base.Bytes spec.SpecCql model.CqlWire model.CqlContainers.
Import ListNotations.
Open Scope Z_scope.

Definition hexdigit (c : ascii) : Z :=
  let n := Z.of_nat (nat_of_ascii c) in
  if (48 <=? n) && (n <=? 57) then n - 48 else if (97 <=? n) && (n <=? 102) then n - 87 else if (65 <=? n) && (n <=? 70) then n - 55 else 0.
Fixpoint hx (s : string) : list Z :=
  match s with
  | String a (String b r) => (16 * hexdigit a + hexdigit b) :: hx r
  | _ => []
  end.

Fixpoint zl_eqb (a b : list Z) : bool :=
  match a, b with [], [] => true | x :: a', y :: b' => Z.eqb x y && zl_eqb a' b' | _, _ => false end.

(* equality up to the order of map entries when [perm] is true; plain structural equality otherwise *)
Fixpoint cval_eq (perm : bool) (a b : cval) {struct a} : bool :=
  match a, b with
  | VNull, VNull => true
  | VInt x, VInt y => Z.eqb x y
  | VBytes x, VBytes y | VInet x, VInet y | VUuid x, VUuid y => zl_eqb x y
  | VBool x, VBool y => Bool.eqb x y
  | VDecimal s u, VDecimal s' u' => Z.eqb s s' && Z.eqb u u'
  | VDuration m d n, VDuration m' d' n' => Z.eqb m m' && Z.eqb d d' && Z.eqb n n'
  | VFloat x, VFloat y => Z.eqb x y
  | VList xs, VList ys | VTuple xs, VTuple ys | VUdt xs, VUdt ys =>
      (fix eql (xs ys : list cval) {struct xs} : bool :=
         match xs, ys with
         | [], [] => true
         | x :: xs', y :: ys' => cval_eq perm x y && eql xs' ys'
         | _, _ => false
         end) xs ys
  | VMap xs, VMap ys =>
      if perm then
        (fix eqm (xs : list (cval * cval)) (ys : list (cval * cval)) {struct xs} : bool :=
           match xs with
           | [] => match ys with [] => true | _ => false end
           | (k, w) :: xs' =>
               (* remove the first entry of ys equal to (k, w) *)
               match (fix rm (ys : list (cval * cval)) : option (list (cval * cval)) :=
                        match ys with
                        | [] => None
                        | (k', w') :: ys' =>
                            if cval_eq perm k k' && cval_eq perm w w' then Some ys'
                            else match rm ys' with Some r => Some ((k', w') :: r) | None => None end
                        end) ys with
               | Some ys' => eqm xs' ys'
               | None => false
               end
           end) xs ys
      else
        (fix eqm (xs ys : list (cval * cval)) {struct xs} : bool :=
           match xs, ys with
           | [], [] => true
           | (k, w) :: xs', (k', w') :: ys' => cval_eq perm k k' && cval_eq perm w w' && eqm xs' ys'
           | _, _ => false
           end) xs ys
  | _, _ => false
  end.

(* what the real encoder did *)
Inductive eobs : Type := EOk (b : list Z) | ENull | EErr | EPanic.
(* what the real decoder did *)
Inductive dobs : Type := DOk (x : cval) | DErr | DPanic | DNone (* not run *).

(* model_encode against the implementation.  If the source contained a Go map with two or more entries the bytes are
   determined only up to entry order: then the model decodes the implementation's bytes, the result must be the value up to entry order, and must re-encode to exactly those bytes. *)
Definition enc_agrees (v : Z) (t : cqltype) (x : cval) (unordered : bool) (o : eobs) : bool :=
  match o, m_encode v t x with
  | EOk b, OK (Some mb) =>
      if unordered then
        match m_decode v t (Some b) with
        | OK y => cval_eq true y x && match m_encode v t y with OK (Some b') => zl_eqb b' b | _ => false end
        | _ => false
        end
      else zl_eqb mb b
  | ENull, OK None => true
  | EErr, ERR => true
  | EPanic, PANIC => true
  | _, _ => false
  end.

(* spec_ser against the implementation (same treatment of map order) *)
Definition spec_agrees (v : Z) (t : cqltype) (x : cval) (unordered : bool) (o : eobs) : bool :=
  match o with
  | EOk b =>
      if unordered then
        match m_decode v t (Some b) with
        | OK y => cval_eq true y x && match spec_val v t y with Some (Some b') => zl_eqb b' b | _ => false end
        | _ => false
        end
      else match spec_val v t x with Some (Some b') => zl_eqb b' b | _ => false end
  | ENull => match spec_val v t x with Some None => true | _ => false end
  | EErr => match spec_val v t x with None => true | _ => false end
  | EPanic => false
  end.

(* model_decode against the implementation, on the bytes the implementation produced *)
Definition dec_agrees (v : Z) (t : cqltype) (src : option (list Z)) (o : dobs) : bool :=
  match o, m_decode v t src with
  | DOk y, OK y' => cval_eq true y y'
  | DErr, ERR => true
  | DPanic, PANIC => true
  | DNone, _ => true
  | _, _ => false
  end.

Definition src_of (o : eobs) : option (list Z) := match o with EOk b => Some b | _ => None end.

Definition class_eqb (a b : oclass) : bool :=
  match a, b with COk, COk | CErr, CErr | CPanic, CPanic => true | _, _ => false end.

(* Encodings too long to be written into a case file (the v2 size boundary: elements of 65535 / 65536 / 70000 bytes, given as
   [repeat b n]): outcome class and length of model_encode / of the specification serializer against the implementation's outcome class
   and length (the bytes themselves are compared outside, by digest, with a serializer written from the v2 collection format). *)
Definition enc_shape_agrees (v : Z) (t : cqltype) (x : cval) (c : oclass) (len : Z) : bool :=
  match m_encode v t x, c with
  | OK (Some b), COk => Z.eqb (zlen b) len
  | ERR, CErr | PANIC, CPanic => true
  | _, _ => false
  end.
Definition spec_shape_agrees (v : Z) (t : cqltype) (x : cval) (c : oclass) (len : Z) : bool :=
  match spec_val v t x, c with
  | Some (Some b), COk => Z.eqb (zlen b) len
  | None, CErr => true
  | _, _ => false
  end.
