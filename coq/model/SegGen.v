(* Gallina side of the correspondence run for C06/C07/C08: expansion of the payload descriptors that
   tools/harness/cmd/seg also expands (same arithmetic), a hex reader, and the per-case comparison
   functions evaluated with vm_compute by tools/props/C06.py.  DEFINITIONS ONLY. *)
From Coq Require Import ZArith NArith List Bool String Ascii.
From GCNP Require Import base.GoInt gen.Crc_gen model.Crc model.Segment.
Import ListNotations.
Open Scope Z_scope.

(* ---------------------------------------------------------------- hex *)
Definition hexval (c : ascii) : Z :=
  let n := Z.of_nat (nat_of_ascii c) in if n <? 58 then n - 48 else n - 87.
Fixpoint hx (s : string) : list Z :=
  match s with
  | String a (String b r) => (16 * hexval a + hexval b) :: hx r
  | _ => []
  end.

Definition hxs (l : list string) : list Z := flat_map hx l.

Fixpoint list_eqb (a b : list Z) : bool :=
  match a, b with
  | [], [] => true
  | x :: a', y :: b' => Z.eqb x y && list_eqb a' b'
  | _, _ => false
  end.

(* ---------------------------------------------------------------- payload descriptors (pattern code, length, seed) *)
(* arithmetic by bit operations on N (Z.div / Z.modulo are two orders of magnitude slower under vm_compute) *)
Definition lcg_next (x : N) : N := N.land (x * 1103515245 + 12345)%N 2147483647%N.      (* mod 2^31 *)

Fixpoint gen_ramp (n : nat) (i : N) : list Z :=
  match n with O => [] | S k => Z.of_N (N.land i 255) :: gen_ramp k (i + 1)%N end.

Fixpoint gen_lcg (n : nat) (x : N) : list Z :=
  match n with O => [] | S k => let x' := lcg_next x in Z.of_N (N.land (N.shiftr x' 16) 255) :: gen_lcg k x' end.

(* j = i mod k, kept as a running counter *)
Fixpoint gen_period (n : nat) (j k seed : N) : list Z :=
  match n with
  | O => []
  | S m => Z.of_N (N.land (j * 37 + seed)%N 255) :: gen_period m (if (j + 1 =? k)%N then 0%N else (j + 1)%N) k seed
  end.

(* 0 zero | 1 rep | 2 ramp | 3 lcg | 4 period | 5 half;  seed >= 0 *)
Definition gen_payload (pat len seed : Z) : list Z :=
  let n := Z.to_nat len in
  let sd := Z.to_N seed in
  if pat =? 0 then repeat 0 n
  else if pat =? 1 then repeat (Z.of_N (N.land sd 255)) n
  else if pat =? 2 then gen_ramp n sd
  else if pat =? 3 then gen_lcg n (N.land sd 2147483647)
  else if pat =? 4 then gen_period n 0 (N.modulo sd 61 + 2)%N sd
  else let h := Z.to_nat (len / 2) in gen_lcg h (N.land sd 2147483647) ++ repeat 0 (n - h).

(* ---------------------------------------------------------------- compressor oracle for a single case:
   the model cannot run LZ4; Compress answers what the implementation produced for this payload (only its
   length when the segment falls back to the uncompressed payload), Decompress inverts exactly that. *)
Definition case_oracle (cp : option (list Z)) (cplen : Z) (p : list Z) : compressor :=
  {| cmp := fun _ => Ok (match cp with Some c => c | None => repeat 0 (Z.to_nat cplen) end);
     dcmp := fun x => match cp with Some c => if list_eqb x c then Ok p else Err | None => Err end |}.

Definition opt_eqb (a : option (list Z)) (b : list Z) : bool :=
  match a with None => true | Some x => list_eqb x b end.

(* expected observables of a decoded segment: sc, ulen, clen, crc24, crc32, payload length, unread bytes *)
Definition dec_obs : Type := (bool * Z * Z * N * N * Z * Z)%type.

Definition obs_of (s : segment) (rest : list Z) : dec_obs :=
  (is_self_contained (seg_header s), uncompressed_len (seg_header s), compressed_len (seg_header s),
   crc24 (seg_header s), seg_crc32 s, Z.of_nat (List.length (seg_data s)), Z.of_nat (List.length rest)).

Definition obs_eqb (a b : dec_obs) : bool :=
  let '(s1, u1, c1, h1, p1, l1, r1) := a in
  let '(s2, u2, c2, h2, p2, l2, r2) := b in
  Bool.eqb s1 s2 && Z.eqb u1 u2 && Z.eqb c1 c2 && N.eqb h1 h2 && N.eqb p1 p2 && Z.eqb l1 l2 && Z.eqb r1 r2.

(* one encode + decode case *)
(* payload_back: whether the implementation's decoded payload equalled the original one (the model must say the same).
   seg_case_p: the payload is given as bytes (payloads found by a search of the harness, printed in hex);
   seg_case: the payload is a descriptor expanded here *)
Definition seg_case_p (comp sc : bool) (p : list Z) (cp : option (list Z)) (cplen : Z)
    (total : Z) (head trailer : list Z) (full : option (list Z)) (post : Z * Z * N)
    (rest : list Z) (dec : dec_obs) (payload_back : bool) : bool :=
  let len := Z.of_nat (List.length p) in
  let c := if comp then Some (case_oracle cp cplen p) else None in
  match encode_segment_full c sc p with
  | Err => false
  | Ok (bs, s) =>
      let hl := Z.to_nat (if comp then 8 else 6) in
      let n := List.length bs in
      let transmitted := if comp then (if cplen <=? len then match cp with Some x => x | None => [] end else p) else p in
      Z.eqb (Z.of_nat n) total
      && list_eqb (firstn hl bs) head
      && list_eqb (skipn (n - 4) bs) trailer
      && list_eqb (firstn (n - 4 - hl) (skipn hl bs)) transmitted
      && opt_eqb full bs
      && (let '(u, cl, c32) := post in
          Z.eqb (uncompressed_len (seg_header s)) u && Z.eqb (compressed_len (seg_header s)) cl && N.eqb (seg_crc32 s) c32)
      && match decode_segment c (bs ++ rest) with
         | Err => false
         | Ok (s', r) => obs_eqb (obs_of s' r) dec && Bool.eqb (list_eqb (seg_data s') p) payload_back && list_eqb r rest
         end
  end.

(* outcome class of encode-then-decode in the model: true iff both succeed.  Used for records on which the
   implementation encoded a payload and then failed to decode its own output (the case term is `negb (seg_decodes ...)`):
   the model has exactly the size checks of decodeSegmentPayload, so it must fail on the same payloads and no others. *)
Definition seg_decodes_p (comp sc : bool) (p : list Z) (cp : option (list Z)) (cplen : Z) (rest : list Z) : bool :=
  let c := if comp then Some (case_oracle cp cplen p) else None in
  match encode_segment_full c sc p with
  | Err => false
  | Ok (bs, _) => match decode_segment c (bs ++ rest) with Err => false | Ok _ => true end
  end.

Definition seg_case (comp sc : bool) (pat len seed : Z) (cp : option (list Z)) (cplen : Z)
    (total : Z) (head trailer : list Z) (full : option (list Z)) (post : Z * Z * N)
    (rest : list Z) (dec : dec_obs) (payload_back : bool) : bool :=
  seg_case_p comp sc (gen_payload pat len seed) cp cplen total head trailer full post rest dec payload_back.

Definition seg_decodes (comp sc : bool) (pat len seed : Z) (cp : option (list Z)) (cplen : Z) (rest : list Z) : bool :=
  seg_decodes_p comp sc (gen_payload pat len seed) cp cplen rest.

(* the decoder on arbitrary input: expected = None for an error *)
Definition raw_case (comp : bool) (input : list Z) (oracle_in oracle_out : option (list Z))
    (expected : option (dec_obs * list Z)) : bool :=
  let c := if comp
           then Some {| cmp := fun _ => Err;
                        dcmp := fun x => match oracle_in, oracle_out with
                                         | Some i, Some o => if list_eqb x i then Ok o else Err
                                         | _, _ => Err end |}
           else None in
  match decode_segment c input, expected with
  | Err, None => true
  | Ok (s, r), Some (o, payload) => obs_eqb (obs_of s r) o && list_eqb (seg_data s) payload
  | _, _ => false
  end.

Definition koopman_case (data : N) (len : Z) (crc : N) : bool := N.eqb (checksum_koopman data (Z.to_nat len)) crc.
Definition ieee_case (pat len seed : Z) (crc : N) : bool := N.eqb (checksum_ieee (gen_payload pat len seed)) crc.
Definition ieee_hex_case (bs : list Z) (crc : N) : bool := N.eqb (checksum_ieee bs) crc.
Definition refuse_case (comp : bool) (len : Z) : bool :=
  let p := repeat 0 (Z.to_nat len) in
  match encode_segment (if comp then Some (case_oracle (Some [0]) 1 p) else None) true p with Err => true | Ok _ => false end.

Definition failing (cases : list (Z * bool)) : list Z := map fst (filter (fun c => negb (snd c)) cases).
