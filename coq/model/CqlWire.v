(* CqlWire - hand-written model (H) of the WIRE layer of the scalar CQL codecs of /repo/datacodec and of
   /repo/primitive/vint.go, bytes.go, short_bytes.go, integers.go as far as datacodec uses them.
   Mirrors the Go encoder and the Go decoder separately, as the code is now (including what it does not check).
   The canonical intermediate value each codec converts its Go source to (int64, int32, *big.Int, CqlDecimal, ...) is
   the abstract value [cval] of spec/SpecCql.v; the conversion layer above it (convertTo* / convertFrom* type switches
   and their range checks) is the subject of C13 and is represented here only by the range test on the [cval]
   (a value outside the intermediate Go type can not reach the writer).
   Definitions only; proofs are in proofs/CqlWireProofs.v. *)
From Coq Require Import ZArith List Bool.
From GCNP Require Import base.GoInt base.Bytes spec.SpecCql.
Import ListNotations.
Open Scope Z_scope.

(* what a call can do: return a value, return an error, or panic *)
Inductive outcome (A : Type) : Type := OK (a : A) | ERR | PANIC.
Arguments OK {A} a.
Arguments ERR {A}.
Arguments PANIC {A}.

Definition bindo {A B} (o : outcome A) (f : A -> outcome B) : outcome B :=
  match o with OK a => f a | ERR => ERR | PANIC => PANIC end.
Notation "x <-! e ; k" := (bindo e (fun x => k)) (at level 61, e at next level, right associativity).

Definition bytes := list Z.

(* ---------------------------------------------------------------------------------------------- fixed width *)

(* binary.BigEndian.PutUint64(dest, uint64(val)) etc. *)
Definition writeInt64 (val : Z) : bytes := be_bytes 8 (wrap_u64 val).
Definition writeInt32 (val : Z) : bytes := be_bytes 4 (wrap_u32 val).
Definition writeInt16 (val : Z) : bytes := be_bytes 2 (wrap_u16 val).
Definition writeInt8  (val : Z) : bytes := [wrap_u8 val].

(* readIntNN: (val, wasNull, err); a nil and an empty source are both "length == 0" *)
Definition src_len (src : option bytes) : Z := match src with None => 0 | Some b => zlen b end.
Definition src_bytes (src : option bytes) : bytes := match src with None => [] | Some b => b end.

Definition readFixed (width : Z) (conv : Z -> Z) (src : option bytes) : outcome (option Z) :=
  if src_len src =? 0 then OK None
  else if negb (src_len src =? width) then ERR
  else OK (Some (conv (be_val (src_bytes src)))).
Definition readInt64 := readFixed 8 wrap_i64.
Definition readInt32 := readFixed 4 wrap_i32.
Definition readInt16 := readFixed 2 wrap_i16.
Definition readInt8  := readFixed 1 wrap_i8.
(* math.Float32frombits(binary.BigEndian.Uint32(source)): the bit pattern itself *)
Definition readFloat32 := readFixed 4 (fun x => x).
Definition readFloat64 := readFixed 8 (fun x => x).

(* ---------------------------------------------------------------------------------------------- varint *)

(* big.Int BitLen of |x| and big.Int Bytes of x >= 0: big-endian magnitude without leading zeros *)
Definition bitlen (x : Z) : Z := if x =? 0 then 0 else Z.log2 x + 1.
Definition big_bytes (x : Z) : bytes := be_bytes (Z.to_nat ((bitlen x + 7) / 8)) x.

(* datacodec/varint.go writeBigInt *)
Definition writeBigInt (n : Z) : bytes :=
  if 0 <? n then
    let b := big_bytes n in
    if 0 <? Z.land (hd 0 b) 128 then 0 :: b else b
  else if n <? 0 then
    let length := (bitlen (Z.abs n) / 8 + 1) * 8 in
    let b := big_bytes (n + Z.shiftl 1 length) in
    match b with
    | b0 :: b1 :: r => if (b0 =? 255) && negb (Z.land b1 128 =? 0) then b1 :: r else b
    | _ => b
    end
  else [0].

(* datacodec/varint.go readBigInt: None = nil *big.Int *)
Definition readBigInt (src : option bytes) : option Z :=
  let s := src_bytes src in
  if 0 <? zlen s then
    let val := be_val s in
    Some (if 0 <? Z.land (hd 0 s) 128 then val - Z.shiftl 1 (zlen s * 8) else val)
  else None.

(* ---------------------------------------------------------------------------------------------- vint (primitive/vint.go) *)

(* bits.LeadingZeros64 / 32 *)
Definition lz64 (v : Z) : Z := 64 - bitlen v.
Definition lz32 (v : Z) : Z := 32 - bitlen v.

Definition encodeZigZag (n : Z) : Z := wrap_u64 (Z.lxor (Z.shiftr n 63) (wrap_i64 (Z.shiftl n 1))).
Definition decodeZigZag (n : Z) : Z := wrap_i64 (Z.lxor (Z.shiftr n 1) (wrap_u64 (- (Z.land n 1)))).

(* WriteUnsignedVint(v uint64) *)
Definition writeUnsignedVint (v : Z) : bytes :=
  let magnitude := lz64 v in
  let numBytes := Z.shiftr (639 - magnitude * 9) 6 in
  if numBytes <=? 1 then [wrap_u8 v]
  else
    let extraBytes := numBytes - 1 in
    (* for i := extraBytes; i >= 0; i-- { buf[i] = byte(v); v >>= 8 } *)
    let buf := be_bytes (Z.to_nat numBytes) v in
    match buf with
    | b0 :: r => Z.lor b0 (wrap_u8 (255 - Z.shiftr 255 extraBytes)) :: r     (* buf[0] |= byte(^(0xff >> extraBytes)) *)
    | [] => []
    end.
Definition writeVint (v : Z) : bytes := writeUnsignedVint (encodeZigZag v).

(* ReadUnsignedVint on a reader positioned at [src]: (val, rest) *)
Definition readUnsignedVint (src : bytes) : outcome (Z * bytes) :=
  match src with
  | [] => ERR
  | firstByte :: rest =>
      if Z.land firstByte 128 =? 0 then OK (firstByte, rest)
      else
        let remainingBytes := lz32 (wrap_u8 (255 - firstByte)) - 24 in
        if zlen rest <? remainingBytes then ERR
        else
          let tail := firstn (Z.to_nat remainingBytes) rest in
          let val0 := Z.land firstByte (Z.shiftr 255 remainingBytes) in
          OK (fold_left (fun val b => wrap_u64 (Z.lor (wrap_u64 (Z.shiftl val 8)) (Z.land b 255))) tail val0,
              skipn (Z.to_nat remainingBytes) rest)
  end.
Definition readVint (src : bytes) : outcome (Z * bytes) :=
  r <-! readUnsignedVint src; OK (decodeZigZag (fst r), snd r).

(* ---------------------------------------------------------------------------------------------- [bytes] / [short bytes] *)

(* primitive.WriteBytes: nil -> -1; length through int32(); primitive.WriteShortBytes: length through uint16(), no nil test *)
Definition write_bytes (o : option bytes) : bytes :=
  match o with
  | None => be_bytes 4 (wrap_u32 (-1))
  | Some b => be_bytes 4 (wrap_u32 (wrap_i32 (zlen b))) ++ b
  end.
Definition write_short_bytes (b : bytes) : bytes := be_bytes 2 (wrap_u16 (zlen b)) ++ b.

Definition take (n : Z) (src : bytes) : outcome (bytes * bytes) :=
  if zlen src <? n then ERR else OK (firstn (Z.to_nat n) src, skipn (Z.to_nat n) src).

(* primitive.ReadInt / ReadShort on a reader *)
Definition read_int (src : bytes) : outcome (Z * bytes) := r <-! take 4 src; OK (wrap_i32 (be_val (fst r)), snd r).
Definition read_short (src : bytes) : outcome (Z * bytes) := r <-! take 2 src; OK (be_val (fst r), snd r).

(* primitive.ReadBytes: negative length -> nil; zero -> empty non-nil *)
Definition read_bytes (src : bytes) : outcome (option bytes * bytes) :=
  r <-! read_int src;
  let (n, rest) := r in
  if n <? 0 then OK (None, rest)
  else if n =? 0 then OK (Some [], rest)
  else r2 <-! take n rest; OK (Some (fst r2), snd r2).
(* primitive.ReadShortBytes: the length is a uint16, "length < 0" never holds *)
Definition read_short_bytes (src : bytes) : outcome (option bytes * bytes) :=
  r <-! read_short src;
  let (n, rest) := r in
  if n =? 0 then OK (Some [], rest)
  else r2 <-! take n rest; OK (Some (fst r2), snd r2).

(* ---------------------------------------------------------------------------------------------- inet *)

(* net.IP.To4: a 4-byte slice, or the last 4 bytes of a 16-byte IPv4-mapped address, else nil *)
Definition ip_to4 (ip : bytes) : option bytes :=
  if zlen ip =? 4 then Some ip
  else if (zlen ip =? 16) && forallb (Z.eqb 0) (firstn 10 ip) && (nth 10 ip 0 =? 255) && (nth 11 ip 0 =? 255)
       then Some (skipn 12 ip) else None.
Definition compactV4 (ip : bytes) : bytes := match ip_to4 ip with Some v4 => v4 | None => ip end.

(* ---------------------------------------------------------------------------------------------- scalar codecs *)

Definition guard {A} (c : bool) (k : outcome A) : outcome A := if c then k else ERR.

(* Codec.Encode of a scalar codec, from the canonical intermediate value.  OK None = CQL NULL (nil []byte). *)
Definition enc_scalar (s : scalar) (x : cval) : outcome (option bytes) :=
  match x with
  | VNull => OK None
  | _ =>
    match s, x with
    | SBigint, VInt z | SCounter, VInt z | STime, VInt z | STimestamp, VInt z =>
        guard (in_i 64 z) (OK (Some (writeInt64 z)))
    | SInt, VInt z => guard (in_i 32 z) (OK (Some (writeInt32 z)))
    | SSmallint, VInt z => guard (in_i 16 z) (OK (Some (writeInt16 z)))
    | STinyint, VInt z => guard (in_i 8 z) (OK (Some (writeInt8 z)))
    | SDate, VInt days => guard (in_i 32 days) (OK (Some (writeInt32 (wrap_i32 (days - (- 2 ^ 31))))))   (* val - math.MinInt32 *)
    | SVarint, VInt z => OK (Some (writeBigInt z))
    | SDecimal, VDecimal scale unscaled =>
        guard (in_i 32 scale) (OK (Some (be_bytes 4 (wrap_u32 scale) ++ writeBigInt unscaled)))
    | SDuration, VDuration m d n =>
        guard (in_i 32 m && in_i 32 d && in_i 64 n) (OK (Some (writeVint m ++ writeVint d ++ writeVint n)))
    | SBoolean, VBool b => OK (Some [if b then 1 else 0])
    | SFloat, VFloat bits => guard (in_u 32 bits) (OK (Some (be_bytes 4 bits)))
    | SDouble, VFloat bits => guard (in_u 64 bits) (OK (Some (be_bytes 8 bits)))
    | SAscii, VBytes bs | SVarchar, VBytes bs | SBlob, VBytes bs | SCustom, VBytes bs => OK (Some bs)
    | SUuid, VUuid bs | STimeuuid, VUuid bs => guard (zlen bs =? 16) (OK (Some bs))
    | SInet, VInet bs =>
        (* convertToIP compacts; writeInet: len 0 -> nil, 4 or 16 -> compactV4, else error *)
        let val := compactV4 bs in
        if zlen val =? 0 then OK None
        else guard ((zlen val =? 4) || (zlen val =? 16)) (OK (Some (compactV4 val)))
    | _, _ => ERR
    end
  end.

Definition readDuration (src : option bytes) : outcome cval :=
  if src_len src =? 0 then OK VNull
  else
    r1 <-! readVint (src_bytes src);
    r2 <-! readVint (snd r1);
    r3 <-! readVint (snd r2);
    let months := fst r1 in let days := fst r2 in let nanos := fst r3 in
    if (months <? - 2 ^ 31) || (2 ^ 31 - 1 <? months) then ERR
    else if (days <? - 2 ^ 31) || (2 ^ 31 - 1 <? days) then ERR
    else if zlen (snd r3) =? 0 then OK (VDuration (wrap_i32 months) (wrap_i32 days) nanos)
    else ERR.

Definition lift_int (r : outcome (option Z)) (f : Z -> cval) : outcome cval :=
  o <-! r; OK (match o with None => VNull | Some z => f z end).

(* Codec.Decode of a scalar codec, up to the canonical intermediate value (VNull when wasNull) *)
Definition dec_scalar (s : scalar) (src : option bytes) : outcome cval :=
  match s with
  | SBigint | SCounter | STimestamp => lift_int (readInt64 src) VInt
  | STime =>
      (* the untyped destination receives a time.Duration: ConvertNanosOfDayToDuration refuses values outside
         [0, TimeMaxDuration = 24h - 1ns] (a typed *int64 destination would accept them) *)
      o <-! readInt64 src;
      match o with
      | None => OK VNull
      | Some z => if (z <? 0) || (86399999999999 <? z) then ERR else OK (VInt z)
      end
  | SInt => lift_int (readInt32 src) VInt
  | SSmallint => lift_int (readInt16 src) VInt
  | STinyint => lift_int (readInt8 src) VInt
  | SDate => lift_int (readInt32 src) (fun val => VInt (wrap_i32 (val + (- 2 ^ 31))))
  | SVarint => OK (match readBigInt src with None => VNull | Some z => VInt z end)
  | SDecimal =>
      if src_len src =? 0 then OK VNull
      else if src_len src <=? 4 then ERR
      else OK (VDecimal (wrap_i32 (be_val (firstn 4 (src_bytes src))))
                        (match readBigInt (Some (skipn 4 (src_bytes src))) with Some z => z | None => 0 end))
  | SDuration => readDuration src
  | SBoolean =>
      if src_len src =? 0 then OK VNull
      else if negb (src_len src =? 1) then ERR
      else OK (VBool (negb (hd 0 (src_bytes src) =? 0)))
  | SFloat => lift_int (readFloat32 src) VFloat
  | SDouble => lift_int (readFloat64 src) VFloat
  | SAscii | SVarchar | SBlob | SCustom => OK (match src with None => VNull | Some bs => VBytes bs end)   (* wasNull = val == nil *)
  | SUuid | STimeuuid =>
      if src_len src =? 0 then OK VNull
      else if negb (src_len src =? 16) then ERR
      else OK (VUuid (src_bytes src))
  | SInet =>
      if src_len src =? 0 then OK VNull
      else if (src_len src =? 4) || (src_len src =? 16) then OK (VInet (compactV4 (src_bytes src)))
      else ERR
  end.
