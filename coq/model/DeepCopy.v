(* C17 - deep-copy plans and their semantics (DESIGN.md 3 C17, 8.3).  DEFINITIONS ONLY; proofs are in proofs/DeepCopyProofs.v.

   The translator unit `deepcopy` (tools/go2coq/unit_deepcopy.go) emits, from the current source of /repo,
     dc_env    : the SHAPE of every type that has a deep-copy operation,
     dc_ifaces : the implementations of the interfaces that occur in those shapes,
     dc_funcs  : the COPY PLAN of every DeepCopy* method, read off the AST of its body.
   This file gives plans a semantics over label-annotated value trees with an allocation counter:
   a label (`loc`) names one piece of mutable memory (the target of a pointer, the backing array of a slice, a map);
   two nodes with the same label are the same memory.  A copy is independent of its original when no label of the
   copy occurs in the original.

   What is abstracted (named in notes/copy.md): values are finite trees (a cyclic Go value makes the real DeepCopy
   diverge); a slice is its elements [0,len) (capacity beyond len is not reachable from the copy, which is made with
   cap = len); maps are association lists in one fixed key order. *)
From Coq Require Import ZArith List String Bool Arith.
Import ListNotations.
Open Scope string_scope.

Definition tyname := string.
Definition loc := nat.
Bind Scope nat_scope with loc.

(* ---- shapes *)
Inductive ty :=
| TScalar                      (* bool, integers, floats and named types over them *)
| TString
| TPtr (t : ty)
| TSlice (t : ty)
| TArray (n : nat) (t : ty)
| TMap (k v : ty)
| TIface (i : tyname)          (* an interface of the module; dynamic values are pointers to its implementations *)
| TNamed (n : tyname).         (* a declared type, see tyenv *)

Inductive decl :=
| DStruct (fs : list (string * ty))
| DAlias (t : ty).             (* a named non-struct type that has its own copy method (primitive.UUID = [16]byte) *)

Definition tyenv := list (tyname * decl).
Definition ifenv := list (tyname * list tyname).

(* ---- plans: one constructor per statement shape of deepcopy-gen *)
Inductive plan :=
| PShallow                     (* dst = src                                       ( *out = *in, **out = **in, out[key] = val ) *)
| PSkip                        (* dst is never written: it keeps its zero value   ( *out = *in missing ) *)
| PNilOr (p : plan)            (* if src != nil { p }                             ( otherwise dst stays nil ) *)
| PNew (p : plan)              (* *out = new(T); p on the pointee *)
| PMakeCopy                    (* *out = make([]T, len( *in)); copy( *out, *in) *)
| PMakeLoop (p : plan)         (* *out = make([]T, len( *in)); for i := range *in { p on element i } *)
| PMapLoop (p : plan)          (* *out = make(map[K]V, len( *in)); for key, val := range *in { ( *out)[key] = p(val) } *)
| PCall (f : string)           (* call of the named copy function on the same value *)
| PCallIface (m : string).     (* src.m() dispatched on the dynamic type of the interface value src *)

Inductive fbody :=
| FPlain (arg : ty) (p : plan)                     (* func (in *T) DeepCopy() *T : a plan over a value of kind arg *)
| FStruct (n : tyname) (fs : list (string * plan)) (* func (in *T) DeepCopyInto(out *T) : one plan per field, in declaration order *)
| FToIface (n i : tyname) (p : plan).              (* func (in *T) DeepCopyI() I { if c := p(in); c != nil { return c }; return nil } *)

Definition ftable := list (string * fbody).

(* ---- values *)
Inductive val :=
| VS (z : Z)
| VStr (s : string)
| VNil                                   (* nil pointer / slice / map / interface *)
| VPtr (l : loc) (v : val)
| VSlice (l : loc) (vs : list val)
| VArr (vs : list val)
| VMap (l : loc) (kvs : list (val * val))
| VStruct (fs : list val)
| VIface (n : tyname) (v : val).         (* dynamic type *n, v the pointer *)

Fixpoint assoc {A : Type} (k : string) (l : list (string * A)) : option A :=
  match l with
  | [] => None
  | (k', a) :: r => if String.eqb k k' then Some a else assoc k r
  end.

Definition method_name (n m : string) : string := n ++ "." ++ m.

(* what equality of copies means: the same tree once labels are forgotten *)
Fixpoint erase (v : val) : val :=
  match v with
  | VPtr _ v0 => VPtr 0 (erase v0)
  | VSlice _ vs => VSlice 0 (map erase vs)
  | VArr vs => VArr (map erase vs)
  | VMap _ kvs => VMap 0 (map (fun kv => match kv with (a, b) => (erase a, erase b) end) kvs)
  | VStruct fs => VStruct (map erase fs)
  | VIface n v0 => VIface n (erase v0)
  | _ => v
  end.

(* every piece of mutable memory reachable from a value *)
Fixpoint locs (v : val) : list loc :=
  match v with
  | VPtr l v0 => l :: locs v0
  | VSlice l vs => l :: flat_map locs vs
  | VArr vs => flat_map locs vs
  | VMap l kvs => l :: flat_map (fun kv => match kv with (a, b) => (locs a ++ locs b)%list end) kvs
  | VStruct fs => flat_map locs fs
  | VIface _ v0 => locs v0
  | _ => []
  end.

Fixpoint zero (v : val) : val :=
  match v with
  | VS _ => VS 0
  | VStr _ => VStr ""
  | VArr vs => VArr (map zero vs)
  | VStruct fs => VStruct (map zero fs)
  | _ => VNil
  end.

(* the effect, on the view v, of a write through location l: every node that IS location l has its content replaced *)
Fixpoint poke (l : loc) (w : val -> val) (v : val) : val :=
  match v with
  | VPtr l' v0 => let v1 := VPtr l' (poke l w v0) in if Nat.eqb l' l then w v1 else v1
  | VSlice l' vs => let v1 := VSlice l' (map (poke l w) vs) in if Nat.eqb l' l then w v1 else v1
  | VArr vs => VArr (map (poke l w) vs)
  | VMap l' kvs => let v1 := VMap l' (map (fun kv => match kv with (a, b) => (poke l w a, poke l w b) end) kvs) in
                   if Nat.eqb l' l then w v1 else v1
  | VStruct fs => VStruct (map (poke l w) fs)
  | VIface n v0 => VIface n (poke l w v0)
  | _ => v
  end.

(* ---- running a plan.  `next` is the allocation counter: every new / make takes the next label (pre-order). *)
Definition runner := loc -> val -> option (loc * val).

Fixpoint run_list (r : runner) (next : loc) (vs : list val) : option (loc * list val) :=
  match vs with
  | [] => Some (next, [])
  | x :: xs =>
    match r next x with
    | None => None
    | Some (n1, x') => match run_list r n1 xs with None => None | Some (n2, xs') => Some (n2, x' :: xs') end
    end
  end.

Fixpoint run_entries (r : runner) (next : loc) (kvs : list (val * val)) : option (loc * list (val * val)) :=
  match kvs with
  | [] => Some (next, [])
  | (k, x) :: xs =>
    match r next x with
    | None => None
    | Some (n1, x') => match run_entries r n1 xs with None => None | Some (n2, xs') => Some (n2, (k, x') :: xs') end
    end
  end.

Fixpoint run_fields (r : plan -> runner) (next : loc) (vs : list val) (ps : list (string * plan)) : option (loc * list val) :=
  match vs, ps with
  | [], [] => Some (next, [])
  | x :: xs, (_, p) :: ps' =>
    match r p next x with
    | None => None
    | Some (n1, x') => match run_fields r n1 xs ps' with None => None | Some (n2, xs') => Some (n2, x' :: xs') end
    end
  | _, _ => None
  end.

Section Run.
  Variable F : ftable.

  (* None: the Go code panics (nil dereference, method call on a nil interface), the table is incomplete, or fuel ran out *)
  Fixpoint run (fuel : nat) (p : plan) (next : loc) (v : val) {struct fuel} : option (loc * val) :=
    match fuel with
    | O => None
    | S fuel =>
      let call (f : string) (next : loc) (v : val) : option (loc * val) :=
        match assoc f F with
        | Some (FPlain _ q) => run fuel q next v
        | Some (FStruct _ fps) =>
          match v with
          | VStruct vs => match run_fields (run fuel) next vs fps with Some (n', vs') => Some (n', VStruct vs') | None => None end
          | _ => None
          end
        | Some (FToIface n _ q) =>
          match run fuel q next v with
          | Some (n', VNil) => Some (n', VNil)          (* `return nil`: the untyped nil interface *)
          | Some (n', v') => Some (n', VIface n v')
          | None => None
          end
        | None => None
        end in
      match p with
      | PShallow => Some (next, v)
      | PSkip => Some (next, zero v)
      | PNilOr q => match v with VNil => Some (next, VNil) | _ => run fuel q next v end
      | PNew q =>
        match v with
        | VPtr _ v0 => match run fuel q (S next) v0 with Some (n', v0') => Some (n', VPtr next v0') | None => None end
        | _ => None
        end
      | PMakeCopy =>
        match v with
        | VSlice _ vs => Some (S next, VSlice next vs)
        | VNil => Some (S next, VSlice next [])           (* make([]T, len(nil)) : empty, not nil *)
        | _ => None
        end
      | PMakeLoop q =>
        match v with
        | VSlice _ vs => match run_list (run fuel q) (S next) vs with Some (n', vs') => Some (n', VSlice next vs') | None => None end
        | VNil => Some (S next, VSlice next [])
        | _ => None
        end
      | PMapLoop q =>
        match v with
        | VMap _ kvs => match run_entries (run fuel q) (S next) kvs with Some (n', kvs') => Some (n', VMap next kvs') | None => None end
        | VNil => Some (S next, VMap next [])
        | _ => None
        end
      | PCall f => call f next v
      | PCallIface m =>
        match v with
        | VIface n v0 => call (method_name n m) next v0
        | _ => None
        end
      end
    end.
End Run.

(* ---- typing of values and adequacy of plans *)
Fixpoint ty_eqb (a b : ty) : bool :=
  match a, b with
  | TScalar, TScalar | TString, TString => true
  | TPtr x, TPtr y | TSlice x, TSlice y => ty_eqb x y
  | TArray n x, TArray m y => Nat.eqb n m && ty_eqb x y
  | TMap k x, TMap l y => ty_eqb k l && ty_eqb x y
  | TIface i, TIface j | TNamed i, TNamed j => String.eqb i j
  | _, _ => false
  end.

Definition nilable (k : ty) : bool :=
  match k with TPtr _ | TSlice _ | TMap _ _ | TIface _ => true | _ => false end.

Section Typing.
  Variables (E : tyenv) (I : ifenv).

  (* Interface values hold NON-NIL pointers: a typed nil pointer inside an interface is outside has_kind, because the
     generated DeepCopy<Interface> turns it into the untyped nil interface (see typed_nil_in_interface_not_preserved). *)
  Inductive has_kind : val -> ty -> Prop :=
  | HK_scalar z : has_kind (VS z) TScalar
  | HK_string s : has_kind (VStr s) TString
  | HK_ptr_nil t : has_kind VNil (TPtr t)
  | HK_ptr l v t : has_kind v t -> has_kind (VPtr l v) (TPtr t)
  | HK_slice_nil t : has_kind VNil (TSlice t)
  | HK_slice l vs t : Forall (fun x => has_kind x t) vs -> has_kind (VSlice l vs) (TSlice t)
  | HK_arr vs n t : List.length vs = n -> Forall (fun x => has_kind x t) vs -> has_kind (VArr vs) (TArray n t)
  | HK_map_nil kt vt : has_kind VNil (TMap kt vt)
  | HK_map l kvs kt vt : Forall (fun kv => has_kind (fst kv) kt /\ has_kind (snd kv) vt) kvs -> has_kind (VMap l kvs) (TMap kt vt)
  | HK_iface_nil i : has_kind VNil (TIface i)
  | HK_iface i impls n l v : assoc i I = Some impls -> In n impls -> has_kind (VPtr l v) (TPtr (TNamed n)) ->
                             has_kind (VIface n (VPtr l v)) (TIface i)
  | HK_struct n fs vs : assoc n E = Some (DStruct fs) -> Forall2 (fun v ft => has_kind v (snd ft)) vs fs -> has_kind (VStruct vs) (TNamed n)
  | HK_alias n t v : assoc n E = Some (DAlias t) -> has_kind v t -> has_kind v (TNamed n).

  (* executable version, used by the correspondence check on the values the harness built by reflection *)
  Fixpoint has_kind_b (fuel : nat) (v : val) (k : ty) {struct fuel} : bool :=
    match fuel with
    | O => false
    | S fuel =>
      match k, v with
      | TScalar, VS _ => true
      | TString, VStr _ => true
      | TPtr _, VNil => true
      | TPtr t, VPtr _ v0 => has_kind_b fuel v0 t
      | TSlice _, VNil => true
      | TSlice t, VSlice _ vs => forallb (fun x => has_kind_b fuel x t) vs
      | TArray n t, VArr vs => Nat.eqb (List.length vs) n && forallb (fun x => has_kind_b fuel x t) vs
      | TMap _ _, VNil => true
      | TMap kt vt, VMap _ kvs => forallb (fun kv => has_kind_b fuel (fst kv) kt && has_kind_b fuel (snd kv) vt) kvs
      | TIface _, VNil => true
      | TIface i, VIface n (VPtr l v0) =>
        match assoc i I with
        | Some impls => existsb (String.eqb n) impls && has_kind_b fuel (VPtr l v0) (TPtr (TNamed n))
        | None => false
        end
      | TNamed n, _ =>
        match assoc n E with
        | Some (DStruct fs) =>
          match v with
          | VStruct vs => (fix go (vs : list val) (fs : list (string * ty)) : bool :=
                             match vs, fs with
                             | [], [] => true
                             | x :: vs', (_, t) :: fs' => has_kind_b fuel x t && go vs' fs'
                             | _, _ => false
                             end) vs fs
          | _ => false
          end
        | Some (DAlias t) => has_kind_b fuel v t
        | None => false
        end
      | _, _ => false
      end
    end.

  (* kinds without mutable reach: a shallow copy of such a value shares nothing that can be written *)
  Fixpoint immutable (fuel : nat) (k : ty) {struct fuel} : bool :=
    match fuel with
    | O => false
    | S fuel =>
      match k with
      | TScalar | TString => true
      | TArray _ t => immutable fuel t
      | TNamed n =>
        match assoc n E with
        | Some (DStruct fs) => forallb (fun f => immutable fuel (snd f)) fs
        | Some (DAlias t) => immutable fuel t
        | None => false
        end
      | _ => false
      end
    end.

  Definition imm (k : ty) : bool := immutable (List.length E + 16) k.

  Variable F : ftable.

  Definition fn_accepts (f : string) (k : ty) : bool :=
    match assoc f F with
    | Some (FPlain a _) => ty_eqb a k
    | Some (FStruct n _) => ty_eqb (TNamed n) k
    | _ => false
    end.

  Definition impl_has (i m n : string) : bool :=
    match assoc (method_name n m) F with
    | Some (FToIface n' i' _) => String.eqb n n' && String.eqb i i'
    | _ => false
    end.

  (* adequate nn k p: plan p copies every value of kind k (known non-nil when nn) to an equal value none of whose
     mutable memory is shared with the original, PROVIDED every function of the table is adequate for its own
     argument kind (fn_ok below): the judgement is local, as deepcopy-gen's own is. *)
  Fixpoint adequate (nn : bool) (k : ty) (p : plan) : bool :=
    match p with
    | PShallow => imm k
    | PSkip => false
    | PNilOr q => nilable k && adequate true k q
    | PNew q => nn && match k with TPtr t => adequate false t q | _ => false end
    | PMakeCopy => nn && match k with TSlice t => imm t | _ => false end
    | PMakeLoop q => nn && match k with TSlice t => adequate false t q | _ => false end
    | PMapLoop q => nn && match k with TMap kt vt => imm kt && adequate false vt q | _ => false end
    | PCall f => fn_accepts f k
    | PCallIface m =>
      nn && match k with
            | TIface i => match assoc i I with Some impls => forallb (impl_has i m) impls | None => false end
            | _ => false
            end
    end.

  Fixpoint fields_ok (fs : list (string * ty)) (fps : list (string * plan)) : bool :=
    match fs, fps with
    | [], [] => true
    | (a, t) :: fs', (b, q) :: fps' => String.eqb a b && adequate false t q && fields_ok fs' fps'
    | _, _ => false
    end.

  Definition fn_ok (e : string * fbody) : bool :=
    match snd e with
    | FPlain a q => adequate false a q
    | FStruct n fps => match assoc n E with Some (DStruct fs) => fields_ok fs fps | _ => false end
    | FToIface n i q =>
      adequate false (TPtr (TNamed n)) q &&
      match assoc i I with Some impls => existsb (String.eqb n) impls | None => false end
    end.

  (* every root type has a DeepCopy() over pointers to itself *)
  Definition root_ok (r : string) : bool :=
    match assoc (method_name r "DeepCopy") F with
    | Some (FPlain a _) => ty_eqb a (TPtr (TNamed r))
    | _ => false
    end.

  Definition table_adequate (roots : list string) : bool := forallb fn_ok F && forallb root_ok roots.

  (* diagnostics for the check: the functions / field paths whose plan is not adequate *)
  Definition inadequate_functions : list string := map fst (filter (fun e => negb (fn_ok e)) F).

  Fixpoint bad_fields (fs : list (string * ty)) (fps : list (string * plan)) : list string :=
    match fs, fps with
    | (a, t) :: fs', (b, q) :: fps' =>
      ((if String.eqb a b && adequate false t q then [] else [a]) ++ bad_fields fs' fps')%list
    | [], [] => []
    | (a, _) :: _, [] => [a ++ " (no plan: the declaration has a field the copy function does not know)"]
    | [], (b, _) :: _ => [b ++ " (plan for a field that is not declared)"]
    end.

  Definition inadequate_fields : list (string * list string) :=
    flat_map (fun e => match snd e with
                       | FStruct n fps =>
                         match assoc n E with
                         | Some (DStruct fs) => match bad_fields fs fps with [] => [] | l => [(fst e, l)] end
                         | _ => [(fst e, ["(type not declared as a struct)"])]
                         end
                       | _ => []
                       end) F.
End Typing.

(* ---- boolean equality of values (for the correspondence check: model copy = implementation copy, labels included) *)
Fixpoint val_eqb (a b : val) {struct a} : bool :=
  let fix list_eqb (xs ys : list val) {struct xs} : bool :=
    match xs, ys with
    | [], [] => true
    | x :: xs', y :: ys' => val_eqb x y && list_eqb xs' ys'
    | _, _ => false
    end in
  match a, b with
  | VS x, VS y => Z.eqb x y
  | VStr x, VStr y => String.eqb x y
  | VNil, VNil => true
  | VPtr l x, VPtr m y => Nat.eqb l m && val_eqb x y
  | VSlice l xs, VSlice m ys => Nat.eqb l m && list_eqb xs ys
  | VArr xs, VArr ys => list_eqb xs ys
  | VMap l xs, VMap m ys =>
    Nat.eqb l m &&
    (fix map_eqb (xs ys : list (val * val)) {struct xs} : bool :=
       match xs, ys with
       | [], [] => true
       | (k, x) :: xs', (k', y) :: ys' => val_eqb k k' && val_eqb x y && map_eqb xs' ys'
       | _, _ => false
       end) xs ys
  | VStruct xs, VStruct ys => list_eqb xs ys
  | VIface n x, VIface m y => String.eqb n m && val_eqb x y
  | _, _ => false
  end.

(* labels of a value that are old, i.e. memory of the original that the copy still reaches *)
Definition shared_with_original (next : loc) (copy : val) : list loc := filter (fun l => Nat.ltb l next) (locs copy).

(* What the correspondence check compares: for every node of a copy, whether its memory is fresh (0) or WHICH location of the
   original it is (S l).  Zero-size allocations (empty slices, pointers to empty structs / arrays) carry no mutable memory and
   the Go runtime gives them all the same address, so their identity is not observable: their label is masked. *)
Definition zero_size (v : val) : bool :=
  match v with VStruct [] | VArr [] => true | _ => false end.

Fixpoint mask (next : loc) (v : val) : val :=
  let m (l : loc) : loc := if Nat.ltb l next then S l else 0 in
  match v with
  | VPtr l v0 => VPtr (if zero_size v0 then 0 else m l) (mask next v0)
  | VSlice l vs => VSlice (match vs with [] => 0 | _ => m l end) (map (mask next) vs)
  | VArr vs => VArr (map (mask next) vs)
  | VMap l kvs => VMap (m l) (map (fun kv => match kv with (a, b) => (mask next a, mask next b) end) kvs)
  | VStruct fs => VStruct (map (mask next) fs)
  | VIface n v0 => VIface n (mask next v0)
  | _ => v
  end.
