(* Frames: model of /repo/frame/{frame,codec,encode,decode,convert}.go, parametric in the message codecs
   (record [msg_codec]) and in the body compressor.  Encoder, length computation and decoder are mirrored
   separately, statement by statement (definitions only). *)
From Coq Require Import ZArith List Bool.
From GCNP Require Import base.GoInt base.Bytes base.Codec gen.Constants_gen model.Prim model.DataType model.MsgTypes.
Import ListNotations.
Open Scope Z_scope.

Record Header := {
  h_IsResponse : bool;
  h_Version : Z;
  h_Flags : Z;
  h_StreamId : Z;
  h_OpCode : Z;
  h_BodyLength : Z
}.
(* Body.Warnings is nil-significant below v4, hence an option *)
Record Body := {
  bd_TracingId : option bytes;
  bd_CustomPayload : list (bytes * option bytes);
  bd_Warnings : option (list bytes);
  bd_Message : Message
}.
Record Frame := { f_Header : Header; f_Body : Body }.
Record RawFrame := { rf_Header : Header; rf_Body : option bytes }.

(* GetOpCode / IsResponse of each message struct *)
Definition msg_opcode (m : Message) : Z :=
  match m with
  | M_Startup _ => OpCodeStartup | M_Options => OpCodeOptions | M_Query _ => OpCodeQuery | M_Prepare _ => OpCodePrepare
  | M_Execute _ => OpCodeExecute | M_Register _ => OpCodeRegister | M_Batch _ => OpCodeBatch
  | M_AuthResponse _ => OpCodeAuthResponse | M_Revise _ => OpCodeDseRevise
  | M_Ready => OpCodeReady | M_Authenticate _ => OpCodeAuthenticate | M_Supported _ => OpCodeSupported
  | M_AuthChallenge _ => OpCodeAuthChallenge | M_AuthSuccess _ => OpCodeAuthSuccess
  | M_ServerError _ | M_ProtocolError _ | M_AuthenticationError _ | M_Overloaded _ | M_IsBootstrapping _
  | M_TruncateError _ | M_SyntaxError _ | M_Unauthorized _ | M_Invalid _ | M_ConfigError _
  | M_Unavailable _ | M_ReadTimeout _ | M_WriteTimeout _ | M_ReadFailure _ | M_WriteFailure _
  | M_FunctionFailure _ | M_Unprepared _ | M_AlreadyExists _ => OpCodeError
  | M_SchemaChangeEvent _ | M_StatusChangeEvent _ | M_TopologyChangeEvent _ => OpCodeEvent
  | M_VoidResult | M_SetKeyspaceResult _ | M_SchemaChangeResult _ | M_PreparedResult _ | M_RowsResult _ => OpCodeResult
  end.
Definition msg_is_response (m : Message) : bool :=
  match m with
  | M_Startup _ | M_Options | M_Query _ | M_Prepare _ | M_Execute _ | M_Register _ | M_Batch _
  | M_AuthResponse _ | M_Revise _ => false
  | _ => true
  end.

(* the message codecs registered in a frame codec (message.DefaultMessageCodecs) *)
Record msg_codec := {
  mc_encode : Z -> Message -> W;           (* Encode(msg, dest, version) of the codec registered for msg's opcode *)
  mc_length : Z -> Message -> L;           (* EncodedLength(msg, version) *)
  mc_decode : Z -> Z -> R Message          (* Decode(source, version) of the codec registered for the opcode *)
}.

(* BodyCompressor: CompressWithLength / DecompressWithLength on whole buffers *)
Record compressor := {
  cmp_compress : bytes -> result bytes;
  cmp_decompress : bytes -> result bytes
}.

Definition has (flags flag : Z) : bool := HeaderFlag_Contains flags flag.

(* frame/decode.go DecodeHeader: opcode 0xFF (REVISE_REQUEST) is defined by the DSE versions only *)
Definition dse_opcode_ok (version opcode : Z) : bool :=
  negb ((opcode =? OpCodeDseRevise) && negb (ProtocolVersion_IsDse version)).

Section FrameCodec.
  Variable mc : msg_codec.
  Variable comp : option compressor.

  (* ---- encode.go ---- *)
  Definition uncompressed_body_length (h : Header) (b : Body) : L :=
    mc_length mc (h_Version h) (bd_Message b) +l+
    (if has (h_Flags h) HeaderFlagTracing && msg_is_response (bd_Message b) then Ok LengthOfUuid else Ok 0) +l+
    (if has (h_Flags h) HeaderFlagCustomPayload then Ok (len_bytes_map (bd_CustomPayload b)) else Ok 0) +l+
    (if has (h_Flags h) HeaderFlagWarning && msg_is_response (bd_Message b) then Ok (len_string_list (olist (bd_Warnings b))) else Ok 0).

  Definition encode_header (h : Header) : W :=
    let useBeta := has (h_Flags h) HeaderFlagUseBeta in
    wguard (is_ok (CheckSupportedProtocolVersion (h_Version h))) +++
    wguard (negb (ProtocolVersion_IsBeta (h_Version h) && negb useBeta)) +++
    write_byte (Z.lor (wrap_u 8 (h_Version h)) (if h_IsResponse h then 128 else 0)) +++
    write_byte (wrap_u 8 (h_Flags h)) +++
    write_stream_id (h_Version h) (h_StreamId h) +++
    write_byte (wrap_u 8 (h_OpCode h)) +++
    write_int (h_BodyLength h).

  Definition encode_body_uncompressed (h : Header) (b : Body) : W :=
    (if has (h_Flags h) HeaderFlagTracing && msg_is_response (bd_Message b) then write_uuid (bd_TracingId b) else Ok []) +++
    (if has (h_Flags h) HeaderFlagWarning && msg_is_response (bd_Message b) then
       (if Z.ltb (h_Version h) ProtocolVersion4 && (match bd_Warnings b with Some _ => true | None => false end) then Err
        else write_string_list (olist (bd_Warnings b)))
     else Ok []) +++
    (if has (h_Flags h) HeaderFlagCustomPayload then
       (if Z.ltb (h_Version h) ProtocolVersion4 then Err else write_bytes_map (bd_CustomPayload b))
     else Ok []) +++
    mc_encode mc (h_Version h) (bd_Message b).

  Definition encode_body (h : Header) (b : Body) : W :=
    if negb (h_OpCode h =? msg_opcode (bd_Message b)) then Err
    else if has (h_Flags h) HeaderFlagCompressed then
      match comp with
      | None => Err
      | Some c =>
          match uncompressed_body_length h b with
          | Err => Err
          | Ok _ =>
              match encode_body_uncompressed h b with
              | Err => Err
              | Ok raw => cmp_compress c raw
              end
          end
      end
    else encode_body_uncompressed h b.

  Definition with_body_length (h : Header) (n : Z) : Header :=
    {| h_IsResponse := h_IsResponse h; h_Version := h_Version h; h_Flags := h_Flags h; h_StreamId := h_StreamId h;
       h_OpCode := h_OpCode h; h_BodyLength := n |}.

  (* EncodeFrame: returns the bytes (the Go code also stores the body length into frame.Header) *)
  Definition encode_frame (f : Frame) : W :=
    let h := f_Header f in let b := f_Body f in
    if has (h_Flags h) HeaderFlagCompressed then
      match encode_body h b with
      | Err => Err
      | Ok body => encode_header (with_body_length h (wrap_i 32 (zlen body))) +++ Ok body
      end
    else
      match uncompressed_body_length h b with
      | Err => Err
      | Ok n => let h' := with_body_length h (wrap_i 32 n) in encode_header h' +++ encode_body h' b
      end.

  Definition encode_raw_frame (rf : RawFrame) : W :=
    wguard (is_ok (CheckSupportedProtocolVersion (h_Version (rf_Header rf)))) +++
    encode_header (with_body_length (rf_Header rf) (wrap_i 32 (zlen (olist (rf_Body rf))))) +++ Ok (olist (rf_Body rf)).

  (* ---- decode.go ---- *)
  Definition decode_header : R Header :=
    vd <- read_byte ;;
    let isResponse := Z.gtb (Z.land vd 128) 0 in
    let version := Z.land vd 127 in
    flags <- read_byte ;;
    let useBeta := has flags HeaderFlagUseBeta in
    rguard (is_ok (CheckSupportedProtocolVersion version)) ;;;
    rguard (negb (ProtocolVersion_IsBeta version && negb useBeta)) ;;;
    sid <- read_stream_id version ;;
    opcode <- read_byte ;;
    len <- read_int ;;
    rguard (is_ok (CheckValidOpCode opcode)) ;;;
    rguard (dse_opcode_ok version opcode) ;;;
    rguard (if isResponse then is_ok (CheckResponseOpCode opcode) else is_ok (CheckRequestOpCode opcode)) ;;;
    ret {| h_IsResponse := isResponse; h_Version := version; h_Flags := flags; h_StreamId := sid;
           h_OpCode := opcode; h_BodyLength := len |}.

  Definition decode_body_parts (h : Header) : R Body :=
    tr <- (if h_IsResponse h && has (h_Flags h) HeaderFlagTracing then rmap Some read_uuid else ret None) ;;
    wa <- (if h_IsResponse h && has (h_Flags h) HeaderFlagWarning then rmap Some read_string_list else ret None) ;;
    cp <- (if has (h_Flags h) HeaderFlagCustomPayload then rmap (@dedup_last _) read_bytes_map else ret []) ;;
    m <- mc_decode mc (h_Version h) (h_OpCode h) ;;
    ret {| bd_TracingId := tr; bd_CustomPayload := cp; bd_Warnings := wa; bd_Message := m |}.

  (* DecodeBody: the body is cut out of the source by a reader limited to BodyLength bytes (a compressed body is
     decompressed from it; an uncompressed one is decoded from it and what the message does not use is skipped,
     which fails when the source ends before the declared length) *)
  Definition decode_body (h : Header) : R Body :=
    if has (h_Flags h) HeaderFlagCompressed then
      match comp with
      | None => rfail
      | Some c =>
          fun bs =>
            let n := if h_BodyLength h <? 0 then 0%nat else Z.to_nat (Z.min (h_BodyLength h) (zlen bs)) in
            match cmp_decompress c (firstn n bs) with
            | Err => DErr
            | Ok raw =>
                match decode_body_parts h raw with
                | DOk b _ => DOk b (skipn n bs)
                | DErr => DErr | DPanic => DPanic | DFuel => DFuel
                end
            end
      end
    else
      fun bs =>
        let n := if h_BodyLength h <? 0 then 0%nat else Z.to_nat (Z.min (h_BodyLength h) (zlen bs)) in
        match decode_body_parts h (firstn n bs) with
        | DOk b _ => if h_BodyLength h <=? zlen bs then DOk b (skipn n bs) else DErr
        | DErr => DErr | DPanic => DPanic | DFuel => DFuel
        end.

  Definition decode_frame : R Frame :=
    h <- decode_header ;; b <- decode_body h ;; ret {| f_Header := h; f_Body := b |}.

  Definition decode_raw_body (h : Header) : R (option bytes) :=
    if h_BodyLength h <? 0 then rfail
    else if h_BodyLength h =? 0 then ret (Some [])
    else rmap Some (read_raw (h_BodyLength h)).

  Definition decode_raw_frame : R RawFrame :=
    h <- decode_header ;; b <- decode_raw_body h ;; ret {| rf_Header := h; rf_Body := b |}.

  (* DiscardBody on a non-seekable source (io.CopyN to Discard) and on a seekable one (Seek past the body:
     bytes.Reader.Seek does not fail beyond the end) *)
  Definition discard_body (h : Header) : R unit :=
    if h_BodyLength h <? 0 then rfail
    else if h_BodyLength h =? 0 then ret tt
    else rmap (fun _ => tt) (read_raw (h_BodyLength h)).
  Definition discard_body_seek (h : Header) : R unit :=
    if h_BodyLength h <? 0 then rfail
    else if h_BodyLength h =? 0 then ret tt
    else fun bs => DOk tt (skipn (Z.to_nat (Z.min (h_BodyLength h) (zlen bs))) bs).

  (* ---- convert.go ---- *)
  Definition convert_to_raw (f : Frame) : result RawFrame :=
    match encode_body (f_Header f) (f_Body f) with
    | Err => Err
    | Ok body => Ok {| rf_Header := with_body_length (f_Header f) (wrap_i 32 (zlen body)); rf_Body := Some body |}
    end.
  Definition convert_from_raw (rf : RawFrame) : result Frame :=
    match decode_body (rf_Header rf) (olist (rf_Body rf)) with
    | DOk b _ => Ok {| f_Header := rf_Header rf; f_Body := b |}
    | _ => Err
    end.

  (* a stream of frames written back to back *)
  Fixpoint decode_frames (n : nat) : R (list Frame) :=
    match n with
    | O => ret []
    | S k => f <- decode_frame ;; fs <- decode_frames k ;; ret (f :: fs)
    end.
End FrameCodec.

(* ---- frame.go: constructor and mutators ---- *)
Definition NewFrame (version streamId : Z) (m : Message) : Frame :=
  {| f_Header := {| h_IsResponse := msg_is_response m; h_Version := version;
                    h_Flags := (if ProtocolVersion_IsBeta version then HeaderFlag_Add 0 HeaderFlagUseBeta else 0);
                    h_StreamId := streamId; h_OpCode := msg_opcode m; h_BodyLength := 0 |};
     f_Body := {| bd_TracingId := None; bd_CustomPayload := []; bd_Warnings := None; bd_Message := m |} |}.

Definition set_flags (f : Frame) (flags : Z) : Frame :=
  let h := f_Header f in
  {| f_Header := {| h_IsResponse := h_IsResponse h; h_Version := h_Version h; h_Flags := flags; h_StreamId := h_StreamId h;
                    h_OpCode := h_OpCode h; h_BodyLength := h_BodyLength h |};
     f_Body := f_Body f |}.
Definition set_body (f : Frame) (b : Body) : Frame := {| f_Header := f_Header f; f_Body := b |}.
Definition flag_set (flags flag : Z) (on : bool) : Z :=
  if on then HeaderFlag_Add flags flag else HeaderFlag_Remove flags flag.

Definition isCompressible (opCode : Z) : bool :=
  negb (opCode =? OpCodeStartup) && negb (opCode =? OpCodeOptions) && negb (opCode =? OpCodeReady).

Definition SetCustomPayload (f : Frame) (p : list (bytes * option bytes)) : Frame :=
  let b := f_Body f in
  set_body (set_flags f (flag_set (h_Flags (f_Header f)) HeaderFlagCustomPayload (Z.gtb (zlen p) 0)))
           {| bd_TracingId := bd_TracingId b; bd_CustomPayload := p; bd_Warnings := bd_Warnings b; bd_Message := bd_Message b |}.
Definition SetWarnings (f : Frame) (w : option (list bytes)) : Frame :=
  let b := f_Body f in
  set_body (set_flags f (flag_set (h_Flags (f_Header f)) HeaderFlagWarning (Z.gtb (zlen (olist w)) 0)))
           {| bd_TracingId := bd_TracingId b; bd_CustomPayload := bd_CustomPayload b; bd_Warnings := w; bd_Message := bd_Message b |}.
Definition SetTracingId (f : Frame) (t : option bytes) : Frame :=
  let b := f_Body f in
  set_body (set_flags f (flag_set (h_Flags (f_Header f)) HeaderFlagTracing (match t with Some _ => true | None => false end)))
           {| bd_TracingId := t; bd_CustomPayload := bd_CustomPayload b; bd_Warnings := bd_Warnings b; bd_Message := bd_Message b |}.
Definition RequestTracingId (f : Frame) (tracing : bool) : Frame :=
  set_flags f (flag_set (h_Flags (f_Header f)) HeaderFlagTracing tracing).
Definition SetCompress (f : Frame) (compress : bool) : Frame :=
  set_flags f (flag_set (h_Flags (f_Header f)) HeaderFlagCompressed
                 (compress && isCompressible (msg_opcode (bd_Message (f_Body f))))).
