(* Data type descriptors ([option] notation of RESULT metadata): model of /repo/datatype/*.go.
   WriteDataType / LengthOfDataType / ReadDataType mirrored separately (definitions only). *)
From Coq Require Import ZArith List Bool.
From GCNP Require Import base.GoInt base.Bytes base.Codec gen.Constants_gen model.Prim.
Import ListNotations.
Open Scope Z_scope.

(* Go: interface DataType implemented by *PrimitiveType, *Custom, *List, *Map, *Set, *Tuple, *UserDefined;
   an interface-typed field may be nil: option *)
Inductive DataType : Type :=
| DT_Primitive (code : Z)
| DT_Custom (cls : bytes)
| DT_List (e : option DataType)
| DT_Map (k v : option DataType)
| DT_Set (e : option DataType)
| DT_Tuple (fs : list (option DataType))
| DT_Udt (ks name : bytes) (names : list bytes) (types : list (option DataType)).

Definition dt_code (t : DataType) : Z :=
  match t with
  | DT_Primitive c => c
  | DT_Custom _ => DataTypeCodeCustom
  | DT_List _ => DataTypeCodeList
  | DT_Map _ _ => DataTypeCodeMap
  | DT_Set _ => DataTypeCodeSet
  | DT_Tuple _ => DataTypeCodeTuple
  | DT_Udt _ _ _ _ => DataTypeCodeUdt
  end.

(* for i, name := range names { types[i] }: index out of range cannot happen after the length check *)
Fixpoint zip_names {A} (names : list bytes) (types : list A) : list (bytes * A) :=
  match names, types with
  | n :: ns, t :: ts => (n, t) :: zip_names ns ts
  | _, _ => []
  end.

(* walks names and types together (recursion on the types, so that callers may recurse through them) *)
Section Zip2.
  Context {A : Type}.
  Section WZ.
    Context (f : bytes -> A -> W).
    Fixpoint wzip (names : list bytes) (types : list A) {struct types} : W :=
      match types, names with
      | t :: ts, n :: ns => f n t +++ wzip ns ts
      | _, _ => Ok []
      end.
  End WZ.
  Section LZ.
    Context (f : bytes -> A -> L).
    Fixpoint lzip (names : list bytes) (types : list A) {struct types} : L :=
      match types, names with
      | t :: ts, n :: ns => f n t +l+ lzip ns ts
      | _, _ => Ok 0
      end.
  End LZ.
End Zip2.

Fixpoint write_dt (version : Z) (t : DataType) {struct t} : W :=
  let wo := fun (o : option DataType) => match o with None => Err | Some t' => write_dt version t' end in
  wguard (is_ok (CheckValidDataTypeCode (dt_code t) version)) +++
  write_short (dt_code t) +++
  (let code := dt_code t in
   if code =? DataTypeCodeCustom then
     match t with DT_Custom c => write_string c | _ => Err end
   else if code =? DataTypeCodeList then
     match t with DT_List e => wo e | _ => Err end
   else if code =? DataTypeCodeMap then
     match t with DT_Map k v => wo k +++ wo v | _ => Err end
   else if code =? DataTypeCodeSet then
     match t with DT_Set e => wo e | _ => Err end
   else if code =? DataTypeCodeUdt then
     match t with
     | DT_Udt ks name names types =>
         write_string ks +++ write_string name +++ write_short (wrap_u 16 (zlen types)) +++
         wguard (zlen names =? zlen types) +++
         wzip (fun n t => write_string n +++ wo t) names types
     | _ => Err
     end
   else if code =? DataTypeCodeTuple then
     match t with
     | DT_Tuple fs => write_short (wrap_u 16 (zlen fs)) +++ wlist wo fs
     | _ => Err
     end
   else Ok []).
(* WriteDataType: a nil type is refused *)
Definition write_data_type (version : Z) (ot : option DataType) : W :=
  match ot with None => Err | Some t => write_dt version t end.

(* LengthOfDataType dereferences t.Code() without a nil check: a nil type is an encoder-side panic (API misuse);
   modelled as Err *)
Fixpoint len_dt (version : Z) (t : DataType) {struct t} : L :=
  let lo := fun (o : option DataType) => match o with None => Err | Some t' => len_dt version t' end in
  Ok LengthOfShort +l+
  (let code := dt_code t in
   if code =? DataTypeCodeCustom then
     match t with DT_Custom c => Ok (len_string c) | _ => Err end
   else if code =? DataTypeCodeList then
     match t with DT_List e => lo e | _ => Err end
   else if code =? DataTypeCodeMap then
     match t with DT_Map k v => lo k +l+ lo v | _ => Err end
   else if code =? DataTypeCodeSet then
     match t with DT_Set e => lo e | _ => Err end
   else if code =? DataTypeCodeUdt then
     match t with
     | DT_Udt ks name names types =>
         Ok (len_string ks + len_string name + LengthOfShort) +l+
         (if zlen names =? zlen types then Ok 0 else Err) +l+
         lzip (fun n t => Ok (len_string n) +l+ lo t) names types
     | _ => Err
     end
   else if code =? DataTypeCodeTuple then
     match t with
     | DT_Tuple fs => Ok LengthOfShort +l+ llist lo fs
     | _ => Err
     end
   else Ok 0).
Definition len_data_type (version : Z) (ot : option DataType) : L :=
  match ot with None => Err | Some t => len_dt version t end.

Definition primitive_codes : list Z :=
  [DataTypeCodeAscii; DataTypeCodeBigint; DataTypeCodeBlob; DataTypeCodeBoolean; DataTypeCodeCounter;
   DataTypeCodeDecimal; DataTypeCodeDouble; DataTypeCodeFloat; DataTypeCodeInt; DataTypeCodeTimestamp;
   DataTypeCodeUuid; DataTypeCodeVarchar; DataTypeCodeVarint; DataTypeCodeTimeuuid; DataTypeCodeInet;
   DataTypeCodeDate; DataTypeCodeTime; DataTypeCodeSmallint; DataTypeCodeTinyint; DataTypeCodeDuration].

(* ReadDataType recurses once per nesting level; every level consumes its 2-byte code, so
   fuel = number of remaining bytes is never exhausted (proofs/DataTypeProofs.v). *)
Fixpoint read_data_type (fuel : nat) (version : Z) {struct fuel} : R DataType :=
  match fuel with
  | O => rfuel
  | S k =>
      code <- read_short ;;
      rguard (is_ok (CheckValidDataTypeCode code version)) ;;;
      if existsb (Z.eqb code) primitive_codes then ret (DT_Primitive code)
      else if (code =? DataTypeCodeText) && (version <=? ProtocolVersion2) then ret (DT_Primitive DataTypeCodeVarchar)   (* v2 alias *)
      else if code =? DataTypeCodeCustom then c <- read_string ;; ret (DT_Custom c)
      else if code =? DataTypeCodeList then e <- read_data_type k version ;; ret (DT_List (Some e))
      else if code =? DataTypeCodeMap then
        kt <- read_data_type k version ;; vt <- read_data_type k version ;; ret (DT_Map (Some kt) (Some vt))
      else if code =? DataTypeCodeSet then e <- read_data_type k version ;; ret (DT_Set (Some e))
      else if code =? DataTypeCodeUdt then
        ks <- read_string ;; name <- read_string ;; count <- read_short ;;
        fields <- read_count count (n <- read_string ;; t <- read_data_type k version ;; ret (n, Some t)) ;;
        ret (DT_Udt ks name (map fst fields) (map snd fields))
      else if code =? DataTypeCodeTuple then
        count <- read_short ;;
        fs <- read_count count (rmap Some (read_data_type k version)) ;;
        ret (DT_Tuple fs)
      else rfail     (* e.g. 0x000A (text) above v2: valid code without a decoder case *)
  end.
