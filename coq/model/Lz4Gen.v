(* Gallina side of the correspondence run for the compression wrappers (C08).  DEFINITIONS ONLY.
   The model cannot run LZ4: the block compressor oracle answers the block the library produced for this input, the
   block decompressor oracle behaves as the contract says for that block (exact when the destination is large enough,
   an error when it is too small). *)
From Coq Require Import ZArith List Bool String.
From GCNP Require Import base.GoInt base.Bytes model.Segment model.SegGen model.Lz4Wrap.
Import ListNotations.
Open Scope Z_scope.

Definition res_eqb (r : result (list Z)) (e : option (list Z)) : bool :=
  match r, e with Ok a, Some b => list_eqb a b | Err, None => true | _, _ => false end.

Definition thr_ub (c x : list Z) : list Z -> Z -> result (list Z) :=
  fun src n => if list_eqb src c then (if zlen x <=? n then Ok x else Err) else Err.

Definition wrap_case (x block : list Z) (bnd : Z) (raw withlen dec_raw dec_withlen : option (list Z)) : bool :=
  let cb := fun (_ : list Z) (n : Z) => if n =? bnd then Ok block else Err in
  let bd := fun _ : Z => bnd in
  res_eqb (lz4_compress cb bd x) raw && res_eqb (lz4_compress_with_length cb bd x) withlen
  && match raw with Some r => res_eqb (lz4_decompress (thr_ub block x) r) dec_raw | None => true end
  && match withlen with Some w => res_eqb (lz4_decompress_with_length (thr_ub block x) w) dec_withlen | None => true end.

Definition wrapdec_case (input : list Z) (expected : option (list Z)) : bool :=
  res_eqb (lz4_decompress_with_length (fun _ _ => Err) input) expected.
