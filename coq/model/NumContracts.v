(* Executable instances of the oracle contracts of C13 (definitions only).
   The theorems of props/C13.v that mention an oracle carry the documented behaviour of the standard library as a premise
   ([oracle_contract] of proofs/NumericSwitches.v; the float premises of proofs/NumericFloats.v).  A premise about an oracle can
   hide a defect when the real library does not satisfy it, so every run instantiates each premise on ALL answers the real
   library gave during the run (the oracle tables of model/NumCases.v, which the harness fills from real calls on the boundary,
   directed and random values) under the INTENDED denotations below, and reports the entries on which a premise is false.

   Denotations (independent of the Go code and of the Coq standard library's own printers):
     godec      : what a decimal string denotes - optional sign, one or more digits            (for strconv / big.Int text)
     f64_value, f32_value : IEEE-754 binary64 / binary32 bit pattern -> NaN | +-Inf | m * 2^e  (m odd, or 0)
     bf_value   : the harness's description (mantissa, exponent) of a big.Float value -> the same domain
   Signed zeros denote the same real number 0. *)
From Coq Require Import ZArith List String Ascii Bool.
From GCNP Require Import base.GoInt base.GoNum model.NumCases.
Import ListNotations.
Open Scope Z_scope.

(* ---------- decimal strings ---------- *)
Fixpoint dec_digits (s : string) (acc : Z) : option Z :=
  match s with
  | EmptyString => Some acc
  | String c r => let n := Z.of_N (N_of_ascii c) - 48 in
                  if (0 <=? n) && (n <=? 9) then dec_digits r (10 * acc + n) else None
  end.
Definition godec (s : string) : option Z :=
  match s with
  | EmptyString => None
  | String c r =>
      if Ascii.eqb c "-"%char then match r with EmptyString => None | _ => option_map Z.opp (dec_digits r 0) end
      else if Ascii.eqb c "+"%char then match r with EmptyString => None | _ => dec_digits r 0 end
      else dec_digits s 0
  end.

(* ---------- floating-point values ---------- *)
Inductive fval : Type := FNaN | FInf (neg : bool) | FFin (m e : Z).   (* FFin m e = m * 2^e, normalised: m odd, or m = 0 = e *)
Fixpoint norm_fuel (fuel : nat) (m e : Z) : Z * Z :=
  match fuel with
  | O => (m, e)
  | S k => if Z.even m then norm_fuel k (m / 2) (e + 1) else (m, e)
  end.
Definition fnorm (m e : Z) : fval :=
  if m =? 0 then FFin 0 0 else let '(m', e') := norm_fuel (S (Z.to_nat (Z.log2 (Z.abs m)))) m e in FFin m' e'.
Definition ieee_value (ebits mbits bits : Z) : fval :=
  let neg := Z.testbit bits (ebits + mbits) in
  let ex := (bits / 2 ^ mbits) mod 2 ^ ebits in
  let man := bits mod 2 ^ mbits in
  let bias := 2 ^ (ebits - 1) - 1 in
  if ex =? 2 ^ ebits - 1 then (if man =? 0 then FInf neg else FNaN)
  else let '(m, e) := if ex =? 0 then (man, 1 - bias - mbits) else (man + 2 ^ mbits, ex - bias - mbits) in
       fnorm (if neg then - m else m) e.
Definition f64_value : Z -> fval := ieee_value 11 52.
Definition f32_value : Z -> fval := ieee_value 8 23.
(* harness convention (bfKey): (+-1, 1000000) = +-Inf; (0, 0) / (0, -1) = +0 / -0; otherwise mantissa * 2^exponent *)
Definition bf_value (f : bigfloat) : fval :=
  let '(m, e) := f in
  if e =? 1000000 then FInf (m <? 0) else fnorm m e.
Definition fval_eqb (a b : fval) : bool :=
  match a, b with
  | FNaN, FNaN => true
  | FInf x, FInf y => Bool.eqb x y
  | FFin m e, FFin m' e' => (m =? m') && (e =? e')
  | _, _ => false
  end.
Definition is_fnan (a : fval) : bool := match a with FNaN => true | _ => false end.

(* ---------- one checker per premise: (number of instances, indices of the table entries on which the premise is false) ---------- *)
Definition verdict := (Z * list Z)%type.
Definition instances {A} (relevant holds : A -> bool) (t : list A) : verdict :=
  (Z.of_nat (List.length (filter relevant t)), false_idx 0 (map (fun x => implb (relevant x) (holds x)) t)).
Definition always {A} (_ : A) : bool := true.

Section Contracts.
Variable T : oracle_tables.

(* oc_ParseInt : o_ParseInt O s 10 bits = Ok v -> dec s = Some v /\ in_i bits v = true *)
Definition chk_ParseInt : verdict :=
  instances (fun e : (string * Z) * option Z => match snd e with Some _ => true | None => false end)
            (fun e => match snd e with
                      | Some v => oz_eqb (godec (fst (fst e))) (Some v) && in_i (snd (fst e)) v
                      | None => true end) (t_ParseInt T).
(* oc_FormatInt : dec (o_FormatInt O v 10) = Some v *)
Definition chk_FormatInt : verdict := instances always (fun e : Z * string => oz_eqb (godec (snd e)) (Some (fst e))) (t_FormatInt T).
(* oc_BigSetString : o_BigSetString O s 10 = (v, true) -> dec s = Some v *)
Definition chk_BigSetString : verdict :=
  instances (fun e : string * (Z * bool) => snd (snd e)) (fun e => oz_eqb (godec (fst e)) (Some (fst (snd e)))) (t_BigSetString T).
(* oc_BigText : dec (o_BigText O v 10) = Some v *)
Definition chk_BigText : verdict := instances always (fun e : Z * string => oz_eqb (godec (snd e)) (Some (fst e))) (t_BigText T).

(* widen_exact : val64 (o_f32_to_f64 O w) = val32 w *)
Definition chk_widen_exact : verdict := instances always (fun e : Z * Z => fval_eqb (f64_value (snd e)) (f32_value (fst e))) (t_f32_to_f64 T).
(* eq_sound : o_f64_eqb O a b = true -> val64 a = val64 b *)
Definition chk_eq_sound : verdict :=
  instances (fun e : (Z * Z) * bool => snd e) (fun e => fval_eqb (f64_value (fst (fst e))) (f64_value (snd (fst e)))) (t_f64_eqb T).
(* isnan_sound : o_f64_isnan O b = true -> val64 b = vnan        (checked in both directions: IsNaN answers true exactly for NaN) *)
Definition chk_isnan_sound : verdict := instances always (fun e : Z * bool => Bool.eqb (snd e) (is_fnan (f64_value (fst e)))) (t_f64_isnan T).
(* narrow_nan : o_f64_isnan O b = true -> val32 (o_f64_to_f32 O b) = vnan      (instances: NaN patterns whose narrowing was asked) *)
Definition chk_narrow_nan : verdict :=
  instances (fun e : Z * bool => snd e && match look Z.eqb (fst e) (t_f64_to_f32 T) with Some _ => true | None => false end)
            (fun e => match look Z.eqb (fst e) (t_f64_to_f32 T) with Some w => is_fnan (f32_value w) | None => true end) (t_f64_isnan T).
(* bigfloat_exact : o_BigFloat_Float64 O f = (b, 0) -> val64 b = valbig f *)
Definition chk_bigfloat_exact : verdict :=
  instances (fun e : (Z * Z) * (Z * Z) => snd (snd e) =? 0) (fun e => fval_eqb (f64_value (fst (snd e))) (bf_value (fst e))) (t_BigFloat_Float64 T).
(* setfloat_acc : o_f64_isnan O b = false -> o_BigFloat_SetFloat64 O p b = (f, a) -> (a = 0 <-> valbig f = val64 b) *)
Definition chk_setfloat_acc : verdict :=
  instances (fun e : (Z * Z) * ((Z * Z) * Z) => negb (is_fnan (f64_value (snd (fst e)))))
            (fun e => Bool.eqb (snd (snd e) =? 0) (fval_eqb (bf_value (fst (snd e))) (f64_value (snd (fst e))))) (t_BigFloat_SetFloat64 T).

(* fixed order, known to tools/props/C13.py *)
Definition contract_verdicts : list verdict :=
  [chk_ParseInt; chk_FormatInt; chk_BigSetString; chk_BigText;
   chk_widen_exact; chk_eq_sound; chk_isnan_sound; chk_narrow_nan; chk_bigfloat_exact; chk_setfloat_acc].
End Contracts.
