(* In-flight request handler of /repo/client/inflight.go (+ the routing of client.go processIncomingFrame
   and the outgoing queue of CqlClientConnection.Send), modelled as it is.  DEFINITIONS ONLY.

   Sequential semantics: one call of a Go method = one [step].  Things happen in the order the code does them:
     onOutgoingFrameEnqueued : closed? ; borrow (managed) ; RLock: len==max? / found? ; Lock: closed? len==max? found?
                               ; insert + arm timer ;
                               on refusal give the borrowed id back (ignoring a failed release)
     onIncomingFrameReceived : closed? ; lookup ; if last: delete, then (managed) release - a failed release is
                               remembered and reported only if the hand-over succeeds (fix e396228) ; then
                               inFlightRequest.onFrameReceived
     onFrameReceived         : request closed -> error ; room -> enqueue, last ? stop timer + close(nil)
                               : re-arm timer ; no room -> close(error)
     close (handler)         : CAS closed ; every registered request: delete + close(error) ; close pool channel
     timers                  : a deadline per request, set by startTimeout/resetTimeout, cleared by close
                               (r.cancel() cancels every context derived from r.ctx); [Tick d] advances the clock
                               and fires the timers whose deadline has passed (close with the timeout error).
   A Go channel is its FIFO content; "closing a channel" is counted, closing twice is a Go panic.
   Stream ids are int16 in Go; newCqlClientConnection admits 1 <= maxInFlight <= 32767, so int16(i) = i for
   every id the pool is filled with.  Time is an abstract integer clock. *)
From Coq Require Import ZArith List Bool.
Import ListNotations.
Open Scope Z_scope.

Inductive errkind :=
| EClosed | ENoId | ETooMany | EInUse | EUnknownId | EReleaseFailed
| ERequestClosed | ETooManyPending | ETimeout | EOutgoingFull.

Definition errkind_code (e : errkind) : Z :=
  match e with
  | EClosed => 1 | ENoId => 2 | ETooMany => 3 | EInUse => 4 | EUnknownId => 5 | EReleaseFailed => 6
  | ERequestClosed => 7 | ETooManyPending => 8 | ETimeout => 9 | EOutgoingFull => 10
  end.

(* one inFlightRequest.  rid: creation number (identity of the Go object); queue: every frame tag ever put on
   the incoming channel, in order; consumed: how many of them the caller has taken; chan_closed: number of
   close(r.incoming) executed. *)
Record req := mkReq {
  rid : Z; sid : Z; managed : bool;
  queue : list Z; consumed : nat;
  done : bool; err : option errkind; chan_closed : nat;
  deadline : option Z }.

Record state := mkState {
  cfgN : Z;            (* maxInFlight *)
  cfgP : Z;            (* maxPending *)
  cfgT : Z;            (* timeout, in clock units *)
  pool : list Z;       (* streamIds channel content, head = next to be received *)
  inflight : list (Z * req);   (* the inFlight map: stream id -> request, in insertion order *)
  finished : list req; (* requests no longer in the map (still held by their callers) *)
  closed : bool;
  now : Z;
  events : list Z;     (* CqlClientConnection.events channel content (capacity maxInFlight) *)
  handled : list Z;    (* event frames passed to the EventHandlers *)
  outq : list Z;       (* CqlClientConnection.outgoing channel content (capacity maxInFlight): stream ids *)
  next_rid : Z }.

Inductive op :=
| Send (k : Z)                          (* handler.onOutgoingFrameEnqueued; k = 0 is ManagedStreamId *)
| CSend (k : Z)                         (* CqlClientConnection.Send: the above, then the outgoing queue *)
| CTake                                 (* the writer loop takes one frame off the outgoing queue *)
| Deliver (k : Z) (last : bool) (tag : Z)  (* handler.onIncomingFrameReceived, non-EVENT frame *)
| Event (tag : Z)                       (* processIncomingFrame with an EVENT frame *)
| Recv (k : Z)                          (* the caller takes one frame from the request registered under k *)
| Tick (d : Z)
| Close.

Definition SendManaged : op := Send 0.
Definition SendExplicit (k : Z) : op := Send k.

Inductive out :=
| OAccepted (id : Z) | ORefused (e : errkind)
| ODelivered | ODeliverErr (e : errkind)
| OClosed | OTick
| ORecvFrame (tag : Z) | ORecvEmpty | ORecvClosed | ORecvNone
| OEvent (queued : bool)
| OTaken (id : Z) | OTakeEmpty.

(* ---- association list = Go map ---- *)
Fixpoint lookup (k : Z) (l : list (Z * req)) : option req :=
  match l with
  | [] => None
  | (k', r) :: t => if k' =? k then Some r else lookup k t
  end.

Fixpoint remove_key (k : Z) (l : list (Z * req)) : list (Z * req) :=
  match l with
  | [] => []
  | (k', r) :: t => if k' =? k then remove_key k t else (k', r) :: remove_key k t
  end.

Fixpoint update_key (k : Z) (r : req) (l : list (Z * req)) : list (Z * req) :=
  match l with
  | [] => []
  | (k', r') :: t => if k' =? k then (k', r) :: t else (k', r') :: update_key k r t
  end.

Definition keys (l : list (Z * req)) : list Z := map fst l.
Definition memZ (k : Z) (l : list Z) : bool := existsb (Z.eqb k) l.
Definition zlen {A} (l : list A) : Z := Z.of_nat (length l).

(* ---- setters ---- *)
Definition set_pool (s : state) (p : list Z) : state :=
  mkState (cfgN s) (cfgP s) (cfgT s) p (inflight s) (finished s) (closed s) (now s) (events s) (handled s) (outq s) (next_rid s).
Definition set_inflight (s : state) (m : list (Z * req)) : state :=
  mkState (cfgN s) (cfgP s) (cfgT s) (pool s) m (finished s) (closed s) (now s) (events s) (handled s) (outq s) (next_rid s).
Definition add_finished (s : state) (r : req) : state :=
  mkState (cfgN s) (cfgP s) (cfgT s) (pool s) (inflight s) (finished s ++ [r]) (closed s) (now s) (events s) (handled s) (outq s) (next_rid s).
Definition set_outq (s : state) (q : list Z) : state :=
  mkState (cfgN s) (cfgP s) (cfgT s) (pool s) (inflight s) (finished s) (closed s) (now s) (events s) (handled s) q (next_rid s).

(* start, start+1, ..., start+len-1 *)
Fixpoint zseq (start : Z) (len : nat) : list Z :=
  match len with O => [] | S l => start :: zseq (start + 1) l end.

(* newInFlightRequestsHandler: the pool is filled with 1..maxInFlight *)
Definition init (n p t : Z) : state :=
  mkState n p t (zseq 1 (Z.to_nat n)) [] [] false 0 [] [] [] 0.

(* ---- inFlightRequest ---- *)
(* inFlightRequest.close(err): guarded by !r.done; cancels the request context (all timers), closes the channel *)
Definition req_close (r : req) (e : option errkind) : req :=
  if done r then r
  else mkReq (rid r) (sid r) (managed r) (queue r) (consumed r) true e (S (chan_closed r)) None.

Definition req_arm (r : req) (dl : Z) : req :=
  mkReq (rid r) (sid r) (managed r) (queue r) (consumed r) (done r) (err r) (chan_closed r) (Some dl).

Definition req_stop (r : req) : req :=
  mkReq (rid r) (sid r) (managed r) (queue r) (consumed r) (done r) (err r) (chan_closed r) None.

Definition req_push (r : req) (tag : Z) : req :=
  mkReq (rid r) (sid r) (managed r) (queue r ++ [tag]) (consumed r) (done r) (err r) (chan_closed r) (deadline r).

Definition req_take (r : req) : req :=
  mkReq (rid r) (sid r) (managed r) (queue r) (S (consumed r)) (done r) (err r) (chan_closed r) (deadline r).

Definition pending (r : req) : Z := zlen (queue r) - Z.of_nat (consumed r).

(* inFlightRequest.onFrameReceived *)
Definition on_frame (p nowv t : Z) (r : req) (last : bool) (tag : Z) : req * out :=
  if done r then (r, ODeliverErr ERequestClosed)            (* _incoming = nil and ctx.Done() ready *)
  else if pending r <? p then
    let r1 := req_push r tag in
    if last then (req_close (req_stop r1) None, ODelivered)  (* stopTimeout(); close(nil) *)
    else (req_arm r1 (nowv + t), ODelivered)                 (* resetTimeout() *)
  else (req_close r (Some ETooManyPending), ODeliverErr ETooManyPending).

Definition new_req (s : state) (id : Z) (m : bool) : req :=
  mkReq (next_rid s) id m [] O false None O (Some (now s + cfgT s)).     (* startTimeout() *)

(* ---- handler ---- *)
(* the RLock-ed check of onOutgoingFrameEnqueued *)
Definition check (s : state) (id : Z) : option errkind :=
  if zlen (inflight s) =? cfgN s then Some ETooMany
  else if memZ id (keys (inflight s)) then Some EInUse
  else None.

(* the same two tests repeated by addInFlight under the write lock (fix e71cde5): a sender is registered only if BOTH
   the RLock-ed check and, later, the Lock-ed check pass; a refusal by either goes through the same path
   (request context cancelled, borrowed id given back, header reset). Sequentially nothing can change in between. *)
Definition check2 (s : state) (id : Z) : option errkind :=
  match check s id with
  | Some e => Some e           (* refused by the RLock-ed check *)
  | None => check s id         (* addInFlight: Lock; len == max? found? *)
  end.

(* addInFlight's insertion + startTimeout (map assignment: an existing entry under the same key would be replaced) *)
Definition register (s : state) (id : Z) (m : bool) : state :=
  mkState (cfgN s) (cfgP s) (cfgT s) (pool s) (remove_key id (inflight s) ++ [(id, new_req s id m)]) (finished s)
          (closed s) (now s) (events s) (handled s) (outq s) (next_rid s + 1).

(* releaseStreamId on an open handler: non-blocking send on a channel of capacity N *)
Definition release (s : state) (id : Z) : option state :=
  if zlen (pool s) <? cfgN s then Some (set_pool s (pool s ++ [id])) else None.

Definition enqueue (s : state) (k : Z) : state * out :=
  if closed s then (s, ORefused EClosed)
  else if k =? 0 then
    match pool s with
    | [] => (s, ORefused ENoId)
    | id :: rest =>
        let s1 := set_pool s rest in
        match check2 s1 id with
        | None => (register s1 id true, OAccepted id)
        | Some e => (match release s1 id with Some s2 => s2 | None => s1 end, ORefused e)
        end
    end
  else
    match check2 s k with
    | None => (register s k false, OAccepted k)
    | Some e => (s, ORefused e)
    end.

Definition deliver (s : state) (k : Z) (last : bool) (tag : Z) : state * out :=
  if closed s then (s, ODeliverErr EClosed)
  else match lookup k (inflight s) with
  | None => (s, ODeliverErr EUnknownId)
  | Some r =>
      if last then
        let s1 := set_inflight s (remove_key k (inflight s)) in
        if managed r then
          match release s1 k with
          | None =>
              (* fix e396228: a failed release (handler closed meanwhile; sequentially: pool full) does not stop the delivery,
                 the request is no longer in the table and nobody else would complete it; the release error is reported
                 only when the delivery itself succeeded *)
              let '(r', o) := on_frame (cfgP s) (now s) (cfgT s) r true tag in
              (add_finished s1 r', match o with ODelivered => ODeliverErr EReleaseFailed | _ => o end)
          | Some s2 => let '(r', o) := on_frame (cfgP s) (now s) (cfgT s) r true tag in (add_finished s2 r', o)
          end
        else let '(r', o) := on_frame (cfgP s) (now s) (cfgT s) r true tag in (add_finished s1 r', o)
      else
        let '(r', o) := on_frame (cfgP s) (now s) (cfgT s) r false tag in
        (set_inflight s (update_key k r' (inflight s)), o)
  end.

Definition close_handler (s : state) : state * out :=
  if closed s then (s, OClosed)
  else (mkState (cfgN s) (cfgP s) (cfgT s) (pool s) []
                (finished s ++ map (fun kr => req_close (snd kr) (Some EClosed)) (inflight s))
                true (now s) (events s) (handled s) (outq s) (next_rid s), OClosed).

Definition fire (nowv : Z) (r : req) : req :=
  match deadline r with
  | Some dl => if (dl <=? nowv) && negb (done r) then req_close r (Some ETimeout) else r
  | None => r
  end.

Definition tick (s : state) (d : Z) : state * out :=
  let n := now s + d in
  (mkState (cfgN s) (cfgP s) (cfgT s) (pool s) (map (fun kr => (fst kr, fire n (snd kr))) (inflight s))
           (map (fire n) (finished s)) (closed s) n (events s) (handled s) (outq s) (next_rid s), OTick).

Definition recv (s : state) (k : Z) : state * out :=
  match lookup k (inflight s) with
  | None => (s, ORecvNone)
  | Some r =>
      match nth_error (queue r) (consumed r) with
      | Some tag => (set_inflight s (update_key k (req_take r) (inflight s)), ORecvFrame tag)
      | None => (s, if done r then ORecvClosed else ORecvEmpty)
      end
  end.

(* processIncomingFrame, EVENT branch: handlers first, then a non-blocking send on the events channel
   (after Close the field is nil: the frame is dropped) *)
Definition event (s : state) (tag : Z) : state * out :=
  let room := negb (closed s) && (zlen (events s) <? cfgN s) in
  (mkState (cfgN s) (cfgP s) (cfgT s) (pool s) (inflight s) (finished s) (closed s) (now s)
           (if room then events s ++ [tag] else events s) (handled s ++ [tag]) (outq s) (next_rid s), OEvent room).

(* CqlClientConnection.Send: IsClosed? ; onOutgoingFrameEnqueued ; non-blocking send on outgoing *)
Definition csend (s : state) (k : Z) : state * out :=
  match enqueue s k with
  | (s1, OAccepted id) =>
      if zlen (outq s1) <? cfgN s1 then (set_outq s1 (outq s1 ++ [id]), OAccepted id)
      else (s1, ORefused EOutgoingFull)
  | so => so
  end.

Definition ctake (s : state) : state * out :=
  match outq s with
  | [] => (s, OTakeEmpty)
  | id :: q => (set_outq s q, OTaken id)
  end.

Definition step (s : state) (o : op) : state * out :=
  match o with
  | Send k => enqueue s k
  | CSend k => csend s k
  | CTake => ctake s
  | Deliver k last tag => deliver s k last tag
  | Event tag => event s tag
  | Recv k => recv s k
  | Tick d => tick s d
  | Close => close_handler s
  end.

Definition run (s : state) (ops : list op) : state := fold_left (fun st o => fst (step st o)) ops s.

Fixpoint trace (s : state) (ops : list op) : list out :=
  match ops with
  | [] => []
  | o :: rest => let '(s', x) := step s o in x :: trace s' rest
  end.

(* a Go panic "close of closed channel" has happened on some request *)
Definition all_reqs (s : state) : list req := map snd (inflight s) ++ finished s.
Definition panicked (s : state) : bool := existsb (fun r => Nat.ltb 1 (chan_closed r)) (all_reqs s).

(* ---- canonical observables for the correspondence run (tools/props/C09.py builds the same lists from the harness) ---- *)
Definition out_code (o : out) : list Z :=
  match o with
  | OAccepted id => [1; id] | ORefused e => [2; errkind_code e]
  | ODelivered => [3] | ODeliverErr e => [4; errkind_code e]
  | OClosed => [5] | OTick => [6]
  | ORecvFrame t => [7; t] | ORecvEmpty => [8] | ORecvClosed => [9] | ORecvNone => [10]
  | OEvent q => [11; if q then 1 else 0]
  | OTaken id => [12; id] | OTakeEmpty => [13]
  end.

Fixpoint insertZ (x : Z) (l : list Z) : list Z :=
  match l with [] => [x] | y :: t => if x <=? y then x :: l else y :: insertZ x t end.
Definition sortZ (l : list Z) : list Z := fold_right insertZ [] l.

Fixpoint insertR (x : bool * req) (l : list (bool * req)) : list (bool * req) :=
  match l with [] => [x] | y :: t => if rid (snd x) <=? rid (snd y) then x :: l else y :: insertR x t end.
Definition sortR (l : list (bool * req)) : list (bool * req) := fold_right insertR [] l.

Definition b2z (b : bool) : Z := if b then 1 else 0.
Definition req_code (x : bool * req) : list Z :=
  let r := snd x in
  [-3; rid r; sid r; b2z (managed r); b2z (fst x); b2z (done r);
   match err r with None => 0 | Some e => errkind_code e end; Z.of_nat (chan_closed r); Z.of_nat (consumed r);
   zlen (queue r)] ++ queue r.

(* level 0: pool, keys, counters; level 1: + every request *)
Definition state_code (level : Z) (s : state) : list Z :=
  [-1; b2z (closed s); zlen (pool s)] ++ pool s ++ [-2; zlen (inflight s)] ++ sortZ (keys (inflight s))
  ++ [-4; zlen (events s)] ++ events s ++ [-5; zlen (handled s)] ++ handled s ++ [-6; zlen (outq s)] ++ outq s
  ++ [-7; zlen (finished s); next_rid s]
  ++ (if level =? 0 then []
      else flat_map req_code (sortR (map (fun kr => (true, snd kr)) (inflight s) ++ map (fun r => (false, r)) (finished s)))).

(* conn mode hides the result of a Deliver (processIncomingFrame only logs it) *)
Definition out_code_mode (conn : bool) (o : out) : list Z :=
  match o with
  | ODelivered | ODeliverErr _ => if conn then [3] else out_code o
  | _ => out_code o
  end.

Definition observe (conn : bool) (level : Z) (s : state) (ops : list op) : list Z :=
  flat_map (out_code_mode conn) (trace s ops) ++ state_code level (run s ops).

(* deliveries are tagged with their position in the history *)
Fixpoint retag (i : Z) (ops : list op) : list op :=
  match ops with
  | [] => []
  | Deliver k l _ :: t => Deliver k l i :: retag (i + 1) t
  | Event _ :: t => Event i :: retag (i + 1) t
  | o :: t => o :: retag (i + 1) t
  end.

Fixpoint zl_eqb (a b : list Z) : bool :=
  match a, b with [], [] => true | x :: a', y :: b' => Z.eqb x y && zl_eqb a' b' | _, _ => false end.

Record hcase := mkCase { c_id : Z; c_conn : bool; c_level : Z; c_n : Z; c_p : Z; c_t : Z; c_ops : list op; c_expect : list Z }.

Definition case_obs (c : hcase) : list Z := observe (c_conn c) (c_level c) (init (c_n c) (c_p c) (c_t c)) (retag 0 (c_ops c)).
Definition case_ok (c : hcase) : bool := zl_eqb (case_obs c) (c_expect c).
Definition mismatches (cs : list hcase) : list Z := map c_id (filter (fun c => negb (case_ok c)) cs).
