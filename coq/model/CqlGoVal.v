(* CqlGoVal - hand-written model (H) of the Go-REPRESENTATION layer of the container codecs of /repo/datacodec:
   reflection.go (reflectSource, reflectDest, adjustSliceLength, adjustMapSize, nilSafeZero, ensurePointer, maybeIndirect,
   ensureNillable, locateFieldByName, locateFieldByIndex), extractors.go (slice / struct / map extractors), injectors.go
   (slice / struct / map injectors), codec.go PreferredGoType (with the D1 pointer-wrapped key types), and the
   createExtractor / createInjector kind switches of collection.go, map.go, tuple.go, udt.go.

   Universe.  [gty] are Go types, [gval] Go values.  Scalar leaves are abstract: [GLeaf s k] is "a Go type accepted by the codec of
   CQL scalar s", of kind LVal (a comparable, non-nil-able value type: int32, string, time.Time, CqlDecimal, UUID ...) or LSlice
   (a nil-able, non-comparable slice type: []byte, net.IP, []rune); its values are [GVLeaf x] with x the canonical intermediate
   value ([VNull] = the nil slice of an LSlice leaf).  Which concrete Go types a scalar codec accepts and how it converts them is
   C13's subject; *big.Int is [GPtr (GLeaf SVarint LVal)].
   Sources are [option (gty * gval)]: the dynamic type and value inside the interface{} parameter of Encode, None = untyped nil.
   Destinations are a variable of type gt holding a (pre-filled) value d; Decode(src, &variable) returns (wasNull, new value).

   Simplifications (each is observationally neutral for outcome class, bytes and resulting value):
   - an extractor's getElem for all positions is evaluated before the element codecs run (the Go code interleaves them; getElem is
     pure and its failure, like any later failure, is an error);
   - Go maps are association lists in iteration order; SetMapIndex replaces an entry with an equal key ([gkey_eqb]: pointers are
     equal only when both nil, NaN is never equal) else appends;
   - struct fields are all exported; names are compared with ASCII case folding (strings.EqualFold on ASCII names);
   - slice capacity is not modelled (adjustSliceLength either reallocates or SetLens; every position is overwritten afterwards);
   - the struct-as-map representation of the MAP codec (map.go case reflect.Struct) is not modelled (ERR).
   Definitions only. *)
From Coq Require Import ZArith List Bool String Ascii.
From GCNP Require Import base.GoInt base.Bytes spec.SpecCql model.CqlWire model.CqlContainers model.CqlTyping.
Import ListNotations.
Open Scope Z_scope.

Inductive lkind : Type := LVal | LSlice.

Inductive gty : Type :=
  | GLeaf (s : scalar) (k : lkind)
  | GPtr (t : gty)
  | GSlice (t : gty)
  | GArray (n : nat) (t : gty)
  | GMap (k v : gty)
  | GStruct (fs : list (string * string * gty))      (* field name, `cassandra` tag ("" = none), type; all exported *)
  | GIface                                           (* the literal interface{} *)
  | GIfaceN (methods : bool).                        (* any OTHER interface type: a defined empty one (type V interface{}, driver.Value; methods =
                                                        false) or one with methods (fmt.Stringer; true).  No modelled Go type has methods. *)

Inductive gval : Type :=
  | GVLeaf (x : cval)
  | GVNilPtr | GVPtr (p : gval)
  | GVNilSlice | GVSlice (es : list gval)
  | GVArray (es : list gval)
  | GVNilMap | GVMap (kvs : list (gval * gval))
  | GVStruct (fs : list gval)
  | GVNilIface | GVIface (t : gty) (x : gval).

Definition gsrc : Type := option (gty * gval).

Definition scalar_eqb (a b : scalar) : bool :=
  match a, b with
  | SAscii, SAscii | SBigint, SBigint | SBlob, SBlob | SBoolean, SBoolean | SCounter, SCounter | SDate, SDate | SDecimal, SDecimal
  | SDouble, SDouble | SDuration, SDuration | SFloat, SFloat | SInet, SInet | SInt, SInt | SSmallint, SSmallint | STime, STime
  | STimestamp, STimestamp | STimeuuid, STimeuuid | STinyint, STinyint | SUuid, SUuid | SVarchar, SVarchar | SVarint, SVarint
  | SCustom, SCustom => true
  | _, _ => false
  end.

(* ------------------------------------------------------------------------------------------------ zero values *)
Definition lzero (s : scalar) : cval :=
  match s with
  | SAscii | SVarchar | SBlob | SCustom => VBytes []                      (* "" *)
  | SBoolean => VBool false
  | SDecimal => VDecimal 0 0                                              (* CqlDecimal{} (nil Unscaled reads as 0) *)
  | SDuration => VDuration 0 0 0
  | SDouble | SFloat => VFloat 0
  | SInet => VInet []                                                     (* "" *)
  | SUuid | STimeuuid => VUuid (repeat 0 16)
  | _ => VInt 0
  end.

Fixpoint gzero (t : gty) : gval :=                                         (* reflect.Zero *)
  match t with
  | GLeaf s LVal => GVLeaf (lzero s)
  | GLeaf _ LSlice => GVLeaf VNull
  | GPtr _ => GVNilPtr
  | GSlice _ => GVNilSlice
  | GArray n e => GVArray (repeat (gzero e) n)
  | GMap _ _ => GVNilMap
  | GStruct fs => GVStruct ((fix zs (fs : list (string * string * gty)) : list gval :=
                               match fs with [] => [] | (_, _, ft) :: r => gzero ft :: zs r end) fs)
  | GIface | GIfaceN _ => GVNilIface
  end.

(* ------------------------------------------------------------------------------------------------ PreferredGoType *)
Definition pref_kind (s : scalar) : lkind := match s with SBlob | SCustom | SInet => LSlice | _ => LVal end.

(* reflection.go ensureNillable *)
Definition ensure_nillable (t : gty) : gty :=
  match t with
  | GIface | GIfaceN _ | GPtr _ | GSlice _ | GMap _ _ | GLeaf _ LSlice => t
  | _ => GPtr t
  end.
(* reflect.Type.Comparable, on the types ensureNillable can return *)
Definition comparable (t : gty) : bool :=
  match t with GSlice _ | GMap _ _ | GLeaf _ LSlice => false | _ => true end.

Definition string_ty : gty := GLeaf SVarchar LVal.

Fixpoint pref (t : cqltype) : gty :=
  match t with
  | TScalar SVarint => GPtr (GLeaf SVarint LVal)                          (* *big.Int *)
  | TScalar s => GLeaf s (pref_kind s)
  | TList e | TSet e => GSlice (ensure_nillable (pref e))
  | TMap k w =>
      let kt := ensure_nillable (pref k) in
      GMap (if comparable kt then kt else GPtr kt) (ensure_nillable (pref w))   (* D1: slices and maps are not valid key types *)
  | TTuple _ => GSlice GIface
  | TUdt _ _ => GMap string_ty GIface
  end.

(* ------------------------------------------------------------------------------------------------ names *)
Definition lower (c : ascii) : ascii :=
  let n := nat_of_ascii c in if ((65 <=? n) && (n <=? 90))%nat then ascii_of_nat (n + 32) else c.
Fixpoint eq_fold (a b : string) : bool :=
  match a, b with
  | EmptyString, EmptyString => true
  | String x a', String y b' => Ascii.eqb (lower x) (lower y) && eq_fold a' b'
  | _, _ => false
  end.
Fixpoint bytes_of_string (s : string) : list Z :=
  match s with EmptyString => [] | String c r => Z.of_nat (nat_of_ascii c) :: bytes_of_string r end.

(* locateFieldByName (fix 86b2b2c: a `cassandra` tag takes precedence): a field with a non-empty tag matches by its tag only, exactly;
   a field without tag (or with the empty tag) matches by its Go name with case folding.  The first tag match wins over any name
   match wherever it is declared; otherwise the first name match.  (Before the fix: the first field whose name folds to [name] OR
   whose tag is [name] - a tagged field was still found under its Go name, and every untagged field matched the empty name.) *)
Definition has_tag (tag : string) : bool := negb (String.eqb tag "").
Fixpoint locate_tag (fs : list (string * string * gty)) (name : string) (i : nat) : option (nat * gty) :=
  match fs with
  | [] => None
  | (_, tag, ft) :: r => if has_tag tag && String.eqb tag name then Some (i, ft) else locate_tag r name (S i)
  end.
Fixpoint locate_name (fs : list (string * string * gty)) (name : string) (i : nat) : option (nat * gty) :=
  match fs with
  | [] => None
  | (fname, tag, ft) :: r => if negb (has_tag tag) && eq_fold name fname then Some (i, ft) else locate_name r name (S i)
  end.
Definition locate_by_name (fs : list (string * string * gty)) (name : string) (i : nat) : option (nat * gty) :=
  match locate_tag fs name i with Some p => Some p | None => locate_name fs name i end.

(* ------------------------------------------------------------------------------------------------ sources *)
(* Value.Index(i).Interface() / Field(i).Interface() / MapIndex(k).Interface(): the dynamic type and value handed to the element codec *)
Definition elem_src (et : gty) (g : gval) : gsrc :=
  match et, g with
  | GIface, GVNilIface | GIfaceN _, GVNilIface => None
  | GIface, GVIface dt x | GIfaceN _, GVIface dt x => Some (dt, x)
  | _, _ => Some (et, g)
  end.

(* reflectSource: (sourceType, value unless wasNil); None when source == nil. Exactly one pointer level is followed. *)
Definition reflect_source (src : gsrc) : option (gty * option gval) :=
  match src with
  | None => None
  | Some (GPtr t, GVNilPtr) => Some (t, None)
  | Some (GPtr t, GVPtr p) => Some (t, match p with GVNilSlice | GVNilMap => None | _ => Some p end)
  | Some (t, g) => Some (t, match g with GVNilSlice | GVNilMap => None | _ => Some g end)
  end.

(* scalar codecs: Encode of a leaf source *)
Definition leaf_encode (s : scalar) (src : gsrc) : outcome (option bytes) :=
  match src with
  | None => OK None
  | Some (GLeaf s' _, GVLeaf x) => if scalar_eqb s s' then enc_scalar s x else ERR
  | Some (GPtr (GLeaf s' _), GVNilPtr) => if scalar_eqb s s' then OK None else ERR
  | Some (GPtr (GLeaf s' _), GVPtr (GVLeaf x)) => if scalar_eqb s s' then enc_scalar s x else ERR
  | _ => ERR
  end.

(* can reflect.Value.MapIndex find this key again?  A NaN is never found (known finding nan-map-key-value-lost) *)
Definition is_nan32 (b : Z) : bool := (Z.land b 2139095040 =? 2139095040) && negb (Z.land b 8388607 =? 0).
Definition is_nan64 (b : Z) : bool := (Z.land b 9218868437227405312 =? 9218868437227405312) && negb (Z.land b 4503599627370495 =? 0).
Definition leaf_nan (t : gty) (g : gval) : bool :=
  match t, g with
  | GLeaf SFloat _, GVLeaf (VFloat b) => is_nan32 b
  | GLeaf SDouble _, GVLeaf (VFloat b) => is_nan64 b
  | _, _ => false
  end.
Definition key_findable (kt : gty) (k : gval) : bool :=
  match kt, k with
  | GIface, GVIface dt x => negb (leaf_nan dt x)
  | _, _ => negb (leaf_nan kt k)
  end.

(* generic loops (the ones of CqlContainers.v, over any element carrier) *)
Fixpoint enc_elems_g {A} (v : Z) (enc : A -> outcome (option bytes)) (xs : list A) : outcome bytes :=
  match xs with
  | [] => OK []
  | x :: r => e <-! enc x; b <-! write_elem v e; rest <-! enc_elems_g v enc r; OK (b ++ rest)
  end.
Fixpoint enc_entries_g {A B} (v : Z) (enck : A -> outcome (option bytes)) (encv : B -> outcome (option bytes)) (kvs : list (A * B)) : outcome bytes :=
  match kvs with
  | [] => OK []
  | (k, w) :: r =>
      ek <-! enck k; ew <-! encv w; bk <-! write_elem v ek; bw <-! write_elem v ew;
      rest <-! enc_entries_g v enck encv r; OK (bk ++ bw ++ rest)
  end.

(* positional extraction for tuples / UDTs from a slice, array or struct: the first n element sources, None if there are fewer *)
Fixpoint positional (n : nat) (ets : list gty) (gs : list gval) : option (list gsrc) :=
  match n with
  | O => Some []
  | S n' => match ets, gs with
            | et :: ets', g :: gs' => match positional n' ets' gs' with Some r => Some (elem_src et g :: r) | None => None end
            | _, _ => None
            end
  end.
Definition field_types (fs : list (string * string * gty)) : list gty := map (fun f => snd f) fs.

(* UDT from a struct: one source per CQL field name *)
Fixpoint by_name (sfs : list (string * string * gty)) (gs : list gval) (names : list string) : option (list gsrc) :=
  match names with
  | [] => Some []
  | nm :: r =>
      match locate_by_name sfs nm 0 with
      | Some (i, ft) =>
          match nth_error gs i, by_name sfs gs r with
          | Some g, Some rest => Some (elem_src ft g :: rest)
          | _, _ => None
          end
      | None => None
      end
  end.
(* UDT from a map[string]V: missing key -> nil (NULL) *)
Fixpoint lookup_name (vt : gty) (kvs : list (gval * gval)) (nm : list Z) : gsrc :=
  match kvs with
  | [] => None
  | (GVLeaf (VBytes k), w) :: r => if (fix eqb (a b : list Z) : bool := match a, b with [], [] => true | x :: a', y :: b' => Z.eqb x y && eqb a' b' | _, _ => false end) k nm
                                   then elem_src vt w else lookup_name vt r nm
  | _ :: r => lookup_name vt r nm
  end.
Definition is_string_ty (t : gty) : bool := match t with GLeaf SVarchar LVal | GLeaf SAscii LVal => true | _ => false end.

(* ------------------------------------------------------------------------------------------------ Encode *)
Fixpoint g_encode (v : Z) (t : cqltype) (src : gsrc) {struct t} : outcome (option bytes) :=
  let fields_of (fs : list cqltype) (srcs : option (list gsrc)) : outcome (option bytes) :=
    match srcs with
    | None => ERR                                                          (* index out of range / no such field *)
    | Some ss =>
        b <-! (fix fields (fs : list cqltype) (ss : list gsrc) {struct fs} : outcome bytes :=
                 match fs with
                 | [] => OK []
                 | f :: fs' => match ss with
                               | [] => ERR
                               | s :: ss' => e <-! g_encode v f s; rest <-! fields fs' ss'; OK (write_bytes e ++ rest)
                               end
                 end) fs ss;
        OK (match fs with [] => None | _ => Some b end)
    end in
  match t with
  | TScalar s => leaf_encode s src
  | TList e | TSet e =>
      match reflect_source src with
      | None => OK None
      | Some (GSlice et, val) | Some (GArray _ et, val) =>
          match val with
          | None => OK None
          | Some (GVSlice es) | Some (GVArray es) =>
              c <-! writeCollectionSize v (zlen es);
              b <-! enc_elems_g v (fun g => g_encode v e (elem_src et g)) es; OK (Some (c ++ b))
          | Some _ => ERR
          end
      | Some _ => ERR                                                     (* ErrSourceTypeNotSupported *)
      end
  | TMap k w =>
      match reflect_source src with
      | None => OK None
      | Some (GMap kt vt, val) =>
          match val with
          | None => OK None
          | Some (GVMap kvs) =>
              c <-! writeCollectionSize v (zlen kvs);
              b <-! enc_entries_g v (fun kk => g_encode v k (elem_src kt kk))
                                    (fun kw => g_encode v w (if key_findable kt (fst kw) then elem_src vt (snd kw) else None))
                                    (map (fun kw => (fst kw, kw)) kvs);
              OK (Some (c ++ b))
          | Some _ => ERR
          end
      | Some _ => ERR
      end
  | TTuple fs =>
      match reflect_source src with
      | None => OK None
      | Some (GStruct sfs, val) =>
          match val with
          | None => OK None
          | Some (GVStruct gs) => fields_of fs (positional (List.length fs) (field_types sfs) gs)
          | Some _ => ERR
          end
      | Some (GSlice et, val) | Some (GArray _ et, val) =>
          match val with
          | None => OK None
          | Some (GVSlice gs) | Some (GVArray gs) => fields_of fs (positional (List.length fs) (repeat et (List.length gs)) gs)
          | Some _ => ERR
          end
      | Some _ => ERR
      end
  | TUdt names fs =>
      match reflect_source src with
      | None => OK None
      | Some (GStruct sfs, val) =>
          match val with
          | None => OK None
          | Some (GVStruct gs) => fields_of fs (by_name sfs gs names)
          | Some _ => ERR
          end
      | Some (GMap kt vt, val) =>
          match val with
          | None => OK None
          | Some (GVMap kvs) =>
              if is_string_ty kt then fields_of fs (Some (map (fun nm => lookup_name vt kvs (bytes_of_string nm)) names)) else ERR
          | Some _ => ERR
          end
      | Some (GSlice et, val) | Some (GArray _ et, val) =>
          match val with
          | None => OK None
          | Some (GVSlice gs) | Some (GVArray gs) => fields_of fs (positional (List.length fs) (repeat et (List.length gs)) gs)
          | Some _ => ERR
          end
      | Some _ => ERR
      end
  end.

(* ------------------------------------------------------------------------------------------------ Decode *)
Fixpoint dec_elems_g {A} (v : Z) (dec : option bytes -> outcome A) (fuel : nat) (n : Z) (src : bytes) : outcome (list A * bytes) :=
  if n <=? 0 then OK ([], src)
  else match fuel with
       | O => ERR
       | S f => r <-! read_elem v src; x <-! dec (fst r); rest <-! dec_elems_g v dec f (n - 1) (snd r); OK (x :: fst rest, snd rest)
       end.
Fixpoint dec_entries_g {A B} (v : Z) (deck : option bytes -> outcome A) (decv : option bytes -> outcome B) (fuel : nat) (n : Z) (src : bytes)
  : outcome (list (A * B) * bytes) :=
  if n <=? 0 then OK ([], src)
  else match fuel with
       | O => ERR
       | S f => rk <-! read_elem v src; rv <-! read_elem v (snd rk); k <-! deck (fst rk); w <-! decv (fst rv);
                rest <-! dec_entries_g v deck decv f (n - 1) (snd rv); OK ((k, w) :: fst rest, snd rest)
       end.

(* injector.zeroElem + elementCodec.Decode + injector.setElem for one element / key / value / field of static type et:
   zero := ensurePointer(nilSafeZero(et)) is a pointer to a fresh zero variable of et's pointee-free type; a NULL stores Zero(et),
   a value is stored through maybeIndirect.  [dv] is Codec.Decode of the element codec into a variable of the given type. *)
Definition dec_elem_with (dv : gty -> gval -> option bytes -> outcome (bool * gval)) (et : gty) (src : option bytes) : outcome gval :=
  match et with
  | GPtr t' => r <-! dv t' (gzero t') src; OK (if fst r then GVNilPtr else GVPtr (snd r))
  | _ => r <-! dv et (gzero et) src; OK (if fst r then gzero et else snd r)
  end.

(* scalar codecs: Decode into a leaf variable or an untyped one *)
Definition leaf_decode (s : scalar) (gt : gty) (src : option bytes) : outcome (bool * gval) :=
  match gt with
  | GLeaf s' k =>
      if scalar_eqb s s' then x <-! dec_scalar s src; OK (match x with VNull => (true, gzero gt) | _ => (false, GVLeaf x) end) else ERR
  | GIface =>
      x <-! dec_scalar s src;
      OK (match x with
          | VNull => (true, GVNilIface)
          | _ => (false, GVIface (pref (TScalar s)) (match s with SVarint => GVPtr (GVLeaf x) | _ => GVLeaf x end))
          end)
  | _ => ERR                                                               (* errDestinationInvalid: e.g. **T *)
  end.

(* key equality of Go maps *)
Fixpoint gkey_eqb (a b : gval) {struct a} : bool :=
  match a, b with
  | GVLeaf (VFloat x), GVLeaf (VFloat y) => Z.eqb x y                      (* NaN keys are excluded by key_findable at the use sites *)
  | GVLeaf x, GVLeaf y =>
      match x, y with
      | VInt p, VInt q => Z.eqb p q
      | VBytes p, VBytes q | VUuid p, VUuid q | VInet p, VInet q =>
          (fix eqb (a b : list Z) : bool := match a, b with [], [] => true | x :: a', y :: b' => Z.eqb x y && eqb a' b' | _, _ => false end) p q
      | VBool p, VBool q => Bool.eqb p q
      | VDuration m d n, VDuration m' d' n' => Z.eqb m m' && Z.eqb d d' && Z.eqb n n'
      | VNull, VNull => true
      | _, _ => false                                                      (* CqlDecimal holds a pointer: identity *)
      end
  | GVNilPtr, GVNilPtr => true
  | GVNilIface, GVNilIface => true
  | GVIface _ x, GVIface _ y => gkey_eqb x y
  | GVArray xs, GVArray ys | GVStruct xs, GVStruct ys =>
      (fix eql (xs ys : list gval) {struct xs} : bool :=
         match xs, ys with [], [] => true | x :: xs', y :: ys' => gkey_eqb x y && eql xs' ys' | _, _ => false end) xs ys
  | _, _ => false                                                          (* distinct non-nil pointers *)
  end.
Fixpoint map_set (kvs : list (gval * gval)) (k w : gval) : list (gval * gval) :=
  match kvs with
  | [] => [(k, w)]
  | (k', w') :: r => if gkey_eqb k' k then (k', w) :: r else (k', w') :: map_set r k w
  end.
Definition map_entries (d : gval) : list (gval * gval) := match d with GVMap kvs => kvs | _ => [] end.

(* reflect.Type.Comparable of a Go type (slices, maps and slice-kinded leaves are not; arrays and structs are when their parts are) *)
Fixpoint ty_comparable (t : gty) : bool :=
  match t with
  | GLeaf _ LSlice | GSlice _ | GMap _ _ => false
  | GLeaf _ LVal | GPtr _ | GIface | GIfaceN _ => true
  | GArray _ e => ty_comparable e
  | GStruct fs => (fix all (fs : list (string * string * gty)) : bool :=
                     match fs with [] => true | (_, _, ft) :: r => ty_comparable ft && all r end) fs
  end.
(* injectors.go isHashable (fix 280217e), on a key whose STATIC type is a valid map key type: what decides is the dynamic type of every
   value held by an interface, directly or inside array elements / struct fields.  A key that is not hashable is refused
   (errMapKeyNotHashable); before the fix reflect.Value.SetMapIndex panicked with "hash of unhashable type". *)
Fixpoint ghashable (g : gval) {struct g} : bool :=
  match g with
  | GVIface dt x => ty_comparable dt && ghashable x
  | GVArray es | GVStruct es => (fix all (l : list gval) : bool := match l with [] => true | x :: r => ghashable x && all r end) es
  | _ => true
  end.
Definition arr_elems (d : gval) : list gval := match d with GVArray es | GVStruct es | GVSlice es => es | _ => [] end.

Fixpoint set_nth {A} (l : list A) (i : nat) (x : A) : list A :=
  match l, i with
  | [], _ => []
  | _ :: r, O => x :: r
  | y :: r, S i' => y :: set_nth r i' x
  end.

(* the element types, one per CQL field, a tuple / UDT destination offers; None = no such position / field *)
Fixpoint by_name_types (sfs : list (string * string * gty)) (names : list string) : option (list (nat * gty)) :=
  match names with
  | [] => Some []
  | nm :: r => match locate_by_name sfs nm 0, by_name_types sfs r with
               | Some p, Some rest => Some (p :: rest)
               | _, _ => None
               end
  end.
Fixpoint store_at (old : list gval) (targets : list (nat * gty)) (ys : list gval) : list gval :=
  match targets, ys with
  | (i, _) :: tr, y :: yr => store_at (set_nth old i y) tr yr
  | _, _ => old
  end.

Section Decode.
  Variable v : Z.

  Fixpoint dec_var (t : cqltype) (gt : gty) (d : gval) (src : option bytes) {struct t} : outcome (bool * gval) :=
    (* readTuple / readUdt over per-position element types; [udt] selects the D4 behaviour (absent trailing fields are NULL) *)
    let fields (udt : bool) (fs : list cqltype) (ets : list gty) (src : bytes) : outcome (list gval) :=
      r <-! (fix go (fs : list cqltype) (ets : list gty) (src : bytes) {struct fs} : outcome (list gval * bytes) :=
               match fs with
               | [] => OK ([], src)
               | f :: fs' =>
                   match ets with
                   | [] => ERR
                   | et :: ets' =>
                       e <-! (match udt, src with true, [] => OK (None, []) | _, _ => read_bytes src end);
                       y <-! dec_elem_with (dec_var f) et (fst e);
                       rest <-! go fs' ets' (snd e); OK (y :: fst rest, snd rest)
                   end
               end) fs ets src;
      all_read r in
    let wasNull := src_len src =? 0 in
    match t with
    | TScalar s => leaf_decode s gt src
    | TList e | TSet e =>
        let body (et : gty) : outcome (Z * list gval) :=
          r <-! readCollectionSize v (src_bytes src);
          let (size, rest) := r in
          if size <? 0 then ERR
          else es <-! dec_elems_g v (dec_elem_with (dec_var e) et) (S (List.length rest)) size rest; ys <-! all_read es; OK (size, ys) in
        match gt with
        | GSlice et => if wasNull then OK (true, GVNilSlice) else r <-! body et; OK (false, GVSlice (snd r))
        | GArray n et =>
            if wasNull then OK (true, gzero gt)
            else r <-! body et; if Z.of_nat n <? fst r then ERR else OK (false, GVArray (snd r ++ skipn (List.length (snd r)) (arr_elems d)))
        | GIfaceN true => if wasNull then OK (true, GVNilIface) else ERR   (* preferred type not assignable: ErrDestinationTypeNotSupported (fix e96a38f) *)
        | GIface | GIfaceN false =>
            if wasNull then OK (true, GVNilIface)
            else let et := ensure_nillable (pref e) in r <-! body et; OK (false, GVIface (GSlice et) (GVSlice (snd r)))
        | _ => ERR                                                          (* ErrDestinationTypeNotSupported *)
        end
    | TMap k w =>
        let body (kt vt : gty) (old : list (gval * gval)) : outcome (list (gval * gval)) :=
          r <-! readCollectionSize v (src_bytes src);
          let (size, rest) := r in
          if size <? 0 then ERR
          else es <-! dec_entries_g v (dec_elem_with (dec_var k) kt) (dec_elem_with (dec_var w) vt) (S (List.length rest)) size rest;
               kvs <-! all_read es;
               if forallb (fun kw => ghashable (fst kw)) kvs                (* mapInjector.setElem: isHashable(newKey) else error *)
               then OK (fold_left (fun m kw => map_set m (fst kw) (snd kw)) kvs old) else ERR in
        match gt with
        | GMap kt vt => if wasNull then OK (true, GVNilMap) else m <-! body kt vt (map_entries d); OK (false, GVMap m)   (* adjustMapSize keeps a non-nil map *)
        | GIfaceN true => if wasNull then OK (true, GVNilIface) else ERR   (* preferred type not assignable: ErrDestinationTypeNotSupported (fix e96a38f) *)
        | GIface | GIfaceN false =>
            if wasNull then OK (true, GVNilIface)
            else match pref t with
                 | GMap kt vt => m <-! body kt vt []; OK (false, GVIface (GMap kt vt) (GVMap m))
                 | _ => ERR
                 end
        | _ => ERR
        end
    | TTuple fs =>
        let n := List.length fs in
        match gt with
        | GStruct sfs =>
            if wasNull then OK (true, gzero gt)
            else ys <-! fields false fs (field_types sfs) (src_bytes src); OK (false, GVStruct (ys ++ skipn n (arr_elems d)))
        | GSlice et => if wasNull then OK (true, GVNilSlice) else ys <-! fields false fs (repeat et n) (src_bytes src); OK (false, GVSlice ys)
        | GArray m et =>
            if wasNull then OK (true, gzero gt)
            else ys <-! fields false fs (repeat et m) (src_bytes src); OK (false, GVArray (ys ++ skipn n (arr_elems d)))
        | GIfaceN true => if wasNull then OK (true, GVNilIface) else ERR   (* preferred type not assignable: ErrDestinationTypeNotSupported (fix e96a38f) *)
        | GIface | GIfaceN false => if wasNull then OK (true, GVNilIface)
                    else ys <-! fields false fs (repeat GIface n) (src_bytes src); OK (false, GVIface (GSlice GIface) (GVSlice ys))
        | _ => ERR
        end
    | TUdt names fs =>
        let n := List.length fs in
        let name_key (nm : string) : gval := GVLeaf (VBytes (bytes_of_string nm)) in
        match gt with
        | GStruct sfs =>
            if wasNull then OK (true, gzero gt)
            else match by_name_types sfs names with
                 | Some targets => ys <-! fields true fs (map snd targets) (src_bytes src); OK (false, GVStruct (store_at (arr_elems d) targets ys))
                 | None => ERR
                 end
        | GMap kt vt =>
            if wasNull then OK (true, GVNilMap)
            else if is_string_ty kt then
              ys <-! fields true fs (repeat vt n) (src_bytes src);
              OK (false, GVMap (fold_left (fun m ny => map_set m (name_key (fst ny)) (snd ny)) (combine names ys) (map_entries d)))
            else ERR
        | GSlice et => if wasNull then OK (true, GVNilSlice) else ys <-! fields true fs (repeat et n) (src_bytes src); OK (false, GVSlice ys)
        | GArray m et =>
            if wasNull then OK (true, gzero gt)
            else ys <-! fields true fs (repeat et m) (src_bytes src); OK (false, GVArray (ys ++ skipn n (arr_elems d)))
        | GIfaceN true => if wasNull then OK (true, GVNilIface) else ERR   (* preferred type not assignable: ErrDestinationTypeNotSupported (fix e96a38f) *)
        | GIface | GIfaceN false =>
            if wasNull then OK (true, GVNilIface)
            else ys <-! fields true fs (repeat GIface n) (src_bytes src);
                 OK (false, GVIface (GMap string_ty GIface) (GVMap (fold_left (fun m ny => map_set m (name_key (fst ny)) (snd ny)) (combine names ys) [])))
        | _ => ERR
        end
    end.
End Decode.

(* Codec.Decode(src, dest) for dest = &variable of type gt holding d.  A destination that is itself a pointer variable ( **T ) is
   not supported by any codec: only one pointer level is followed (reflectDest). *)
Definition g_decode (v : Z) (t : cqltype) (gt : gty) (d : gval) (src : option bytes) : outcome (bool * gval) := dec_var v t gt d src.

(* ------------------------------------------------------------------------------------------------ abstraction *)
(* the abstract CQL value a source denotes (None: not an accepted source / index out of range) *)
Definition omap {A B} (f : A -> option B) : list A -> option (list B) :=
  fix go (l : list A) : option (list B) :=
    match l with [] => Some [] | a :: r => match f a, go r with Some b, Some rest => Some (b :: rest) | _, _ => None end end.

Fixpoint gabs (t : cqltype) (src : gsrc) {struct t} : option cval :=
  let fields_of (fs : list cqltype) (srcs : option (list gsrc)) : option (list cval) :=
    match srcs with
    | None => None
    | Some ss => (fix fields (fs : list cqltype) (ss : list gsrc) {struct fs} : option (list cval) :=
                    match fs, ss with
                    | [], _ => Some []
                    | f :: fs', s :: ss' => match gabs f s, fields fs' ss' with Some x, Some r => Some (x :: r) | _, _ => None end
                    | _ :: _, [] => None
                    end) fs ss
    end in
  match t with
  | TScalar s =>
      match src with
      | None => Some VNull
      | Some (GLeaf s' _, GVLeaf x) => if scalar_eqb s s' then Some x else None
      | Some (GPtr (GLeaf s' _), GVNilPtr) => if scalar_eqb s s' then Some VNull else None
      | Some (GPtr (GLeaf s' _), GVPtr (GVLeaf x)) => if scalar_eqb s s' then Some x else None
      | _ => None
      end
  | TList e | TSet e =>
      match reflect_source src with
      | None => Some VNull
      | Some (GSlice et, val) | Some (GArray _ et, val) =>
          match val with
          | None => Some VNull
          | Some (GVSlice es) | Some (GVArray es) => match omap (fun g => gabs e (elem_src et g)) es with Some xs => Some (VList xs) | None => None end
          | Some _ => None
          end
      | Some _ => None
      end
  | TMap k w =>
      match reflect_source src with
      | None => Some VNull
      | Some (GMap kt vt, val) =>
          match val with
          | None => Some VNull
          | Some (GVMap kvs) =>
              match omap (fun kw => match gabs k (elem_src kt (fst kw)), gabs w (if key_findable kt (fst kw) then elem_src vt (snd kw) else None) with
                                    | Some a, Some b => Some (a, b) | _, _ => None end) kvs with
              | Some ps => Some (VMap ps) | None => None end
          | Some _ => None
          end
      | Some _ => None
      end
  | TTuple fs =>
      match reflect_source src with
      | None => Some VNull
      | Some (GStruct sfs, val) =>
          match val with
          | None => Some VNull
          | Some (GVStruct gs) => match fields_of fs (positional (List.length fs) (field_types sfs) gs) with Some xs => Some (VTuple xs) | None => None end
          | Some _ => None
          end
      | Some (GSlice et, val) | Some (GArray _ et, val) =>
          match val with
          | None => Some VNull
          | Some (GVSlice gs) | Some (GVArray gs) =>
              match fields_of fs (positional (List.length fs) (repeat et (List.length gs)) gs) with Some xs => Some (VTuple xs) | None => None end
          | Some _ => None
          end
      | Some _ => None
      end
  | TUdt names fs =>
      match reflect_source src with
      | None => Some VNull
      | Some (GStruct sfs, val) =>
          match val with
          | None => Some VNull
          | Some (GVStruct gs) => match fields_of fs (by_name sfs gs names) with Some xs => Some (VUdt xs) | None => None end
          | Some _ => None
          end
      | Some (GMap kt vt, val) =>
          match val with
          | None => Some VNull
          | Some (GVMap kvs) =>
              if is_string_ty kt then
                match fields_of fs (Some (map (fun nm => lookup_name vt kvs (bytes_of_string nm)) names)) with Some xs => Some (VUdt xs) | None => None end
              else None
          | Some _ => None
          end
      | Some (GSlice et, val) | Some (GArray _ et, val) =>
          match val with
          | None => Some VNull
          | Some (GVSlice gs) | Some (GVArray gs) =>
              match fields_of fs (positional (List.length fs) (repeat et (List.length gs)) gs) with Some xs => Some (VUdt xs) | None => None end
          | Some _ => None
          end
      | Some _ => None
      end
  end.
