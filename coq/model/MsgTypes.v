(* Message types: mirror of the Go structs of /repo/message/*.go (field order = Go declaration order).
   Conventions (shared with the harness printer tools/harness/hlib/coqterm.go):
     string -> bytes (list Z)          []byte, net.IP -> option bytes        *T -> option T
     other slices -> list (nil = [])   map[string]T -> list (bytes * T')     bool -> bool   integers, code types -> Z
     exception: QueryOptions.PositionalValues / NamedValues are nil-significant -> option (list ...)
   The interface message.Message is the flat inductive [Message], one constructor per implementing struct. *)
From Coq Require Import ZArith List Bool.
From GCNP Require Import base.Bytes model.Prim model.DataType.
Import ListNotations.
Open Scope Z_scope.

Record ContinuousPagingOptions := { cpo_MaxPages : Z; cpo_PagesPerSecond : Z; cpo_NextPages : Z }.

Record QueryOptions := {
  qo_Consistency : Z;
  qo_PositionalValues : option (list (option Value));
  qo_NamedValues : option (list (bytes * option Value));
  qo_SkipMetadata : bool;
  qo_PageSize : Z;
  qo_PageSizeInBytes : bool;
  qo_PagingState : option bytes;
  qo_SerialConsistency : option Z;
  qo_DefaultTimestamp : option Z;
  qo_Keyspace : bytes;
  qo_NowInSeconds : option Z;
  qo_ContinuousPagingOptions : option ContinuousPagingOptions
}.

(* requests *)
Record Startup := { st_Options : list (bytes * bytes) }.
Record Query := { q_Query : bytes; q_Options : option QueryOptions }.
Record Prepare := { p_Query : bytes; p_Keyspace : bytes }.
Record Execute := { ex_QueryId : option bytes; ex_ResultMetadataId : option bytes; ex_Options : option QueryOptions }.
Record Register := { rg_EventTypes : list bytes }.
Record BatchChild := { bc_Query : bytes; bc_Id : option bytes; bc_Values : list (option Value) }.
Record Batch := {
  b_Type : Z;
  b_Children : list (option BatchChild);
  b_Consistency : Z;
  b_SerialConsistency : option Z;
  b_DefaultTimestamp : option Z;
  b_Keyspace : bytes;
  b_NowInSeconds : option Z
}.
Record AuthResponse := { ar_Token : option bytes }.
Record Revise := { rv_RevisionType : Z; rv_TargetStreamId : Z; rv_NextPages : Z }.

(* simple responses *)
Record Authenticate := { au_Authenticator : bytes }.
Record Supported := { su_Options : list (bytes * list bytes) }.
Record AuthChallenge := { ac_Token : option bytes }.
Record AuthSuccess := { as_Token : option bytes }.

(* ERROR bodies *)
Record Unavailable := { un_ErrorMessage : bytes; un_Consistency : Z; un_Required : Z; un_Alive : Z }.
Record ReadTimeout := { rt_ErrorMessage : bytes; rt_Consistency : Z; rt_Received : Z; rt_BlockFor : Z; rt_DataPresent : bool }.
Record WriteTimeout := { wt_ErrorMessage : bytes; wt_Consistency : Z; wt_Received : Z; wt_BlockFor : Z; wt_WriteType : bytes; wt_Contentions : Z }.
Record ReadFailure := { rf_ErrorMessage : bytes; rf_Consistency : Z; rf_Received : Z; rf_BlockFor : Z; rf_NumFailures : Z;
                        rf_FailureReasons : list (option FailureReason); rf_DataPresent : bool }.
Record WriteFailure := { wf_ErrorMessage : bytes; wf_Consistency : Z; wf_Received : Z; wf_BlockFor : Z; wf_NumFailures : Z;
                         wf_FailureReasons : list (option FailureReason); wf_WriteType : bytes }.
Record FunctionFailure := { ff_ErrorMessage : bytes; ff_Keyspace : bytes; ff_Function : bytes; ff_Arguments : list bytes }.
Record Unprepared := { up_ErrorMessage : bytes; up_Id : option bytes }.
Record AlreadyExists := { ae_ErrorMessage : bytes; ae_Keyspace : bytes; ae_Table : bytes }.

(* EVENT bodies *)
Record SchemaChangeEvent := { sce_ChangeType : bytes; sce_Target : bytes; sce_Keyspace : bytes; sce_Object : bytes; sce_Arguments : list bytes }.
Record StatusChangeEvent := { ste_ChangeType : bytes; ste_Address : option Inet }.
Record TopologyChangeEvent := { tce_ChangeType : bytes; tce_Address : option Inet }.

(* RESULT bodies *)
Record ColumnMetadata := { cm_Keyspace : bytes; cm_Table : bytes; cm_Name : bytes; cm_Index : Z; cm_Type : option DataType }.
Record VariablesMetadata := { vm_PkIndices : list Z; vm_Columns : list (option ColumnMetadata) }.
Record RowsMetadata := {
  rm_ColumnCount : Z;
  rm_PagingState : option bytes;
  rm_NewResultMetadataId : option bytes;
  rm_ContinuousPageNumber : Z;
  rm_LastContinuousPage : bool;
  rm_Columns : list (option ColumnMetadata)
}.
Record SetKeyspaceResult := { sk_Keyspace : bytes }.
Record SchemaChangeResult := { scr_ChangeType : bytes; scr_Target : bytes; scr_Keyspace : bytes; scr_Object : bytes; scr_Arguments : list bytes }.
Record PreparedResult := { pr_PreparedQueryId : option bytes; pr_ResultMetadataId : option bytes;
                           pr_VariablesMetadata : option VariablesMetadata; pr_ResultMetadata : option RowsMetadata }.
Record RowsResult := { rr_Metadata : option RowsMetadata; rr_Data : list (list (option bytes)) }.

Inductive Message : Type :=
(* requests *)
| M_Startup (m : Startup) | M_Options | M_Query (m : Query) | M_Prepare (m : Prepare) | M_Execute (m : Execute)
| M_Register (m : Register) | M_Batch (m : Batch) | M_AuthResponse (m : AuthResponse) | M_Revise (m : Revise)
(* responses *)
| M_Ready | M_Authenticate (m : Authenticate) | M_Supported (m : Supported)
| M_AuthChallenge (m : AuthChallenge) | M_AuthSuccess (m : AuthSuccess)
(* ERROR: structs carrying only the message *)
| M_ServerError (msg : bytes) | M_ProtocolError (msg : bytes) | M_AuthenticationError (msg : bytes)
| M_Overloaded (msg : bytes) | M_IsBootstrapping (msg : bytes) | M_TruncateError (msg : bytes)
| M_SyntaxError (msg : bytes) | M_Unauthorized (msg : bytes) | M_Invalid (msg : bytes) | M_ConfigError (msg : bytes)
| M_Unavailable (m : Unavailable) | M_ReadTimeout (m : ReadTimeout) | M_WriteTimeout (m : WriteTimeout)
| M_ReadFailure (m : ReadFailure) | M_WriteFailure (m : WriteFailure) | M_FunctionFailure (m : FunctionFailure)
| M_Unprepared (m : Unprepared) | M_AlreadyExists (m : AlreadyExists)
(* EVENT *)
| M_SchemaChangeEvent (m : SchemaChangeEvent) | M_StatusChangeEvent (m : StatusChangeEvent) | M_TopologyChangeEvent (m : TopologyChangeEvent)
(* RESULT *)
| M_VoidResult | M_SetKeyspaceResult (m : SetKeyspaceResult) | M_SchemaChangeResult (m : SchemaChangeResult)
| M_PreparedResult (m : PreparedResult) | M_RowsResult (m : RowsResult).

(* boolean equalities for the correspondence check (generated by Coq) *)
Scheme Boolean Equality for positive.
Scheme Boolean Equality for Z.
Scheme Boolean Equality for list.
Scheme Boolean Equality for option.
Scheme Boolean Equality for prod.
Scheme Boolean Equality for Inet.
Scheme Boolean Equality for Value.
Scheme Boolean Equality for FailureReason.
Scheme Boolean Equality for DataType.
Scheme Boolean Equality for ContinuousPagingOptions.
Scheme Boolean Equality for QueryOptions.
Scheme Boolean Equality for ColumnMetadata.
Scheme Boolean Equality for VariablesMetadata.
Scheme Boolean Equality for RowsMetadata.
Scheme Boolean Equality for Message.
