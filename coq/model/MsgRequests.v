(* Requests and simple responses: model of /repo/message/{startup,options,query,query_options,
   dse_continuous_paging_options,prepare,execute,register,batch,auth_response,dse_revise_request,ready,
   authenticate,supported,auth_challenge,auth_success}.go.
   For every message struct T the three functions of its codec are mirrored SEPARATELY, statement by statement:
     enc_T version m : W    (Encode)      len_T version m : L   (EncodedLength)      dec_T version : R T   (Decode)
   and the validity predicate T_okb / normal form norm_T used by proofs/MsgRequestsProofs.v (definitions only here).
   Conventions as in model/Prim.v and model/MsgTypes.v: Go maps are association lists in the given order (the Go
   encoder iterates in random order), decoded maps pass through [dedup_last]; a nil pointer is [None];
   a nil dereference in an ENCODER (API misuse, encoder-side panic) is modelled as Err with a comment.
   The codec's type assertion  msg.( *T)  is the [cenc_T]/[clen_T] wrapper on [Message]. *)
From Coq Require Import ZArith List Bool.
From GCNP Require Import base.GoInt base.Bytes base.Codec base.StrBytes gen.Constants_gen model.Prim model.DataType model.MsgTypes.
Import ListNotations.
Open Scope Z_scope.

Definition nonempty {A} (s : list A) : bool := match s with [] => false | _ => true end.   (* s != "" / len(s) != 0 *)
Definition is_some {A} (o : option A) : bool := match o with Some _ => true | None => false end.   (* p != nil *)

(* validity helpers shared by the _okb predicates *)
Definition str_okb (s : bytes) : bool := zlen s <=? 65535.                 (* [string]: uint16 length prefix *)
Definition lstr_okb (s : bytes) : bool := zlen s <=? 2147483647.           (* [long string], [bytes]: int32 length prefix *)
Definition i32_okb (x : Z) : bool := (-2147483648 <=? x) && (x <? 2147483648).
Definition i64_okb (x : Z) : bool := (-9223372036854775808 <=? x) && (x <? 9223372036854775808).
Definition u16_okb (x : Z) : bool := (0 <=? x) && (x <? 65536).
(* a Go map has distinct keys *)
Fixpoint nodup_keysb {V} (m : list (bytes * V)) : bool :=
  match m with
  | [] => true
  | kv :: r => negb (existsb (fun kv' => bytes_eqb (fst kv) (fst kv')) r) && nodup_keysb r
  end.
(* primitive.Value: a documented shape (NewValue / NewNullValue / NewUnsetValue or a regular value), unset only from v4 *)
Definition value_okb (version : Z) (v : option Value) : bool :=
  match v with
  | None => false                                   (* WriteValue: "cannot write a nil [value]" *)
  | Some v =>
      ((value_type v =? ValueTypeNull) && negb (is_some (value_contents v)))
      || ((value_type v =? ValueTypeUnset) && negb (is_some (value_contents v)) && (4 <=? version))
      || ((value_type v =? ValueTypeRegular) && lstr_okb (olist (value_contents v)))
  end.
Definition nvalue (v : Value) : Value :=          (* Value{Regular, nil} is written as null *)
  if value_type v =? ValueTypeRegular then NewValue (value_contents v) else v.
Definition novalue (v : option Value) : option Value := option_map nvalue v.
Definition values_okb (version : Z) (vs : list (option Value)) : bool :=
  (zlen vs <=? 65535) && forallb (value_okb version) vs.

(* ================= STARTUP (startup.go) ================= *)
Definition enc_Startup (version : Z) (m : Startup) : W := write_string_map (st_Options m).
Definition len_Startup (version : Z) (m : Startup) : L := Ok (len_string_map (st_Options m)).
Definition dec_Startup (version : Z) : R Startup :=
  options <- rmap (@dedup_last _) read_string_map ;; ret {| st_Options := options |}.
Definition Startup_okb (version : Z) (m : Startup) : bool :=
  (zlen (st_Options m) <=? 65535) && nodup_keysb (st_Options m)
  && forallb (fun kv => str_okb (fst kv) && str_okb (snd kv)) (st_Options m).
Definition norm_Startup (version : Z) (m : Startup) : Startup := m.

(* ================= OPTIONS (options.go), READY (ready.go): empty bodies ================= *)
Definition enc_Options (version : Z) : W := Ok [].
Definition len_Options (version : Z) : L := Ok 0.
Definition dec_Options (version : Z) : R unit := ret tt.
Definition enc_Ready (version : Z) : W := Ok [].
Definition len_Ready (version : Z) : L := Ok 0.
Definition dec_Ready (version : Z) : R unit := ret tt.

(* ================= AUTHENTICATE (authenticate.go) ================= *)
Definition enc_Authenticate (version : Z) (m : Authenticate) : W :=
  if nonempty (au_Authenticator m) then write_string (au_Authenticator m) else Err.   (* "authenticator cannot be empty" *)
Definition len_Authenticate (version : Z) (m : Authenticate) : L := Ok (len_string (au_Authenticator m)).
Definition dec_Authenticate (version : Z) : R Authenticate :=
  a <- read_string ;; ret {| au_Authenticator := a |}.
Definition Authenticate_okb (version : Z) (m : Authenticate) : bool :=
  nonempty (au_Authenticator m) && str_okb (au_Authenticator m).     (* authenticate.go: Encode refuses "" *)
Definition norm_Authenticate (version : Z) (m : Authenticate) : Authenticate := m.

(* ================= SUPPORTED (supported.go) ================= *)
Definition enc_Supported (version : Z) (m : Supported) : W := write_string_multimap (su_Options m).
Definition len_Supported (version : Z) (m : Supported) : L := Ok (len_string_multimap (su_Options m)).
Definition dec_Supported (version : Z) : R Supported :=
  options <- rmap (@dedup_last _) read_string_multimap ;; ret {| su_Options := options |}.
Definition Supported_okb (version : Z) (m : Supported) : bool :=
  (zlen (su_Options m) <=? 65535) && nodup_keysb (su_Options m)
  && forallb (fun kv => str_okb (fst kv) && (zlen (snd kv) <=? 65535) && forallb str_okb (snd kv)) (su_Options m).
Definition norm_Supported (version : Z) (m : Supported) : Supported := m.

(* ================= AUTH_CHALLENGE, AUTH_SUCCESS, AUTH_RESPONSE: one [bytes] token ================= *)
Definition enc_AuthChallenge (version : Z) (m : AuthChallenge) : W := write_bytes (ac_Token m).
Definition len_AuthChallenge (version : Z) (m : AuthChallenge) : L := Ok (len_bytes (ac_Token m)).
Definition dec_AuthChallenge (version : Z) : R AuthChallenge := t <- read_bytes ;; ret {| ac_Token := t |}.
Definition AuthChallenge_okb (version : Z) (m : AuthChallenge) : bool := lstr_okb (olist (ac_Token m)).
Definition norm_AuthChallenge (version : Z) (m : AuthChallenge) : AuthChallenge := m.

Definition enc_AuthSuccess (version : Z) (m : AuthSuccess) : W := write_bytes (as_Token m).
Definition len_AuthSuccess (version : Z) (m : AuthSuccess) : L := Ok (len_bytes (as_Token m)).
Definition dec_AuthSuccess (version : Z) : R AuthSuccess := t <- read_bytes ;; ret {| as_Token := t |}.
Definition AuthSuccess_okb (version : Z) (m : AuthSuccess) : bool := lstr_okb (olist (as_Token m)).
Definition norm_AuthSuccess (version : Z) (m : AuthSuccess) : AuthSuccess := m.

Definition enc_AuthResponse (version : Z) (m : AuthResponse) : W := write_bytes (ar_Token m).
Definition len_AuthResponse (version : Z) (m : AuthResponse) : L := Ok (len_bytes (ar_Token m)).
Definition dec_AuthResponse (version : Z) : R AuthResponse := t <- read_bytes ;; ret {| ar_Token := t |}.
Definition AuthResponse_okb (version : Z) (m : AuthResponse) : bool := lstr_okb (olist (ar_Token m)).
Definition norm_AuthResponse (version : Z) (m : AuthResponse) : AuthResponse := m.

(* ================= PREPARE (prepare.go) ================= *)
Definition Prepare_Flags (m : Prepare) : Z :=
  let flags := 0 in
  let flags := if nonempty (p_Keyspace m) then PrepareFlag_Add flags PrepareFlagWithKeyspace else flags in
  flags.
Definition enc_Prepare (version : Z) (m : Prepare) : W :=
  (if nonempty (p_Query m) then write_long_string (p_Query m) else Err) +++      (* "cannot write PREPARE empty query string" *)
  (if ProtocolVersion_SupportsPrepareFlags version then
     let flags := Prepare_Flags m in
     write_int (wrap_i 32 flags) +++
     (if PrepareFlag_Contains flags PrepareFlagWithKeyspace then
        (if nonempty (p_Keyspace m) then write_string (p_Keyspace m) else Err)    (* "cannot write empty keyspace": dead code *)
      else Ok [])
   else Ok []).
Definition len_Prepare (version : Z) (m : Prepare) : L :=
  Ok (len_long_string (p_Query m)) +l+
  (if ProtocolVersion_SupportsPrepareFlags version then
     Ok LengthOfInt +l+ (if nonempty (p_Keyspace m) then Ok (len_string (p_Keyspace m)) else Ok 0)
   else Ok 0).
Definition dec_Prepare (version : Z) : R Prepare :=
  query <- read_long_string ;;
  if ProtocolVersion_SupportsPrepareFlags version then
    f <- read_int ;;
    let flags := wrap_u 32 f in                                   (* primitive.PrepareFlag(f): int32 -> uint32 *)
    if PrepareFlag_Contains flags PrepareFlagWithKeyspace then
      ks <- read_string ;; ret {| p_Query := query; p_Keyspace := ks |}
    else ret {| p_Query := query; p_Keyspace := [] |}
  else ret {| p_Query := query; p_Keyspace := [] |}.
(* Keyspace: "Introduced in Protocol Version 5, also present in DSE protocol v2" (prepare.go, struct doc): on other
   versions the encoder silently drops it (prepare.go: everything under  if version.SupportsPrepareFlags() ), so it must be "" *)
Definition Prepare_okb (version : Z) (m : Prepare) : bool :=
  nonempty (p_Query m) && lstr_okb (p_Query m) && str_okb (p_Keyspace m)
  && (ProtocolVersion_SupportsPrepareFlags version || negb (nonempty (p_Keyspace m))).
Definition norm_Prepare (version : Z) (m : Prepare) : Prepare := m.

(* ================= REGISTER (register.go) ================= *)
Definition event_type_valid (e : bytes) : bool := is_ok (CheckValidEventType (string_of_bytes e)).
Definition enc_Register (version : Z) (m : Register) : W :=
  (if zlen (rg_EventTypes m) =? 0 then Err else Ok []) +++              (* "must have at least one event type" *)
  wguard (forallb event_type_valid (rg_EventTypes m)) +++
  write_string_list (rg_EventTypes m).
Definition len_Register (version : Z) (m : Register) : L := Ok (len_string_list (rg_EventTypes m)).
Definition dec_Register (version : Z) : R Register :=
  ets <- read_string_list ;;
  rguard (forallb event_type_valid ets) ;;;
  ret {| rg_EventTypes := ets |}.
Definition Register_okb (version : Z) (m : Register) : bool :=
  nonempty (rg_EventTypes m) && (zlen (rg_EventTypes m) <=? 65535)
  && forallb event_type_valid (rg_EventTypes m) && forallb str_okb (rg_EventTypes m).
Definition norm_Register (version : Z) (m : Register) : Register := m.

(* ================= REVISE_REQUEST (dse_revise_request.go) ================= *)
Definition enc_Revise (version : Z) (m : Revise) : W :=
  wguard (is_ok (CheckDseProtocolVersion version)) +++
  wguard (is_ok (CheckValidDseRevisionType (rv_RevisionType m) version)) +++
  write_int (wrap_i 32 (rv_RevisionType m)) +++                     (* int32(revise.RevisionType), a uint32 *)
  write_int (rv_TargetStreamId m) +++
  (if rv_RevisionType m =? DseRevisionTypeMoreContinuousPages then write_int (rv_NextPages m) else Ok []).
Definition len_Revise (version : Z) (m : Revise) : L :=
  (if is_ok (CheckDseProtocolVersion version) then Ok 0 else Err) +l+
  Ok LengthOfInt +l+ Ok LengthOfInt +l+
  (if rv_RevisionType m =? DseRevisionTypeMoreContinuousPages then Ok LengthOfInt else Ok 0).
Definition dec_Revise (version : Z) : R Revise :=
  rguard (is_ok (CheckDseProtocolVersion version)) ;;;
  rt <- read_int ;;
  let revisionType := wrap_u 32 rt in                                 (* primitive.DseRevisionType(int32) *)
  rguard (is_ok (CheckValidDseRevisionType revisionType version)) ;;;
  sid <- read_int ;;
  if revisionType =? DseRevisionTypeMoreContinuousPages then
    np <- read_int ;; ret {| rv_RevisionType := revisionType; rv_TargetStreamId := sid; rv_NextPages := np |}
  else ret {| rv_RevisionType := revisionType; rv_TargetStreamId := sid; rv_NextPages := 0 |}.
(* NextPages: "Valid for DSE v2 only when RevisionType is 2" (struct doc): otherwise not written, so it must be 0 *)
Definition Revise_okb (version : Z) (m : Revise) : bool :=
  is_ok (CheckDseProtocolVersion version) && is_ok (CheckValidDseRevisionType (rv_RevisionType m) version)
  && i32_okb (rv_TargetStreamId m) && i32_okb (rv_NextPages m)
  && ((rv_RevisionType m =? DseRevisionTypeMoreContinuousPages) || (rv_NextPages m =? 0)).
Definition norm_Revise (version : Z) (m : Revise) : Revise := m.

(* ================= ContinuousPagingOptions (dse_continuous_paging_options.go) ================= *)
Definition enc_ContinuousPagingOptions (version : Z) (o : option ContinuousPagingOptions) : W :=
  wguard (is_ok (CheckDseProtocolVersion version)) +++
  match o with
  | None => Err       (* options.MaxPages on a nil pointer: encoder-side panic; unreachable from EncodeQueryOptions *)
  | Some o =>
      write_int (cpo_MaxPages o) +++ write_int (cpo_PagesPerSecond o) +++
      (if Z.geb version ProtocolVersionDse2 then write_int (cpo_NextPages o) else Ok [])
  end.
Definition len_ContinuousPagingOptions (version : Z) (o : option ContinuousPagingOptions) : L :=
  (if is_ok (CheckDseProtocolVersion version) then Ok 0 else Err) +l+
  Ok LengthOfInt +l+ Ok LengthOfInt +l+
  (if Z.geb version ProtocolVersionDse2 then Ok LengthOfInt else Ok 0).
Definition dec_ContinuousPagingOptions (version : Z) : R ContinuousPagingOptions :=
  rguard (is_ok (CheckDseProtocolVersion version)) ;;;
  maxPages <- read_int ;;
  pps <- read_int ;;
  if Z.geb version ProtocolVersionDse2 then
    np <- read_int ;; ret {| cpo_MaxPages := maxPages; cpo_PagesPerSecond := pps; cpo_NextPages := np |}
  else ret {| cpo_MaxPages := maxPages; cpo_PagesPerSecond := pps; cpo_NextPages := 0 |}.
(* NextPages: "Valid for DSE v2 only" (struct doc): below DSE v2 it is not written, so it must be 0 *)
Definition ContinuousPagingOptions_okb (version : Z) (o : ContinuousPagingOptions) : bool :=
  is_ok (CheckDseProtocolVersion version)
  && i32_okb (cpo_MaxPages o) && i32_okb (cpo_PagesPerSecond o) && i32_okb (cpo_NextPages o)
  && (Z.geb version ProtocolVersionDse2 || (cpo_NextPages o =? 0)).

(* ================= QueryOptions (query_options.go) ================= *)
Definition default_QueryOptions : QueryOptions :=       (* &QueryOptions{} *)
  {| qo_Consistency := 0; qo_PositionalValues := None; qo_NamedValues := None; qo_SkipMetadata := false;
     qo_PageSize := 0; qo_PageSizeInBytes := false; qo_PagingState := None; qo_SerialConsistency := None;
     qo_DefaultTimestamp := None; qo_Keyspace := []; qo_NowInSeconds := None; qo_ContinuousPagingOptions := None |}.

(* Go:  if cond { flags = flags.Add(flag) }  *)
Definition flag_if (cond : bool) (flags flag : Z) : Z := if cond then QueryFlag_Add flags flag else flags.

Definition QueryOptions_Flags (o : QueryOptions) : Z :=
  let flags := 0 in
  let flags := match qo_PositionalValues o with                      (* prefer positional values, ignore named ones *)
               | Some _ => QueryFlag_Add flags QueryFlagValues
               | None => match qo_NamedValues o with
                         | Some _ => QueryFlag_Add (QueryFlag_Add flags QueryFlagValues) QueryFlagValueNames
                         | None => flags
                         end
               end in
  let flags := flag_if (qo_SkipMetadata o) flags QueryFlagSkipMetadata in
  let flags := if Z.gtb (qo_PageSize o) 0 then
                 flag_if (qo_PageSizeInBytes o) (QueryFlag_Add flags QueryFlagPageSize) QueryFlagDsePageSizeBytes
               else flags in
  let flags := flag_if (is_some (qo_PagingState o)) flags QueryFlagPagingState in
  let flags := flag_if (is_some (qo_SerialConsistency o)) flags QueryFlagSerialConsistency in
  let flags := flag_if (is_some (qo_DefaultTimestamp o)) flags QueryFlagDefaultTimestamp in
  let flags := flag_if (nonempty (qo_Keyspace o)) flags QueryFlagWithKeyspace in
  let flags := flag_if (is_some (qo_NowInSeconds o)) flags QueryFlagNowInSeconds in
  let flags := flag_if (is_some (qo_ContinuousPagingOptions o)) flags QueryFlagDseWithContinuousPagingOptions in
  flags.

(* the flags word: [int] from v5 (int32(flags)), [byte] before (uint8(flags), truncating) *)
Definition enc_query_flags (version flags : Z) : W :=
  if ProtocolVersion_Uses4BytesQueryFlags version then write_int (wrap_i 32 flags) else write_byte (wrap_u 8 flags).
Definition dec_query_flags (version : Z) : R Z :=
  if ProtocolVersion_Uses4BytesQueryFlags version then rmap (wrap_u 32) read_int else read_byte.
Definition len_query_flags (version : Z) : L :=
  if ProtocolVersion_Uses4BytesQueryFlags version then Ok LengthOfInt else Ok LengthOfByte.

(* the optional parts, each guarded by its flag, in the order of EncodeQueryOptions *)
Definition enc_qo_values (version flags : Z) (o : QueryOptions) : W :=
  if QueryFlag_Contains flags QueryFlagValues then
    if QueryFlag_Contains flags QueryFlagValueNames then write_named_values version (olist (qo_NamedValues o))
    else write_positional_values version (olist (qo_PositionalValues o))
  else Ok [].
Definition enc_qo_page_size (flags : Z) (o : QueryOptions) : W :=
  if QueryFlag_Contains flags QueryFlagPageSize then write_int (qo_PageSize o) else Ok [].
Definition enc_qo_paging_state (flags : Z) (o : QueryOptions) : W :=
  if QueryFlag_Contains flags QueryFlagPagingState then write_bytes (qo_PagingState o) else Ok [].
Definition enc_qo_serial (flags : Z) (o : QueryOptions) : W :=
  if QueryFlag_Contains flags QueryFlagSerialConsistency then
    match qo_SerialConsistency o with
    | None => Err                                 (* *options.SerialConsistency on nil: unreachable, flag <-> non-nil *)
    | Some c => wguard (is_ok (CheckSerialConsistencyLevel c)) +++ write_short (wrap_u 16 c)
    end
  else Ok [].
Definition enc_qo_timestamp (flags : Z) (o : QueryOptions) : W :=
  if QueryFlag_Contains flags QueryFlagDefaultTimestamp then
    match qo_DefaultTimestamp o with None => Err | Some t => write_long t end
  else Ok [].
Definition enc_qo_keyspace (flags : Z) (o : QueryOptions) : W :=
  if QueryFlag_Contains flags QueryFlagWithKeyspace then
    (if nonempty (qo_Keyspace o) then write_string (qo_Keyspace o) else Err)       (* "cannot write empty keyspace": dead code *)
  else Ok [].
Definition enc_qo_now (flags : Z) (o : QueryOptions) : W :=
  if QueryFlag_Contains flags QueryFlagNowInSeconds then
    match qo_NowInSeconds o with None => Err | Some n => write_int n end
  else Ok [].
Definition enc_qo_cpo (version flags : Z) (o : QueryOptions) : W :=
  if QueryFlag_Contains flags QueryFlagDseWithContinuousPagingOptions then
    enc_ContinuousPagingOptions version (qo_ContinuousPagingOptions o)
  else Ok [].

Definition enc_QueryOptions (version : Z) (oo : option QueryOptions) : W :=
  let o := match oo with Some o => o | None => default_QueryOptions end in       (* use defaults if nil provided *)
  wguard (is_ok (CheckValidConsistencyLevel (qo_Consistency o))) +++
  write_short (wrap_u 16 (qo_Consistency o)) +++
  (let flags := QueryOptions_Flags o in
   enc_query_flags version flags +++
   enc_qo_values version flags o +++
   enc_qo_page_size flags o +++
   enc_qo_paging_state flags o +++
   enc_qo_serial flags o +++
   enc_qo_timestamp flags o +++
   enc_qo_keyspace flags o +++
   enc_qo_now flags o +++
   enc_qo_cpo version flags o).

Definition len_qo_values (flags : Z) (o : QueryOptions) : L :=
  if QueryFlag_Contains flags QueryFlagValues then
    if QueryFlag_Contains flags QueryFlagValueNames then len_named_values (olist (qo_NamedValues o))
    else len_positional_values (olist (qo_PositionalValues o))
  else Ok 0.
Definition len_QueryOptions (version : Z) (oo : option QueryOptions) : L :=
  let o := match oo with Some o => o | None => default_QueryOptions end in
  Ok LengthOfShort +l+
  len_query_flags version +l+
  (let flags := QueryOptions_Flags o in
   len_qo_values flags o +l+
   (if QueryFlag_Contains flags QueryFlagPageSize then Ok LengthOfInt else Ok 0) +l+
   (if QueryFlag_Contains flags QueryFlagPagingState then Ok (len_bytes (qo_PagingState o)) else Ok 0) +l+
   (if QueryFlag_Contains flags QueryFlagSerialConsistency then Ok LengthOfShort else Ok 0) +l+
   (if QueryFlag_Contains flags QueryFlagDefaultTimestamp then Ok LengthOfLong else Ok 0) +l+
   (if QueryFlag_Contains flags QueryFlagWithKeyspace then Ok (len_string (qo_Keyspace o)) else Ok 0) +l+
   (if QueryFlag_Contains flags QueryFlagNowInSeconds then Ok LengthOfInt else Ok 0) +l+
   (if QueryFlag_Contains flags QueryFlagDseWithContinuousPagingOptions then
      len_ContinuousPagingOptions version (qo_ContinuousPagingOptions o)
    else Ok 0)).

Definition dec_qo_values (version flags : Z) : R (option (list (option Value)) * option (list (bytes * option Value))) :=
  if QueryFlag_Contains flags QueryFlagValues then
    if QueryFlag_Contains flags QueryFlagValueNames then
      nv <- read_named_values version ;; ret (None, Some (dedup_last nv))
    else pv <- read_positional_values version ;; ret (Some pv, None)
  else ret (None, None).
Definition dec_qo_page_size (flags : Z) : R (Z * bool) :=
  if QueryFlag_Contains flags QueryFlagPageSize then
    ps <- read_int ;; ret (ps, QueryFlag_Contains flags QueryFlagDsePageSizeBytes)
  else ret (0, false).
Definition dec_qo_paging_state (flags : Z) : R (option bytes) :=
  if QueryFlag_Contains flags QueryFlagPagingState then read_bytes else ret None.
Definition dec_qo_serial (flags : Z) : R (option Z) :=
  if QueryFlag_Contains flags QueryFlagSerialConsistency then
    c <- read_short ;;
    rguard (is_ok (CheckValidConsistencyLevel c)) ;;;          (* only "valid", the encoder demands "serial" *)
    ret (Some c)
  else ret None.
Definition dec_qo_timestamp (flags : Z) : R (option Z) :=
  if QueryFlag_Contains flags QueryFlagDefaultTimestamp then rmap Some read_long else ret None.
Definition dec_qo_keyspace (flags : Z) : R bytes :=
  if QueryFlag_Contains flags QueryFlagWithKeyspace then read_string else ret [].
Definition dec_qo_now (flags : Z) : R (option Z) :=
  if QueryFlag_Contains flags QueryFlagNowInSeconds then rmap Some read_int else ret None.
Definition dec_qo_cpo (version flags : Z) : R (option ContinuousPagingOptions) :=
  if QueryFlag_Contains flags QueryFlagDseWithContinuousPagingOptions then
    rmap Some (dec_ContinuousPagingOptions version)
  else ret None.

Definition dec_QueryOptions (version : Z) : R QueryOptions :=
  consistency <- read_short ;;
  rguard (is_ok (CheckValidConsistencyLevel consistency)) ;;;
  flags <- dec_query_flags version ;;
  vals <- dec_qo_values version flags ;;
  let skip := QueryFlag_Contains flags QueryFlagSkipMetadata in
  ps <- dec_qo_page_size flags ;;
  pgs <- dec_qo_paging_state flags ;;
  serial <- dec_qo_serial flags ;;
  ts <- dec_qo_timestamp flags ;;
  ks <- dec_qo_keyspace flags ;;
  now <- dec_qo_now flags ;;
  cpo <- dec_qo_cpo version flags ;;
  ret {| qo_Consistency := consistency; qo_PositionalValues := fst vals; qo_NamedValues := snd vals;
         qo_SkipMetadata := skip; qo_PageSize := fst ps; qo_PageSizeInBytes := snd ps; qo_PagingState := pgs;
         qo_SerialConsistency := serial; qo_DefaultTimestamp := ts; qo_Keyspace := ks; qo_NowInSeconds := now;
         qo_ContinuousPagingOptions := cpo |}.

(* Validity of the options for [version]:
   - Consistency valid (EncodeQueryOptions: CheckValidConsistencyLevel), SerialConsistency serial (CheckSerialConsistencyLevel);
   - every feature present must be supported by the version (field docs of QueryOptions; primitive.SupportsQueryFlag).
     The encoder does NOT refuse unsupported features (observation, see notes/msgreq.md);
   - integers in their Go type's range; strings / counts within their length prefix;
   - NamedValues is a Go map: distinct keys. *)
Definition qo_flag_list : list Z :=
  [QueryFlagValues; QueryFlagSkipMetadata; QueryFlagPageSize; QueryFlagPagingState; QueryFlagSerialConsistency;
   QueryFlagDefaultTimestamp; QueryFlagValueNames; QueryFlagWithKeyspace; QueryFlagNowInSeconds;
   QueryFlagDsePageSizeBytes; QueryFlagDseWithContinuousPagingOptions].
Definition flags_supportedb (version flags : Z) : bool :=
  forallb (fun flag => negb (QueryFlag_Contains flags flag) || ProtocolVersion_SupportsQueryFlag version flag) qo_flag_list.
Definition opt_okb {A} (f : A -> bool) (o : option A) : bool := match o with Some x => f x | None => true end.
Definition named_values_okb (version : Z) (nv : list (bytes * option Value)) : bool :=
  (zlen nv <=? 65535) && nodup_keysb nv && forallb (fun kv => str_okb (fst kv) && value_okb version (snd kv)) nv.
Definition QueryOptions_okb (version : Z) (o : QueryOptions) : bool :=
  is_ok (CheckValidConsistencyLevel (qo_Consistency o))
  && flags_supportedb version (QueryOptions_Flags o)
  && opt_okb (values_okb version) (qo_PositionalValues o)
  && opt_okb (named_values_okb version) (qo_NamedValues o)
  && i32_okb (qo_PageSize o)
  && lstr_okb (olist (qo_PagingState o))
  && opt_okb (fun c => is_ok (CheckSerialConsistencyLevel c)) (qo_SerialConsistency o)
  && opt_okb i64_okb (qo_DefaultTimestamp o)
  && str_okb (qo_Keyspace o)
  && opt_okb i32_okb (qo_NowInSeconds o)
  && opt_okb (ContinuousPagingOptions_okb version) (qo_ContinuousPagingOptions o).
(* Normal form: what the wire carries.
   - positional values win over named ones ("named values will be silently ignored", field doc);
   - PageSize <= 0 means "no pagination" (field doc): it is not written, and PageSizeInBytes goes with it;
   - Value{Regular,nil} is written as null. *)
Definition norm_QueryOptions (version : Z) (o : QueryOptions) : QueryOptions :=
  {| qo_Consistency := qo_Consistency o;
     qo_PositionalValues := option_map (map novalue) (qo_PositionalValues o);
     qo_NamedValues := match qo_PositionalValues o with
                       | Some _ => None
                       | None => option_map (map (fun kv => (fst kv, novalue (snd kv)))) (qo_NamedValues o)
                       end;
     qo_SkipMetadata := qo_SkipMetadata o;
     qo_PageSize := if Z.gtb (qo_PageSize o) 0 then qo_PageSize o else 0;
     qo_PageSizeInBytes := Z.gtb (qo_PageSize o) 0 && qo_PageSizeInBytes o;
     qo_PagingState := qo_PagingState o;
     qo_SerialConsistency := qo_SerialConsistency o;
     qo_DefaultTimestamp := qo_DefaultTimestamp o;
     qo_Keyspace := qo_Keyspace o;
     qo_NowInSeconds := qo_NowInSeconds o;
     qo_ContinuousPagingOptions := qo_ContinuousPagingOptions o |}.
(* a nil *QueryOptions means default options, and decodes as such *)
Definition oQueryOptions_okb (version : Z) (oo : option QueryOptions) : bool :=
  QueryOptions_okb version (match oo with Some o => o | None => default_QueryOptions end).
Definition norm_oQueryOptions (version : Z) (oo : option QueryOptions) : option QueryOptions :=
  Some (norm_QueryOptions version (match oo with Some o => o | None => default_QueryOptions end)).

(* ================= QUERY (query.go) ================= *)
Definition enc_Query (version : Z) (m : Query) : W :=
  write_long_string (q_Query m) +++ enc_QueryOptions version (q_Options m).
Definition len_Query (version : Z) (m : Query) : L :=
  Ok (len_long_string (q_Query m)) +l+ len_QueryOptions version (q_Options m).
Definition dec_Query (version : Z) : R Query :=
  query <- read_long_string ;;
  options <- dec_QueryOptions version ;;
  ret {| q_Query := query; q_Options := Some options |}.
Definition Query_okb (version : Z) (m : Query) : bool :=
  lstr_okb (q_Query m) && oQueryOptions_okb version (q_Options m).
Definition norm_Query (version : Z) (m : Query) : Query :=
  {| q_Query := q_Query m; q_Options := norm_oQueryOptions version (q_Options m) |}.

(* ================= EXECUTE (execute.go) ================= *)
Definition enc_Execute (version : Z) (m : Execute) : W :=
  (if zlen (olist (ex_QueryId m)) =? 0 then Err else write_short_bytes (ex_QueryId m)) +++     (* "EXECUTE missing query id" *)
  (if ProtocolVersion_SupportsResultMetadataId version then
     (if zlen (olist (ex_ResultMetadataId m)) =? 0 then Err else write_short_bytes (ex_ResultMetadataId m))
   else Ok []) +++
  enc_QueryOptions version (ex_Options m).
Definition len_Execute (version : Z) (m : Execute) : L :=
  Ok (len_short_bytes (ex_QueryId m)) +l+
  (if ProtocolVersion_SupportsResultMetadataId version then Ok (len_short_bytes (ex_ResultMetadataId m)) else Ok 0) +l+
  len_QueryOptions version (ex_Options m).
Definition dec_Execute (version : Z) : R Execute :=
  qid <- read_short_bytes ;;
  rguard (negb (zlen (olist qid) =? 0)) ;;;
  rmid <- (if ProtocolVersion_SupportsResultMetadataId version then
             r <- read_short_bytes ;; rguard (negb (zlen (olist r) =? 0)) ;;; ret r
           else ret None) ;;
  options <- dec_QueryOptions version ;;
  ret {| ex_QueryId := qid; ex_ResultMetadataId := rmid; ex_Options := Some options |}.
(* ResultMetadataId: "Valid in protocol version 5 and DSE protocol version 2" (struct doc): elsewhere the encoder
   silently drops it (execute.go: if version.SupportsResultMetadataId()), so it must be empty *)
Definition Execute_okb (version : Z) (m : Execute) : bool :=
  nonempty (olist (ex_QueryId m)) && str_okb (olist (ex_QueryId m))
  && (if ProtocolVersion_SupportsResultMetadataId version
      then nonempty (olist (ex_ResultMetadataId m)) && str_okb (olist (ex_ResultMetadataId m))
      else negb (nonempty (olist (ex_ResultMetadataId m))))
  && oQueryOptions_okb version (ex_Options m).
Definition norm_Execute (version : Z) (m : Execute) : Execute :=
  {| ex_QueryId := Some (olist (ex_QueryId m));
     ex_ResultMetadataId := if ProtocolVersion_SupportsResultMetadataId version then Some (olist (ex_ResultMetadataId m)) else None;
     ex_Options := norm_oQueryOptions version (ex_Options m) |}.

(* ================= BATCH (batch.go) ================= *)
Definition Batch_Flags (m : Batch) : Z :=
  let flags := 0 in
  let flags := flag_if (is_some (b_SerialConsistency m)) flags QueryFlagSerialConsistency in
  let flags := flag_if (is_some (b_DefaultTimestamp m)) flags QueryFlagDefaultTimestamp in
  let flags := flag_if (nonempty (b_Keyspace m)) flags QueryFlagWithKeyspace in
  let flags := flag_if (is_some (b_NowInSeconds m)) flags QueryFlagNowInSeconds in
  flags.

Definition enc_BatchChild (version : Z) (oc : option BatchChild) : W :=
  match oc with
  | None => Err                      (* child.Query on a nil *BatchChild: encoder-side panic (API misuse) *)
  | Some c =>
      (if nonempty (bc_Query c) then
         write_byte (wrap_u 8 BatchChildTypeQueryString) +++
         (if nonempty (bc_Query c) then write_long_string (bc_Query c) else Err)       (* dead check *)
       else
         write_byte (wrap_u 8 BatchChildTypePreparedId) +++
         (if zlen (olist (bc_Id c)) =? 0 then Err else write_short_bytes (bc_Id c))) +++     (* "cannot write empty BATCH query id" *)
      write_positional_values version (bc_Values c)
  end.
Definition len_BatchChild (oc : option BatchChild) : L :=
  match oc with
  | None => Err
  | Some c =>
      Ok LengthOfByte +l+
      (if nonempty (bc_Query c) then Ok (len_long_string (bc_Query c)) else Ok (len_short_bytes (bc_Id c))) +l+
      len_positional_values (bc_Values c)
  end.
Definition dec_BatchChild (version : Z) : R (option BatchChild) :=
  childType <- read_byte ;;
  qi <- (if childType =? BatchChildTypeQueryString then q <- read_long_string ;; ret (q, None)
         else if childType =? BatchChildTypePreparedId then id <- read_short_bytes ;; ret ([], id)
         else rfail) ;;
  vs <- read_positional_values version ;;
  ret (Some {| bc_Query := fst qi; bc_Id := snd qi; bc_Values := vs |}).

Definition batch_has (version flags flag : Z) : bool :=
  ProtocolVersion_SupportsQueryFlag version flag && QueryFlag_Contains flags flag.

Definition enc_Batch (version : Z) (m : Batch) : W :=
  wguard (is_ok (CheckValidBatchType (b_Type m))) +++
  write_byte (wrap_u 8 (b_Type m)) +++
  (if Z.gtb (zlen (b_Children m)) 65535 then Err else write_short (wrap_u 16 (zlen (b_Children m)))) +++
  wlist (enc_BatchChild version) (b_Children m) +++
  write_short (wrap_u 16 (b_Consistency m)) +++
  (if ProtocolVersion_SupportsBatchQueryFlags version then
     let flags := Batch_Flags m in
     enc_query_flags version flags +++
     (if batch_has version flags QueryFlagSerialConsistency then
        match b_SerialConsistency m with None => Err | Some c => write_short (wrap_u 16 c) end
      else Ok []) +++
     (if batch_has version flags QueryFlagDefaultTimestamp then
        match b_DefaultTimestamp m with None => Err | Some t => write_long t end
      else Ok []) +++
     (if batch_has version flags QueryFlagWithKeyspace then
        (if nonempty (b_Keyspace m) then write_string (b_Keyspace m) else Err)       (* "cannot write BATCH empty keyspace": dead *)
      else Ok []) +++
     (if batch_has version flags QueryFlagNowInSeconds then
        match b_NowInSeconds m with None => Err | Some n => write_int n end
      else Ok [])
   else Ok []).
Definition len_Batch (version : Z) (m : Batch) : L :=
  (if Z.gtb (zlen (b_Children m)) 65535 then Err else Ok 0) +l+
  Ok LengthOfByte +l+ Ok LengthOfShort +l+
  llist len_BatchChild (b_Children m) +l+
  Ok LengthOfShort +l+
  (if ProtocolVersion_SupportsBatchQueryFlags version then
     len_query_flags version +l+
     (let flags := Batch_Flags m in
      (if batch_has version flags QueryFlagSerialConsistency then Ok LengthOfShort else Ok 0) +l+
      (if batch_has version flags QueryFlagDefaultTimestamp then Ok LengthOfLong else Ok 0) +l+
      (if batch_has version flags QueryFlagWithKeyspace then Ok (len_string (b_Keyspace m)) else Ok 0) +l+
      (if batch_has version flags QueryFlagNowInSeconds then Ok LengthOfInt else Ok 0))
   else Ok 0).
Definition dec_Batch (version : Z) : R Batch :=
  batchType <- read_byte ;;
  rguard (is_ok (CheckValidBatchType batchType)) ;;;
  childrenCount <- read_short ;;                             (* make([]*BatchChild, uint16): cannot be negative *)
  children <- read_count childrenCount (dec_BatchChild version) ;;
  consistency <- read_short ;;
  if ProtocolVersion_SupportsBatchQueryFlags version then
    flags <- dec_query_flags version ;;
    rguard (negb (QueryFlag_Contains flags QueryFlagValueNames)) ;;;       (* CASSANDRA-10246 *)
    serial <- (if QueryFlag_Contains flags QueryFlagSerialConsistency then rmap Some read_short else ret None) ;;
    ts <- (if QueryFlag_Contains flags QueryFlagDefaultTimestamp then rmap Some read_long else ret None) ;;
    ks <- (if batch_has version flags QueryFlagWithKeyspace then read_string else ret []) ;;
    now <- (if batch_has version flags QueryFlagNowInSeconds then rmap Some read_int else ret None) ;;
    ret {| b_Type := batchType; b_Children := children; b_Consistency := consistency; b_SerialConsistency := serial;
           b_DefaultTimestamp := ts; b_Keyspace := ks; b_NowInSeconds := now |}
  else
    ret {| b_Type := batchType; b_Children := children; b_Consistency := consistency; b_SerialConsistency := None;
           b_DefaultTimestamp := None; b_Keyspace := []; b_NowInSeconds := None |}.

(* BatchChild: "Exactly one of Query or Id must be present, never both" (struct doc) *)
Definition BatchChild_okb (version : Z) (oc : option BatchChild) : bool :=
  match oc with
  | None => false
  | Some c =>
      (if nonempty (bc_Query c) then lstr_okb (bc_Query c) && negb (nonempty (olist (bc_Id c)))
       else nonempty (olist (bc_Id c)) && str_okb (olist (bc_Id c)))
      && values_okb version (bc_Values c)
  end.
Definition norm_BatchChild (oc : option BatchChild) : option BatchChild :=
  option_map (fun c => {| bc_Query := bc_Query c;
                          bc_Id := if nonempty (bc_Query c) then None else Some (olist (bc_Id c));
                          bc_Values := map novalue (bc_Values c) |}) oc.
(* SerialConsistency / DefaultTimestamp: "available starting with protocol version 3" (struct doc; batch.go writes no
   flags at all below v3); Keyspace: "Introduced in Protocol Version 5, also present in DSE protocol v2";
   NowInSeconds: "Introduced in Protocol Version 5, not present in DSE protocol versions": on the other versions
   batch.go guards them with version.SupportsQueryFlag and drops them silently, so they must be absent. *)
Definition Batch_okb (version : Z) (m : Batch) : bool :=
  is_ok (CheckValidBatchType (b_Type m))
  && (zlen (b_Children m) <=? 65535) && forallb (BatchChild_okb version) (b_Children m)
  && u16_okb (b_Consistency m)
  && opt_okb u16_okb (b_SerialConsistency m) && opt_okb i64_okb (b_DefaultTimestamp m)
  && str_okb (b_Keyspace m) && opt_okb i32_okb (b_NowInSeconds m)
  && (if ProtocolVersion_SupportsBatchQueryFlags version then flags_supportedb version (Batch_Flags m)
      else (Batch_Flags m =? 0)).
Definition norm_Batch (version : Z) (m : Batch) : Batch :=
  {| b_Type := b_Type m; b_Children := map norm_BatchChild (b_Children m); b_Consistency := b_Consistency m;
     b_SerialConsistency := b_SerialConsistency m; b_DefaultTimestamp := b_DefaultTimestamp m;
     b_Keyspace := b_Keyspace m; b_NowInSeconds := b_NowInSeconds m |}.

(* ================= the codecs on [Message] (type assertion  msg.( *T) ) ================= *)
Definition cenc_Startup v (m : Message) : W := match m with M_Startup x => enc_Startup v x | _ => Err end.
Definition clen_Startup v (m : Message) : L := match m with M_Startup x => len_Startup v x | _ => Err end.
Definition cenc_Options v (m : Message) : W := match m with M_Options => enc_Options v | _ => Err end.
Definition clen_Options v (m : Message) : L := match m with M_Options => len_Options v | _ => Err end.
Definition cenc_Query v (m : Message) : W := match m with M_Query x => enc_Query v x | _ => Err end.
Definition clen_Query v (m : Message) : L := match m with M_Query x => len_Query v x | _ => Err end.
Definition cenc_Prepare v (m : Message) : W := match m with M_Prepare x => enc_Prepare v x | _ => Err end.
Definition clen_Prepare v (m : Message) : L := match m with M_Prepare x => len_Prepare v x | _ => Err end.
Definition cenc_Execute v (m : Message) : W := match m with M_Execute x => enc_Execute v x | _ => Err end.
Definition clen_Execute v (m : Message) : L := match m with M_Execute x => len_Execute v x | _ => Err end.
Definition cenc_Register v (m : Message) : W := match m with M_Register x => enc_Register v x | _ => Err end.
Definition clen_Register v (m : Message) : L := match m with M_Register x => len_Register v x | _ => Err end.
Definition cenc_Batch v (m : Message) : W := match m with M_Batch x => enc_Batch v x | _ => Err end.
Definition clen_Batch v (m : Message) : L := match m with M_Batch x => len_Batch v x | _ => Err end.
Definition cenc_AuthResponse v (m : Message) : W := match m with M_AuthResponse x => enc_AuthResponse v x | _ => Err end.
Definition clen_AuthResponse v (m : Message) : L := match m with M_AuthResponse x => len_AuthResponse v x | _ => Err end.
(* reviseCodec.EncodedLength checks the version before the type assertion: both fail with Err *)
Definition cenc_Revise v (m : Message) : W := match m with M_Revise x => enc_Revise v x | _ => Err end.
Definition clen_Revise v (m : Message) : L := match m with M_Revise x => len_Revise v x | _ => Err end.
Definition cenc_Ready v (m : Message) : W := match m with M_Ready => enc_Ready v | _ => Err end.
Definition clen_Ready v (m : Message) : L := match m with M_Ready => len_Ready v | _ => Err end.
Definition cenc_Authenticate v (m : Message) : W := match m with M_Authenticate x => enc_Authenticate v x | _ => Err end.
Definition clen_Authenticate v (m : Message) : L := match m with M_Authenticate x => len_Authenticate v x | _ => Err end.
Definition cenc_Supported v (m : Message) : W := match m with M_Supported x => enc_Supported v x | _ => Err end.
Definition clen_Supported v (m : Message) : L := match m with M_Supported x => len_Supported v x | _ => Err end.
Definition cenc_AuthChallenge v (m : Message) : W := match m with M_AuthChallenge x => enc_AuthChallenge v x | _ => Err end.
Definition clen_AuthChallenge v (m : Message) : L := match m with M_AuthChallenge x => len_AuthChallenge v x | _ => Err end.
Definition cenc_AuthSuccess v (m : Message) : W := match m with M_AuthSuccess x => enc_AuthSuccess v x | _ => Err end.
Definition clen_AuthSuccess v (m : Message) : L := match m with M_AuthSuccess x => len_AuthSuccess v x | _ => Err end.

(* ================= the group: dispatch for the global codec ================= *)
Definition enc_request_group (version : Z) (m : Message) : option W :=
  match m with
  | M_Startup _ => Some (cenc_Startup version m) | M_Options => Some (cenc_Options version m)
  | M_Query _ => Some (cenc_Query version m) | M_Prepare _ => Some (cenc_Prepare version m)
  | M_Execute _ => Some (cenc_Execute version m) | M_Register _ => Some (cenc_Register version m)
  | M_Batch _ => Some (cenc_Batch version m) | M_AuthResponse _ => Some (cenc_AuthResponse version m)
  | M_Revise _ => Some (cenc_Revise version m)
  | M_Ready => Some (cenc_Ready version m) | M_Authenticate _ => Some (cenc_Authenticate version m)
  | M_Supported _ => Some (cenc_Supported version m) | M_AuthChallenge _ => Some (cenc_AuthChallenge version m)
  | M_AuthSuccess _ => Some (cenc_AuthSuccess version m)
  | _ => None
  end.
Definition len_request_group (version : Z) (m : Message) : option L :=
  match m with
  | M_Startup _ => Some (clen_Startup version m) | M_Options => Some (clen_Options version m)
  | M_Query _ => Some (clen_Query version m) | M_Prepare _ => Some (clen_Prepare version m)
  | M_Execute _ => Some (clen_Execute version m) | M_Register _ => Some (clen_Register version m)
  | M_Batch _ => Some (clen_Batch version m) | M_AuthResponse _ => Some (clen_AuthResponse version m)
  | M_Revise _ => Some (clen_Revise version m)
  | M_Ready => Some (clen_Ready version m) | M_Authenticate _ => Some (clen_Authenticate version m)
  | M_Supported _ => Some (clen_Supported version m) | M_AuthChallenge _ => Some (clen_AuthChallenge version m)
  | M_AuthSuccess _ => Some (clen_AuthSuccess version m)
  | _ => None
  end.
Definition dec_request_group (version : Z) (opcode : Z) : option (R Message) :=
  if opcode =? OpCodeStartup then Some (rmap M_Startup (dec_Startup version))
  else if opcode =? OpCodeOptions then Some (rmap (fun _ => M_Options) (dec_Options version))
  else if opcode =? OpCodeQuery then Some (rmap M_Query (dec_Query version))
  else if opcode =? OpCodePrepare then Some (rmap M_Prepare (dec_Prepare version))
  else if opcode =? OpCodeExecute then Some (rmap M_Execute (dec_Execute version))
  else if opcode =? OpCodeRegister then Some (rmap M_Register (dec_Register version))
  else if opcode =? OpCodeBatch then Some (rmap M_Batch (dec_Batch version))
  else if opcode =? OpCodeAuthResponse then Some (rmap M_AuthResponse (dec_AuthResponse version))
  else if opcode =? OpCodeDseRevise then Some (rmap M_Revise (dec_Revise version))
  else if opcode =? OpCodeReady then Some (rmap (fun _ => M_Ready) (dec_Ready version))
  else if opcode =? OpCodeAuthenticate then Some (rmap M_Authenticate (dec_Authenticate version))
  else if opcode =? OpCodeSupported then Some (rmap M_Supported (dec_Supported version))
  else if opcode =? OpCodeAuthChallenge then Some (rmap M_AuthChallenge (dec_AuthChallenge version))
  else if opcode =? OpCodeAuthSuccess then Some (rmap M_AuthSuccess (dec_AuthSuccess version))
  else None.
Definition request_group_okb (version : Z) (m : Message) : option bool :=
  match m with
  | M_Startup x => Some (Startup_okb version x) | M_Options => Some true
  | M_Query x => Some (Query_okb version x) | M_Prepare x => Some (Prepare_okb version x)
  | M_Execute x => Some (Execute_okb version x) | M_Register x => Some (Register_okb version x)
  | M_Batch x => Some (Batch_okb version x) | M_AuthResponse x => Some (AuthResponse_okb version x)
  | M_Revise x => Some (Revise_okb version x)
  | M_Ready => Some true | M_Authenticate x => Some (Authenticate_okb version x)
  | M_Supported x => Some (Supported_okb version x) | M_AuthChallenge x => Some (AuthChallenge_okb version x)
  | M_AuthSuccess x => Some (AuthSuccess_okb version x)
  | _ => None
  end.
Definition norm_request_group (version : Z) (m : Message) : option Message :=
  match m with
  | M_Startup x => Some (M_Startup (norm_Startup version x)) | M_Options => Some M_Options
  | M_Query x => Some (M_Query (norm_Query version x)) | M_Prepare x => Some (M_Prepare (norm_Prepare version x))
  | M_Execute x => Some (M_Execute (norm_Execute version x)) | M_Register x => Some (M_Register (norm_Register version x))
  | M_Batch x => Some (M_Batch (norm_Batch version x)) | M_AuthResponse x => Some (M_AuthResponse (norm_AuthResponse version x))
  | M_Revise x => Some (M_Revise (norm_Revise version x))
  | M_Ready => Some M_Ready | M_Authenticate x => Some (M_Authenticate (norm_Authenticate version x))
  | M_Supported x => Some (M_Supported (norm_Supported version x))
  | M_AuthChallenge x => Some (M_AuthChallenge (norm_AuthChallenge version x))
  | M_AuthSuccess x => Some (M_AuthSuccess (norm_AuthSuccess version x))
  | _ => None
  end.
