(* Executable model of segment/encode.go and segment/decode.go (v5 framing).  DEFINITIONS ONLY.
   The encoder and the decoder are modelled separately, statement by statement.
   Bytes: list Z (elements in [0,256) wherever produced by an encoder or read from the wire); header words: N.
   A payload compressor (segment.PayloadCompressor) is a pair of total functions; [None] is the nil compressor. *)
From Coq Require Import ZArith NArith List Bool.
From GCNP Require Import base.GoInt gen.Crc_gen model.Crc.
Import ListNotations.
Open Scope Z_scope.

Record compressor := mkCompressor {
  cmp  : list Z -> result (list Z);      (* Compress(source, dest): the bytes written, or an error *)
  dcmp : list Z -> result (list Z)       (* Decompress(source, dest) *)
}.

Record header := mkHeader {
  is_self_contained : bool;
  uncompressed_len  : Z;                 (* int32 *)
  compressed_len    : Z;                 (* int32 *)
  crc24             : N                  (* uint32 *)
}.

Record segment := mkSegment {
  seg_header : header;
  seg_data   : list Z;                   (* Payload.UncompressedData *)
  seg_crc32  : N                         (* Payload.Crc32 *)
}.

Definition mask64 : N := 18446744073709551615.
Definition shl64 (x : N) (k : N) : N := N.land (N.shiftl x k) mask64.      (* << on uint64 *)
Definition u64_of_i32 (x : Z) : N := Z.to_N (wrap_u64 x).                  (* uint64(int32 value) *)

(* for i := 0; i < n; i++ { write (byte)(v); v >>= 8 } *)
Fixpoint put_le (n : nat) (v : N) : list Z :=
  match n with O => [] | S k => Z.of_N (N.land v 255) :: put_le k (N.shiftr v 8) end.

(* for i := 0; i < n; i++ { b := ReadByte(); v |= uint(b) << (8*i) }   (error at end of input) *)
Fixpoint read_le_from (n : nat) (i : N) (acc : N) (bs : list Z) : result (N * list Z) :=
  match n with
  | O => Ok (acc, bs)
  | S k => match bs with
           | [] => Err
           | b :: r => read_le_from k (i + 1) (N.lor acc (N.shiftl (Z.to_N b) (8 * i))) r
           end
  end.
Definition read_le (n : nat) (bs : list Z) : result (N * list Z) := read_le_from n 0 0 bs.

(* io.ReadFull(source, make([]byte, n)) *)
Fixpoint split_at (n : nat) (bs : list Z) : result (list Z * list Z) :=
  match n with
  | O => Ok ([], bs)
  | S k => match bs with
           | [] => Err
           | b :: r => match split_at k r with Ok (a, t) => Ok (b :: a, t) | Err => Err end
           end
  end.

Definition hlen_uncompressed : nat := Z.to_nat UncompressedHeaderLength.
Definition hlen_compressed   : nat := Z.to_nat CompressedHeaderLength.
Definition crc24_len : nat := Z.to_nat Crc24Length.
Definition crc32_len : nat := Z.to_nat Crc32Length.
Definition max_payload_N : N := Z.to_N MaxPayloadLength.

(* ------------------------------------------------------------------ segment/encode.go *)

(* writeHeaderDataAndCrc *)
Definition write_header (hd : N) (hlen : nat) : list Z :=
  put_le hlen hd ++ put_le crc24_len (checksum_koopman hd hlen).

(* encodeHeaderUncompressed *)
Definition header_data_uncompressed (sc : bool) (ulen : Z) : N :=
  let hd := u64_of_i32 ulen in
  if sc then N.lor hd (shl64 1 (Z.to_N encodeHeaderUncompressed_flagOffset)) else hd.

(* encodeHeaderCompressed *)
Definition header_data_compressed (sc : bool) (ulen clen : Z) : N :=
  let hd := u64_of_i32 clen in
  let hd := N.lor hd (shl64 (u64_of_i32 ulen) 17) in
  if sc then N.lor hd (shl64 1 (Z.to_N encodeHeaderCompressed_flagOffset)) else hd.

(* writePayloadCrc: binary.Write little endian uint32 *)
Definition write_crc32 (c : N) : list Z := put_le crc32_len c.

(* EncodeSegment: returns the bytes written and the segment as the encoder leaves it (it fills in the
   header lengths and Payload.Crc32 of the caller's struct; Header.Crc24 is not touched: taken as 0 here) *)
Definition encode_segment_full (c : option compressor) (sc : bool) (p : list Z) : result (list Z * segment) :=
  let payload_length := Z.of_nat (length p) in
  let ulen := wrap_i32 payload_length in
  if payload_length >? MaxPayloadLength then Err
  else match c with
       | None =>
           let crc := checksum_ieee p in
           Ok (write_header (header_data_uncompressed sc ulen) hlen_uncompressed ++ p ++ write_crc32 crc,
               mkSegment (mkHeader sc ulen 0 0) p crc)
       | Some k =>
           match cmp k p with
           | Err => Err
           | Ok cp =>
               let clen := wrap_i32 (Z.of_nat (length cp)) in
               let '(payload, clen', ulen') :=
                 if clen <=? ulen then (cp, clen, ulen)
                 else (p, ulen, 0)                      (* compression is not worth it *) in
               let crc := checksum_ieee payload in
               Ok (write_header (header_data_compressed sc ulen' clen') hlen_compressed ++ payload ++ write_crc32 crc,
                   mkSegment (mkHeader sc ulen' clen' 0) p crc)
           end
       end.

Definition encode_segment (c : option compressor) (sc : bool) (p : list Z) : result (list Z) :=
  match encode_segment_full c sc p with Ok (bs, _) => Ok bs | Err => Err end.

(* ------------------------------------------------------------------ segment/decode.go *)

(* decodeSegmentHeader, second half: the fields of a header word whose CRC-24 has been verified *)
Definition header_of_data (compressed : bool) (hd : N) (crc : N) : header :=
  let '(clen, ulen, hd1) :=
    if compressed then
      let cl := N.land hd max_payload_N in
      let hd1 := N.shiftr hd 17 in
      let ul := N.land hd1 max_payload_N in
      if N.eqb ul 0 then (0%N, cl, hd1)       (* the server chose not to compress *)
      else (cl, ul, hd1)
    else (0%N, N.land hd max_payload_N, hd) in
  let hd2 := N.shiftr hd1 17 in
  let sc := N.eqb (N.land hd2 1) 1 in
  mkHeader sc (wrap_i32 (Z.of_N ulen)) (wrap_i32 (Z.of_N clen)) crc.

Definition is_some {A} (o : option A) : bool := match o with Some _ => true | None => false end.

(* decodeSegmentHeader *)
Definition decode_segment_header (c : option compressor) (bs : list Z) : result (header * list Z) :=
  let hlen := match c with None => hlen_uncompressed | Some _ => hlen_compressed end in
  match read_le hlen bs with
  | Err => Err
  | Ok (hd, r1) =>
      match read_le crc24_len r1 with
      | Err => Err
      | Ok (expected, r2) =>
          let actual := checksum_koopman hd hlen in
          if negb (N.eqb actual expected) then Err
          else Ok (header_of_data (is_some c) hd actual, r2)
      end
  end.

(* decodeSegmentPayload *)
Definition decode_segment_payload (c : option compressor) (h : header) (bs : list Z) : result ((list Z * N) * list Z) :=
  let raw := match c with None => true | Some _ => compressed_len h =? 0 end in
  let len := if raw then uncompressed_len h else compressed_len h in
  match split_at (Z.to_nat len) bs with
  | Err => Err
  | Ok (enc, r1) =>
      match read_le crc32_len r1 with
      | Err => Err
      | Ok (expected, r2) =>
          let actual := checksum_ieee enc in
          if negb (N.eqb actual expected) then Err
          else match c with
               | None => Ok ((enc, actual), r2)
               | Some k =>
                   if raw then Ok ((enc, actual), r2)
                   else match dcmp k enc with
                        | Err => Err
                        | Ok data => Ok ((data, actual), r2)
                        end
               end
      end
  end.

(* DecodeSegment: the decoded segment and the unread rest of the input *)
Definition decode_segment (c : option compressor) (bs : list Z) : result (segment * list Z) :=
  match decode_segment_header c bs with
  | Err => Err
  | Ok (h, r1) =>
      match decode_segment_payload c h r1 with
      | Err => Err
      | Ok ((data, crc), r2) => Ok (mkSegment h data crc, r2)
      end
  end.
