(* RESULT messages: model of /repo/message/result.go (resultCodec) and /repo/message/result_metadata.go.
   Encode / EncodedLength / Decode are mirrored separately, statement by statement (definitions only).
   Conventions as in model/MsgTypes.v.  A nil *ColumnMetadata inside Columns and a nil data type are
   encoder-side nil dereferences (API misuse): [Err].  [fuel] is handed to [read_data_type] (one unit per
   nesting level of a column type; the frame layer instantiates it with the number of input bytes). *)
From Coq Require Import ZArith List Bool.
From Coq Require String.
From GCNP Require Import base.GoInt base.Bytes base.Codec base.StrBytes gen.Constants_gen model.Prim model.DataType model.MsgTypes.
Import ListNotations.
Open Scope Z_scope.

(* ================= result_metadata.go ================= *)

(* &VariablesMetadata{} / &RowsMetadata{}: what a nil metadata pointer is replaced with *)
Definition empty_VariablesMetadata : VariablesMetadata := {| vm_PkIndices := []; vm_Columns := [] |}.
Definition empty_RowsMetadata : RowsMetadata :=
  {| rm_ColumnCount := 0; rm_PagingState := None; rm_NewResultMetadataId := None;
     rm_ContinuousPageNumber := 0; rm_LastContinuousPage := false; rm_Columns := [] |}.

(* haveSameTable: col.Keyspace on a nil *ColumnMetadata panics (Err); the loop returns at the first mismatch *)
Fixpoint same_table_as (ks tb : bytes) (cols : list (option ColumnMetadata)) : result bool :=
  match cols with
  | [] => Ok true
  | None :: _ => Err
  | Some c :: r =>
      if negb (bytes_eqb (cm_Keyspace c) ks) || negb (bytes_eqb (cm_Table c) tb) then Ok false
      else same_table_as ks tb r
  end.
Definition haveSameTable (cols : list (option ColumnMetadata)) : result bool :=
  match cols with
  | [] => Ok false
  | None :: _ => Err
  | Some c :: r => same_table_as (cm_Keyspace c) (cm_Table c) r
  end.

(* func (rm *VariablesMetadata) Flags() *)
Definition VariablesMetadata_Flags (m : VariablesMetadata) : result Z :=
  if zlen (vm_Columns m) >? 0 then
    match haveSameTable (vm_Columns m) with
    | Err => Err
    | Ok true => Ok (Z.lor 0 VariablesFlagGlobalTablesSpec)
    | Ok false => Ok 0
    end
  else Ok 0.

(* func (rm *RowsMetadata) Flags() *)
Definition RowsMetadata_Flags (m : RowsMetadata) : result Z :=
  match (if zlen (rm_Columns m) =? 0 then Ok (Z.lor 0 RowsFlagNoMetadata)
         else match haveSameTable (rm_Columns m) with
              | Err => Err
              | Ok true => Ok (Z.lor 0 RowsFlagGlobalTablesSpec)
              | Ok false => Ok 0
              end) with
  | Err => Err
  | Ok f0 =>
      let f1 := match rm_PagingState m with Some _ => Z.lor f0 RowsFlagHasMorePages | None => f0 end in
      let f2 := match rm_NewResultMetadataId m with Some _ => Z.lor f1 RowsFlagMetadataChanged | None => f1 end in
      let f3 := if rm_ContinuousPageNumber m >? 0 then
                  let g := Z.lor f2 RowsFlagDseContinuousPaging in
                  if rm_LastContinuousPage m then Z.lor g RowsFlagDseLastContinuousPage else g
                else f2 in
      Ok f3
  end.

(* ---- encodeColumnsMetadata / lengthOfColumnsMetadata / decodeColumnsMetadata ---- *)
Definition enc_column (globalTableSpec : bool) (version : Z) (oc : option ColumnMetadata) : W :=
  match oc with
  | None => Err                                   (* nil *ColumnMetadata: nil dereference *)
  | Some col =>
      (if negb globalTableSpec then write_string (cm_Keyspace col) +++ write_string (cm_Table col) else Ok []) +++
      write_string (cm_Name col) +++
      write_data_type version (cm_Type col)       (* Index is never written *)
  end.
Definition enc_columns_metadata (globalTableSpec : bool) (cols : list (option ColumnMetadata)) (version : Z) : W :=
  (if globalTableSpec then
     match cols with
     | Some firstCol :: _ => write_string (cm_Keyspace firstCol) +++ write_string (cm_Table firstCol)
     | _ => Err                                   (* cols[0] of an empty slice / nil first column: panic *)
     end
   else Ok []) +++
  wlist (enc_column globalTableSpec version) cols.

Definition len_column (globalTableSpec : bool) (version : Z) (oc : option ColumnMetadata) : L :=
  match oc with
  | None => Err
  | Some col =>
      (if negb globalTableSpec then Ok (len_string (cm_Keyspace col) + len_string (cm_Table col)) else Ok 0) +l+
      Ok (len_string (cm_Name col)) +l+
      len_data_type version (cm_Type col)
  end.
Definition len_columns_metadata (globalTableSpec : bool) (cols : list (option ColumnMetadata)) (version : Z) : L :=
  (if globalTableSpec then
     match cols with
     | Some firstCol :: _ => Ok (len_string (cm_Keyspace firstCol) + len_string (cm_Table firstCol))
     | _ => Err
     end
   else Ok 0) +l+
  llist (len_column globalTableSpec version) cols.

(* one iteration of the decoding loop: cols[i] = &ColumnMetadata{} (Index stays 0) *)
Definition dec_column (fuel : nat) (globalTableSpec : bool) (globalKsName globalTableName : bytes) (version : Z)
  : R (option ColumnMetadata) :=
  ks <- (if globalTableSpec then ret globalKsName else read_string) ;;
  tb <- (if globalTableSpec then ret globalTableName else read_string) ;;
  name <- read_string ;;
  t <- read_data_type fuel version ;;
  ret (Some {| cm_Keyspace := ks; cm_Table := tb; cm_Name := name; cm_Index := 0; cm_Type := Some t |}).
(* make([]*ColumnMetadata, columnCount): both callers have excluded a negative count before
   (decodeRowsMetadata by its guard, decodeVariablesMetadata by  columnCount > 0).  Every column
   consumes at least 4 bytes (name and type code), hence read_count. *)
Definition dec_columns_metadata (fuel : nat) (globalTableSpec : bool) (columnCount : Z) (version : Z)
  : R (list (option ColumnMetadata)) :=
  globalKsName <- (if globalTableSpec then read_string else ret []) ;;
  globalTableName <- (if globalTableSpec then read_string else ret []) ;;
  rmake columnCount ;;;
  read_count columnCount (dec_column fuel globalTableSpec globalKsName globalTableName version).

(* ---- encodeVariablesMetadata / lengthOfVariablesMetadata / decodeVariablesMetadata ---- *)
Definition enc_variables_metadata (version : Z) (om : option VariablesMetadata) : W :=
  let metadata := match om with None => empty_VariablesMetadata | Some m => m end in
  match VariablesMetadata_Flags metadata with
  | Err => Err
  | Ok flags =>
      write_int (wrap_i 32 flags) +++
      write_int (wrap_i 32 (zlen (vm_Columns metadata))) +++
      (if Z.geb version ProtocolVersion4 then
         write_int (wrap_i 32 (zlen (vm_PkIndices metadata))) +++ wlist write_short (vm_PkIndices metadata)
       else Ok []) +++
      (if zlen (vm_Columns metadata) >? 0 then
         enc_columns_metadata (VariablesFlag_Contains flags VariablesFlagGlobalTablesSpec) (vm_Columns metadata) version
       else Ok [])
  end.

Definition len_variables_metadata (version : Z) (om : option VariablesMetadata) : L :=
  let metadata := match om with None => empty_VariablesMetadata | Some m => m end in
  Ok LengthOfInt +l+ Ok LengthOfInt +l+
  (if Z.geb version ProtocolVersion4 then Ok (LengthOfInt + LengthOfShort * zlen (vm_PkIndices metadata)) else Ok 0) +l+
  (if zlen (vm_Columns metadata) >? 0 then
     match VariablesMetadata_Flags metadata with
     | Err => Err
     | Ok flags =>
         len_columns_metadata (Z.land flags VariablesFlagGlobalTablesSpec >? 0) (vm_Columns metadata) version
     end
   else Ok 0).

Definition dec_variables_metadata (fuel : nat) (version : Z) : R VariablesMetadata :=
  f <- read_int ;;
  let flags := wrap_u 32 f in
  columnCount <- read_int ;;
  pk <- (if Z.geb version ProtocolVersion4 then
           pkCount <- read_int ;;
           if pkCount >? 0 then rmake pkCount ;;; read_count pkCount read_short else ret []
         else ret []) ;;
  cols <- (if columnCount >? 0 then
             dec_columns_metadata fuel (VariablesFlag_Contains flags VariablesFlagGlobalTablesSpec) columnCount version
           else ret []) ;;
  ret {| vm_PkIndices := pk; vm_Columns := cols |}.

(* ---- encodeRowsMetadata / lengthOfRowsMetadata / decodeRowsMetadata ---- *)
Definition enc_rows_metadata (version : Z) (om : option RowsMetadata) : W :=
  let metadata := match om with None => empty_RowsMetadata | Some m => m end in
  match RowsMetadata_Flags metadata with
  | Err => Err
  | Ok flags =>
      let columnSpecsLength := zlen (rm_Columns metadata) in
      write_int (wrap_i 32 flags) +++
      wguard (negb ((columnSpecsLength >? 0) && negb (rm_ColumnCount metadata =? columnSpecsLength))) +++
      write_int (rm_ColumnCount metadata) +++
      (if RowsFlag_Contains flags RowsFlagHasMorePages then write_bytes (rm_PagingState metadata) else Ok []) +++
      (if RowsFlag_Contains flags RowsFlagMetadataChanged then write_short_bytes (rm_NewResultMetadataId metadata) else Ok []) +++
      (if RowsFlag_Contains flags RowsFlagDseContinuousPaging then write_int (rm_ContinuousPageNumber metadata) else Ok []) +++
      (if (Z.land flags RowsFlagNoMetadata =? 0) && (columnSpecsLength >? 0) then
         enc_columns_metadata (RowsFlag_Contains flags RowsFlagGlobalTablesSpec) (rm_Columns metadata) version
       else Ok [])
  end.

Definition len_rows_metadata (version : Z) (om : option RowsMetadata) : L :=
  let metadata := match om with None => empty_RowsMetadata | Some m => m end in
  match RowsMetadata_Flags metadata with
  | Err => Err
  | Ok flags =>
      Ok LengthOfInt +l+ Ok LengthOfInt +l+
      (if RowsFlag_Contains flags RowsFlagHasMorePages then Ok (len_bytes (rm_PagingState metadata)) else Ok 0) +l+
      (if RowsFlag_Contains flags RowsFlagMetadataChanged then Ok (len_short_bytes (rm_NewResultMetadataId metadata)) else Ok 0) +l+
      (if RowsFlag_Contains flags RowsFlagDseContinuousPaging then Ok LengthOfInt else Ok 0) +l+
      (if (Z.land flags RowsFlagNoMetadata =? 0) && (zlen (rm_Columns metadata) >? 0) then
         len_columns_metadata (RowsFlag_Contains flags RowsFlagGlobalTablesSpec) (rm_Columns metadata) version
       else Ok 0)
  end.

Definition dec_rows_metadata (fuel : nat) (version : Z) : R RowsMetadata :=
  f <- read_int ;;
  let flags := wrap_u 32 f in
  columnCount <- read_int ;;
  rguard (negb (columnCount <? 0)) ;;;
  pagingState <- (if RowsFlag_Contains flags RowsFlagHasMorePages then read_bytes else ret None) ;;
  newId <- (if RowsFlag_Contains flags RowsFlagMetadataChanged then read_short_bytes else ret None) ;;
  cp <- (if RowsFlag_Contains flags RowsFlagDseContinuousPaging then
           n <- read_int ;; ret (n, RowsFlag_Contains flags RowsFlagDseLastContinuousPage)
         else ret (0, false)) ;;
  cols <- (if Z.land flags RowsFlagNoMetadata =? 0 then
             dec_columns_metadata fuel (RowsFlag_Contains flags RowsFlagGlobalTablesSpec) columnCount version
           else ret []) ;;
  ret {| rm_ColumnCount := columnCount; rm_PagingState := pagingState; rm_NewResultMetadataId := newId;
         rm_ContinuousPageNumber := fst cp; rm_LastContinuousPage := snd cp; rm_Columns := cols |}.

(* ================= result.go ================= *)

(* ---- SET KEYSPACE ---- *)
Definition enc_SetKeyspaceResult (version : Z) (m : SetKeyspaceResult) : W :=
  wguard (negb (bytes_is_empty (sk_Keyspace m))) +++ write_string (sk_Keyspace m).
Definition len_SetKeyspaceResult (version : Z) (m : SetKeyspaceResult) : L := Ok (len_string (sk_Keyspace m)).
Definition dec_SetKeyspaceResult (version : Z) : R SetKeyspaceResult :=
  ks <- read_string ;; ret {| sk_Keyspace := ks |}.

(* ---- SCHEMA CHANGE ---- *)
Definition target_is (target : bytes) (c : String.string) : bool := String.eqb (string_of_bytes target) c.

Definition enc_SchemaChangeResult (version : Z) (m : SchemaChangeResult) : W :=
  let tg := scr_Target m in
  wguard (is_ok (CheckValidSchemaChangeType (string_of_bytes (scr_ChangeType m)))) +++
  write_string (scr_ChangeType m) +++
  (if Z.geb version ProtocolVersion3 then
     wguard (is_ok (CheckValidSchemaChangeTarget (string_of_bytes tg) version)) +++
     write_string tg +++
     wguard (negb (bytes_is_empty (scr_Keyspace m))) +++ write_string (scr_Keyspace m) +++
     (if target_is tg SchemaChangeTargetKeyspace then Ok []
      else if target_is tg SchemaChangeTargetTable || target_is tg SchemaChangeTargetType then
        wguard (negb (bytes_is_empty (scr_Object m))) +++ write_string (scr_Object m)
      else if target_is tg SchemaChangeTargetAggregate || target_is tg SchemaChangeTargetFunction then
        wguard (negb (bytes_is_empty (scr_Object m))) +++ write_string (scr_Object m) +++
        write_string_list (scr_Arguments m)
      else Ok [])
   else
     wguard (is_ok (CheckValidSchemaChangeTarget (string_of_bytes tg) version)) +++
     wguard (negb (bytes_is_empty (scr_Keyspace m))) +++ write_string (scr_Keyspace m) +++
     (if target_is tg SchemaChangeTargetKeyspace then
        wguard (bytes_is_empty (scr_Object m)) +++ write_string []
      else if target_is tg SchemaChangeTargetTable then
        wguard (negb (bytes_is_empty (scr_Object m))) +++ write_string (scr_Object m)
      else Ok [])).

Definition len_SchemaChangeResult (version : Z) (m : SchemaChangeResult) : L :=
  let tg := scr_Target m in
  Ok (len_string (scr_ChangeType m)) +l+
  (if is_ok (CheckValidSchemaChangeTarget (string_of_bytes tg) version) then Ok 0 else Err) +l+
  (if Z.geb version ProtocolVersion3 then
     Ok (len_string tg) +l+ Ok (len_string (scr_Keyspace m)) +l+
     (if target_is tg SchemaChangeTargetKeyspace then Ok 0
      else if target_is tg SchemaChangeTargetTable || target_is tg SchemaChangeTargetType then
        Ok (len_string (scr_Object m))
      else if target_is tg SchemaChangeTargetAggregate || target_is tg SchemaChangeTargetFunction then
        Ok (len_string (scr_Object m)) +l+ Ok (len_string_list (scr_Arguments m))
      else Ok 0)
   else
     Ok (len_string (scr_Keyspace m)) +l+ Ok (len_string (scr_Object m))).

Definition dec_SchemaChangeResult (version : Z) : R SchemaChangeResult :=
  changeType <- read_string ;;
  if Z.geb version ProtocolVersion3 then
    target <- read_string ;;
    rguard (is_ok (CheckValidSchemaChangeTarget (string_of_bytes target) version)) ;;;
    ks <- read_string ;;
    if target_is target SchemaChangeTargetKeyspace then
      ret {| scr_ChangeType := changeType; scr_Target := target; scr_Keyspace := ks; scr_Object := []; scr_Arguments := [] |}
    else if target_is target SchemaChangeTargetTable || target_is target SchemaChangeTargetType then
      ob <- read_string ;;
      ret {| scr_ChangeType := changeType; scr_Target := target; scr_Keyspace := ks; scr_Object := ob; scr_Arguments := [] |}
    else if target_is target SchemaChangeTargetAggregate || target_is target SchemaChangeTargetFunction then
      ob <- read_string ;; args <- read_string_list ;;
      ret {| scr_ChangeType := changeType; scr_Target := target; scr_Keyspace := ks; scr_Object := ob; scr_Arguments := args |}
    else rfail                                     (* unknown schema change target *)
  else
    ks <- read_string ;; ob <- read_string ;;
    ret {| scr_ChangeType := changeType;
           scr_Target := (if bytes_is_empty ob then bytes_of_string SchemaChangeTargetKeyspace
                          else bytes_of_string SchemaChangeTargetTable);
           scr_Keyspace := ks; scr_Object := ob; scr_Arguments := [] |}.

(* ---- PREPARED ---- *)
Definition enc_PreparedResult (version : Z) (m : PreparedResult) : W :=
  wguard (negb (zlen (olist (pr_PreparedQueryId m)) =? 0)) +++ write_short_bytes (pr_PreparedQueryId m) +++
  (if ProtocolVersion_SupportsResultMetadataId version then
     wguard (negb (zlen (olist (pr_ResultMetadataId m)) =? 0)) +++ write_short_bytes (pr_ResultMetadataId m)
   else Ok []) +++
  enc_variables_metadata version (pr_VariablesMetadata m) +++
  enc_rows_metadata version (pr_ResultMetadata m).

Definition len_PreparedResult (version : Z) (m : PreparedResult) : L :=
  Ok (len_short_bytes (pr_PreparedQueryId m)) +l+
  (if ProtocolVersion_SupportsResultMetadataId version then Ok (len_short_bytes (pr_ResultMetadataId m)) else Ok 0) +l+
  len_variables_metadata version (pr_VariablesMetadata m) +l+
  len_rows_metadata version (pr_ResultMetadata m).

Definition dec_PreparedResult (fuel : nat) (version : Z) : R PreparedResult :=
  id <- read_short_bytes ;;
  rmid <- (if ProtocolVersion_SupportsResultMetadataId version then read_short_bytes else ret None) ;;
  vars <- dec_variables_metadata fuel version ;;
  rows <- dec_rows_metadata fuel version ;;
  ret {| pr_PreparedQueryId := id; pr_ResultMetadataId := rmid;
         pr_VariablesMetadata := Some vars; pr_ResultMetadata := Some rows |}.

(* ---- ROWS ---- *)
Definition enc_RowsResult (version : Z) (m : RowsResult) : W :=
  enc_rows_metadata version (rr_Metadata m) +++
  write_int (wrap_i 32 (zlen (rr_Data m))) +++
  wlist (fun row => wlist write_bytes row) (rr_Data m).

(* EncodedLength refuses a nil Metadata (Encode does not) *)
Definition len_RowsResult (version : Z) (m : RowsResult) : L :=
  (match rr_Metadata m with None => Err | Some _ => len_rows_metadata version (rr_Metadata m) end) +l+
  Ok LengthOfInt +l+
  llist (fun row => llist (fun col => Ok (len_bytes col)) row) (rr_Data m).

(* rows.Data = make(RowSet, rowsCount); for each row: make(Row, ColumnCount) and ColumnCount [bytes] cells.
   With ColumnCount >= 1 every row consumes at least 4 bytes, hence read_count (twice).  With
   ColumnCount = 0 a row consumes NO input: the loop runs rowsCount times whatever the input holds
   and yields rowsCount empty rows - an allocation (and a loop) proportional to a wire-supplied count of
   up to 2^31-1 from a body of 12 bytes: an observation, not a panic.  ColumnCount < 0 would panic in
   make(Row, n) as soon as there is one row; dec_rows_metadata has excluded it. *)
Definition dec_rows (rowsCount columnCount : Z) : R (list (list (option bytes))) :=
  if columnCount <? 0 then (if rowsCount >? 0 then rpanic else ret [])
  else if columnCount =? 0 then ret (repeat [] (Z.to_nat rowsCount))
  else read_count rowsCount (read_count columnCount read_bytes).

Definition dec_RowsResult (fuel : nat) (version : Z) : R RowsResult :=
  metadata <- dec_rows_metadata fuel version ;;
  rowsCount <- read_int ;;
  rguard (negb (rowsCount <? 0)) ;;;
  rmake rowsCount ;;;
  data <- dec_rows rowsCount (rm_ColumnCount metadata) ;;
  ret {| rr_Metadata := Some metadata; rr_Data := data |}.

(* ---- resultCodec ---- *)
(* msg.(Result) and GetResultType() *)
Definition result_type (m : Message) : option Z :=
  match m with
  | M_VoidResult => Some ResultTypeVoid
  | M_SetKeyspaceResult _ => Some ResultTypeSetKeyspace
  | M_SchemaChangeResult _ => Some ResultTypeSchemaChange
  | M_PreparedResult _ => Some ResultTypePrepared
  | M_RowsResult _ => Some ResultTypeRows
  | _ => None
  end.

Definition enc_result (version : Z) (m : Message) : W :=
  match result_type m with
  | None => Err                                   (* expected message.Result *)
  | Some rt =>
      wguard (is_ok (CheckValidResultType rt)) +++ write_int (wrap_i 32 rt) +++
      match m with
      | M_VoidResult => Ok []
      | M_SetKeyspaceResult sk => enc_SetKeyspaceResult version sk
      | M_SchemaChangeResult sc => enc_SchemaChangeResult version sc
      | M_PreparedResult p => enc_PreparedResult version p
      | M_RowsResult r => enc_RowsResult version r
      | _ => Err
      end
  end.

Definition len_result (version : Z) (m : Message) : L :=
  match result_type m with
  | None => Err
  | Some _ =>
      Ok LengthOfInt +l+
      match m with
      | M_VoidResult => Ok 0
      | M_SetKeyspaceResult sk => len_SetKeyspaceResult version sk
      | M_SchemaChangeResult sc => len_SchemaChangeResult version sc
      | M_PreparedResult p => len_PreparedResult version p
      | M_RowsResult r => len_RowsResult version r
      | _ => Err
      end
  end.

Definition dec_result (fuel : nat) (version : Z) : R Message :=
  resultType <- read_int ;;
  let rt := wrap_u 32 resultType in               (* primitive.ResultType(resultType) : uint32 *)
  if rt =? ResultTypeVoid then ret M_VoidResult
  else if rt =? ResultTypeSetKeyspace then rmap M_SetKeyspaceResult (dec_SetKeyspaceResult version)
  else if rt =? ResultTypeSchemaChange then rmap M_SchemaChangeResult (dec_SchemaChangeResult version)
  else if rt =? ResultTypePrepared then rmap M_PreparedResult (dec_PreparedResult fuel version)
  else if rt =? ResultTypeRows then rmap M_RowsResult (dec_RowsResult fuel version)
  else rfail.

(* ================= the group's dispatch functions (assembled by the coordinator) ================= *)
Definition is_result (m : Message) : bool := match result_type m with Some _ => true | None => false end.

Definition enc_result_group (version : Z) (m : Message) : option W :=
  if is_result m then Some (enc_result version m) else None.
Definition len_result_group (version : Z) (m : Message) : option L :=
  if is_result m then Some (len_result version m) else None.
Definition dec_result_group (fuel : nat) (version : Z) (opcode : Z) : option (R Message) :=
  if opcode =? OpCodeResult then Some (dec_result fuel version) else None.
