(* The message codecs registered in a frame codec (message.DefaultMessageCodecs): the three groups assembled.
   Definitions only. *)
From Coq Require Import ZArith List Bool.
From GCNP Require Import base.GoInt base.Bytes base.Codec gen.Constants_gen model.Prim model.DataType model.MsgTypes
  model.Frame model.MsgRequests model.MsgErrors model.MsgResults.
Import ListNotations.
Open Scope Z_scope.

Definition first_some {A} (l : list (option A)) : option A :=
  fold_right (fun o acc => match o with Some x => Some x | None => acc end) None l.

Definition enc_message (version : Z) (m : Message) : W :=
  match first_some [enc_request_group version m; enc_error_group version m; enc_result_group version m] with
  | Some w => w | None => Err end.
Definition len_message (version : Z) (m : Message) : L :=
  match first_some [len_request_group version m; len_error_group version m; len_result_group version m] with
  | Some l => l | None => Err end.
(* fuel for nested data types = number of input bytes *)
Definition dec_message (version opcode : Z) : R Message :=
  fun bs =>
    match first_some [dec_request_group version opcode; dec_error_group version opcode;
                      dec_result_group (length bs) version opcode] with
    | Some r => r bs | None => DErr end.      (* findMessageCodec: unsupported opcode *)
Definition the_msg_codec : msg_codec :=
  {| mc_encode := enc_message; mc_length := len_message; mc_decode := dec_message |}.
