(* Version-validity and normal form of messages: the three groups assembled (definitions only). *)
From Coq Require Import ZArith List Bool.
From GCNP Require Import base.GoInt base.Bytes base.Codec gen.Constants_gen model.Prim model.DataType model.MsgTypes
  model.Frame model.MsgRequests model.MsgErrors model.MsgResults model.MsgCodec proofs.MsgResultsValid.
Import ListNotations.
Open Scope Z_scope.

Definition message_okb (version : Z) (m : Message) : bool :=
  match first_some [request_group_okb version m; error_group_okb version m; result_group_okb version m] with
  | Some b => b | None => false end.
Definition norm_message (version : Z) (m : Message) : Message :=
  match first_some [norm_request_group version m; norm_error_group version m; norm_result_group version m] with
  | Some m' => m' | None => m end.

