(* Executable model of compression/lz4/lz4.go and compression/snappy/snappy.go: the wrapper logic around the
   third-party block functions.  DEFINITIONS ONLY.  The block functions are Section variables (oracles):
     compress_block src n    lz4.CompressBlock(src, make([]byte, n), nil): the bytes written (dst[:written]) or an error
     uncompress_block src n  lz4.UncompressBlock(src, make([]byte, n)): dst[:written] or an error
     bound n                 lz4.CompressBlockBound(n)
     snappy_encode x / snappy_decode c    snappy.Encode(nil, x) / snappy.Decode(nil, c)
   What the theorems assume of them is [lz4_block_contract] / [snappy_contract] below. *)
From Coq Require Import ZArith List Bool.
From GCNP Require Import base.GoInt base.Bytes model.Segment.
Import ListNotations.
Open Scope Z_scope.

Section Lz4.
  Variable compress_block : list Z -> Z -> result (list Z).
  Variable uncompress_block : list Z -> Z -> result (list Z).
  Variable bound : Z -> Z.

  (* Compressor.Compress: the block, nothing else *)
  Definition lz4_compress (x : list Z) : result (list Z) := compress_block x (bound (zlen x)).

  (* binary.BigEndian.PutUint32(buf, uint32(len(x))) *)
  Definition be32 (n : Z) : list Z := be_bytes 4 (wrap_u32 n).

  (* Compressor.CompressWithLength: 4-byte big-endian uncompressed length, then the block *)
  Definition lz4_compress_with_length (x : list Z) : result (list Z) :=
    match compress_block x (bound (zlen x)) with
    | Err => Err
    | Ok c => Ok (be32 (zlen x) ++ c)
    end.

  (* for i := n*2; i <= n*256; i *= 2 { dest = make([]byte, i); if written, err = UncompressBlock(source, dest); err == nil { break } }
     [fuel] bounds the number of iterations; for n > 0 the loop runs at most 8 times, so 9 is never exhausted. *)
  Fixpoint try_sizes (fuel : nat) (src : list Z) (i limit : Z) : result (list Z) :=
    match fuel with
    | O => Err
    | S f =>
        if i <=? limit then
          match uncompress_block src i with
          | Ok d => Ok d
          | Err => try_sizes f src (2 * i) limit
          end
        else Err                                  (* every size failed: the last error is returned *)
    end.

  (* decompress *)
  Definition lz4_decompress (src : list Z) : result (list Z) :=
    let n := zlen src in
    match src with
    | [0] => Ok []                                (* a single zero token: the compressed empty message *)
    | [] => uncompress_block [] 0                 (* n = 0: one attempt with an empty destination; were it to fail, Go's
                                                     loop would not terminate (i stays 0); UncompressBlock(empty) succeeds *)
    | _ => try_sizes 9 src (2 * n) (256 * n)
    end.

  (* Compressor.DecompressWithLength: the length is read, used only to recognise the empty message, then ignored *)
  Definition lz4_decompress_with_length (src : list Z) : result (list Z) :=
    match src with
    | b0 :: b1 :: b2 :: b3 :: r =>
        if be_val [b0; b1; b2; b3] =? 0 then
          match r with
          | [] => Err                             (* io.CopyN(ioutil.Discard, source, 1) fails *)
          | _ :: _ => Ok []                       (* one byte discarded, nothing written *)
          end
        else lz4_decompress r
    | _ => Err                                    (* binary.Read of the length fails *)
    end.

  Definition lz4_payload_compressor : compressor := {| cmp := lz4_compress; dcmp := lz4_decompress |}.

  (* the contract of the block functions (pierrec/lz4): *)
  Definition lz4_block_contract : Prop :=
    forall x, bytes_ok x ->
    exists c, compress_block x (bound (zlen x)) = Ok c /\ bytes_ok c /\
      (x = [] -> c = [0]) /\
      (x <> [] -> c <> [] /\ c <> [0] /\
                  zlen x <= 255 * zlen c /\                              (* format bound on the expansion factor *)
                  (forall n, zlen x <= n -> uncompress_block c n = Ok x) /\   (* large enough destination: exact *)
                  (forall n, n < zlen x -> uncompress_block c n = Err)).      (* too small: an error, never a prefix *)
End Lz4.

Section Snappy.
  Variable snappy_encode : list Z -> list Z.
  Variable snappy_decode : list Z -> result (list Z).
  Definition snappy_compress_with_length (x : list Z) : result (list Z) := Ok (snappy_encode x).
  Definition snappy_decompress_with_length (c : list Z) : result (list Z) := snappy_decode c.
  Definition snappy_contract : Prop := forall x, bytes_ok x -> snappy_decode (snappy_encode x) = Ok x.
End Snappy.
