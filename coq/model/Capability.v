(* Comparison of the regenerated capability predicates with the hand-transcribed specification
   tables (definitions only; the theorem is in proofs/CapabilityProofs.v). *)
From Coq Require Import ZArith List String Bool.
From GCNP Require Import base.GoInt base.CodeTypes gen.Constants_gen spec.SpecTables.
Import ListNotations.
Open Scope Z_scope.

Definition capability_checks : list (string * bool) := [
  ("supported versions are exactly the six of the specifications"%string,
     forallb ProtocolVersion_IsSupported spec_versions &&
     forallb (fun v => existsb (Z.eqb v) spec_versions) SupportedProtocolVersions);
  ("Uses4BytesCollectionLength"%string, agrees ProtocolVersion_Uses4BytesCollectionLength spec_4byte_collection_length);
  ("Uses4BytesQueryFlags"%string, agrees ProtocolVersion_Uses4BytesQueryFlags spec_4byte_query_flags);
  ("SupportsBatchQueryFlags"%string, agrees ProtocolVersion_SupportsBatchQueryFlags spec_batch_flags);
  ("SupportsPrepareFlags"%string, agrees ProtocolVersion_SupportsPrepareFlags spec_prepare_flags);
  ("SupportsResultMetadataId"%string, agrees ProtocolVersion_SupportsResultMetadataId spec_result_metadata_id);
  ("SupportsReadWriteFailureReasonMap"%string, agrees ProtocolVersion_SupportsReadWriteFailureReasonMap spec_failure_reason_map);
  ("SupportsWriteTimeoutContentions"%string, agrees ProtocolVersion_SupportsWriteTimeoutContentions spec_write_timeout_contentions);
  ("SupportsModernFramingLayout"%string, agrees ProtocolVersion_SupportsModernFramingLayout spec_modern_framing);
  ("SupportsUnsetValues"%string, agrees ProtocolVersion_SupportsUnsetValues spec_unset_values);
  ("SupportsQueryFlag"%string, agrees2 ProtocolVersion_SupportsQueryFlag spec_query_flag);
  ("SupportsSchemaChangeTarget"%string, agrees2 ProtocolVersion_SupportsSchemaChangeTarget spec_schema_target);
  ("SupportsTopologyChangeType"%string, agrees2 ProtocolVersion_SupportsTopologyChangeType spec_topology_change);
  ("SupportsDseRevisionType"%string, agrees2 ProtocolVersion_SupportsDseRevisionType spec_dse_revision);
  ("SupportsCompression"%string, agrees2 ProtocolVersion_SupportsCompression spec_compression);
  ("FrameHeaderLengthInBytes"%string,
     forallb (fun vl => Z.eqb (ProtocolVersion_FrameHeaderLengthInBytes (fst vl)) (snd vl)) spec_header_length);
  ("IsOss / IsDse partition the supported versions"%string,
     forallb (fun v => xorb (ProtocolVersion_IsOss v) (ProtocolVersion_IsDse v)) spec_versions &&
     forallb (fun v => Bool.eqb (ProtocolVersion_IsDse v) (Z.leb 64 v)) spec_versions);
  ("no beta version"%string, forallb (fun v => negb (ProtocolVersion_IsBeta v)) spec_versions)
].

(* the names of the checks that fail, for the replay file *)
Definition capability_failures : list string :=
  map fst (filter (fun nb => negb (snd nb)) capability_checks).


(* detail for the replay file: (predicate, argument, versions on which code and specification disagree) *)
Definition disagree (f : Z -> bool) (r : row) : list Z :=
  map fst (filter (fun vo => match snd vo with Some b => negb (Bool.eqb (f (fst vo)) b) | None => false end) r).
Definition zs (z : Z) : string := if Z.ltb z 0 then "neg"%string else
  (fix go (n : nat) (z : Z) (acc : string) : string :=
     match n with O => acc | S k =>
       let d := String (Ascii.ascii_of_nat (48 + Z.to_nat (z mod 10))) acc in
       if Z.eqb (z / 10) 0 then d else go k (z / 10) d end) 20%nat z ""%string.
Definition capability_disagreements : list (string * string * list Z) :=
  filter (fun x => match snd x with [] => false | _ => true end) (
  [ ("Uses4BytesCollectionLength"%string, ""%string, disagree ProtocolVersion_Uses4BytesCollectionLength spec_4byte_collection_length);
    ("Uses4BytesQueryFlags"%string, ""%string, disagree ProtocolVersion_Uses4BytesQueryFlags spec_4byte_query_flags);
    ("SupportsBatchQueryFlags"%string, ""%string, disagree ProtocolVersion_SupportsBatchQueryFlags spec_batch_flags);
    ("SupportsPrepareFlags"%string, ""%string, disagree ProtocolVersion_SupportsPrepareFlags spec_prepare_flags);
    ("SupportsResultMetadataId"%string, ""%string, disagree ProtocolVersion_SupportsResultMetadataId spec_result_metadata_id);
    ("SupportsReadWriteFailureReasonMap"%string, ""%string, disagree ProtocolVersion_SupportsReadWriteFailureReasonMap spec_failure_reason_map);
    ("SupportsWriteTimeoutContentions"%string, ""%string, disagree ProtocolVersion_SupportsWriteTimeoutContentions spec_write_timeout_contentions);
    ("SupportsModernFramingLayout"%string, ""%string, disagree ProtocolVersion_SupportsModernFramingLayout spec_modern_framing);
    ("SupportsUnsetValues"%string, ""%string, disagree ProtocolVersion_SupportsUnsetValues spec_unset_values);
    ("IsSupported"%string, ""%string, filter (fun v => negb (ProtocolVersion_IsSupported v)) spec_versions) ]
  ++ map (fun ar => ("SupportsQueryFlag"%string, zs (fst ar), disagree (fun v => ProtocolVersion_SupportsQueryFlag v (fst ar)) (snd ar))) spec_query_flag
  ++ map (fun ar => ("SupportsSchemaChangeTarget"%string, fst ar, disagree (fun v => ProtocolVersion_SupportsSchemaChangeTarget v (fst ar)) (snd ar))) spec_schema_target
  ++ map (fun ar => ("SupportsTopologyChangeType"%string, fst ar, disagree (fun v => ProtocolVersion_SupportsTopologyChangeType v (fst ar)) (snd ar))) spec_topology_change
  ++ map (fun ar => ("SupportsDseRevisionType"%string, zs (fst ar), disagree (fun v => ProtocolVersion_SupportsDseRevisionType v (fst ar)) (snd ar))) spec_dse_revision
  ++ map (fun ar => ("SupportsCompression"%string, fst ar, disagree (fun v => ProtocolVersion_SupportsCompression v (fst ar)) (snd ar))) spec_compression
  ++ [("FrameHeaderLengthInBytes"%string, ""%string,
       map fst (filter (fun vl => negb (Z.eqb (ProtocolVersion_FrameHeaderLengthInBytes (fst vl)) (snd vl))) spec_header_length))]).
