(* CqlContainers - hand-written model (H) of the collection, map, tuple and UDT codecs of /repo/datacodec
   (collection.go, map.go, tuple.go, udt.go) composed over the element codecs, per protocol version, with their error
   branches and a PANIC outcome exactly where the Go code can panic.
   Level: abstract values [cval].  Encode takes the value the extractor yields element by element; Decode is the
   behaviour for an untyped destination ( *interface{} : preferred Go types all the way down; map keys are pointers, so
   entries never collapse; tuples into []interface{}, UDTs into map[string]interface{}) and equally for a typed destination
   of a matching representation that does not merge entries.
   State of /repo modelled: with the fixes D1 (preferred map key types are always valid: no panic in reflect.MapOf),
   D2 (negative wire count -> error, used to reach reflect.MakeSlice), D3 (v2: element longer than 65535 bytes -> error, used to
   be written with a wrapped length) and D4 (a UDT value may stop early: missing trailing fields are NULL).
   Definitions only. *)
From Coq Require Import ZArith List Bool String.
From GCNP Require Import base.GoInt base.Bytes spec.SpecCql model.CqlWire.
Import ListNotations.
Open Scope Z_scope.

(* primitive.ProtocolVersion.Uses4BytesCollectionLength: v >= ProtocolVersion3 *)
Definition uses4 (v : Z) : bool := 3 <=? v.

(* writeCollectionSize *)
Definition writeCollectionSize (v : Z) (size : Z) : outcome bytes :=
  if uses4 v then
    if 2147483647 <? size then ERR else if size <? 0 then ERR else OK (be_bytes 4 (wrap_u32 (wrap_i32 size)))
  else
    if 65535 <? size then ERR else if size <? 0 then ERR else OK (be_bytes 2 (wrap_u16 size)).

(* one element / key / value appended to the buffer: WriteBytes, or (v2) refusal of nil then WriteShortBytes *)
Definition write_elem (v : Z) (enc : option bytes) : outcome bytes :=
  if uses4 v then OK (write_bytes enc)
  else match enc with
       | None => ERR                                                    (* collectionElementNil / errNilMapKey / errNilMapValue *)
       | Some b => if 65535 <? zlen b then ERR                          (* collectionElementTooLarge (D3) *)
                   else OK (write_short_bytes b)
       end.

Section Encode.
  Variable v : Z.

  (* for i := 0; i < size; i++ { elem -> Encode -> append } *)
  Fixpoint enc_elems (enc : cval -> outcome (option bytes)) (xs : list cval) : outcome bytes :=
    match xs with
    | [] => OK []
    | x :: r => e <-! enc x; b <-! write_elem v e; rest <-! enc_elems enc r; OK (b ++ rest)
    end.

  Fixpoint enc_entries (enck encv : cval -> outcome (option bytes)) (kvs : list (cval * cval)) : outcome bytes :=
    match kvs with
    | [] => OK []
    | (k, w) :: r =>
        ek <-! enck k; ew <-! encv w;
        (* v2: nil key is tested before nil value, both before anything is written *)
        bk <-! write_elem v ek; bw <-! write_elem v ew;
        rest <-! enc_entries enck encv r; OK (bk ++ bw ++ rest)
    end.

  (* Codec.Encode.  OK None = CQL NULL. *)
  Fixpoint m_encode (t : cqltype) (x : cval) {struct t} : outcome (option bytes) :=
    match x with
    | VNull => OK None                               (* reflectSource: nil source, nil pointer, nil slice, nil map *)
    | _ =>
      match t, x with
      | TScalar s, _ => enc_scalar s x
      | TList e, VList xs | TSet e, VList xs =>
          c <-! writeCollectionSize v (zlen xs); b <-! enc_elems (m_encode e) xs; OK (Some (c ++ b))
      | TMap k w, VMap kvs =>
          c <-! writeCollectionSize v (zlen kvs); b <-! enc_entries (m_encode k) (m_encode w) kvs; OK (Some (c ++ b))
      | TTuple fs, VTuple xs =>
          (* writeTuple: for i, codec := range elementCodecs { ext.getElem(i) ... WriteBytes }: a source shorter than the
             type fails in getElem (index out of range); extra source elements are ignored *)
          b <-! (fix fields (fs : list cqltype) (xs : list cval) {struct fs} : outcome bytes :=
                   match fs with
                   | [] => OK []
                   | f :: fs' =>
                       match xs with
                       | [] => ERR
                       | x :: xs' => e <-! m_encode f x; rest <-! fields fs' xs'; OK (write_bytes e ++ rest)
                       end
                   end) fs xs;
          (* bytes.Buffer.Bytes() of a buffer never written to is a nil slice: a tuple type without fields encodes to NULL *)
          OK (match fs with [] => None | _ => Some b end)
      | TUdt _ fs, VUdt xs =>
          b <-! (fix fields (fs : list cqltype) (xs : list cval) {struct fs} : outcome bytes :=
                   match fs with
                   | [] => OK []
                   | f :: fs' =>
                       match xs with
                       | [] => ERR
                       | x :: xs' => e <-! m_encode f x; rest <-! fields fs' xs'; OK (write_bytes e ++ rest)
                       end
                   end) fs xs;
          OK (match fs with [] => None | _ => Some b end)
      | _, _ => ERR                                  (* ErrSourceTypeNotSupported *)
      end
    end.
End Encode.

Section Decode.
  Variable v : Z.

  Definition read_elem (src : bytes) : outcome (option bytes * bytes) :=
    if uses4 v then read_bytes src else read_short_bytes src.

  (* readCollectionSize *)
  Definition readCollectionSize (src : bytes) : outcome (Z * bytes) :=
    if uses4 v then read_int src else read_short src.

  (* the element loop of readCollection; [fuel] bounds the iterations by the bytes available (each consumes >= 2) *)
  Fixpoint dec_elems (dec : option bytes -> outcome cval) (fuel : nat) (n : Z) (src : bytes) : outcome (list cval * bytes) :=
    if n <=? 0 then OK ([], src)
    else match fuel with
         | O => ERR
         | S f =>
             r <-! read_elem src;
             x <-! dec (fst r);
             rest <-! dec_elems dec f (n - 1) (snd r);
             OK (x :: fst rest, snd rest)
         end.

  (* readMap: both encoded forms are read before either is decoded *)
  Fixpoint dec_entries (deck decv : option bytes -> outcome cval) (fuel : nat) (n : Z) (src : bytes)
    : outcome (list (cval * cval) * bytes) :=
    if n <=? 0 then OK ([], src)
    else match fuel with
         | O => ERR
         | S f =>
             rk <-! read_elem src;
             rv <-! read_elem (snd rk);
             k <-! deck (fst rk);
             w <-! decv (fst rv);
             rest <-! dec_entries deck decv f (n - 1) (snd rv);
             OK ((k, w) :: fst rest, snd rest)
         end.

  Definition all_read {A} (r : A * bytes) : outcome A := if zlen (snd r) =? 0 then OK (fst r) else ERR.

  (* Codec.Decode; VNull when wasNull *)
  Fixpoint m_decode (t : cqltype) (src : option bytes) {struct t} : outcome cval :=
    match t with
    | TScalar s => dec_scalar s src
    | TList e | TSet e =>
        if src_len src =? 0 then OK VNull
        else
          r <-! readCollectionSize (src_bytes src);
          let (size, rest) := r in
          if size <? 0 then ERR                                       (* collectionSizeNegative (D2) *)
          else
            es <-! dec_elems (m_decode e) (S (List.length rest)) size rest;
            xs <-! all_read es; OK (VList xs)
    | TMap k w =>
        if src_len src =? 0 then OK VNull
        else
          r <-! readCollectionSize (src_bytes src);
          let (size, rest) := r in
          if size <? 0 then ERR                                       (* collectionSizeNegative (D2) *)
          else
          es <-! dec_entries (m_decode k) (m_decode w) (S (List.length rest)) size rest;
          kvs <-! all_read es; OK (VMap kvs)
    | TTuple fs =>
        if src_len src =? 0 then OK VNull
        else
          r <-! (fix fields (fs : list cqltype) (src : bytes) {struct fs} : outcome (list cval * bytes) :=
                   match fs with
                   | [] => OK ([], src)
                   | f :: fs' =>
                       e <-! read_bytes src; x <-! m_decode f (fst e); rest <-! fields fs' (snd e);
                       OK (x :: fst rest, snd rest)
                   end) fs (src_bytes src);
          xs <-! all_read r; OK (VTuple xs)
    | TUdt _ fs =>
        if src_len src =? 0 then OK VNull
        else
          r <-! (fix fields (fs : list cqltype) (src : bytes) {struct fs} : outcome (list cval * bytes) :=
                   match fs with
                   | [] => OK ([], src)
                   | f :: fs' =>
                       (* D4: if reader.Len() == 0 the field is absent: Decode(nil) *)
                       e <-! (match src with [] => OK (None, []) | _ => read_bytes src end);
                       x <-! m_decode f (fst e); rest <-! fields fs' (snd e);
                       OK (x :: fst rest, snd rest)
                   end) fs (src_bytes src);
          xs <-! all_read r; OK (VUdt xs)
    end.
End Decode.

(* outcome class, the observable the malformed-input stream compares (C04) *)
Inductive oclass : Type := COk | CErr | CPanic.
Definition class_of {A} (o : outcome A) : oclass := match o with OK _ => COk | ERR => CErr | PANIC => CPanic end.
Definition decode_class (v : Z) (t : cqltype) (src : option bytes) : oclass := class_of (m_decode v t src).
