(* CqlGoCases - comparison of one observation of the real code with model/CqlGoVal.v (the Go-representation layer).
   Definitions only. *)
From Coq Require Import ZArith List Bool String.
From GCNP Require Import base.GoInt base.Bytes spec.SpecCql model.CqlWire model.CqlContainers model.CqlTyping model.CqlCases model.CqlGoVal.
Import ListNotations.
Open Scope Z_scope.

Definition lkind_eqb (a b : lkind) : bool := match a, b with LVal, LVal | LSlice, LSlice => true | _, _ => false end.

Fixpoint gty_eqb (a b : gty) {struct a} : bool :=
  match a, b with
  | GLeaf s k, GLeaf s' k' => scalar_eqb s s' && lkind_eqb k k'
  | GPtr x, GPtr y | GSlice x, GSlice y => gty_eqb x y
  | GArray n x, GArray m y => Nat.eqb n m && gty_eqb x y
  | GMap k w, GMap k' w' => gty_eqb k k' && gty_eqb w w'
  | GStruct fs, GStruct gs =>
      (fix eqf (fs gs : list (string * string * gty)) {struct fs} : bool :=
         match fs, gs with
         | [], [] => true
         | (n, t, x) :: fs', (n', t', y) :: gs' => String.eqb n n' && String.eqb t t' && gty_eqb x y && eqf fs' gs'
         | _, _ => false
         end) fs gs
  | GIface, GIface => true
  | GIfaceN a, GIfaceN b => Bool.eqb a b
  | _, _ => false
  end.

(* structural equality of Go values; map entries up to order; pointers by pointee *)
Fixpoint gval_eq (a b : gval) {struct a} : bool :=
  match a, b with
  | GVLeaf x, GVLeaf y => cval_eq false x y
  | GVNilPtr, GVNilPtr | GVNilSlice, GVNilSlice | GVNilMap, GVNilMap | GVNilIface, GVNilIface => true
  | GVPtr x, GVPtr y => gval_eq x y
  | GVIface t x, GVIface t' y => gty_eqb t t' && gval_eq x y
  | GVSlice xs, GVSlice ys | GVArray xs, GVArray ys | GVStruct xs, GVStruct ys =>
      (fix eql (xs ys : list gval) {struct xs} : bool :=
         match xs, ys with [], [] => true | x :: xs', y :: ys' => gval_eq x y && eql xs' ys' | _, _ => false end) xs ys
  | GVMap xs, GVMap ys =>
      (fix eqm (xs : list (gval * gval)) (ys : list (gval * gval)) {struct xs} : bool :=
         match xs with
         | [] => match ys with [] => true | _ => false end
         | (k, w) :: xs' =>
             match (fix rm (ys : list (gval * gval)) : option (list (gval * gval)) :=
                      match ys with
                      | [] => None
                      | (k', w') :: ys' => if gval_eq k k' && gval_eq w w' then Some ys'
                                           else match rm ys' with Some r => Some ((k', w') :: r) | None => None end
                      end) ys with
             | Some ys' => eqm xs' ys'
             | None => false
             end
         end) xs ys
  | _, _ => false
  end.

Definition out_bytes_eqb (a b : outcome (option bytes)) : bool :=
  match a, b with
  | OK (Some x), OK (Some y) => zl_eqb x y
  | OK None, OK None | ERR, ERR | PANIC, PANIC => true
  | _, _ => false
  end.

(* Encode from a representation: the model's abstraction of the source is the value the harness reports, the cval-level model agrees
   with the implementation on it, and the representation-level model produces the same outcome as the cval-level model *)
Definition g_enc_agrees (v : Z) (t : cqltype) (gt : gty) (g : gval) (x : cval) (unordered : bool) (o : eobs) : bool :=
  match gabs t (Some (gt, g)) with
  | Some x' =>
      cval_eq true x' x && enc_agrees v t x' unordered o &&
      (if unordered then match g_encode v t (Some (gt, g)), o with
                         | OK (Some b), EOk b' => Z.eqb (zlen b) (zlen b')
                         | OK None, ENull | ERR, EErr => true
                         | _, _ => false
                         end
       else out_bytes_eqb (g_encode v t (Some (gt, g))) (m_encode v t x'))
  | None => match o, g_encode v t (Some (gt, g)) with EErr, ERR => true | _, _ => false end
  end.

(* what the real Decode left in the destination variable *)
Inductive gobs : Type := GOk (wasNull : bool) (g : gval) | GErr | GPanic.

Definition g_dec_agrees (v : Z) (t : cqltype) (gt : gty) (d : gval) (src : option (list Z)) (o : gobs) : bool :=
  match o, g_decode v t gt d src with
  | GOk n g, OK (n', g') => Bool.eqb n n' && gval_eq g g'
  | GErr, ERR => true
  | GPanic, PANIC => true
  | _, _ => false
  end.
