(* Executable version-validity of frames (the premise of C01-C03, C05): definitions only. *)
From Coq Require Import ZArith List Bool.
From GCNP Require Import base.GoInt base.Bytes base.Codec gen.Constants_gen spec.SpecTables model.Prim model.DataType
  model.MsgTypes model.Frame model.MsgRequests model.MsgCodec model.MsgValid.
Import ListNotations.
Open Scope Z_scope.

Definition is_nil {A} (l : list A) : bool := match l with [] => true | _ => false end.

Definition body_okb (h : Header) (b : Body) : bool :=
  let fl := h_Flags h in let v := h_Version h in
  (if has fl HeaderFlagTracing && msg_is_response (bd_Message b)
   then match bd_TracingId b with Some u => zlen u =? 16 | None => false end
   else match bd_TracingId b with None => true | Some _ => false end) &&
  (if has fl HeaderFlagCustomPayload
   then (4 <=? v) && (zlen (bd_CustomPayload b) <=? 65535) &&
        forallb (fun kv => (zlen (fst kv) <=? 65535) && (zlen (olist (snd kv)) <=? 2147483647)) (bd_CustomPayload b) &&
        nodup_keysb (bd_CustomPayload b)
   else is_nil (bd_CustomPayload b)) &&
  (if has fl HeaderFlagWarning && msg_is_response (bd_Message b)
   then (4 <=? v) &&
        match bd_Warnings b with
        | Some l => (zlen l <=? 65535) && forallb (fun s => zlen s <=? 65535) l
        | None => false
        end
   else is_nil (olist (bd_Warnings b))) &&
  message_okb v (bd_Message b).

Definition frame_okb (f : Frame) : bool :=
  let h := f_Header f in let b := f_Body f in
  existsb (Z.eqb (h_Version h)) spec_versions &&
  (0 <=? h_Flags h) && (h_Flags h <? 256) &&
  (if Z.geb (h_Version h) 3 then (-32768 <=? h_StreamId h) && (h_StreamId h <? 32768)
   else (-128 <=? h_StreamId h) && (h_StreamId h <? 128)) &&
  Bool.eqb (h_IsResponse h) (msg_is_response (bd_Message b)) &&
  (h_OpCode h =? msg_opcode (bd_Message b)) &&
  dse_opcode_ok (h_Version h) (h_OpCode h) &&
  body_okb h b.

(* what decoding the encoding of a valid frame returns: the declared body length, the message in normal form *)
Definition frame_normal (f : Frame) (body_length : Z) : Frame :=
  let h := f_Header f in let b := f_Body f in
  {| f_Header := with_body_length h body_length;
     f_Body := {| bd_TracingId := bd_TracingId b; bd_CustomPayload := bd_CustomPayload b;
                  bd_Warnings := (if has (h_Flags h) HeaderFlagWarning && msg_is_response (bd_Message b) then bd_Warnings b else None);
                  bd_Message := norm_message (h_Version h) (bd_Message b) |} |}.

Definition header_length (version : Z) : Z := if Z.geb version 3 then 9 else 8.
