(* Canonical form of decoded frames for the correspondence runs: Go maps have no order, the harness prints them
   sorted by key; the model keeps wire order. [canon_frame] sorts every map-valued field (never used in theorems). *)
From Coq Require Import ZArith List Bool.
From GCNP Require Import base.Bytes model.Prim model.DataType model.MsgTypes model.Frame.
Import ListNotations.
Open Scope Z_scope.

Fixpoint bytes_leb (a b : bytes) : bool :=
  match a, b with
  | [], _ => true
  | _ :: _, [] => false
  | x :: a', y :: b' => if x <? y then true else if y <? x then false else bytes_leb a' b'
  end.
Section Sort.
  Context {V : Type}.
  Fixpoint insert_kv (kv : bytes * V) (l : list (bytes * V)) : list (bytes * V) :=
    match l with
    | [] => [kv]
    | kv' :: r => if bytes_leb (fst kv) (fst kv') then kv :: l else kv' :: insert_kv kv r
    end.
  Definition sort_map (l : list (bytes * V)) : list (bytes * V) := fold_right insert_kv [] l.
End Sort.

Definition canon_qo (o : option QueryOptions) : option QueryOptions :=
  match o with
  | None => None
  | Some q => Some {| qo_Consistency := qo_Consistency q; qo_PositionalValues := qo_PositionalValues q;
                      qo_NamedValues := option_map sort_map (qo_NamedValues q); qo_SkipMetadata := qo_SkipMetadata q;
                      qo_PageSize := qo_PageSize q; qo_PageSizeInBytes := qo_PageSizeInBytes q; qo_PagingState := qo_PagingState q;
                      qo_SerialConsistency := qo_SerialConsistency q; qo_DefaultTimestamp := qo_DefaultTimestamp q;
                      qo_Keyspace := qo_Keyspace q; qo_NowInSeconds := qo_NowInSeconds q;
                      qo_ContinuousPagingOptions := qo_ContinuousPagingOptions q |}
  end.
Definition canon_message (m : Message) : Message :=
  match m with
  | M_Startup s => M_Startup {| st_Options := sort_map (st_Options s) |}
  | M_Supported s => M_Supported {| su_Options := sort_map (su_Options s) |}
  | M_Query q => M_Query {| q_Query := q_Query q; q_Options := canon_qo (q_Options q) |}
  | M_Execute e => M_Execute {| ex_QueryId := ex_QueryId e; ex_ResultMetadataId := ex_ResultMetadataId e; ex_Options := canon_qo (ex_Options e) |}
  | _ => m
  end.
Definition canon_frame (f : Frame) : Frame :=
  let b := f_Body f in
  {| f_Header := f_Header f;
     f_Body := {| bd_TracingId := bd_TracingId b; bd_CustomPayload := sort_map (bd_CustomPayload b);
                  bd_Warnings := bd_Warnings b; bd_Message := canon_message (bd_Message b) |} |}.
