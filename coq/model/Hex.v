(* hx "0a0b" = [10; 11] : the byte strings of generated case files *)
From Coq Require Import ZArith List String Ascii Bool.
Import ListNotations.
Open Scope Z_scope.
Open Scope bool_scope.

Definition hexval (c : ascii) : Z :=
  let n := Z.of_nat (nat_of_ascii c) in
  if (48 <=? n) && (n <=? 57) then n - 48
  else if (97 <=? n) && (n <=? 102) then n - 87
  else if (65 <=? n) && (n <=? 70) then n - 55
  else 0.
Fixpoint hx (s : string) : list Z :=
  match s with
  | String a (String b r) => (16 * hexval a + hexval b) :: hx r
  | _ => []
  end.
