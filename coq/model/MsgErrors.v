(* ERROR and EVENT messages: model of /repo/message/error.go (errorCodec) and /repo/message/event.go (eventCodec).
   Encode / EncodedLength / Decode are mirrored separately, statement by statement (definitions only).

   Conventions (see model/MsgTypes.v): Go string = bytes; string-typed codes (WriteType, EventType, SchemaChangeType,
   SchemaChangeTarget, StatusChangeType, TopologyChangeType) are bytes too and are handed to the go2coq-generated
   predicates through [string_of_bytes]; a Go  switch x { case Constant: }  /  x == Constant  on such a code is
   [String.eqb (string_of_bytes x) Constant].

   The Go type assertions  msg.(Error) / errMsg.( *Unavailable ) ...  cannot fail here: the constructor of [Message]
   determines GetErrorCode() / GetEventType(), so a struct is always handed to the branch of its own code. *)
From Coq Require Import ZArith List Bool String.
From GCNP Require Import base.GoInt base.Bytes base.StrBytes base.Codec gen.Constants_gen model.Prim model.DataType model.MsgTypes.
Import ListNotations.
Open Scope Z_scope.

Definition str_is (x : bytes) (c : string) : bool := String.eqb (string_of_bytes x) c.

(* ================================ ERROR ================================ *)

(* common prefix of errorCodec.Encode:  WriteInt(int32(code)); WriteString(message).
   ErrorCode is a uint32 and every declared code is below 2^31: int32(code) = code *)
Definition enc_error_prefix (code : Z) (msg : bytes) : W := write_int (wrap_i 32 code) +++ write_string msg.
Definition len_error_prefix (msg : bytes) : L := Ok LengthOfInt +l+ Ok (len_string msg).

(* ---- the ten kinds that carry only the message (empty case bodies of the three switches) ---- *)
Definition enc_simple_error (code : Z) (msg : bytes) : W := enc_error_prefix code msg.
Definition len_simple_error (msg : bytes) : L := len_error_prefix msg.

(* the byte written for a Go bool *)
Definition bool_byte (b : bool) : Z := if b then 1 else 0.

(* ---- UNAVAILABLE ---- *)
(* ConsistencyLevel is a uint16: uint16(m.Consistency) is the identity *)
Definition enc_Unavailable (version : Z) (m : Unavailable) : W :=
  enc_error_prefix ErrorCodeUnavailable (un_ErrorMessage m) +++
  write_short (un_Consistency m) +++ write_int (un_Required m) +++ write_int (un_Alive m).
Definition len_Unavailable (version : Z) (m : Unavailable) : L :=
  len_error_prefix (un_ErrorMessage m) +l+ Ok LengthOfShort +l+ Ok LengthOfInt +l+ Ok LengthOfInt.
Definition dec_Unavailable (version : Z) (msg : bytes) : R Unavailable :=
  c <- read_short ;; r <- read_int ;; a <- read_int ;;
  ret {| un_ErrorMessage := msg; un_Consistency := c; un_Required := r; un_Alive := a |}.

(* ---- READ TIMEOUT ---- *)
Definition enc_ReadTimeout (version : Z) (m : ReadTimeout) : W :=
  enc_error_prefix ErrorCodeReadTimeout (rt_ErrorMessage m) +++
  write_short (rt_Consistency m) +++ write_int (rt_Received m) +++ write_int (rt_BlockFor m) +++
  write_byte (bool_byte (rt_DataPresent m)).
Definition len_ReadTimeout (version : Z) (m : ReadTimeout) : L :=
  len_error_prefix (rt_ErrorMessage m) +l+ Ok LengthOfShort +l+ Ok LengthOfInt +l+ Ok LengthOfInt +l+ Ok LengthOfByte.
Definition dec_ReadTimeout (version : Z) (msg : bytes) : R ReadTimeout :=
  c <- read_short ;; r <- read_int ;; bf <- read_int ;; b <- read_byte ;;
  ret {| rt_ErrorMessage := msg; rt_Consistency := c; rt_Received := r; rt_BlockFor := bf; rt_DataPresent := Z.gtb b 0 |}.

(* ---- WRITE TIMEOUT: contentions only when the version supports them AND the write type is CAS;
        the write type is validated by neither side ---- *)
Definition wt_has_contentions (version : Z) (writeType : bytes) : bool :=
  ProtocolVersion_SupportsWriteTimeoutContentions version && str_is writeType WriteTypeCas.
Definition enc_WriteTimeout (version : Z) (m : WriteTimeout) : W :=
  enc_error_prefix ErrorCodeWriteTimeout (wt_ErrorMessage m) +++
  write_short (wt_Consistency m) +++ write_int (wt_Received m) +++ write_int (wt_BlockFor m) +++
  write_string (wt_WriteType m) +++
  (if wt_has_contentions version (wt_WriteType m) then write_short (wt_Contentions m) else Ok []).
Definition len_WriteTimeout (version : Z) (m : WriteTimeout) : L :=
  len_error_prefix (wt_ErrorMessage m) +l+ Ok LengthOfShort +l+ Ok LengthOfInt +l+ Ok LengthOfInt +l+
  Ok (len_string (wt_WriteType m)) +l+
  (if wt_has_contentions version (wt_WriteType m) then Ok LengthOfShort else Ok 0).
Definition dec_WriteTimeout (version : Z) (msg : bytes) : R WriteTimeout :=
  c <- read_short ;; r <- read_int ;; bf <- read_int ;; wt <- read_string ;;
  (* Go: msg.WriteType == WriteTypeCas && version.SupportsWriteTimeoutContentions() *)
  ct <- (if str_is wt WriteTypeCas && ProtocolVersion_SupportsWriteTimeoutContentions version then read_short else ret 0) ;;
  ret {| wt_ErrorMessage := msg; wt_Consistency := c; wt_Received := r; wt_BlockFor := bf; wt_WriteType := wt;
         wt_Contentions := ct |}.

(* ---- READ FAILURE: reason map from v5 on (NumFailures not written), NumFailures below (FailureReasons not written).
        WriteReasonMap dereferences every *FailureReason: a nil entry is an encoder-side panic (API misuse),
        modelled as Err inside write_reason_map / len_reason_map (model/Prim.v) ---- *)
Definition enc_ReadFailure (version : Z) (m : ReadFailure) : W :=
  enc_error_prefix ErrorCodeReadFailure (rf_ErrorMessage m) +++
  write_short (rf_Consistency m) +++ write_int (rf_Received m) +++ write_int (rf_BlockFor m) +++
  (if ProtocolVersion_SupportsReadWriteFailureReasonMap version then write_reason_map (rf_FailureReasons m)
   else write_int (rf_NumFailures m)) +++
  write_byte (bool_byte (rf_DataPresent m)).
Definition len_ReadFailure (version : Z) (m : ReadFailure) : L :=
  len_error_prefix (rf_ErrorMessage m) +l+ Ok LengthOfShort +l+ Ok LengthOfInt +l+ Ok LengthOfInt +l+ Ok LengthOfByte +l+
  (if ProtocolVersion_SupportsReadWriteFailureReasonMap version then len_reason_map (rf_FailureReasons m)
   else Ok LengthOfInt).
Definition dec_ReadFailure (version : Z) (msg : bytes) : R ReadFailure :=
  c <- read_short ;; r <- read_int ;; bf <- read_int ;;
  nf_fr <- (if ProtocolVersion_SupportsReadWriteFailureReasonMap version
            then fr <- read_reason_map ;; ret (0, fr)
            else nf <- read_int ;; ret (nf, [])) ;;
  b <- read_byte ;;
  ret {| rf_ErrorMessage := msg; rf_Consistency := c; rf_Received := r; rf_BlockFor := bf;
         rf_NumFailures := fst nf_fr; rf_FailureReasons := snd nf_fr; rf_DataPresent := Z.gtb b 0 |}.

(* ---- WRITE FAILURE: the decoder validates the write type, the encoder does not ---- *)
Definition enc_WriteFailure (version : Z) (m : WriteFailure) : W :=
  enc_error_prefix ErrorCodeWriteFailure (wf_ErrorMessage m) +++
  write_short (wf_Consistency m) +++ write_int (wf_Received m) +++ write_int (wf_BlockFor m) +++
  (if ProtocolVersion_SupportsReadWriteFailureReasonMap version then write_reason_map (wf_FailureReasons m)
   else write_int (wf_NumFailures m)) +++
  write_string (wf_WriteType m).
Definition len_WriteFailure (version : Z) (m : WriteFailure) : L :=
  len_error_prefix (wf_ErrorMessage m) +l+ Ok LengthOfShort +l+ Ok LengthOfInt +l+ Ok LengthOfInt +l+
  Ok (len_string (wf_WriteType m)) +l+
  (if ProtocolVersion_SupportsReadWriteFailureReasonMap version then len_reason_map (wf_FailureReasons m)
   else Ok LengthOfInt).
Definition dec_WriteFailure (version : Z) (msg : bytes) : R WriteFailure :=
  c <- read_short ;; r <- read_int ;; bf <- read_int ;;
  nf_fr <- (if ProtocolVersion_SupportsReadWriteFailureReasonMap version
            then fr <- read_reason_map ;; ret (0, fr)
            else nf <- read_int ;; ret (nf, [])) ;;
  wt <- read_string ;;
  rguard (is_ok (CheckValidWriteType (string_of_bytes wt))) ;;;
  ret {| wf_ErrorMessage := msg; wf_Consistency := c; wf_Received := r; wf_BlockFor := bf;
         wf_NumFailures := fst nf_fr; wf_FailureReasons := snd nf_fr; wf_WriteType := wt |}.

(* ---- FUNCTION FAILURE ---- *)
Definition enc_FunctionFailure (version : Z) (m : FunctionFailure) : W :=
  enc_error_prefix ErrorCodeFunctionFailure (ff_ErrorMessage m) +++
  write_string (ff_Keyspace m) +++ write_string (ff_Function m) +++ write_string_list (ff_Arguments m).
Definition len_FunctionFailure (version : Z) (m : FunctionFailure) : L :=
  len_error_prefix (ff_ErrorMessage m) +l+ Ok (len_string (ff_Keyspace m)) +l+ Ok (len_string (ff_Function m)) +l+
  Ok (len_string_list (ff_Arguments m)).
Definition dec_FunctionFailure (version : Z) (msg : bytes) : R FunctionFailure :=
  ks <- read_string ;; fn <- read_string ;; args <- read_string_list ;;
  ret {| ff_ErrorMessage := msg; ff_Keyspace := ks; ff_Function := fn; ff_Arguments := args |}.

(* ---- ALREADY EXISTS ---- *)
Definition enc_AlreadyExists (version : Z) (m : AlreadyExists) : W :=
  enc_error_prefix ErrorCodeAlreadyExists (ae_ErrorMessage m) +++
  write_string (ae_Keyspace m) +++ write_string (ae_Table m).
Definition len_AlreadyExists (version : Z) (m : AlreadyExists) : L :=
  len_error_prefix (ae_ErrorMessage m) +l+ Ok (len_string (ae_Keyspace m)) +l+ Ok (len_string (ae_Table m)).
Definition dec_AlreadyExists (version : Z) (msg : bytes) : R AlreadyExists :=
  ks <- read_string ;; t <- read_string ;;
  ret {| ae_ErrorMessage := msg; ae_Keyspace := ks; ae_Table := t |}.

(* ---- UNPREPARED ---- *)
Definition enc_Unprepared (version : Z) (m : Unprepared) : W :=
  enc_error_prefix ErrorCodeUnprepared (up_ErrorMessage m) +++ write_short_bytes (up_Id m).
Definition len_Unprepared (version : Z) (m : Unprepared) : L :=
  len_error_prefix (up_ErrorMessage m) +l+ Ok (len_short_bytes (up_Id m)).
Definition dec_Unprepared (version : Z) (msg : bytes) : R Unprepared :=
  id <- read_short_bytes ;; ret {| up_ErrorMessage := msg; up_Id := id |}.

(* ---- errorCodec.Decode: the code and the message are read first, then the switch on the code;
        an unknown code is an error ---- *)
Definition dec_error (version : Z) : R Message :=
  code <- read_int ;;
  msg <- read_string ;;
  (* switch primitive.ErrorCode(code): ErrorCode is uint32 *)
  let code := wrap_u 32 code in
  if code =? ErrorCodeServerError then ret (M_ServerError msg)
  else if code =? ErrorCodeProtocolError then ret (M_ProtocolError msg)
  else if code =? ErrorCodeAuthenticationError then ret (M_AuthenticationError msg)
  else if code =? ErrorCodeOverloaded then ret (M_Overloaded msg)
  else if code =? ErrorCodeIsBootstrapping then ret (M_IsBootstrapping msg)
  else if code =? ErrorCodeTruncateError then ret (M_TruncateError msg)
  else if code =? ErrorCodeSyntaxError then ret (M_SyntaxError msg)
  else if code =? ErrorCodeUnauthorized then ret (M_Unauthorized msg)
  else if code =? ErrorCodeInvalid then ret (M_Invalid msg)
  else if code =? ErrorCodeConfigError then ret (M_ConfigError msg)
  else if code =? ErrorCodeUnavailable then rmap M_Unavailable (dec_Unavailable version msg)
  else if code =? ErrorCodeReadTimeout then rmap M_ReadTimeout (dec_ReadTimeout version msg)
  else if code =? ErrorCodeWriteTimeout then rmap M_WriteTimeout (dec_WriteTimeout version msg)
  else if code =? ErrorCodeReadFailure then rmap M_ReadFailure (dec_ReadFailure version msg)
  else if code =? ErrorCodeWriteFailure then rmap M_WriteFailure (dec_WriteFailure version msg)
  else if code =? ErrorCodeFunctionFailure then rmap M_FunctionFailure (dec_FunctionFailure version msg)
  else if code =? ErrorCodeAlreadyExists then rmap M_AlreadyExists (dec_AlreadyExists version msg)
  else if code =? ErrorCodeUnprepared then rmap M_Unprepared (dec_Unprepared version msg)
  else rfail.

(* ================================ EVENT ================================ *)

(* common prefix of eventCodec.Encode: CheckValidEventType(GetEventType()); WriteString(type) *)
Definition enc_event_prefix (eventType : string) : W :=
  wguard (is_ok (CheckValidEventType eventType)) +++ write_string (bytes_of_string eventType).
Definition len_event_prefix (eventType : string) : L := Ok (len_string (bytes_of_string eventType)).

(* ---- SCHEMA CHANGE ---- *)
Definition target_is (t : bytes) (c : string) : bool := str_is t c.

Definition enc_SchemaChangeEvent (version : Z) (m : SchemaChangeEvent) : W :=
  let tgt := sce_Target m in
  enc_event_prefix EventTypeSchemaChange +++
  wguard (is_ok (CheckValidSchemaChangeType (string_of_bytes (sce_ChangeType m)))) +++ write_string (sce_ChangeType m) +++
  (if Z.geb version ProtocolVersion3 then
     wguard (is_ok (CheckValidSchemaChangeTarget (string_of_bytes tgt) version)) +++ write_string tgt +++
     wguard (negb (bytes_is_empty (sce_Keyspace m))) +++ write_string (sce_Keyspace m) +++
     (if target_is tgt SchemaChangeTargetKeyspace then Ok []
      else if target_is tgt SchemaChangeTargetTable || target_is tgt SchemaChangeTargetType then
        wguard (negb (bytes_is_empty (sce_Object m))) +++ write_string (sce_Object m)
      else if target_is tgt SchemaChangeTargetAggregate || target_is tgt SchemaChangeTargetFunction then
        (* Go tests sce.Keyspace (sic) for emptiness here, not sce.Object: an empty object name is written *)
        wguard (negb (bytes_is_empty (sce_Keyspace m))) +++ write_string (sce_Object m) +++
        write_string_list (sce_Arguments m)
      else Ok [])
   else
     wguard (is_ok (CheckValidSchemaChangeTarget (string_of_bytes tgt) version)) +++
     wguard (negb (bytes_is_empty (sce_Keyspace m))) +++ write_string (sce_Keyspace m) +++
     (if target_is tgt SchemaChangeTargetKeyspace then
        wguard (bytes_is_empty (sce_Object m)) +++ write_string []
      else if target_is tgt SchemaChangeTargetTable then
        wguard (negb (bytes_is_empty (sce_Object m))) +++ write_string (sce_Object m)
      else Ok [])).

Definition len_SchemaChangeEvent (version : Z) (m : SchemaChangeEvent) : L :=
  let tgt := sce_Target m in
  len_event_prefix EventTypeSchemaChange +l+ Ok (len_string (sce_ChangeType m)) +l+
  (if is_ok (CheckValidSchemaChangeTarget (string_of_bytes tgt) version) then Ok 0 else Err) +l+
  (if Z.geb version ProtocolVersion3 then
     Ok (len_string tgt) +l+ Ok (len_string (sce_Keyspace m)) +l+
     (if target_is tgt SchemaChangeTargetKeyspace then Ok 0
      else if target_is tgt SchemaChangeTargetTable || target_is tgt SchemaChangeTargetType then
        Ok (len_string (sce_Object m))
      else if target_is tgt SchemaChangeTargetAggregate || target_is tgt SchemaChangeTargetFunction then
        Ok (len_string (sce_Object m)) +l+ Ok (len_string_list (sce_Arguments m))
      else Ok 0)
   else Ok (len_string (sce_Keyspace m)) +l+ Ok (len_string (sce_Object m))).

(* the change type is not validated when decoding; below v3 the target is derived from the object *)
Definition dec_SchemaChangeEvent (version : Z) : R SchemaChangeEvent :=
  ct <- read_string ;;
  if Z.geb version ProtocolVersion3 then
    tgt <- read_string ;;
    rguard (is_ok (CheckValidSchemaChangeTarget (string_of_bytes tgt) version)) ;;;
    ks <- read_string ;;
    if target_is tgt SchemaChangeTargetKeyspace then
      ret {| sce_ChangeType := ct; sce_Target := tgt; sce_Keyspace := ks; sce_Object := []; sce_Arguments := [] |}
    else if target_is tgt SchemaChangeTargetTable || target_is tgt SchemaChangeTargetType then
      obj <- read_string ;;
      ret {| sce_ChangeType := ct; sce_Target := tgt; sce_Keyspace := ks; sce_Object := obj; sce_Arguments := [] |}
    else if target_is tgt SchemaChangeTargetAggregate || target_is tgt SchemaChangeTargetFunction then
      obj <- read_string ;; args <- read_string_list ;;
      ret {| sce_ChangeType := ct; sce_Target := tgt; sce_Keyspace := ks; sce_Object := obj; sce_Arguments := args |}
    else rfail
  else
    ks <- read_string ;; obj <- read_string ;;
    ret {| sce_ChangeType := ct;
           sce_Target := bytes_of_string (if bytes_is_empty obj then SchemaChangeTargetKeyspace else SchemaChangeTargetTable);
           sce_Keyspace := ks; sce_Object := obj; sce_Arguments := [] |}.

(* ---- STATUS CHANGE: the change type is validated by the encoder only ---- *)
Definition enc_StatusChangeEvent (version : Z) (m : StatusChangeEvent) : W :=
  enc_event_prefix EventTypeStatusChange +++
  wguard (is_ok (CheckValidStatusChangeType (string_of_bytes (ste_ChangeType m)))) +++ write_string (ste_ChangeType m) +++
  write_inet (ste_Address m).
Definition len_StatusChangeEvent (version : Z) (m : StatusChangeEvent) : L :=
  len_event_prefix EventTypeStatusChange +l+ Ok (len_string (ste_ChangeType m)) +l+ len_inet (ste_Address m).
Definition dec_StatusChangeEvent (version : Z) : R StatusChangeEvent :=
  ct <- read_string ;; a <- read_inet ;; ret {| ste_ChangeType := ct; ste_Address := Some a |}.

(* ---- TOPOLOGY CHANGE: MOVED_NODE from v3 on (checked by the encoder only) ---- *)
Definition enc_TopologyChangeEvent (version : Z) (m : TopologyChangeEvent) : W :=
  enc_event_prefix EventTypeTopologyChange +++
  wguard (is_ok (CheckValidTopologyChangeType (string_of_bytes (tce_ChangeType m)) version)) +++ write_string (tce_ChangeType m) +++
  write_inet (tce_Address m).
Definition len_TopologyChangeEvent (version : Z) (m : TopologyChangeEvent) : L :=
  len_event_prefix EventTypeTopologyChange +l+ Ok (len_string (tce_ChangeType m)) +l+ len_inet (tce_Address m).
Definition dec_TopologyChangeEvent (version : Z) : R TopologyChangeEvent :=
  ct <- read_string ;; a <- read_inet ;; ret {| tce_ChangeType := ct; tce_Address := Some a |}.

(* ---- eventCodec.Decode: an unknown event type is an error ---- *)
Definition dec_event (version : Z) : R Message :=
  et <- read_string ;;
  if str_is et EventTypeSchemaChange then rmap M_SchemaChangeEvent (dec_SchemaChangeEvent version)
  else if str_is et EventTypeStatusChange then rmap M_StatusChangeEvent (dec_StatusChangeEvent version)
  else if str_is et EventTypeTopologyChange then rmap M_TopologyChangeEvent (dec_TopologyChangeEvent version)
  else rfail.

(* ================================ validity and normal forms ================================
   T_okb version m: what a message must satisfy to be "valid for the version" (computable);
   norm_T version m: the value the decoder returns for the encoding of a valid m. *)
Definition str16 (s : bytes) : bool := zlen s <=? 65535.
Definition strs16 (l : list bytes) : bool := (zlen l <=? 65535) && forallb str16 l.
Definition i32b (x : Z) : bool := in_i 32 x.
Definition u16b (x : Z) : bool := in_u 16 x.
Definition is_nil {A} (l : list A) : bool := match l with [] => true | _ => false end.

Definition ip_okb (ip : option bytes) : bool :=
  match ip with Some b => (zlen b =? 4) || (zlen b =? 16) | None => false end.
Definition inet_okb (i : option Inet) : bool :=
  match i with Some i => ip_okb (inet_addr i) && i32b (inet_port i) | None => false end.
Definition norm_ip16 (ip : option bytes) : option bytes :=
  match ip with Some b => ip_to16 b | None => None end.
Definition norm_oinet (i : option Inet) : option Inet :=
  match i with Some i => Some {| inet_addr := norm_ip16 (inet_addr i); inet_port := inet_port i |} | None => None end.

(* reason map entries: non-nil pointer, a 4- or 16-byte address, a valid failure code *)
Definition reason_okb (r : option FailureReason) : bool :=
  match r with Some r => ip_okb (fr_endpoint r) && FailureCode_IsValid (fr_code r) | None => false end.
Definition reasons_okb (l : list (option FailureReason)) : bool := (zlen l <=? 2147483647) && forallb reason_okb l.
Definition norm_reason (r : option FailureReason) : option FailureReason :=
  match r with Some r => Some {| fr_endpoint := norm_ip16 (fr_endpoint r); fr_code := fr_code r |} | None => None end.

Definition simple_error_okb (msg : bytes) : bool := str16 msg.

Definition Unavailable_okb (version : Z) (m : Unavailable) : bool :=
  str16 (un_ErrorMessage m) && u16b (un_Consistency m) && i32b (un_Required m) && i32b (un_Alive m).
Definition norm_Unavailable (version : Z) (m : Unavailable) : Unavailable := m.

Definition ReadTimeout_okb (version : Z) (m : ReadTimeout) : bool :=
  str16 (rt_ErrorMessage m) && u16b (rt_Consistency m) && i32b (rt_Received m) && i32b (rt_BlockFor m).
Definition norm_ReadTimeout (version : Z) (m : ReadTimeout) : ReadTimeout := m.

(* Contentions is carried only for CAS on versions that support it: zero otherwise *)
Definition WriteTimeout_okb (version : Z) (m : WriteTimeout) : bool :=
  str16 (wt_ErrorMessage m) && u16b (wt_Consistency m) && i32b (wt_Received m) && i32b (wt_BlockFor m) &&
  str16 (wt_WriteType m) &&
  (if wt_has_contentions version (wt_WriteType m) then u16b (wt_Contentions m) else wt_Contentions m =? 0).
Definition norm_WriteTimeout (version : Z) (m : WriteTimeout) : WriteTimeout := m.

(* v5+: NumFailures is not carried (zero); below: FailureReasons is not carried (empty) *)
Definition failures_okb (version : Z) (numFailures : Z) (reasons : list (option FailureReason)) : bool :=
  if ProtocolVersion_SupportsReadWriteFailureReasonMap version
  then (numFailures =? 0) && reasons_okb reasons
  else i32b numFailures && is_nil reasons.

Definition ReadFailure_okb (version : Z) (m : ReadFailure) : bool :=
  str16 (rf_ErrorMessage m) && u16b (rf_Consistency m) && i32b (rf_Received m) && i32b (rf_BlockFor m) &&
  failures_okb version (rf_NumFailures m) (rf_FailureReasons m).
Definition norm_ReadFailure (version : Z) (m : ReadFailure) : ReadFailure :=
  {| rf_ErrorMessage := rf_ErrorMessage m; rf_Consistency := rf_Consistency m; rf_Received := rf_Received m;
     rf_BlockFor := rf_BlockFor m; rf_NumFailures := rf_NumFailures m;
     rf_FailureReasons := map norm_reason (rf_FailureReasons m); rf_DataPresent := rf_DataPresent m |}.

(* the write type must be valid: the decoder refuses anything else (the encoder does not check) *)
Definition WriteFailure_okb (version : Z) (m : WriteFailure) : bool :=
  str16 (wf_ErrorMessage m) && u16b (wf_Consistency m) && i32b (wf_Received m) && i32b (wf_BlockFor m) &&
  failures_okb version (wf_NumFailures m) (wf_FailureReasons m) &&
  str16 (wf_WriteType m) && WriteType_IsValid (string_of_bytes (wf_WriteType m)).
Definition norm_WriteFailure (version : Z) (m : WriteFailure) : WriteFailure :=
  {| wf_ErrorMessage := wf_ErrorMessage m; wf_Consistency := wf_Consistency m; wf_Received := wf_Received m;
     wf_BlockFor := wf_BlockFor m; wf_NumFailures := wf_NumFailures m;
     wf_FailureReasons := map norm_reason (wf_FailureReasons m); wf_WriteType := wf_WriteType m |}.

Definition FunctionFailure_okb (version : Z) (m : FunctionFailure) : bool :=
  str16 (ff_ErrorMessage m) && str16 (ff_Keyspace m) && str16 (ff_Function m) && strs16 (ff_Arguments m).
Definition norm_FunctionFailure (version : Z) (m : FunctionFailure) : FunctionFailure := m.

Definition AlreadyExists_okb (version : Z) (m : AlreadyExists) : bool :=
  str16 (ae_ErrorMessage m) && str16 (ae_Keyspace m) && str16 (ae_Table m).
Definition norm_AlreadyExists (version : Z) (m : AlreadyExists) : AlreadyExists := m.

(* a nil id is written as an empty [short bytes] and read back as an empty slice *)
Definition Unprepared_okb (version : Z) (m : Unprepared) : bool :=
  str16 (up_ErrorMessage m) && (zlen (olist (up_Id m)) <=? 65535).
Definition norm_Unprepared (version : Z) (m : Unprepared) : Unprepared :=
  {| up_ErrorMessage := up_ErrorMessage m; up_Id := Some (olist (up_Id m)) |}.

(* SCHEMA_CHANGE: valid change type; target valid for the version; non-empty keyspace; the object and the
   arguments only where the target (and the version's layout) carries them: KEYSPACE -> no object, no arguments;
   TABLE / TYPE -> non-empty object, no arguments; FUNCTION / AGGREGATE -> object (may be empty: the Go check
   tests the keyspace) and arguments.  [bytes_okb target]: the target is a byte string (below v3 the decoder
   rebuilds it from the constant). *)
Definition SchemaChangeEvent_okb (version : Z) (m : SchemaChangeEvent) : bool :=
  let tgt := sce_Target m in
  SchemaChangeType_IsValid (string_of_bytes (sce_ChangeType m)) &&
  bytes_okb tgt &&
  is_ok (CheckValidSchemaChangeTarget (string_of_bytes tgt) version) &&
  negb (bytes_is_empty (sce_Keyspace m)) && str16 (sce_Keyspace m) &&
  (if target_is tgt SchemaChangeTargetKeyspace then bytes_is_empty (sce_Object m) && is_nil (sce_Arguments m)
   else if target_is tgt SchemaChangeTargetTable || target_is tgt SchemaChangeTargetType then
     negb (bytes_is_empty (sce_Object m)) && str16 (sce_Object m) && is_nil (sce_Arguments m)
   else str16 (sce_Object m) && strs16 (sce_Arguments m)).
Definition norm_SchemaChangeEvent (version : Z) (m : SchemaChangeEvent) : SchemaChangeEvent := m.

Definition StatusChangeEvent_okb (version : Z) (m : StatusChangeEvent) : bool :=
  StatusChangeType_IsValid (string_of_bytes (ste_ChangeType m)) && inet_okb (ste_Address m).
Definition norm_StatusChangeEvent (version : Z) (m : StatusChangeEvent) : StatusChangeEvent :=
  {| ste_ChangeType := ste_ChangeType m; ste_Address := norm_oinet (ste_Address m) |}.

Definition TopologyChangeEvent_okb (version : Z) (m : TopologyChangeEvent) : bool :=
  is_ok (CheckValidTopologyChangeType (string_of_bytes (tce_ChangeType m)) version) && inet_okb (tce_Address m).
Definition norm_TopologyChangeEvent (version : Z) (m : TopologyChangeEvent) : TopologyChangeEvent :=
  {| tce_ChangeType := tce_ChangeType m; tce_Address := norm_oinet (tce_Address m) |}.

(* ================================ group dispatch (assembled by model/Frame's msg_codec) ================================ *)
Definition enc_error_group (version : Z) (m : Message) : option W :=
  match m with
  | M_ServerError msg => Some (enc_simple_error ErrorCodeServerError msg)
  | M_ProtocolError msg => Some (enc_simple_error ErrorCodeProtocolError msg)
  | M_AuthenticationError msg => Some (enc_simple_error ErrorCodeAuthenticationError msg)
  | M_Overloaded msg => Some (enc_simple_error ErrorCodeOverloaded msg)
  | M_IsBootstrapping msg => Some (enc_simple_error ErrorCodeIsBootstrapping msg)
  | M_TruncateError msg => Some (enc_simple_error ErrorCodeTruncateError msg)
  | M_SyntaxError msg => Some (enc_simple_error ErrorCodeSyntaxError msg)
  | M_Unauthorized msg => Some (enc_simple_error ErrorCodeUnauthorized msg)
  | M_Invalid msg => Some (enc_simple_error ErrorCodeInvalid msg)
  | M_ConfigError msg => Some (enc_simple_error ErrorCodeConfigError msg)
  | M_Unavailable e => Some (enc_Unavailable version e)
  | M_ReadTimeout e => Some (enc_ReadTimeout version e)
  | M_WriteTimeout e => Some (enc_WriteTimeout version e)
  | M_ReadFailure e => Some (enc_ReadFailure version e)
  | M_WriteFailure e => Some (enc_WriteFailure version e)
  | M_FunctionFailure e => Some (enc_FunctionFailure version e)
  | M_Unprepared e => Some (enc_Unprepared version e)
  | M_AlreadyExists e => Some (enc_AlreadyExists version e)
  | M_SchemaChangeEvent e => Some (enc_SchemaChangeEvent version e)
  | M_StatusChangeEvent e => Some (enc_StatusChangeEvent version e)
  | M_TopologyChangeEvent e => Some (enc_TopologyChangeEvent version e)
  | _ => None
  end.

Definition len_error_group (version : Z) (m : Message) : option L :=
  match m with
  | M_ServerError msg | M_ProtocolError msg | M_AuthenticationError msg | M_Overloaded msg | M_IsBootstrapping msg
  | M_TruncateError msg | M_SyntaxError msg | M_Unauthorized msg | M_Invalid msg | M_ConfigError msg =>
      Some (len_simple_error msg)
  | M_Unavailable e => Some (len_Unavailable version e)
  | M_ReadTimeout e => Some (len_ReadTimeout version e)
  | M_WriteTimeout e => Some (len_WriteTimeout version e)
  | M_ReadFailure e => Some (len_ReadFailure version e)
  | M_WriteFailure e => Some (len_WriteFailure version e)
  | M_FunctionFailure e => Some (len_FunctionFailure version e)
  | M_Unprepared e => Some (len_Unprepared version e)
  | M_AlreadyExists e => Some (len_AlreadyExists version e)
  | M_SchemaChangeEvent e => Some (len_SchemaChangeEvent version e)
  | M_StatusChangeEvent e => Some (len_StatusChangeEvent version e)
  | M_TopologyChangeEvent e => Some (len_TopologyChangeEvent version e)
  | _ => None
  end.

Definition dec_error_group (version : Z) (opcode : Z) : option (R Message) :=
  if opcode =? OpCodeError then Some (dec_error version)
  else if opcode =? OpCodeEvent then Some (dec_event version)
  else None.

Definition error_group_okb (version : Z) (m : Message) : option bool :=
  match m with
  | M_ServerError msg | M_ProtocolError msg | M_AuthenticationError msg | M_Overloaded msg | M_IsBootstrapping msg
  | M_TruncateError msg | M_SyntaxError msg | M_Unauthorized msg | M_Invalid msg | M_ConfigError msg =>
      Some (simple_error_okb msg)
  | M_Unavailable e => Some (Unavailable_okb version e)
  | M_ReadTimeout e => Some (ReadTimeout_okb version e)
  | M_WriteTimeout e => Some (WriteTimeout_okb version e)
  | M_ReadFailure e => Some (ReadFailure_okb version e)
  | M_WriteFailure e => Some (WriteFailure_okb version e)
  | M_FunctionFailure e => Some (FunctionFailure_okb version e)
  | M_Unprepared e => Some (Unprepared_okb version e)
  | M_AlreadyExists e => Some (AlreadyExists_okb version e)
  | M_SchemaChangeEvent e => Some (SchemaChangeEvent_okb version e)
  | M_StatusChangeEvent e => Some (StatusChangeEvent_okb version e)
  | M_TopologyChangeEvent e => Some (TopologyChangeEvent_okb version e)
  | _ => None
  end.

Definition norm_error_group (version : Z) (m : Message) : option Message :=
  match m with
  | M_ServerError _ | M_ProtocolError _ | M_AuthenticationError _ | M_Overloaded _ | M_IsBootstrapping _
  | M_TruncateError _ | M_SyntaxError _ | M_Unauthorized _ | M_Invalid _ | M_ConfigError _ => Some m
  | M_Unavailable e => Some (M_Unavailable (norm_Unavailable version e))
  | M_ReadTimeout e => Some (M_ReadTimeout (norm_ReadTimeout version e))
  | M_WriteTimeout e => Some (M_WriteTimeout (norm_WriteTimeout version e))
  | M_ReadFailure e => Some (M_ReadFailure (norm_ReadFailure version e))
  | M_WriteFailure e => Some (M_WriteFailure (norm_WriteFailure version e))
  | M_FunctionFailure e => Some (M_FunctionFailure (norm_FunctionFailure version e))
  | M_Unprepared e => Some (M_Unprepared (norm_Unprepared version e))
  | M_AlreadyExists e => Some (M_AlreadyExists (norm_AlreadyExists version e))
  | M_SchemaChangeEvent e => Some (M_SchemaChangeEvent (norm_SchemaChangeEvent version e))
  | M_StatusChangeEvent e => Some (M_StatusChangeEvent (norm_StatusChangeEvent version e))
  | M_TopologyChangeEvent e => Some (M_TopologyChangeEvent (norm_TopologyChangeEvent version e))
  | _ => None
  end.
