(* Executable model of crc/crc24.go (ChecksumKoopman) and crc/crc32.go (ChecksumIEEE).
   DEFINITIONS ONLY.  Numeric parameters come from gen/Crc_gen.v (regenerated from the Go source on every run).
   Bit-level values are N; bytes are Z in [0,256) (lists of Z, no alias). *)
From Coq Require Import ZArith NArith List Bool.
From GCNP Require Import base.GoInt gen.Crc_gen.
Import ListNotations.
Open Scope N_scope.

Fixpoint iterN (n : nat) (f : N -> N) (x : N) : N :=
  match n with O => x | S k => iterN k f (f x) end.

Definition mask32 : N := 4294967295.

(* ------------------------------------------------------------------ CRC-24 (crc/crc24.go)
   func ChecksumKoopman(data uint64, len int) uint32 {
     crc := crc24Init
     for i := 0; i < len; i++ {
       crc ^= (uint32)(data) << 16          -- uint32 arithmetic: low 32 bits of data, shifted, truncated to 32 bits
       data >>= 8
       for j := 0; j < 8; j++ { crc <<= 1; if (crc & 0x1000000) != 0 { crc ^= crc24Poly } }
     }
     return crc }                                                                                        *)
Definition crc24_init : N := Z.to_N crc24Init.
Definition crc24_poly : N := Z.to_N crc24Poly.

Definition crc24_bitstep (c : N) : N :=
  let c' := N.land (N.shiftl c 1) mask32 in            (* crc <<= 1 on uint32 *)
  if N.testbit c' 24 then N.lxor c' crc24_poly else c'.

Fixpoint crc24_loop (len : nat) (d c : N) : N :=
  match len with
  | O => c
  | S k =>
      let c1 := N.lxor c (N.land (N.shiftl (N.land d mask32) 16) mask32) in
      crc24_loop k (N.shiftr d 8) (iterN 8 crc24_bitstep c1)
  end.

Definition checksum_koopman (data : N) (len : nat) : N := crc24_loop len data crc24_init.

(* the linear part: the same register machine started from the zero register *)
Definition crc24_lin (e : N) (len : nat) : N := crc24_loop len e 0.

(* ------------------------------------------------------------------ CRC-32 (crc/crc32.go, hash/crc32)
   hash/crc32.Update(crc, tab, p) = ^update(^crc, tab, p) where update is the reflected table algorithm
   crc = tab[byte(crc) ^ v] ^ (crc >> 8), tab[i] = 8 x (if c&1 then (c>>1)^poly else c>>1) from i.
   The model uses the equivalent shift form: xor the byte into the low end, then 8 zero-input shift steps. *)
Definition crc32_poly : N := Z.to_N crc32Poly.

(* one step of the bit-serial reflected LFSR fed with input bit b *)
Definition crc32_step (s : N) (b : bool) : N :=
  let s' := N.shiftr s 1 in
  if xorb (N.testbit s 0) b then N.lxor s' crc32_poly else s'.

Definition crc32_step0 (s : N) : N := crc32_step s false.

Definition crc32_byte (s : N) (v : Z) : N := iterN 8 crc32_step0 (N.lxor s (Z.to_N v)).

Definition crc32_raw (s : N) (bs : list Z) : N := fold_left crc32_byte bs s.

(* hash/crc32.Update *)
Definition crc32_update (crc : N) (bs : list Z) : N := N.lxor (crc32_raw (N.lxor crc mask32) bs) mask32.

(* var initialChecksum = crc32.Update(0, table, initialBytes) *)
Definition crc32_initial_checksum : N := crc32_update (Z.to_N crc32InitialStart) crc32InitialBytes.

(* func ChecksumIEEE(data []byte) uint32 { return crc32.Update(initialChecksum, table, data) } *)
Definition checksum_ieee (data : list Z) : N := crc32_update crc32_initial_checksum data.

(* ------------------------------------------------------------------ bit-serial view (used by the C07 proofs) *)
Definition crc32_run (s : N) (bits : list bool) : N := fold_left crc32_step bits s.

(* the bits of a byte, least significant first: the order in which the reflected CRC consumes them *)
Fixpoint bits_lsb (k : nat) (v : N) : list bool :=
  match k with O => [] | S k' => N.testbit v 0 :: bits_lsb k' (N.shiftr v 1) end.

Definition bits_of_byte (v : Z) : list bool := bits_lsb 8 (Z.to_N v).

Fixpoint bits_of_bytes (bs : list Z) : list bool :=
  match bs with [] => [] | v :: r => bits_of_byte v ++ bits_of_bytes r end.
