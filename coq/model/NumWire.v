(* Hand-written model of datacodec/varint.go writeBigInt / readBigInt (the byte-level code uses math/big slices that are
   outside the translated subset).  Mirrors the Go code statement by statement; tied to the compiled code by the
   correspondence run of check C13 (records bw / br).  DEFINITIONS ONLY. *)
From Coq Require Import ZArith List Bool.
From GCNP Require Import base.GoInt base.GoNum.
Import ListNotations.
Open Scope Z_scope.

(* big.Int.BitLen: length of |x| in bits, 0 for 0 *)
Definition bitlen (x : Z) : Z := if Z.abs x =? 0 then 0 else Z.log2 (Z.abs x) + 1.
(* big.Int.Bytes: minimal big-endian bytes of |x|, empty for 0 *)
Definition big_Bytes (x : Z) : list Z := be_bytes (Z.to_nat ((bitlen x + 7) / 8)) (Z.abs x).
(* big.Int.SetBytes *)
Definition big_SetBytes (b : list Z) : Z := be_value b.

Definition writeBigInt (n : Z) : list Z :=
  match Z.sgn n with
  | 1 =>
      let b := big_Bytes n in
      if Z.land (nth_Z b 0) 128 >? 0 then 0 :: b else b
  | -1 =>
      let length := (bitlen n / 8 + 1) * 8 in
      let b := big_Bytes (n + Z.shiftl 1 length) in
      if (len_Z b >=? 2) && (nth_Z b 0 =? 255) && negb (Z.land (nth_Z b 1) 128 =? 0) then tl b else b
  | _ => [0]
  end.

(* nil source bytes and empty source bytes both give a nil *big.Int *)
Definition readBigInt (source : list Z) : option Z :=
  let length := len_Z source in
  if length >? 0 then
    let val := big_SetBytes source in
    Some (if Z.land (nth_Z source 0) 128 >? 0 then val - Z.shiftl 1 (length * 8) else val)
  else None.
