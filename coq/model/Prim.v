(* Primitive notations of the native protocol: model of /repo/primitive/{integers,string,long_string,bytes,
   short_bytes,string_list,string_map,string_multimap,bytes_map,inet_addr,inet,uuid,values,reasonmap,
   streamid}.go - each Write*/Read*/LengthOf* mirrored separately (definitions only).
   Conventions: Go string = list Z; Go []byte / slices / maps / pointers that may be nil = option;
   Go maps = association lists in the order given (the Go encoder iterates in random order). *)
From Coq Require Import ZArith List Bool.
From GCNP Require Import base.GoInt base.Bytes base.Codec gen.Constants_gen.
Import ListNotations.
Open Scope Z_scope.

Definition bytes := list Z.
Definition olist {A} (o : option (list A)) : list A := match o with Some l => l | None => [] end.

(* ---- integers.go ---- *)
Definition write_byte (b : Z) : W := Ok (be_bytes 1 b).
Definition write_short (i : Z) : W := Ok (be_bytes 2 i).          (* uint16 *)
Definition write_int (i : Z) : W := Ok (be_bytes 4 i).            (* int32, two's complement *)
Definition write_long (l : Z) : W := Ok (be_bytes 8 l).           (* int64 *)
Definition read_byte : R Z := read_be 1.
Definition read_short : R Z := read_be 2.
Definition read_int : R Z := rmap (wrap_i 32) (read_be 4).
Definition read_long : R Z := rmap (wrap_i 64) (read_be 8).
Definition LengthOfByte := 1. Definition LengthOfShort := 2. Definition LengthOfInt := 4. Definition LengthOfLong := 8.

(* ---- string.go: length is uint16(len(s)) (truncating), then all bytes ---- *)
Definition write_string (s : bytes) : W := write_short (wrap_u 16 (zlen s)) +++ Ok s.
Definition read_string : R bytes :=
  len <- read_short ;; if len <=? 0 then ret [] else read_raw len.
Definition len_string (s : bytes) : Z := LengthOfShort + zlen s.

(* ---- long_string.go ---- *)
Definition write_long_string (s : bytes) : W := write_int (wrap_i 32 (zlen s)) +++ Ok s.
Definition read_long_string : R bytes :=
  len <- read_int ;; if len <=? 0 then ret [] else read_raw len.
Definition len_long_string (s : bytes) : Z := LengthOfInt + zlen s.

(* ---- bytes.go: nil = length -1 ---- *)
Definition write_bytes (b : option bytes) : W :=
  match b with
  | None => write_int (-1)
  | Some b => write_int (wrap_i 32 (zlen b)) +++ Ok b
  end.
Definition read_bytes : R (option bytes) :=
  len <- read_int ;;
  if len <? 0 then ret None
  else if len =? 0 then ret (Some [])
  else rmap Some (read_raw len).
Definition len_bytes (b : option bytes) : Z := LengthOfInt + zlen (olist b).

(* ---- short_bytes.go: nil is written as length 0 ---- *)
Definition write_short_bytes (b : option bytes) : W := write_short (wrap_u 16 (zlen (olist b))) +++ Ok (olist b).
Definition read_short_bytes : R (option bytes) :=
  len <- read_short ;;
  if len <? 0 then ret None
  else if len =? 0 then ret (Some [])
  else rmap Some (read_raw len).
Definition len_short_bytes (b : option bytes) : Z := LengthOfShort + zlen (olist b).

(* ---- string_list.go ---- *)
Definition write_string_list (l : list bytes) : W := write_short (wrap_u 16 (zlen l)) +++ wlist write_string l.
Definition read_string_list : R (list bytes) :=
  count <- read_short ;; read_count count read_string.
Definition len_string_list (l : list bytes) : Z := LengthOfShort + fold_right (fun s acc => len_string s + acc) 0 l.

(* ---- string_map.go ---- *)
Definition write_string_map (m : list (bytes * bytes)) : W :=
  write_short (wrap_u 16 (zlen m)) +++ wlist (fun kv => write_string (fst kv) +++ write_string (snd kv)) m.
Definition read_string_map : R (list (bytes * bytes)) :=
  count <- read_short ;; read_count count (k <- read_string ;; v <- read_string ;; ret (k, v)).
Definition len_string_map (m : list (bytes * bytes)) : Z :=
  LengthOfShort + fold_right (fun kv acc => len_string (fst kv) + len_string (snd kv) + acc) 0 m.

(* ---- string_multimap.go ---- *)
Definition write_string_multimap (m : list (bytes * list bytes)) : W :=
  write_short (wrap_u 16 (zlen m)) +++ wlist (fun kv => write_string (fst kv) +++ write_string_list (snd kv)) m.
Definition read_string_multimap : R (list (bytes * list bytes)) :=
  count <- read_short ;; read_count count (k <- read_string ;; v <- read_string_list ;; ret (k, v)).
Definition len_string_multimap (m : list (bytes * list bytes)) : Z :=
  LengthOfShort + fold_right (fun kv acc => len_string (fst kv) + len_string_list (snd kv) + acc) 0 m.

(* ---- bytes_map.go ---- *)
Definition write_bytes_map (m : list (bytes * option bytes)) : W :=
  write_short (wrap_u 16 (zlen m)) +++ wlist (fun kv => write_string (fst kv) +++ write_bytes (snd kv)) m.
Definition read_bytes_map : R (list (bytes * option bytes)) :=
  count <- read_short ;; read_count count (k <- read_string ;; v <- read_bytes ;; ret (k, v)).
Definition len_bytes_map (m : list (bytes * option bytes)) : Z :=
  LengthOfShort + fold_right (fun kv acc => len_string (fst kv) + len_bytes (snd kv) + acc) 0 m.

(* Go maps: a later duplicate key overwrites an earlier one. Decoded maps are association lists from
   which earlier duplicates are removed (identity on lists without duplicate keys). *)
Fixpoint bytes_eqb (a b : bytes) : bool :=
  match a, b with
  | [], [] => true
  | x :: a', y :: b' => Z.eqb x y && bytes_eqb a' b'
  | _, _ => false
  end.
Fixpoint dedup_last {V} (m : list (bytes * V)) : list (bytes * V) :=
  match m with
  | [] => []
  | kv :: r => if existsb (fun kv' => bytes_eqb (fst kv) (fst kv')) r then dedup_last r else kv :: dedup_last r
  end.

(* ---- inet_addr.go: net.IP is a byte slice of length 4 or 16 (anything else: To4() == nil, To16() == nil) ---- *)
Definition v4_in_v6_prefix : bytes := [0;0;0;0;0;0;0;0;0;0;255;255].
Definition ip_to4 (ip : bytes) : option bytes :=
  if zlen ip =? 4 then Some ip
  else if (zlen ip =? 16) && bytes_eqb (firstn 12 ip) v4_in_v6_prefix then Some (skipn 12 ip)
  else None.
Definition ip_to16 (ip : bytes) : option bytes :=
  if zlen ip =? 4 then Some (v4_in_v6_prefix ++ ip)
  else if zlen ip =? 16 then Some ip
  else None.
Definition write_inet_addr (ip : option bytes) : W :=
  match ip with
  | None => Err
  | Some ip =>
      match ip_to4 ip with
      | Some b4 => write_byte 4 +++ Ok b4
      | None => write_byte 16 +++ Ok (match ip_to16 ip with Some b => b | None => [] end)
          (* Go: dest.Write(nil) writes 0 bytes and n < 16 is reported as an error *)
          +++ wguard (match ip_to16 ip with Some _ => true | None => false end)
      end
  end.
Definition read_inet_addr : R (option bytes) :=
  len <- read_byte ;;
  if len =? 4 then b <- read_raw 4 ;; ret (Some (v4_in_v6_prefix ++ b))     (* net.IPv4(a,b,c,d): 16-byte form *)
  else if len =? 16 then rmap Some (read_raw 16)
  else rfail.
Definition len_inet_addr (ip : option bytes) : L :=
  match ip with
  | None => Err
  | Some ip => match ip_to4 ip with Some _ => Ok (LengthOfByte + 4) | None => Ok (LengthOfByte + 16) end
  end.

(* ---- inet.go ---- *)
Record Inet := { inet_addr : option bytes; inet_port : Z }.
Definition write_inet (i : option Inet) : W :=
  match i with None => Err | Some i => write_inet_addr (inet_addr i) +++ write_int (inet_port i) end.
Definition read_inet : R Inet :=
  a <- read_inet_addr ;; p <- read_int ;; ret {| inet_addr := a; inet_port := p |}.
Definition len_inet (i : option Inet) : L :=
  match i with None => Err | Some i => len_inet_addr (inet_addr i) +l+ Ok LengthOfInt end.

(* ---- uuid.go: *UUID, 16 raw bytes ---- *)
Definition LengthOfUuid := 16.
Definition write_uuid (u : option bytes) : W := match u with None => Err | Some b => Ok b end.
Definition read_uuid : R bytes := read_raw 16.

(* ---- values.go ---- *)
Definition ValueTypeRegular := 0. Definition ValueTypeNull := -1. Definition ValueTypeUnset := -2.
Record Value := { value_type : Z; value_contents : option bytes }.
Definition NewValue (c : option bytes) : Value :=
  match c with None => {| value_type := ValueTypeNull; value_contents := None |}
             | Some _ => {| value_type := ValueTypeRegular; value_contents := c |} end.
Definition NewUnsetValue : Value := {| value_type := ValueTypeUnset; value_contents := None |}.
Definition write_value (version : Z) (v : option Value) : W :=
  match v with
  | None => Err
  | Some v =>
      if value_type v =? ValueTypeNull then write_int ValueTypeNull
      else if value_type v =? ValueTypeUnset then
        (if ProtocolVersion_SupportsUnsetValues version then write_int ValueTypeUnset else Err)
      else if value_type v =? ValueTypeRegular then
        match value_contents v with
        | None => write_int ValueTypeNull
        | Some c => write_int (wrap_i 32 (zlen c)) +++ Ok c
        end
      else Err
  end.
Definition read_value (version : Z) : R Value :=
  len <- read_int ;;
  if len =? ValueTypeNull then ret (NewValue None)
  else if len =? ValueTypeUnset then
    (if Z.ltb version ProtocolVersion4 then rfail else ret NewUnsetValue)
  else if len <? 0 then rfail
  else if len =? 0 then ret (NewValue (Some []))
  else c <- read_raw len ;; ret (NewValue (Some c)).
Definition len_value (v : option Value) : L :=
  match v with
  | None => Err
  | Some v =>
      if value_type v =? ValueTypeNull then Ok LengthOfInt
      else if value_type v =? ValueTypeUnset then Ok LengthOfInt
      else if value_type v =? ValueTypeRegular then Ok (LengthOfInt + zlen (olist (value_contents v)))
      else Err
  end.

Definition write_positional_values (version : Z) (vs : list (option Value)) : W :=
  write_short (wrap_u 16 (zlen vs)) +++ wlist (write_value version) vs.
Definition read_positional_values (version : Z) : R (list (option Value)) :=
  count <- read_short ;; read_count count (rmap Some (read_value version)).
Definition len_positional_values (vs : list (option Value)) : L := Ok LengthOfShort +l+ llist len_value vs.

Definition write_named_values (version : Z) (vs : list (bytes * option Value)) : W :=
  write_short (wrap_u 16 (zlen vs)) +++ wlist (fun nv => write_string (fst nv) +++ write_value version (snd nv)) vs.
Definition read_named_values (version : Z) : R (list (bytes * option Value)) :=
  count <- read_short ;; read_count count (n <- read_string ;; v <- read_value version ;; ret (n, Some v)).
Definition len_named_values (vs : list (bytes * option Value)) : L :=
  Ok LengthOfShort +l+ llist (fun nv => Ok (len_string (fst nv)) +l+ len_value (snd nv)) vs.

(* ---- reasonmap.go ---- *)
Record FailureReason := { fr_endpoint : option bytes; fr_code : Z }.
Definition write_reason_map (m : list (option FailureReason)) : W :=
  write_int (wrap_i 32 (zlen m)) +++
  wlist (fun r => match r with
                  | None => Err                       (* Go dereferences nil here: encoder-side panic, API misuse *)
                  | Some r => write_inet_addr (fr_endpoint r) +++ wguard (FailureCode_IsValid (fr_code r))
                              +++ write_short (fr_code r)
                  end) m.
(* Go's make([]T, n) with a wire-controlled n: a negative n panics *)
Definition rmake (n : Z) : R unit := if n <? 0 then rpanic else ret tt.
Definition read_reason_map : R (list (option FailureReason)) :=
  count <- read_int ;;
  if count <? 0 then rfail
  else rmake count ;;; read_count count (a <- read_inet_addr ;; c <- read_short ;;
                         rguard (FailureCode_IsValid c) ;;; ret (Some {| fr_endpoint := a; fr_code := c |})).
Definition len_reason_map (m : list (option FailureReason)) : L :=
  Ok LengthOfInt +l+ llist (fun r => match r with None => Err
                                     | Some r => len_inet_addr (fr_endpoint r) +l+ Ok LengthOfShort end) m.

(* ---- streamid.go ---- *)
Definition write_stream_id (version : Z) (id : Z) : W :=
  if Z.geb version ProtocolVersion3 then write_short (wrap_u 16 id)
  else if (Z.gtb id 127) || (Z.ltb id (-128)) then Err
  else write_byte (wrap_u 8 id).
Definition read_stream_id (version : Z) : R Z :=
  if Z.geb version ProtocolVersion3 then rmap (wrap_i 16) read_short
  else rmap (fun b => wrap_i 16 (wrap_i 8 b)) read_byte.
