(* Sequences of the frame mutators of /repo/frame/frame.go (modelled in model/Frame.v) and the STARTUP option
   accessors of /repo/message/startup.go (definitions only). *)
From Coq Require Import ZArith List Bool String.
From GCNP Require Import base.GoInt base.Bytes base.Codec gen.Constants_gen model.Prim model.DataType model.MsgTypes model.Frame.
Import ListNotations.
Open Scope Z_scope.

Inductive mop : Type :=
| OpSetCustomPayload (p : list (bytes * option bytes))
| OpSetWarnings (w : option (list bytes))
| OpSetTracingId (t : option bytes)
| OpRequestTracingId (tracing : bool)
| OpSetCompress (compress : bool).

Definition apply_mop (f : Frame) (op : mop) : Frame :=
  match op with
  | OpSetCustomPayload p => SetCustomPayload f p
  | OpSetWarnings w => SetWarnings f w
  | OpSetTracingId t => SetTracingId f t
  | OpRequestTracingId b => RequestTracingId f b
  | OpSetCompress b => SetCompress f b
  end.
Definition run_mops (f : Frame) (ops : list mop) : Frame := fold_left apply_mop ops f.

(* direction-appropriate use, as documented on the mutators: tracing ids and warnings belong to responses,
   tracing requests to requests *)
Definition mop_ok (f : Frame) (op : mop) : bool :=
  match op with
  | OpSetWarnings _ | OpSetTracingId _ => msg_is_response (bd_Message (f_Body f))
  | OpRequestTracingId _ => negb (msg_is_response (bd_Message (f_Body f)))
  | _ => true
  end.

(* ---- STARTUP options: Go map[string]string as association list without duplicate keys ---- *)
Fixpoint opt_get (m : list (bytes * bytes)) (k : bytes) : option bytes :=
  match m with
  | [] => None
  | (k', v) :: r => if bytes_eqb k k' then Some v else opt_get r k
  end.
Fixpoint opt_set (m : list (bytes * bytes)) (k v : bytes) : list (bytes * bytes) :=
  match m with
  | [] => [(k, v)]
  | (k', v') :: r => if bytes_eqb k k' then (k, v) :: r else (k', v') :: opt_set r k v
  end.
Definition opt_del (m : list (bytes * bytes)) (k : bytes) : list (bytes * bytes) :=
  filter (fun kv => negb (bytes_eqb k (fst kv))) m.

(* option keys of startup.go, as byte strings *)
Inductive startup_key := KCqlVersion | KCompression | KClientId | KApplicationName | KApplicationVersion
                       | KDriverName | KDriverVersion | KThrowOnOverload.
Definition key_bytes (k : startup_key) : bytes :=
  match k with
  | KCqlVersion => [67;81;76;95;86;69;82;83;73;79;78]                                   (* CQL_VERSION *)
  | KCompression => [67;79;77;80;82;69;83;83;73;79;78]                                  (* COMPRESSION *)
  | KClientId => [67;76;73;69;78;84;95;73;68]                                           (* CLIENT_ID *)
  | KApplicationName => [65;80;80;76;73;67;65;84;73;79;78;95;78;65;77;69]               (* APPLICATION_NAME *)
  | KApplicationVersion => [65;80;80;76;73;67;65;84;73;79;78;95;86;69;82;83;73;79;78]   (* APPLICATION_VERSION *)
  | KDriverName => [68;82;73;86;69;82;95;78;65;77;69]                                   (* DRIVER_NAME *)
  | KDriverVersion => [68;82;73;86;69;82;95;86;69;82;83;73;79;78]                       (* DRIVER_VERSION *)
  | KThrowOnOverload => [84;72;82;79;87;95;79;78;95;79;86;69;82;76;79;65;68]            (* THROW_ON_OVERLOAD *)
  end.

Definition compression_none : bytes := [78;79;78;69].   (* "NONE" *)

(* accessors: Get/Set of the five plain string options; COMPRESSION (absent = "NONE", setting "NONE" deletes);
   the boolean THROW_ON_OVERLOAD: Is = (found && v == "1"), Set true stores "1", Set false deletes *)
Inductive sop : Type :=
| SSet (k : startup_key) (v : bytes)         (* SetClientId / SetApplicationName / SetApplicationVersion / SetDriverName / SetDriverVersion *)
| SSetCompression (c : bytes)
| SSetThrow (b : bool).
Definition plain_key (k : startup_key) : bool :=
  match k with KClientId | KApplicationName | KApplicationVersion | KDriverName | KDriverVersion => true | _ => false end.
Definition apply_sop (m : list (bytes * bytes)) (op : sop) : list (bytes * bytes) :=
  match op with
  | SSet k v => opt_set m (key_bytes k) v
  | SSetCompression c => if bytes_eqb c compression_none then opt_del m (key_bytes KCompression)
                         else opt_set m (key_bytes KCompression) c
  | SSetThrow true => opt_set m (key_bytes KThrowOnOverload) [49]
  | SSetThrow false => opt_del m (key_bytes KThrowOnOverload)
  end.
Definition startup_get (m : list (bytes * bytes)) (k : startup_key) : bytes :=
  match opt_get m (key_bytes k) with Some v => v | None => [] end.     (* Go: a missing key reads as "" *)
Definition startup_get_compression (m : list (bytes * bytes)) : bytes :=
  match opt_get m (key_bytes KCompression) with Some v => v | None => compression_none end.
Definition startup_is_throw (m : list (bytes * bytes)) : bool :=
  match opt_get m (key_bytes KThrowOnOverload) with Some v => bytes_eqb v [49] | None => false end.
(* the option an accessor call touches *)
Definition sop_key (op : sop) : startup_key :=
  match op with SSet k _ => k | SSetCompression _ => KCompression | SSetThrow _ => KThrowOnOverload end.

Definition key_eqb (a b : startup_key) : bool := bytes_eqb (key_bytes a) (key_bytes b).

(* the observation of a STARTUP message through its getters *)
Definition observe (m : list (bytes * bytes)) (k : startup_key) : bytes :=
  match k with
  | KCompression => startup_get_compression m
  | KThrowOnOverload => if startup_is_throw m then [49] else []
  | _ => startup_get m k
  end.
(* what a setter call stores, as seen through the matching getter *)
Definition stored (op : sop) : bytes :=
  match op with SSet _ v => v | SSetCompression c => c | SSetThrow b => if b then [49] else [] end.
Definition sop_wf (op : sop) : bool := match op with SSet k _ => plain_key k | _ => true end.

