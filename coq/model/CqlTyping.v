(* CqlTyping - which abstract values are values of which CQL type (definitions only).
   [wt_scalar]: the ranges are those of the canonical intermediate Go type each codec converts its source to
   (int64, int32, int16, int8, *big.Int, CqlDecimal{*big.Int,int32}, CqlDuration{int32,int32,int64}, float bit patterns,
   byte strings, 16-byte UUIDs, 4- or 16-byte addresses in canonical form), for `time` the range the specification gives (5.17)
   and the decoder enforces for time.Duration.  NULL is a value of every type, at every position. *)
From Coq Require Import ZArith List Bool String.
From GCNP Require Import base.GoInt base.Bytes spec.SpecCql model.CqlWire.
Import ListNotations.
Open Scope Z_scope.

Definition is_v4mapped (bs : list Z) : bool :=
  (zlen bs =? 16) && forallb (Z.eqb 0) (firstn 10 bs) && (nth 10 bs 0 =? 255) && (nth 11 bs 0 =? 255).

Definition wt_scalar (s : scalar) (x : cval) : bool :=
  match s, x with
  | SBigint, VInt z | SCounter, VInt z | STimestamp, VInt z => in_i 64 z
  | STime, VInt z => (0 <=? z) && (z <=? 86399999999999)
  | SInt, VInt z | SDate, VInt z => in_i 32 z
  | SSmallint, VInt z => in_i 16 z
  | STinyint, VInt z => in_i 8 z
  | SVarint, VInt _ => true
  | SDecimal, VDecimal sc _ => in_i 32 sc
  | SDuration, VDuration m d n => in_i 32 m && in_i 32 d && in_i 64 n
  | SBoolean, VBool _ => true
  | SFloat, VFloat b => in_u 32 b
  | SDouble, VFloat b => in_u 64 b
  | SAscii, VBytes bs | SVarchar, VBytes bs | SBlob, VBytes bs | SCustom, VBytes bs => bytes_okb bs
  | SUuid, VUuid bs | STimeuuid, VUuid bs => bytes_okb bs && (zlen bs =? 16)
  | SInet, VInet bs => bytes_okb bs && ((zlen bs =? 4) || ((zlen bs =? 16) && negb (is_v4mapped bs)))
  | _, _ => false
  end.

Fixpoint wt (t : cqltype) (x : cval) {struct t} : bool :=
  match x with
  | VNull => true
  | _ =>
    match t, x with
    | TScalar s, _ => wt_scalar s x
    | TList e, VList xs | TSet e, VList xs => forallb (wt e) xs
    | TMap k w, VMap kvs => forallb (fun kv => wt k (fst kv) && wt w (snd kv)) kvs
    | TTuple fs, VTuple xs | TUdt _ fs, VUdt xs =>
        (fix fields (fs : list cqltype) (xs : list cval) {struct fs} : bool :=
           match fs, xs with
           | [], [] => true
           | f :: fs', x :: xs' => wt f x && fields fs' xs'
           | _, _ => false
           end) fs xs
    | _, _ => false
    end
  end.

(* type trees the theorems range over: every tuple / UDT type has at least one field (a type without fields has a single
   non-null value, which the encoder turns into NULL - reported as an observation), UDT names match the fields *)
Fixpoint wf_type (t : cqltype) : bool :=
  match t with
  | TScalar _ => true
  | TList e | TSet e => wf_type e
  | TMap k w => wf_type k && wf_type w
  | TTuple fs => negb (match fs with [] => true | _ => false end) && forallb wf_type fs
  | TUdt names fs => negb (match fs with [] => true | _ => false end) && (List.length names =? List.length fs)%nat && forallb wf_type fs
  end.

(* depth and width, for the non-vacuity examples *)
Fixpoint tdepth (t : cqltype) : nat :=
  match t with
  | TScalar _ => 1
  | TList e | TSet e => S (tdepth e)
  | TMap k w => S (Nat.max (tdepth k) (tdepth w))
  | TTuple fs | TUdt _ fs => S (fold_right (fun f m => Nat.max (tdepth f) m) 0%nat fs)
  end.

(* does the value contain a NULL at a collection element / map key / map value position (not expressible in v2)? *)
Fixpoint null_in_coll (t : cqltype) (x : cval) {struct t} : bool :=
  let isnull (x : cval) := match x with VNull => true | _ => false end in
  match t, x with
  | TList e, VList xs | TSet e, VList xs => existsb (fun x => isnull x || null_in_coll e x) xs
  | TMap k w, VMap kvs => existsb (fun kv => isnull (fst kv) || isnull (snd kv) || null_in_coll k (fst kv) || null_in_coll w (snd kv)) kvs
  | TTuple fs, VTuple xs | TUdt _ fs, VUdt xs =>
      (fix fields (fs : list cqltype) (xs : list cval) {struct fs} : bool :=
         match fs, xs with
         | f :: fs', x :: xs' => null_in_coll f x || fields fs' xs'
         | _, _ => false
         end) fs xs
  | _, _ => false
  end.
