(* C18 (partial) - codecs shared by concurrent goroutines.  DEFINITIONS ONLY; proofs are in proofs/FootprintProofs.v.

   Two parts:
   1. The shape of the table that go2coq (unit footprint, on go/ssa) regenerates from /repo: for every codec entry point the
      list of writes whose target is memory shared between the goroutines that use one codec (memory reachable from the
      receiver or from a package-level variable of the module).
   2. An abstract machine: goroutines run operations, an operation is a deterministic program over its own local state that
      issues atomic reads and writes of shared locations; configurations are interleaved by an arbitrary schedule.

   What links the two is NOT proved here and is named as the partial nature of C18: that a Go entry point whose extracted write
   set is empty behaves as an operation that issues no write action (soundness of the extraction; bodies of third-party and
   standard-library callees such as sync.Pool inside pierrec/lz4; the Go memory model, under which "atomic read of a shared
   location" is justified only in the absence of concurrent writes - which is exactly what the theorem establishes). *)
From Coq Require Import List String Bool Arith.
Import ListNotations.

(* ---- 1. the regenerated table *)
Inductive wkind :=
| WStore       (* *addr = v        with addr derived from the receiver or a package-level variable *)
| WMapUpdate   (* m[k] = v         on such a map *)
| WAppend      (* append(s, ...)   on such a slice (may write its backing array) *)
| WCopy        (* copy(dst, ...)   into such a slice *)
| WDelete      (* delete / clear   on such a map *)
| WSend        (* ch <- v          on such a channel *)
| WExternal.   (* such a pointer / slice / map handed to a function whose body is outside the module and not known read-only *)

Definition swrite := (wkind * string * string)%type.   (* kind, target, source position *)

Definition readonly_entry (e : string * list swrite) : bool :=
  match snd e with [] => true | _ => false end.

Definition all_readonly (t : list (string * list swrite)) : bool := forallb readonly_entry t.

Definition writing_entries (t : list (string * list swrite)) : list (string * list swrite) :=
  filter (fun e => negb (readonly_entry e)) t.

(* ---- 2. the machine *)
Section Machine.
  Variables (Loc Val St Res : Type).
  Variable loc_eqb : Loc -> Loc -> bool.

  (* what an operation does next, as a function of its local state only *)
  Inductive act :=
  | Done (r : Res)                     (* the call has returned r; absorbing *)
  | Rd (l : Loc) (k : Val -> St)       (* atomic read of a shared location *)
  | Wr (l : Loc) (v : Val) (k : St)    (* atomic write of a shared location *)
  | Tau (k : St).                      (* a step on call-local state (arguments, result buffers, fresh allocations) *)

  Variable step : St -> act.

  Definition store := Loc -> Val.
  Definition upd (m : store) (l : Loc) (v : Val) : store := fun l' => if loc_eqb l' l then v else m l'.

  (* one atomic step of one goroutine *)
  Definition tstep (m : store) (s : St) : store * St :=
    match step s with
    | Done _ => (m, s)
    | Rd l k => (m, k (m l))
    | Wr l v k => (upd m l v, k)
    | Tau k => (m, k)
    end.

  Fixpoint set_nth (i : nat) (s : St) (ts : list St) : list St :=
    match ts, i with
    | [], _ => []
    | _ :: r, O => s :: r
    | x :: r, S j => x :: set_nth j s r
    end.

  (* a schedule names, step by step, the goroutine that moves; any list of indices is a schedule *)
  Fixpoint exec (sch : list nat) (m : store) (ts : list St) : store * list St :=
    match sch with
    | [] => (m, ts)
    | i :: r =>
      match nth_error ts i with
      | None => exec r m ts
      | Some s => let (m', s') := tstep m s in exec r m' (set_nth i s' ts)
      end
    end.

  (* the same goroutine running alone (sequentially) for n steps against the store m *)
  Fixpoint solo (n : nat) (m : store) (s : St) : St :=
    match n with
    | O => s
    | S k => solo k m (snd (tstep m s))
    end.

  Definition result (s : St) : option Res := match step s with Done r => Some r | _ => None end.

  (* states an operation can come to, whatever the values it reads *)
  Inductive reach : St -> St -> Prop :=
  | reach_refl s : reach s s
  | reach_rd s l k v s' : step s = Rd l k -> reach (k v) s' -> reach s s'
  | reach_wr s l v k s' : step s = Wr l v k -> reach k s' -> reach s s'
  | reach_tau s k s' : step s = Tau k -> reach k s' -> reach s s'.

  (* the static shared-write set W covers the operation started in s *)
  Definition writes_within (W : list Loc) (s : St) : Prop :=
    forall s', reach s s' -> forall l v k, step s' = Wr l v k -> In l W.

  (* the accesses of a run: (goroutine, location, is_write) *)
  Definition access := (nat * Loc * bool)%type.

  Fixpoint trace (sch : list nat) (m : store) (ts : list St) : list access :=
    match sch with
    | [] => []
    | i :: r =>
      match nth_error ts i with
      | None => trace r m ts
      | Some s =>
        let (m', s') := tstep m s in
        match step s with
        | Rd l _ => [(i, l, false)]
        | Wr l _ _ => [(i, l, true)]
        | _ => []
        end ++ trace r m' (set_nth i s' ts)
      end
    end.

  (* two accesses conflict: different goroutines, same location, at least one write.  In the model every access is atomic, so a
     conflict is what a data race is in Go once the accesses are ordinary (non-atomic) loads and stores. *)
  Definition conflict (a b : access) : Prop :=
    fst (fst a) <> fst (fst b) /\ loc_eqb (snd (fst a)) (snd (fst b)) = true /\ (snd a = true \/ snd b = true).

  Definition race_free (t : list access) : Prop := forall a b, In a t -> In b t -> ~ conflict a b.

  Fixpoint count (i : nat) (sch : list nat) : nat :=
    match sch with [] => O | j :: r => (if Nat.eqb i j then 1 else 0) + count i r end.
End Machine.

Arguments Done {Loc Val St Res}.
Arguments Rd {Loc Val St Res}.
Arguments Wr {Loc Val St Res}.
Arguments Tau {Loc Val St Res}.
