(* Connection framing (C15): model of the framing decisions of /repo/client/client.go and /repo/client/server.go
   (incomingLoop / outgoingLoop, readFrame / writeFrame, readSegment / writeSegment, readSelfContainedSegment,
   addMultiSegmentPayload, payloadAccumulator, maybeSwitchToModernLayout, adoption of the STARTUP compression) and of
   /repo/client/compression.go.  DEFINITIONS ONLY.

   The machine is parametric in a frame codec (record [fcodec]) and a segment codec (record [scodec]); their laws are
   the predicates [frame_law] / [seg_law] below (no hypotheses in this file).  Two instances are defined at the end:
   [raw_fc]   frames = header + opaque body (frame.RawCodec), closed: its laws are proved from FrameProofs.v;
   [frame_fc] frames = model/Frame.v frames over a message codec [mc] (laws follow from the frame round trip theorems);
   [seg_sc]   model/Segment.v.

   NOT in the model (exercised by the harness only): TCP, partial reads (the Go code reads from a blocking stream with
   io.ReadFull semantics: the model consumes a whole frame / segment from the byte stream or fails), deadlines, the
   goroutine hand-off between the loops and the user (channels `incoming`, `outgoing`, in-flight handler), the raw
   response path of the server (SendRaw writes the caller's bytes as they are, also in modern mode). *)
From Coq Require Import ZArith List Bool.
From GCNP Require Import base.GoInt base.Bytes base.Codec gen.Constants_gen gen.Crc_gen model.Prim model.DataType model.MsgTypes
  model.Frame model.Segment model.Mutators.
Import ListNotations.
Open Scope Z_scope.

(* segment.MaxPayloadLength *)
Definition max_payload : Z := MaxPayloadLength.

(* ------------------------------------------------------------------------------------------------ interfaces *)
(* F frames, H envelope headers, C negotiated compression (primitive.Compression) *)
Record fcodec (F H C : Type) := mkFcodec {
  fc_enc : C -> F -> result (list Z);      (* c.frameCodec.EncodeFrame, codec built with NewBodyCompressor(C) *)
  fc_dec : C -> R F;                       (* c.frameCodec.DecodeFrame *)
  fc_dec_hdr : R H;                        (* payloadAccumulator.frameCodec.DecodeHeader (raw codec, no compression) *)
  fc_target : H -> Z;                      (* int(primitive.FrameHeaderLengthV3AndHigher + header.BodyLength) *)
  fc_hlen : Z;                             (* number of bytes the header decoder needs (9) *)
  fc_hcomp : H -> bool;                    (* header.Flags.Contains(HeaderFlagCompressed) *)
  fc_compressed : F -> bool;               (* frame.Header.Flags.Contains(HeaderFlagCompressed) *)
  fc_clear : F -> F;                       (* Header.Flags = Header.Flags.Remove(HeaderFlagCompressed) *)
  fc_setc : F -> F;                        (* Header.Flags = Header.Flags.Add(HeaderFlagCompressed) *)
  fc_switch : F -> bool;                   (* Version.SupportsModernFramingLayout() && (isReady(f) || isAuthenticate(f)) *)
  fc_startup : F -> option C;              (* Body.Message is a message.Startup: Some (startup.GetCompression()) *)
  fc_fatal : F -> bool;                    (* OpCode == Error && ErrorCode.IsFatalError() *)
  fc_cnone : C -> bool                     (* c == primitive.CompressionNone *)
}.
Arguments fc_enc {F H C}. Arguments fc_dec {F H C}. Arguments fc_dec_hdr {F H C}. Arguments fc_target {F H C}.
Arguments fc_hlen {F H C}. Arguments fc_hcomp {F H C}. Arguments fc_compressed {F H C}. Arguments fc_clear {F H C}.
Arguments fc_setc {F H C}. Arguments fc_switch {F H C}. Arguments fc_startup {F H C}. Arguments fc_fatal {F H C}.
Arguments fc_cnone {F H C}.

Record scodec (C : Type) := mkScodec {
  (* c.segmentCodec.EncodeSegment of {IsSelfContained, UncompressedData}, codec built with NewPayloadCompressor(C) *)
  sc_enc : C -> bool -> list Z -> result (list Z);
  (* c.segmentCodec.DecodeSegment: (Header.IsSelfContained, Payload.UncompressedData) and the unread input *)
  sc_dec : C -> list Z -> result ((bool * list Z) * list Z)
}.
Arguments sc_enc {C}. Arguments sc_dec {C}.

Inductive role := Client | Server.

(* what a read loop iteration ends with: carry on | the connection is aborted (abort = true) | the goroutine panics
   (the process dies) | the Go loop would not terminate / a modelling assumption of a decoder was violated *)
Inductive outcome := RxOk | RxAbort | RxPanic | RxStuck.

Section Machine.
  Context {F H C : Type}.
  Variable fc : fcodec F H C.
  Variable sc : scodec C.

  (* the framing state of one connection end: modernLayout, compression (hence frameCodec and segmentCodec),
     payloadAccumulator.targetLength and .accumulatedData *)
  Record conn := mkConn { c_modern : bool; c_comp : C; c_target : Z; c_acc : list Z }.

  Definition conn0 (c : C) : conn := mkConn false c 0 [].
  Definition set_modern (st : conn) (b : bool) : conn := mkConn b (c_comp st) (c_target st) (c_acc st).
  Definition set_comp (st : conn) (c : C) : conn := mkConn (c_modern st) c (c_target st) (c_acc st).
  Definition set_acc (st : conn) (t : Z) (a : list Z) : conn := mkConn (c_modern st) (c_comp st) t a.

  (* client.go maybeSwitchToModernLayout(incoming) / server.go maybeSwitchToModernLayout(outgoing) *)
  Definition maybe_switch (st : conn) (f : F) : conn :=
    if negb (c_modern st) && fc_switch fc f then set_modern st true else st.

  (* server.go readFrame: a STARTUP replaces compression, frameCodec and segmentCodec (in any layout) *)
  Definition adopt (st : conn) (f : F) : conn :=
    match fc_startup fc f with Some c => set_comp st c | None => st end.

  (* ---------------------------------------------------------------------------------------------- receive side *)
  (* readFrame(source): the new state, the frames handed over (processIncomingFrame), the outcome, the unread input.
     Client: switch first, then deliver; a fatal ERROR is delivered and then aborts the connection.
     Server: adopt the STARTUP compression, then deliver; never aborts after a successful decode. *)
  Definition read_frame (r : role) (st : conn) (src : list Z) : conn * list F * outcome * list Z :=
    match fc_dec fc (c_comp st) src with
    | DOk f rest =>
        match r with
        | Client => (maybe_switch st f, [f], if fc_fatal fc f then RxAbort else RxOk, rest)
        | Server => (adopt st f, [f], RxOk, rest)
        end
    | DErr => (st, [], RxAbort, [])
    | DPanic => (st, [], RxPanic, [])
    | DFuel => (st, [], RxStuck, [])
    end.

  (* readSelfContainedSegment (client.go and server.go, the same text):
         payloadReader := bytes.NewReader(incoming.Payload.UncompressedData)
         for payloadReader.Len() > 0 { if abort = c.readFrame(payloadReader); abort { break } }
     sc_more is the loop condition, literally: the loop goes on while ANY byte of the payload is unread.  It is NOT
     "while more than a header's worth is unread": an envelope that is a bare 9-byte header with an empty body (OPTIONS,
     READY) at the end of - or alone in - a self-contained segment is decoded like any other.
     fuel: every successful DecodeFrame consumes at least one byte of a well-formed payload; if a decoder returned
     without consuming, the Go loop would spin: RxStuck *)
  Definition sc_more (remaining : Z) : bool := 0 <? remaining.

  Fixpoint read_sc (fuel : nat) (r : role) (st : conn) (p : list Z) {struct fuel} : conn * list F * outcome :=
    if sc_more (zlen p) then
      match fuel with
      | O => (st, [], RxStuck)
      | S k =>
          match read_frame r st p with
          | (st1, fs, RxOk, rest) =>
              match read_sc k r st1 rest with (st2, fs2, o2) => (st2, fs ++ fs2, o2) end
          | (st1, fs, o, _) => (st1, fs, o)
          end
      end
    else (st, [], RxOk).

  (* addMultiSegmentPayload (as of /repo 46f0253).  Append the payload first.  If no target is known yet and at least
     FrameHeaderLengthV3AndHigher bytes have been accumulated, decode a frame header from the ACCUMULATED bytes (the
     header may itself be spread over several parts) and learn targetLength = int(9 + BodyLength); a header that does
     not decode aborts the connection (the accumulated bytes stay).  When targetLength != 0 and the accumulated length
     EQUALS it: reset, decode one frame from the accumulated bytes (bytes left over after that frame are dropped),
     deliver.  Otherwise keep accumulating: an accumulation that grows past the target is never delivered and never
     reset (the comparison is ==); a negative target likewise.  A zero-length part changes nothing at any point. *)
  Definition add_multi_go (r : role) (st : conn) (acc' : list Z) (tgt : Z) : conn * list F * outcome :=
    if negb (tgt =? 0) && (tgt =? zlen acc') then
      match read_frame r (set_acc st 0 []) acc' with (st1, fs, o, _) => (st1, fs, o) end
    else (set_acc st tgt acc', [], RxOk).

  Definition add_multi (r : role) (st : conn) (p : list Z) : conn * list F * outcome :=
    let acc' := c_acc st ++ p in
    if (c_target st =? 0) && (fc_hlen fc <=? zlen acc') then
      match fc_dec_hdr fc acc' with
      | DOk h _ => add_multi_go r st acc' (fc_target fc h)
      | DErr => (set_acc st 0 acc', [], RxAbort)
      | DPanic => (set_acc st 0 acc', [], RxPanic)
      | DFuel => (set_acc st 0 acc', [], RxStuck)
      end
    else add_multi_go r st acc' (c_target st).

  (* readSegment(source) *)
  Definition read_segment (r : role) (st : conn) (src : list Z) : conn * list F * outcome * list Z :=
    match sc_dec sc (c_comp st) src with
    | Err => (st, [], RxAbort, [])
    | Ok ((selfc, p), rest) =>
        match (if selfc then read_sc (S (length p)) r st p else add_multi r st p) with
        | (st1, fs, o) => (st1, fs, o, rest)
        end
    end.

  (* one iteration of incomingLoop on a non-empty input *)
  Definition rx_step (r : role) (st : conn) (src : list Z) : conn * list F * outcome * list Z :=
    if c_modern st then read_segment r st src else read_frame r st src.

  (* incomingLoop over everything the peer has written so far (waitForIncomingData blocks on an empty stream: the run
     ends with RxOk and the state reached).  fuel as in read_sc. *)
  Fixpoint rx_run (fuel : nat) (r : role) (st : conn) (src : list Z) : conn * list F * outcome :=
    match src with
    | [] => (st, [], RxOk)
    | _ :: _ =>
        match fuel with
        | O => (st, [], RxStuck)
        | S k =>
            match rx_step r st src with
            | (st1, fs, RxOk, rest) =>
                match rx_run k r st1 rest with (st2, fs2, o2) => (st2, fs ++ fs2, o2) end
            | (st1, fs, o, _) => (st1, fs, o)
            end
        end
    end.
  Definition rx_all (r : role) (st : conn) (src : list Z) : conn * list F * outcome :=
    rx_run (S (length src)) r st src.

  (* ---------------------------------------------------------------------------------------------- transmit side *)
  (* writeFrame(outgoing, dest): the server decides the layout switch here, before encoding, whatever the encoder
     returns.  Err = the connection is aborted. *)
  Definition write_frame (r : role) (st : conn) (f : F) : conn * result (list Z) :=
    let st1 := match r with Server => maybe_switch st f | Client => st end in
    (st1, fc_enc fc (c_comp st1) f).

  (* writeSegment: clear the envelope's compression flag, encode the envelope into a buffer, wrap the buffer in ONE
     self-contained segment.  EncodeSegment refuses payloads above MaxPayloadLength: an envelope of more than 131071
     bytes cannot be sent in modern layout; nothing splits large envelopes.  Err = nothing is written for this frame
     and abort = true: the outgoing loop of either end (`for !abort && !c.IsClosed()`; the server's as of /repo 36ef026)
     stops and the connection is closed - tx_all below stops at the first Err for both roles. *)
  Definition write_segment (r : role) (st : conn) (f : F) : conn * result (list Z) :=
    match write_frame r st (fc_clear fc f) with
    | (st1, Err) => (st1, Err)
    | (st1, Ok env) => (st1, sc_enc sc (c_comp st1) true env)
    end.

  (* the frame as outgoingLoop hands it to the writers: the server sets the compression flag on every response when
     a compression other than NONE was announced in STARTUP; the client sends the caller's flags *)
  Definition tx_pre (r : role) (st : conn) (f : F) : F :=
    match r with
    | Server => if fc_cnone fc (c_comp st) then f else fc_setc fc f
    | Client => f
    end.

  (* one iteration of outgoingLoop *)
  Definition tx_frame (r : role) (st : conn) (f : F) : conn * result (list Z) :=
    let f1 := tx_pre r st f in
    if c_modern st then write_segment r st f1 else write_frame r st f1.

  (* a sequence of frames written one after the other: the bytes on the wire *)
  Fixpoint tx_all (r : role) (st : conn) (fs : list F) : conn * result (list Z) :=
    match fs with
    | [] => (st, Ok [])
    | f :: fs' =>
        match tx_frame r st f with
        | (st1, Err) => (st1, Err)
        | (st1, Ok b) => match tx_all r st1 fs' with
                         | (st2, Err) => (st2, Err)
                         | (st2, Ok bs) => (st2, Ok (b ++ bs))
                         end
        end
    end.

  (* ---------------------------------------------------------------------------------------------- both ends *)
  (* lock-step exchange: one event = one frame written by one end and everything it wrote read by the other end *)
  Inductive ev := C2S (f : F) | S2C (f : F).
  Record ends := mkEnds { e_cl : conn; e_sv : conn }.

  Definition transmit (rs rr : role) (snd rcv : conn) (f : F) : conn * conn * list F * outcome :=
    match tx_frame rs snd f with
    | (snd1, Err) => (snd1, rcv, [], RxAbort)
    | (snd1, Ok bs) => match rx_all rr rcv bs with (rcv1, fs, o) => (snd1, rcv1, fs, o) end
    end.

  Definition joint_step (e : ends) (x : ev) : ends * list (bool * F) * outcome :=
    match x with
    | C2S f => match transmit Client Server (e_cl e) (e_sv e) f with
               | (cl1, sv1, fs, o) => (mkEnds cl1 sv1, map (fun g => (true, g)) fs, o)
               end
    | S2C f => match transmit Server Client (e_sv e) (e_cl e) f with
               | (sv1, cl1, fs, o) => (mkEnds cl1 sv1, map (fun g => (false, g)) fs, o)
               end
    end.

  (* delivered frames are tagged: true = delivered to the server, false = delivered to the client *)
  Fixpoint joint_run (e : ends) (xs : list ev) : ends * list (bool * F) * outcome :=
    match xs with
    | [] => (e, [], RxOk)
    | x :: xs' =>
        match joint_step e x with
        | (e1, d, RxOk) => match joint_run e1 xs' with (e2, d2, o2) => (e2, d ++ d2, o2) end
        | (e1, d, o) => (e1, d, o)
        end
    end.

  (* ---------------------------------------------------------------------------------------------- laws (predicates) *)
  (* the frame f, written by a codec with compression ce, is the byte string bs; a codec with compression cd reads nf
     from bs followed by anything and leaves the rest; the raw header decoder reads from the first fc_hlen bytes a
     header whose target length is the length of bs and whose compression bit is that of f; bs is not empty;
     normalisation keeps the class of the frame *)
  Definition frame_law (ce cd : C) (f : F) (bs : list Z) (nf : F) : Prop :=
    fc_enc fc ce f = Ok bs /\ bs <> [] /\
    (forall rest, fc_dec fc cd (bs ++ rest) = DOk nf rest) /\
    (exists hb body h, bs = hb ++ body /\ zlen hb = fc_hlen fc /\
       (forall rest, exists rest', fc_dec_hdr fc (hb ++ rest) = DOk h rest') /\
       fc_target fc h = zlen bs /\ fc_hcomp fc h = fc_compressed fc f) /\
    fc_switch fc nf = fc_switch fc f /\ fc_startup fc nf = fc_startup fc f /\ fc_fatal fc nf = fc_fatal fc f.

  Inductive enveloped (ce cd : C) : list F -> list (list Z) -> list F -> Prop :=
  | env_nil : enveloped ce cd [] [] []
  | env_cons f bs nf fs bss nfs :
      frame_law ce cd f bs nf -> enveloped ce cd fs bss nfs -> enveloped ce cd (f :: fs) (bs :: bss) (nf :: nfs).

  (* a segment with payload p and self-contained flag s is the byte string bs under compression c *)
  Definition seg_law (c : C) (s : bool) (p : list Z) (bs : list Z) : Prop :=
    sc_enc sc c s p = Ok bs /\ bs <> [] /\ forall rest, sc_dec sc c (bs ++ rest) = Ok ((s, p), rest).

  (* frames that do not touch the framing state of the receiving role *)
  Definition calm (r : role) (nf : F) : Prop :=
    match r with
    | Client => fc_fatal fc nf = false /\ fc_switch fc nf = false
    | Server => fc_startup fc nf = None
    end.

  (* ... of an end that is already in modern layout: maybeSwitchToModernLayout does nothing there, so a READY or an
     AUTHENTICATE (READY answers REGISTER; it is a bare header with an empty body) is an ordinary frame for a client *)
  Definition calm_modern (r : role) (nf : F) : Prop :=
    match r with
    | Client => fc_fatal fc nf = false
    | Server => fc_startup fc nf = None
    end.
End Machine.

Arguments conn : clear implicits.
Arguments mkConn {C}. Arguments c_modern {C}. Arguments c_comp {C}. Arguments c_target {C}. Arguments c_acc {C}.
Arguments ends : clear implicits.
Arguments ev : clear implicits.

(* ------------------------------------------------------------------------------------------------ segmentations *)
(* what a peer puts on the wire in modern layout (specs/native_protocol_v5.spec section 1): *)
Inductive wire_seg := WSelf (payload : list Z) | WPart (payload : list Z).
Definition ws_self (w : wire_seg) : bool := match w with WSelf _ => true | WPart _ => false end.
Definition ws_payload (w : wire_seg) : list Z := match w with WSelf p | WPart p => p end.

Definition part_ok (p : list Z) : Prop := zlen p <= max_payload.

(* [segmentation envs ss]: the envelopes envs, in order, are carried by the segments ss - every segmentation the
   specification allows:
   - a self-contained segment carries any number of WHOLE envelopes, total at most 131071 bytes;
   - one envelope (of any size) may be cut at ANY points - inside its 9-byte header as well - into any number of parts
     of at most 131071 bytes, each part the payload of a non-self-contained segment, in order; parts may be EMPTY (the
     segment format allows a zero-length payload), before, between and after the others;
   - in any mixture.  No bound on counts or sizes. *)
Inductive segmentation : list (list Z) -> list wire_seg -> Prop :=
| sg_nil : segmentation [] []
| sg_self es1 es2 ss :
    zlen (concat es1) <= max_payload -> segmentation es2 ss ->
    segmentation (es1 ++ es2) (WSelf (concat es1) :: ss)
| sg_multi e ps es ss :
    concat ps = e -> Forall part_ok ps -> segmentation es ss ->
    segmentation (e :: es) (map WPart ps ++ ss).

(* the bytes of a list of segments *)
Inductive seg_encoded {C} (sc : scodec C) (c : C) : list wire_seg -> list (list Z) -> Prop :=
| se_nil : seg_encoded sc c [] []
| se_cons w bs ws bss :
    seg_law sc c (ws_self w) (ws_payload w) bs -> seg_encoded sc c ws bss -> seg_encoded sc c (w :: ws) (bs :: bss).

(* executable counterpart used by examples and by the correspondence run *)
Fixpoint encode_wire {C} (sc : scodec C) (c : C) (ws : list wire_seg) : result (list Z) :=
  match ws with
  | [] => Ok []
  | w :: r => match sc_enc sc c (ws_self w) (ws_payload w), encode_wire sc c r with
              | Ok a, Ok b => Ok (a ++ b)
              | _, _ => Err
              end
  end.

(* ------------------------------------------------------------------------------------------------ instances *)
(* primitive.Compression as the code distinguishes it *)
Inductive compr := CNone | CLz4 | CSnappy | COther.
Definition compr_eqb (a b : compr) : bool :=
  match a, b with CNone, CNone | CLz4, CLz4 | CSnappy, CSnappy | COther, COther => true | _, _ => false end.
Definition bytes_NONE : list Z := [78;79;78;69].
Definition bytes_LZ4 : list Z := [76;90;52].
Definition bytes_SNAPPY : list Z := [83;78;65;80;80;89].
Definition compr_of_bytes (b : list Z) : compr :=
  if bytes_eqb b bytes_NONE then CNone else if bytes_eqb b bytes_LZ4 then CLz4
  else if bytes_eqb b bytes_SNAPPY then CSnappy else COther.

(* compression.go NewBodyCompressor / NewPayloadCompressor (Snappy is not a payload compressor) *)
Definition body_comp (lz4b snb : Frame.compressor) (c : compr) : option Frame.compressor :=
  match c with CNone => None | CLz4 => Some lz4b | CSnappy => Some snb | COther => None end.
Definition payload_comp (lz4p : Segment.compressor) (c : compr) : option Segment.compressor :=
  match c with CLz4 => Some lz4p | _ => None end.

Definition hdr_target (h : Header) : Z := wrap_i 32 (FrameHeaderLengthV3AndHigher + h_BodyLength h).
Definition hdr_compressed (h : Header) : bool := has (h_Flags h) HeaderFlagCompressed.
Definition hdr_set_flags (h : Header) (fl : Z) : Header :=
  {| h_IsResponse := h_IsResponse h; h_Version := h_Version h; h_Flags := fl; h_StreamId := h_StreamId h;
     h_OpCode := h_OpCode h; h_BodyLength := h_BodyLength h |}.
Definition hdr_switch (h : Header) : bool :=
  ProtocolVersion_SupportsModernFramingLayout (h_Version h) &&
  ((h_OpCode h =? OpCodeReady) || (h_OpCode h =? OpCodeAuthenticate)).

(* frames = header + opaque body.  The class of a frame is read off the opcode (the Go code looks at the type of the
   decoded message, which DecodeFrame chooses by the opcode); a STARTUP body is opaque here: the instance describes
   sessions without compression (fc_startup = Some CNone); no ERROR is fatal. *)
Definition raw_set_flags (rf : RawFrame) (fl : Z) : RawFrame :=
  {| rf_Header := hdr_set_flags (rf_Header rf) fl; rf_Body := rf_Body rf |}.
Definition raw_fc : fcodec RawFrame Header compr :=
  {| fc_enc := fun _ rf => encode_raw_frame rf;
     fc_dec := fun _ => decode_raw_frame;
     fc_dec_hdr := decode_header;
     fc_target := hdr_target;
     fc_hlen := FrameHeaderLengthV3AndHigher;
     fc_hcomp := hdr_compressed;
     fc_compressed := fun rf => hdr_compressed (rf_Header rf);
     fc_clear := fun rf => raw_set_flags rf (HeaderFlag_Remove (h_Flags (rf_Header rf)) HeaderFlagCompressed);
     fc_setc := fun rf => raw_set_flags rf (HeaderFlag_Add (h_Flags (rf_Header rf)) HeaderFlagCompressed);
     fc_switch := fun rf => hdr_switch (rf_Header rf);
     fc_startup := fun rf => if h_OpCode (rf_Header rf) =? OpCodeStartup then Some CNone else None;
     fc_fatal := fun _ => false;
     fc_cnone := fun c => compr_eqb c CNone |}.

(* frames of model/Frame.v over the message codec mc and the two body compressors *)
Definition msg_switch (v : Z) (m : Message) : bool :=
  ProtocolVersion_SupportsModernFramingLayout v &&
  match m with M_Ready | M_Authenticate _ => true | _ => false end.
(* server.go readFrame (as of /repo 81d0138):  c.compression = primitive.Compression(strings.ToUpper(string(startup.GetCompression())))
   go_upper = strings.ToUpper as far as it can produce one of the names "NONE" / "LZ4" / "SNAPPY": ASCII letters, and U+017F (LATIN
   SMALL LETTER LONG S, UTF-8 C5 BF), the one non-ASCII rune whose upper case is an ASCII letter of those names (U+0131 -> I is of no
   consequence); every other non-ASCII rune stays non-ASCII, invalid UTF-8 becomes U+FFFD: COther either way. *)
Fixpoint go_upper (b : list Z) : list Z :=
  match b with
  | [] => []
  | 197 :: 191 :: r => 83 :: go_upper r
  | x :: r => (if (97 <=? x) && (x <=? 122) then x - 32 else x) :: go_upper r
  end.
Definition compr_of_option (b : list Z) : compr := compr_of_bytes (go_upper b).
Definition compr_code (c : compr) : Z := match c with CNone => 0 | CLz4 => 1 | CSnappy => 2 | COther => 3 end.
Definition msg_startup (m : Message) : option compr :=
  match m with M_Startup s => Some (compr_of_option (startup_get_compression (st_Options s))) | _ => None end.
Definition frame_fc (mc : msg_codec) (lz4b snb : Frame.compressor) (fatal : Message -> bool) : fcodec Frame Header compr :=
  {| fc_enc := fun c f => encode_frame mc (body_comp lz4b snb c) f;
     fc_dec := fun c => decode_frame mc (body_comp lz4b snb c);
     fc_dec_hdr := decode_header;
     fc_target := hdr_target;
     fc_hlen := FrameHeaderLengthV3AndHigher;
     fc_hcomp := hdr_compressed;
     fc_compressed := fun f => hdr_compressed (f_Header f);
     fc_clear := fun f => set_flags f (HeaderFlag_Remove (h_Flags (f_Header f)) HeaderFlagCompressed);
     fc_setc := fun f => set_flags f (HeaderFlag_Add (h_Flags (f_Header f)) HeaderFlagCompressed);
     fc_switch := fun f => msg_switch (h_Version (f_Header f)) (bd_Message (f_Body f));
     fc_startup := fun f => msg_startup (bd_Message (f_Body f));
     fc_fatal := fun f => fatal (bd_Message (f_Body f));
     fc_cnone := fun c => compr_eqb c CNone |}.

(* segments of model/Segment.v *)
Definition seg_sc (lz4p : Segment.compressor) : scodec compr :=
  {| sc_enc := fun c s p => encode_segment (payload_comp lz4p c) s p;
     sc_dec := fun c bs => match decode_segment (payload_comp lz4p c) bs with
                           | Ok (sg, rest) => Ok ((is_self_contained (seg_header sg), seg_data sg), rest)
                           | Err => Err
                           end |}.

(* a payload compressor that never pays off (its output is one byte longer): EncodeSegment then transmits the payload
   as it is, in the compressed header format; used to evaluate LZ4 sessions whose payloads are incompressible *)
Definition never_worth : Segment.compressor := mkCompressor (fun p => Ok (p ++ [0])) (fun _ => Err).
(* ... and a body compressor for the raw instance (never used: raw frames carry their body as it is) *)
Definition no_body_comp : Frame.compressor := {| cmp_compress := fun _ => Err; cmp_decompress := fun _ => Err |}.

(* ------------------------------------------------------------------------------------------------ script terms *)
(* the correspondence run describes a session by envelopes (stream id, opcode, response?, body) and a segmentation *)
Definition raw_envelope (version : Z) (resp : bool) (flags sid op : Z) (body : list Z) : RawFrame :=
  {| rf_Header := {| h_IsResponse := resp; h_Version := version; h_Flags := flags; h_StreamId := sid; h_OpCode := op;
                     h_BodyLength := zlen body |};
     rf_Body := Some body |}.

(* body filler shared with the harness: byte i = (seed + 7 * i) mod 251 *)
Fixpoint filler_from (n : nat) (x : Z) : list Z :=
  match n with O => [] | S k => x :: filler_from k ((x + 7) mod 251) end.
Definition filler (seed : Z) (n : Z) : list Z := filler_from (Z.to_nat n) (seed mod 251).

(* cut a byte string at the given part lengths (the last part takes what is left) *)
Fixpoint cut (bs : list Z) (lens : list Z) : list (list Z) :=
  match lens with
  | [] => [bs]
  | n :: r => firstn (Z.to_nat n) bs :: cut (skipn (Z.to_nat n) bs) r
  end.

(* a segmentation script: groups of envelope indices in self-contained segments, or one envelope cut into parts *)
Inductive sscript := SGroup (count : nat) | SSplit (lens : list Z).
Fixpoint apply_script (envs : list (list Z)) (s : list sscript) : list wire_seg :=
  match s with
  | [] => []
  | SGroup n :: r => WSelf (concat (firstn n envs)) :: apply_script (skipn n envs) r
  | SSplit lens :: r =>
      match envs with
      | [] => []
      | e :: es => map WPart (cut e lens) ++ apply_script es r
      end
  end.

(* what the correspondence compares: ids and lengths of the delivered frames, outcome class, accumulator state *)
Definition outcome_code (o : outcome) : Z := match o with RxOk => 0 | RxAbort => 1 | RxPanic => 2 | RxStuck => 3 end.
Definition raw_obs (d : list RawFrame) : list (Z * Z * Z) :=
  map (fun rf => (h_StreamId (rf_Header rf), h_OpCode (rf_Header rf), zlen (olist (rf_Body rf)))) d.

(* ------------------------------------------------------------------------------------------------ correspondence run
   (tools/props/C15.py emits the sessions of the harness as terms over these definitions) *)
(* incompressible filler shared with the harness: x' = (x * 1103515245 + 12345) mod 2^31, byte = (x' / 2^16) mod 256 *)
Fixpoint lcg_from (n : nat) (x : Z) : list Z :=
  match n with
  | O => []
  | S k => let x' := (x * 1103515245 + 12345) mod 2147483648 in ((x' / 65536) mod 256) :: lcg_from k x'
  end.
Definition lcg_filler (seed n : Z) : list Z := lcg_from (Z.to_nat n) (seed mod 2147483648).

Definition slice (bs : list Z) (a b : Z) : list Z := firstn (Z.to_nat (b - a)) (skipn (Z.to_nat a) bs).
(* a segment described by the harness: self-contained?, payload = concatenation of slices (envelope index, from, to) *)
Definition seg_of_desc (envs : list (list Z)) (d : bool * list (nat * Z * Z)) : wire_seg :=
  let p := concat (map (fun x => match x with (i, a, b) => slice (nth i envs []) a b end) (snd d)) in
  if fst d then WSelf p else WPart p.

(* the last four bytes, little endian: the CRC-32 trailer of an encoded segment *)
Definition trailer (bs : list Z) : Z := le_val (skipn (length bs - 4) bs).

(* receive side: envelopes and segmentation chosen by the raw peer; observables: per segment (self-contained, payload
   length, CRC-32 of the payload), delivered (stream id, opcode, body length), outcome, accumulator at the end *)
Definition corr_rx (r : role) (c : compr) (envs : list RawFrame) (descs : list (bool * list (nat * Z * Z))) :
  list (bool * Z * Z) * list (Z * Z * Z) * Z * Z * Z :=
  let sc := seg_sc never_worth in
  let ebs := map (fun e => match encode_raw_frame e with Ok b => b | Err => [] end) envs in
  let ws := map (seg_of_desc ebs) descs in
  let encs := map (fun w => match sc_enc sc c (ws_self w) (ws_payload w) with Ok b => b | Err => [] end) ws in
  let payloads := map (fun p => (ws_self (fst p), zlen (ws_payload (fst p)), trailer (snd p))) (combine ws encs) in
  match rx_all raw_fc sc r (mkConn true c 0 []) (concat encs) with
  | (st, d, o) => (payloads, raw_obs d, outcome_code o, c_target st, zlen (c_acc st))
  end.

(* transmit side in modern layout: per frame the length of the segment written and its CRC-32 trailer ((-1, 0): refused) *)
Definition corr_tx (r : role) (c : compr) (frames : list RawFrame) : list (Z * Z) :=
  let sc := seg_sc never_worth in
  map (fun f => match tx_frame raw_fc sc r (mkConn true c 0 []) f with
                | (_, Ok b) => (zlen b, trailer b)
                | (_, Err) => (-1, 0)
                end) frames.
