(* Executable support for the C13 correspondence run (definitions only): decidable equality on goval / results,
   and an oracle instance made of finite lookup tables filled with what the real standard library answered
   (the harness prints those answers next to the cases). *)
From Coq Require Import ZArith List String Bool.
From GCNP Require Import base.GoInt base.GoNum.
Import ListNotations.
Open Scope Z_scope.

Definition oz_eqb (a b : option Z) : bool :=
  match a, b with Some x, Some y => Z.eqb x y | None, None => true | _, _ => false end.
Definition zz_eqb (a b : Z * Z) : bool := Z.eqb (fst a) (fst b) && Z.eqb (snd a) (snd b).
Definition ozz_eqb (a b : option (Z * Z)) : bool :=
  match a, b with Some x, Some y => zz_eqb x y | None, None => true | _, _ => false end.
Definition os_eqb (a b : option string) : bool :=
  match a, b with Some x, Some y => String.eqb x y | None, None => true | _, _ => false end.

Definition goval_eqb (a b : goval) : bool :=
  match a, b with
  | G_int x, G_int y => Z.eqb x y
  | G_int64 x, G_int64 y => Z.eqb x y
  | G_int32 x, G_int32 y => Z.eqb x y
  | G_int16 x, G_int16 y => Z.eqb x y
  | G_int8 x, G_int8 y => Z.eqb x y
  | G_uint x, G_uint y => Z.eqb x y
  | G_uint64 x, G_uint64 y => Z.eqb x y
  | G_uint32 x, G_uint32 y => Z.eqb x y
  | G_uint16 x, G_uint16 y => Z.eqb x y
  | G_uint8 x, G_uint8 y => Z.eqb x y
  | G_float32 x, G_float32 y => Z.eqb x y
  | G_float64 x, G_float64 y => Z.eqb x y
  | G_bigint x, G_bigint y => Z.eqb x y
  | G_duration x, G_duration y => Z.eqb x y
  | G_pint x, G_pint y => oz_eqb x y
  | G_pint64 x, G_pint64 y => oz_eqb x y
  | G_pint32 x, G_pint32 y => oz_eqb x y
  | G_pint16 x, G_pint16 y => oz_eqb x y
  | G_pint8 x, G_pint8 y => oz_eqb x y
  | G_puint x, G_puint y => oz_eqb x y
  | G_puint64 x, G_puint64 y => oz_eqb x y
  | G_puint32 x, G_puint32 y => oz_eqb x y
  | G_puint16 x, G_puint16 y => oz_eqb x y
  | G_puint8 x, G_puint8 y => oz_eqb x y
  | G_pfloat32 x, G_pfloat32 y => oz_eqb x y
  | G_pfloat64 x, G_pfloat64 y => oz_eqb x y
  | G_pbigint x, G_pbigint y => oz_eqb x y
  | G_pduration x, G_pduration y => oz_eqb x y
  | G_string x, G_string y => String.eqb x y
  | G_pstring x, G_pstring y => os_eqb x y
  | G_bigfloat x, G_bigfloat y => zz_eqb x y
  | G_pbigfloat x, G_pbigfloat y => ozz_eqb x y
  | G_time x, G_time y => zz_eqb x y
  | G_ptime x, G_ptime y => ozz_eqb x y
  | G_nil, G_nil => true
  | G_other, G_other => true
  | _, _ => false
  end.

Definition opt_eqb {A} (e : A -> A -> bool) (a b : option A) : bool :=
  match a, b with Some x, Some y => e x y | None, None => true | _, _ => false end.
Definition res_opt {A} (r : result A) : option A := match r with Ok v => Some v | Err => None end.
Definition zb_eqb (a b : Z * bool) : bool := Z.eqb (fst a) (fst b) && Bool.eqb (snd a) (snd b).
Definition ozb_eqb (a b : option Z * bool) : bool := oz_eqb (fst a) (fst b) && Bool.eqb (snd a) (snd b).
Fixpoint zl_eqb (a b : list Z) : bool :=
  match a, b with [], [] => true | x :: a', y :: b' => Z.eqb x y && zl_eqb a' b' | _, _ => false end.

(* indices of the false entries *)
Fixpoint false_idx (n : Z) (l : list bool) : list Z :=
  match l with [] => [] | b :: r => if b then false_idx (n + 1) r else n :: false_idx (n + 1) r end.

(* finite lookup tables *)
Fixpoint look {K V} (e : K -> K -> bool) (k : K) (t : list (K * V)) : option V :=
  match t with [] => None | (k', v) :: r => if e k k' then Some v else look e k r end.
Definition sz_eqb (a b : string * Z) : bool := String.eqb (fst a) (fst b) && Z.eqb (snd a) (snd b).

Record oracle_tables := {
  t_ParseInt : list ((string * Z) * option Z);
  t_FormatInt : list (Z * string);
  t_BigSetString : list (string * (Z * bool));
  t_BigText : list (Z * string);
  t_f64_to_f32 : list (Z * Z);
  t_f32_to_f64 : list (Z * Z);
  t_f64_eqb : list ((Z * Z) * bool);
  t_f64_isnan : list (Z * bool);
  t_BigFloat_Float64 : list ((Z * Z) * (Z * Z));
  t_BigFloat_SetFloat64 : list ((Z * Z) * ((Z * Z) * Z))   (* (precision of the destination, float64 bits) -> (value stored, Acc()) *)
}.

(* an unanswered question yields a value no real answer has, so that the case is reported as a mismatch *)
Definition table_oracles (T : oracle_tables) : oracles := {|
  o_ParseInt := fun s base bits => match look sz_eqb (s, bits) (t_ParseInt T) with Some (Some v) => if Z.eqb base 10 then Ok v else Err | _ => Err end;
  o_FormatInt := fun v base => match look Z.eqb v (t_FormatInt T) with Some s => s | None => "?"%string end;
  o_BigSetString := fun s base => match look String.eqb s (t_BigSetString T) with Some r => r | None => (0, false) end;
  o_BigText := fun v base => match look Z.eqb v (t_BigText T) with Some s => s | None => "?"%string end;
  o_f64_to_f32 := fun x => match look Z.eqb x (t_f64_to_f32 T) with Some y => y | None => -1 end;
  o_f32_to_f64 := fun x => match look Z.eqb x (t_f32_to_f64 T) with Some y => y | None => -1 end;
  o_f64_eqb := fun x y => match look zz_eqb (x, y) (t_f64_eqb T) with Some b => b | None => Z.eqb x y end;
  o_f64_isnan := fun x => match look Z.eqb x (t_f64_isnan T) with Some b => b | None => false end;
  o_BigFloat_Float64 := fun f => match look zz_eqb f (t_BigFloat_Float64 T) with Some r => r | None => (-1, -7) end;
  o_BigFloat_SetFloat64 := fun p x => match look zz_eqb (p, x) (t_BigFloat_SetFloat64 T) with Some r => r | None => ((-7, -7), -7) end;
  o_TimeParse := fun _ _ => Err;
  o_TimeFormat := fun _ _ => "?"%string
|}.
