(* The simple messages of model/MsgRequests.v: STARTUP, OPTIONS, READY, AUTHENTICATE, SUPPORTED, AUTH_CHALLENGE,
   AUTH_SUCCESS, AUTH_RESPONSE, PREPARE, REGISTER, REVISE_REQUEST.  For each: round trip (arbitrary suffix),
   declared length, totality of the decoder on all inputs, closure of the normal form, a non-vacuity Example. *)
From Coq Require Import ZArith List Bool Lia.
From Coq Require Import ZifyBool ZifyNat.
From GCNP Require Import base.GoInt base.Bytes base.Codec base.StrBytes gen.Constants_gen model.Prim model.DataType
  model.MsgTypes model.MsgRequests proofs.PrimProofs proofs.PrimTotal proofs.MsgRequestsLib.
From Coq Require String.
Import String.StringSyntax.
Import ListNotations.
Open Scope Z_scope.
Local Notation B s := (bytes_of_string s) (only parsing).
Ltac Zify.zify_post_hook ::= Z.div_mod_to_equations.

(* the three facts about a message, from which the standard theorems follow (MsgRequestsLib.Standard) *)
Definition facts {T} (enc : W) (len : L) (dec : R T) (b : bytes) (m' : T) : Prop :=
  enc = Ok b /\ (forall rest, dec (b ++ rest) = DOk m' rest) /\ len = Ok (zlen b).
Lemma facts_roundtrip {T} enc len (dec : R T) b m' : facts enc len dec b m' ->
  exists b, enc = Ok b /\ forall rest, dec (b ++ rest) = DOk m' rest.
Proof. intros (H1 & H2 & _). exact (std_roundtrip enc dec b m' H1 H2). Qed.
Lemma facts_length {T} enc len (dec : R T) b m' : facts enc len dec b m' -> forall b', enc = Ok b' -> len = Ok (zlen b').
Proof. intros (H1 & _ & H3). exact (std_length enc len b H1 H3). Qed.

(* ================= STARTUP ================= *)
Definition bytes_Startup (m : Startup) : bytes := enc_string_map (st_Options m).
Lemma Startup_facts v m : Startup_okb v m = true ->
  facts (enc_Startup v m) (len_Startup v m) (dec_Startup v) (bytes_Startup m) (norm_Startup v m).
Proof.
  unfold Startup_okb. intro H. bsplit H.
  assert (Hn : zlen (st_Options m) <= 65535) by lia.
  assert (Hs : string_map_small (st_Options m)).
  { eapply forallb_Forall; [|eassumption]. intros [k x] Hkx. cbn [fst snd] in *. apply andb_prop in Hkx. destruct Hkx.
    split; [apply str_okb_le; assumption|unfold ok_str; apply str_okb_le; assumption]. }
  unfold facts, bytes_Startup, enc_Startup, len_Startup, dec_Startup, norm_Startup. repeat split.
  - apply write_string_map_ok; assumption.
  - intro rest. unfold rmap. unfold bind. rewrite read_string_map_app by assumption. unfold ret.
    rewrite dedup_last_nodup by assumption. destruct m; reflexivity.
  - rewrite enc_string_map_len. reflexivity.
Qed.
Theorem Startup_roundtrip v m : Startup_okb v m = true ->
  exists b, enc_Startup v m = Ok b /\ forall rest, dec_Startup v (b ++ rest) = DOk (norm_Startup v m) rest.
Proof. intro H. exact (facts_roundtrip _ _ _ _ _ (Startup_facts v m H)). Qed.
Theorem Startup_length v m b : Startup_okb v m = true -> enc_Startup v m = Ok b -> len_Startup v m = Ok (zlen b).
Proof. intro H. exact (facts_length _ _ _ _ _ (Startup_facts v m H) b). Qed.
Theorem Startup_total v bs : dec_Startup v bs <> DPanic /\ dec_Startup v bs <> DFuel.
Proof. apply total_at. unfold dec_Startup. total_tac. Qed.
Theorem norm_Startup_ok v m : Startup_okb v m = true ->
  Startup_okb v (norm_Startup v m) = true /\ norm_Startup v (norm_Startup v m) = norm_Startup v m.
Proof. intro H. split; [exact H|reflexivity]. Qed.
Example Startup_example :
  Startup_okb 4 {| st_Options := [(B "CQL_VERSION", B "3.0.0"); (B "COMPRESSION", B "lz4")] |} = true.
Proof. vm_compute. reflexivity. Qed.

(* ================= OPTIONS, READY ================= *)
Theorem Options_roundtrip v : exists b, enc_Options v = Ok b /\ forall rest, dec_Options v (b ++ rest) = DOk tt rest.
Proof. exists []. split; reflexivity. Qed.
Theorem Options_length v b : enc_Options v = Ok b -> len_Options v = Ok (zlen b).
Proof. unfold enc_Options. intro E. assert (b = []) as -> by congruence. reflexivity. Qed.
Theorem Options_total v bs : dec_Options v bs <> DPanic /\ dec_Options v bs <> DFuel.
Proof. apply total_at. unfold dec_Options. total_tac. Qed.
Theorem Ready_roundtrip v : exists b, enc_Ready v = Ok b /\ forall rest, dec_Ready v (b ++ rest) = DOk tt rest.
Proof. exists []. split; reflexivity. Qed.
Theorem Ready_length v b : enc_Ready v = Ok b -> len_Ready v = Ok (zlen b).
Proof. unfold enc_Ready. intro E. assert (b = []) as -> by congruence. reflexivity. Qed.
Theorem Ready_total v bs : dec_Ready v bs <> DPanic /\ dec_Ready v bs <> DFuel.
Proof. apply total_at. unfold dec_Ready. total_tac. Qed.

(* ================= AUTHENTICATE ================= *)
Definition bytes_Authenticate (m : Authenticate) : bytes := enc_string (au_Authenticator m).
Lemma Authenticate_facts v m : Authenticate_okb v m = true ->
  facts (enc_Authenticate v m) (len_Authenticate v m) (dec_Authenticate v) (bytes_Authenticate m) (norm_Authenticate v m).
Proof.
  unfold Authenticate_okb. intro H. bsplit H. pose proof (str_okb_le _ H0).
  unfold facts, bytes_Authenticate, enc_Authenticate, len_Authenticate, dec_Authenticate, norm_Authenticate. repeat split.
  - rewrite H. apply write_string_ok. assumption.
  - intro rest. unfold bind. rewrite read_string_app by assumption. destruct m; reflexivity.
  - rewrite enc_string_len. reflexivity.
Qed.
Theorem Authenticate_roundtrip v m : Authenticate_okb v m = true ->
  exists b, enc_Authenticate v m = Ok b /\ forall rest, dec_Authenticate v (b ++ rest) = DOk (norm_Authenticate v m) rest.
Proof. intro H. exact (facts_roundtrip _ _ _ _ _ (Authenticate_facts v m H)). Qed.
Theorem Authenticate_length v m b : Authenticate_okb v m = true -> enc_Authenticate v m = Ok b -> len_Authenticate v m = Ok (zlen b).
Proof. intro H. exact (facts_length _ _ _ _ _ (Authenticate_facts v m H) b). Qed.
Theorem Authenticate_total v bs : dec_Authenticate v bs <> DPanic /\ dec_Authenticate v bs <> DFuel.
Proof. apply total_at. unfold dec_Authenticate. total_tac. Qed.
Theorem norm_Authenticate_ok v m : Authenticate_okb v m = true ->
  Authenticate_okb v (norm_Authenticate v m) = true /\ norm_Authenticate v (norm_Authenticate v m) = norm_Authenticate v m.
Proof. intro H. split; [exact H|reflexivity]. Qed.
Example Authenticate_example :
  Authenticate_okb 4 {| au_Authenticator := B "org.apache.cassandra.auth.PasswordAuthenticator" |} = true.
Proof. vm_compute. reflexivity. Qed.

(* ================= SUPPORTED ================= *)
Definition bytes_Supported (m : Supported) : bytes := enc_string_multimap (su_Options m).
Lemma Supported_facts v m : Supported_okb v m = true ->
  facts (enc_Supported v m) (len_Supported v m) (dec_Supported v) (bytes_Supported m) (norm_Supported v m).
Proof.
  unfold Supported_okb. intro H. bsplit H.
  assert (Hn : zlen (su_Options m) <= 65535) by lia.
  assert (Hs : string_multimap_small (su_Options m)).
  { eapply forallb_Forall; [|eassumption]. intros [k x] Hkx. cbn [fst snd] in *. bsplit Hkx.
    split; [apply str_okb_le; assumption|]. split; [lia|]. eapply forallb_Forall; [|eassumption]. apply str_okb_le. }
  unfold facts, bytes_Supported, enc_Supported, len_Supported, dec_Supported, norm_Supported. repeat split.
  - apply write_string_multimap_ok; assumption.
  - intro rest. unfold rmap. unfold bind. rewrite read_string_multimap_app by assumption. unfold ret.
    rewrite dedup_last_nodup by assumption. destruct m; reflexivity.
  - rewrite enc_string_multimap_len. reflexivity.
Qed.
Theorem Supported_roundtrip v m : Supported_okb v m = true ->
  exists b, enc_Supported v m = Ok b /\ forall rest, dec_Supported v (b ++ rest) = DOk (norm_Supported v m) rest.
Proof. intro H. exact (facts_roundtrip _ _ _ _ _ (Supported_facts v m H)). Qed.
Theorem Supported_length v m b : Supported_okb v m = true -> enc_Supported v m = Ok b -> len_Supported v m = Ok (zlen b).
Proof. intro H. exact (facts_length _ _ _ _ _ (Supported_facts v m H) b). Qed.
Theorem Supported_total v bs : dec_Supported v bs <> DPanic /\ dec_Supported v bs <> DFuel.
Proof. apply total_at. unfold dec_Supported. total_tac. Qed.
Theorem norm_Supported_ok v m : Supported_okb v m = true ->
  Supported_okb v (norm_Supported v m) = true /\ norm_Supported v (norm_Supported v m) = norm_Supported v m.
Proof. intro H. split; [exact H|reflexivity]. Qed.
Example Supported_example :
  Supported_okb 4 {| su_Options := [(B "CQL_VERSION", [B "3.4.5"]);
                                    (B "COMPRESSION", [B "snappy"; B "lz4"]);
                                    (B "EMPTY", [])] |} = true.
Proof. vm_compute. reflexivity. Qed.

(* ================= AUTH_CHALLENGE / AUTH_SUCCESS / AUTH_RESPONSE ================= *)
Lemma token_facts {T} (mk : option bytes -> T) (tok : option bytes) :
  lstr_okb (olist tok) = true ->
  facts (write_bytes tok) (Ok (len_bytes tok)) (t <- read_bytes ;; ret (mk t)) (enc_bytes tok) (mk tok).
Proof.
  intro H. apply lstr_okb_le in H. unfold facts. repeat split.
  - apply write_bytes_ok. exact H.
  - intro rest. unfold bind. rewrite read_bytes_app by exact H. reflexivity.
  - rewrite enc_bytes_len. reflexivity.
Qed.

Definition bytes_AuthChallenge (m : AuthChallenge) : bytes := enc_bytes (ac_Token m).
Lemma AuthChallenge_facts v m : AuthChallenge_okb v m = true ->
  facts (enc_AuthChallenge v m) (len_AuthChallenge v m) (dec_AuthChallenge v) (bytes_AuthChallenge m) (norm_AuthChallenge v m).
Proof. intro H. destruct m as [t]. exact (token_facts (fun t => {| ac_Token := t |}) t H). Qed.
Theorem AuthChallenge_roundtrip v m : AuthChallenge_okb v m = true ->
  exists b, enc_AuthChallenge v m = Ok b /\ forall rest, dec_AuthChallenge v (b ++ rest) = DOk (norm_AuthChallenge v m) rest.
Proof. intro H. exact (facts_roundtrip _ _ _ _ _ (AuthChallenge_facts v m H)). Qed.
Theorem AuthChallenge_length v m b : AuthChallenge_okb v m = true -> enc_AuthChallenge v m = Ok b -> len_AuthChallenge v m = Ok (zlen b).
Proof. intro H. exact (facts_length _ _ _ _ _ (AuthChallenge_facts v m H) b). Qed.
Theorem AuthChallenge_total v bs : dec_AuthChallenge v bs <> DPanic /\ dec_AuthChallenge v bs <> DFuel.
Proof. apply total_at. unfold dec_AuthChallenge. total_tac. Qed.
Theorem norm_AuthChallenge_ok v m : AuthChallenge_okb v m = true ->
  AuthChallenge_okb v (norm_AuthChallenge v m) = true /\ norm_AuthChallenge v (norm_AuthChallenge v m) = norm_AuthChallenge v m.
Proof. intro H. split; [exact H|reflexivity]. Qed.
Example AuthChallenge_example : AuthChallenge_okb 4 {| ac_Token := Some [1; 2; 3; 255] |} = true /\ AuthChallenge_okb 4 {| ac_Token := None |} = true.
Proof. vm_compute. split; reflexivity. Qed.

Definition bytes_AuthSuccess (m : AuthSuccess) : bytes := enc_bytes (as_Token m).
Lemma AuthSuccess_facts v m : AuthSuccess_okb v m = true ->
  facts (enc_AuthSuccess v m) (len_AuthSuccess v m) (dec_AuthSuccess v) (bytes_AuthSuccess m) (norm_AuthSuccess v m).
Proof. intro H. destruct m as [t]. exact (token_facts (fun t => {| as_Token := t |}) t H). Qed.
Theorem AuthSuccess_roundtrip v m : AuthSuccess_okb v m = true ->
  exists b, enc_AuthSuccess v m = Ok b /\ forall rest, dec_AuthSuccess v (b ++ rest) = DOk (norm_AuthSuccess v m) rest.
Proof. intro H. exact (facts_roundtrip _ _ _ _ _ (AuthSuccess_facts v m H)). Qed.
Theorem AuthSuccess_length v m b : AuthSuccess_okb v m = true -> enc_AuthSuccess v m = Ok b -> len_AuthSuccess v m = Ok (zlen b).
Proof. intro H. exact (facts_length _ _ _ _ _ (AuthSuccess_facts v m H) b). Qed.
Theorem AuthSuccess_total v bs : dec_AuthSuccess v bs <> DPanic /\ dec_AuthSuccess v bs <> DFuel.
Proof. apply total_at. unfold dec_AuthSuccess. total_tac. Qed.
Theorem norm_AuthSuccess_ok v m : AuthSuccess_okb v m = true ->
  AuthSuccess_okb v (norm_AuthSuccess v m) = true /\ norm_AuthSuccess v (norm_AuthSuccess v m) = norm_AuthSuccess v m.
Proof. intro H. split; [exact H|reflexivity]. Qed.
Example AuthSuccess_example : AuthSuccess_okb 4 {| as_Token := Some [] |} = true /\ AuthSuccess_okb 4 {| as_Token := Some [7] |} = true.
Proof. vm_compute. split; reflexivity. Qed.

Definition bytes_AuthResponse (m : AuthResponse) : bytes := enc_bytes (ar_Token m).
Lemma AuthResponse_facts v m : AuthResponse_okb v m = true ->
  facts (enc_AuthResponse v m) (len_AuthResponse v m) (dec_AuthResponse v) (bytes_AuthResponse m) (norm_AuthResponse v m).
Proof. intro H. destruct m as [t]. exact (token_facts (fun t => {| ar_Token := t |}) t H). Qed.
Theorem AuthResponse_roundtrip v m : AuthResponse_okb v m = true ->
  exists b, enc_AuthResponse v m = Ok b /\ forall rest, dec_AuthResponse v (b ++ rest) = DOk (norm_AuthResponse v m) rest.
Proof. intro H. exact (facts_roundtrip _ _ _ _ _ (AuthResponse_facts v m H)). Qed.
Theorem AuthResponse_length v m b : AuthResponse_okb v m = true -> enc_AuthResponse v m = Ok b -> len_AuthResponse v m = Ok (zlen b).
Proof. intro H. exact (facts_length _ _ _ _ _ (AuthResponse_facts v m H) b). Qed.
Theorem AuthResponse_total v bs : dec_AuthResponse v bs <> DPanic /\ dec_AuthResponse v bs <> DFuel.
Proof. apply total_at. unfold dec_AuthResponse. total_tac. Qed.
Theorem norm_AuthResponse_ok v m : AuthResponse_okb v m = true ->
  AuthResponse_okb v (norm_AuthResponse v m) = true /\ norm_AuthResponse v (norm_AuthResponse v m) = norm_AuthResponse v m.
Proof. intro H. split; [exact H|reflexivity]. Qed.
Example AuthResponse_example : AuthResponse_okb 4 {| ar_Token := Some [0; 99; 97; 115; 0; 112; 119] |} = true.
Proof. vm_compute. reflexivity. Qed.

(* ================= PREPARE ================= *)
Lemma Prepare_Flags_eq m : Prepare_Flags m = if nonempty (p_Keyspace m) then 1 else 0.
Proof. unfold Prepare_Flags. destruct (nonempty (p_Keyspace m)); reflexivity. Qed.
Definition bytes_Prepare (v : Z) (m : Prepare) : bytes :=
  enc_long_string (p_Query m) ++
  (if ProtocolVersion_SupportsPrepareFlags v then
     be_bytes 4 (wrap_i 32 (Prepare_Flags m)) ++ (if nonempty (p_Keyspace m) then enc_string (p_Keyspace m) else [])
   else []).
Lemma Prepare_facts v m : Prepare_okb v m = true ->
  facts (enc_Prepare v m) (len_Prepare v m) (dec_Prepare v) (bytes_Prepare v m) (norm_Prepare v m).
Proof.
  unfold Prepare_okb. intro H. bsplit H.
  pose proof (lstr_okb_le _ H2) as Hq. pose proof (str_okb_le _ H1) as Hk.
  unfold facts, bytes_Prepare, enc_Prepare, len_Prepare, dec_Prepare, norm_Prepare. rewrite Prepare_Flags_eq.
  destruct m as [q ks]. cbn [p_Query p_Keyspace] in *. repeat split.
  - rewrite H. rewrite write_long_string_ok by exact Hq.
    destruct (ProtocolVersion_SupportsPrepareFlags v); [|cbn [wapp]; rewrite app_nil_r; reflexivity].
    destruct (nonempty ks) eqn:Ek.
    + change (PrepareFlag_Contains 1 PrepareFlagWithKeyspace) with true. cbv iota. rewrite write_string_ok by exact Hk. reflexivity.
    + change (PrepareFlag_Contains 0 PrepareFlagWithKeyspace) with false. reflexivity.
  - intro rest. rewrite <- app_assoc. unfold bind at 1. rewrite read_long_string_app by exact Hq.
    destruct (ProtocolVersion_SupportsPrepareFlags v).
    + rewrite <- app_assoc. unfold bind at 1. rewrite read_int_app by apply wrap_i32_range.
      destruct (nonempty ks) eqn:Ek.
      * change (wrap_u 32 (wrap_i 32 1)) with 1. change (PrepareFlag_Contains 1 PrepareFlagWithKeyspace) with true. cbv iota.
        unfold bind. rewrite read_string_app by exact Hk. reflexivity.
      * change (wrap_u 32 (wrap_i 32 0)) with 0. change (PrepareFlag_Contains 0 PrepareFlagWithKeyspace) with false. cbv iota.
        apply nonempty_false in Ek. subst ks. reflexivity.
    + cbn [orb negb] in H0. apply negb_true_iff in H0. apply nonempty_false in H0. subst ks. reflexivity.
  - rewrite zlen_app, enc_long_string_len.
    destruct (ProtocolVersion_SupportsPrepareFlags v); [|cbn [ladd zlen length]; f_equal; lia].
    rewrite zlen_app, be_bytes_zlen. destruct (nonempty ks); cbn [ladd]; rewrite ?enc_string_len; unfold LengthOfInt; f_equal; cbn [zlen length]; lia.
Qed.
Theorem Prepare_roundtrip v m : Prepare_okb v m = true ->
  exists b, enc_Prepare v m = Ok b /\ forall rest, dec_Prepare v (b ++ rest) = DOk (norm_Prepare v m) rest.
Proof. intro H. exact (facts_roundtrip _ _ _ _ _ (Prepare_facts v m H)). Qed.
Theorem Prepare_length v m b : Prepare_okb v m = true -> enc_Prepare v m = Ok b -> len_Prepare v m = Ok (zlen b).
Proof. intro H. exact (facts_length _ _ _ _ _ (Prepare_facts v m H) b). Qed.
Theorem Prepare_total v bs : dec_Prepare v bs <> DPanic /\ dec_Prepare v bs <> DFuel.
Proof. apply total_at. unfold dec_Prepare. total_tac. Qed.
Theorem norm_Prepare_ok v m : Prepare_okb v m = true ->
  Prepare_okb v (norm_Prepare v m) = true /\ norm_Prepare v (norm_Prepare v m) = norm_Prepare v m.
Proof. intro H. split; [exact H|reflexivity]. Qed.
Example Prepare_example :
  Prepare_okb 5 {| p_Query := B "SELECT * FROM t WHERE k = ?"; p_Keyspace := B "ks1" |} = true
  /\ Prepare_okb 4 {| p_Query := B "SELECT * FROM t"; p_Keyspace := [] |} = true.
Proof. vm_compute. split; reflexivity. Qed.

(* ================= REGISTER ================= *)
Definition bytes_Register (m : Register) : bytes := enc_string_list (rg_EventTypes m).
Lemma Register_facts v m : Register_okb v m = true ->
  facts (enc_Register v m) (len_Register v m) (dec_Register v) (bytes_Register m) (norm_Register v m).
Proof.
  unfold Register_okb. intro H. bsplit H.
  assert (Hn : zlen (rg_EventTypes m) <= 65535) by lia.
  assert (Hs : strings_small (rg_EventTypes m)) by (eapply forallb_Forall; [|eassumption]; apply str_okb_le).
  pose proof (nonempty_pos _ H) as Hpos.
  unfold facts, bytes_Register, enc_Register, len_Register, dec_Register, norm_Register. repeat split.
  - destruct (Z.eqb_spec (zlen (rg_EventTypes m)) 0); [lia|]. rewrite H1. cbn [wguard]. rewrite !wapp_nil_l.
    apply write_string_list_ok; assumption.
  - intro rest. unfold bind at 1. rewrite read_string_list_app by assumption. rewrite H1. destruct m; reflexivity.
  - rewrite enc_string_list_len. reflexivity.
Qed.
Theorem Register_roundtrip v m : Register_okb v m = true ->
  exists b, enc_Register v m = Ok b /\ forall rest, dec_Register v (b ++ rest) = DOk (norm_Register v m) rest.
Proof. intro H. exact (facts_roundtrip _ _ _ _ _ (Register_facts v m H)). Qed.
Theorem Register_length v m b : Register_okb v m = true -> enc_Register v m = Ok b -> len_Register v m = Ok (zlen b).
Proof. intro H. exact (facts_length _ _ _ _ _ (Register_facts v m H) b). Qed.
Theorem Register_total v bs : dec_Register v bs <> DPanic /\ dec_Register v bs <> DFuel.
Proof. apply total_at. unfold dec_Register. total_tac. Qed.
Theorem norm_Register_ok v m : Register_okb v m = true ->
  Register_okb v (norm_Register v m) = true /\ norm_Register v (norm_Register v m) = norm_Register v m.
Proof. intro H. split; [exact H|reflexivity]. Qed.
Example Register_example :
  Register_okb 4 {| rg_EventTypes := [B "SCHEMA_CHANGE"; B "STATUS_CHANGE"; B "TOPOLOGY_CHANGE"] |} = true.
Proof. vm_compute. reflexivity. Qed.

(* ================= REVISE_REQUEST ================= *)
Definition bytes_Revise (m : Revise) : bytes :=
  be_bytes 4 (wrap_i 32 (rv_RevisionType m)) ++ be_bytes 4 (rv_TargetStreamId m) ++
  (if rv_RevisionType m =? DseRevisionTypeMoreContinuousPages then be_bytes 4 (rv_NextPages m) else []).
Lemma valid_revision_type t v : is_ok (CheckValidDseRevisionType t v) = true -> t = 1 \/ t = 2.
Proof.
  unfold CheckValidDseRevisionType, DseRevisionType_IsValid, DseRevisionTypeCancelContinuousPaging, DseRevisionTypeMoreContinuousPages.
  destruct (Z.eqb_spec t 1); [left; assumption|]. destruct (Z.eqb_spec t 2); [right; assumption|]. cbn. discriminate.
Qed.
Lemma Revise_facts v m : Revise_okb v m = true ->
  facts (enc_Revise v m) (len_Revise v m) (dec_Revise v) (bytes_Revise m) (norm_Revise v m).
Proof.
  unfold Revise_okb. intro H. bsplit H.
  pose proof (i32_okb_in _ H2) as Hsid. pose proof (i32_okb_in _ H1) as Hnp.
  destruct m as [t sid np]. cbn [rv_RevisionType rv_TargetStreamId rv_NextPages] in *.
  unfold facts, bytes_Revise, enc_Revise, len_Revise, dec_Revise, norm_Revise. cbn [rv_RevisionType rv_TargetStreamId rv_NextPages].
  rewrite H. pose proof (valid_revision_type _ _ H3) as Ht.
  assert (Hw : wrap_u 32 (wrap_i 32 t) = t) by (apply wrap_u32_wrap_i32; lia).
  repeat split.
  - rewrite H3. cbn [wguard]. rewrite !wapp_nil_l. unfold write_int.
    destruct (t =? DseRevisionTypeMoreContinuousPages); cbn [wapp]; rewrite ?app_nil_r; reflexivity.
  - intro rest. cbn [rguard]. unfold bind at 1, ret at 1. rewrite <- app_assoc.
    unfold bind at 1. rewrite read_int_app by apply wrap_i32_range. rewrite Hw, H3. cbn [rguard].
    unfold bind at 1, ret at 1. rewrite <- app_assoc. unfold bind at 1. rewrite read_int_app by exact Hsid.
    destruct (Z.eqb_spec t DseRevisionTypeMoreContinuousPages) as [E|E].
    + unfold bind. rewrite read_int_app by exact Hnp. reflexivity.
    + cbn [orb] in H0. apply Z.eqb_eq in H0. subst np. reflexivity.
  - cbn [ladd]. destruct (t =? DseRevisionTypeMoreContinuousPages); cbn [ladd]; rewrite !zlen_app, !be_bytes_zlen; reflexivity.
Qed.
Theorem Revise_roundtrip v m : Revise_okb v m = true ->
  exists b, enc_Revise v m = Ok b /\ forall rest, dec_Revise v (b ++ rest) = DOk (norm_Revise v m) rest.
Proof. intro H. exact (facts_roundtrip _ _ _ _ _ (Revise_facts v m H)). Qed.
Theorem Revise_length v m b : Revise_okb v m = true -> enc_Revise v m = Ok b -> len_Revise v m = Ok (zlen b).
Proof. intro H. exact (facts_length _ _ _ _ _ (Revise_facts v m H) b). Qed.
Theorem Revise_total v bs : dec_Revise v bs <> DPanic /\ dec_Revise v bs <> DFuel.
Proof. apply total_at. unfold dec_Revise. total_tac. Qed.
Theorem norm_Revise_ok v m : Revise_okb v m = true ->
  Revise_okb v (norm_Revise v m) = true /\ norm_Revise v (norm_Revise v m) = norm_Revise v m.
Proof. intro H. split; [exact H|reflexivity]. Qed.
Example Revise_example :
  Revise_okb 66 {| rv_RevisionType := 2; rv_TargetStreamId := 77; rv_NextPages := 5 |} = true
  /\ Revise_okb 65 {| rv_RevisionType := 1; rv_TargetStreamId := -3; rv_NextPages := 0 |} = true.
Proof. vm_compute. split; reflexivity. Qed.
