(* C08: the wrappers of compression/lz4 and compression/snappy are lossless for every input, under the
   contract of the third-party block functions (model/Lz4Wrap.v); consequence for segments. *)
From Coq Require Import ZArith NArith List Bool Lia.
From Coq Require Import ZifyBool ZifyN ZifyNat.
From GCNP Require Import base.GoInt base.Bytes gen.Crc_gen model.Crc model.Segment model.Lz4Wrap
  proofs.Crc24Proofs proofs.Crc32Proofs proofs.SegmentProofs.
Import ListNotations.
Open Scope Z_scope.

Section Lz4Proofs.
  Variable compress_block : list Z -> Z -> result (list Z).
  Variable uncompress_block : list Z -> Z -> result (list Z).
  Variable bound : Z -> Z.
  Hypothesis contract : lz4_block_contract compress_block uncompress_block bound.

  Notation decompress := (lz4_decompress uncompress_block).

  (* the doubling loop finds a destination size that is large enough: sizes 2n, 4n, .., 256n are tried, the block
     expands by at most 255, every size below the uncompressed length fails, the first one at or above it succeeds *)
  Lemma try_sizes_finds c x :
    1 <= zlen c -> zlen x <= 255 * zlen c ->
    (forall n, zlen x <= n -> uncompress_block c n = Ok x) ->
    (forall n, n < zlen x -> uncompress_block c n = Err) ->
    try_sizes uncompress_block 9 c (2 * zlen c) (256 * zlen c) = Ok x.
  Proof.
    intros Hn Hr Hbig Hsmall. set (n := zlen c) in *. set (L := zlen x) in *.
    cbn [try_sizes].
    repeat (match goal with |- context [?i <=? ?lim] => replace (i <=? lim) with true by lia end;
            match goal with |- context [uncompress_block c ?i] =>
              destruct (Z_lt_le_dec i L) as [Hlt|Hge];
              [first [exfalso; lia | rewrite (Hsmall i Hlt); clear Hlt] | rewrite (Hbig i Hge); reflexivity] end).
  Qed.

  Theorem lz4_roundtrip x : bytes_ok x ->
    exists c, lz4_compress compress_block bound x = Ok c /\ bytes_ok c /\ decompress c = Ok x.
  Proof.
    intro Hx. destruct (contract x Hx) as (c & Hc & Hcb & Hempty & Hne).
    exists c. split; [exact Hc|]. split; [exact Hcb|].
    destruct x as [|x0 xr].
    - rewrite (Hempty eq_refl). reflexivity.
    - destruct Hne as (Hc0 & Hc1 & Hr & Hbig & Hsmall); [discriminate|].
      assert (Hn : 1 <= zlen c) by (destruct c; [contradiction | rewrite zlen_cons; pose proof (zlen_nonneg c); lia]).
      pose proof (try_sizes_finds c (x0 :: xr) Hn Hr Hbig Hsmall) as Ht.
      unfold lz4_decompress.
      destruct c as [|b [|b' r]]; [contradiction | | destruct b; exact Ht].
      destruct b; [exfalso; apply Hc1; reflexivity | exact Ht | exact Ht].
  Qed.

  (* the length-prefixed body format *)
  Lemma be32_val n : 0 <= n < 4294967296 -> be_val (be32 n) = n.
  Proof.
    intro H. unfold be32, wrap_u32, wrap_u. change (2 ^ 32) with 4294967296. rewrite Z.mod_small by lia.
    rewrite be_val_be_bytes. change (256 ^ Z.of_nat 4) with 4294967296. apply Z.mod_small. lia.
  Qed.

  Lemma be32_shape n : exists b0 b1 b2 b3, be32 n = [b0; b1; b2; b3].
  Proof. unfold be32. cbn [be_bytes app]. repeat eexists. Qed.

  Theorem lz4_with_length_roundtrip x : bytes_ok x -> zlen x < 4294967296 ->
    exists c, lz4_compress_with_length compress_block bound x = Ok c /\ bytes_ok c /\
    lz4_decompress_with_length uncompress_block c = Ok x.
  Proof.
    intros Hx Hl. destruct (lz4_roundtrip x Hx) as (c & Hc & Hcb & Hd).
    unfold lz4_compress in Hc. unfold lz4_compress_with_length. rewrite Hc.
    exists (be32 (zlen x) ++ c). split; [reflexivity|]. split.
    { apply Forall_app. split; [apply be_bytes_ok | exact Hcb]. }
    pose proof (be32_val (zlen x) ltac:(pose proof (zlen_nonneg x); lia)) as Hv.
    destruct (be32_shape (zlen x)) as (b0 & b1 & b2 & b3 & E). rewrite E in *. cbn [app].
    unfold lz4_decompress_with_length. rewrite Hv.
    destruct x as [|x0 xr].
    - (* the empty message: length 0, one byte (the zero token) that is discarded *)
      rewrite zlen_nil. cbn [Z.eqb].
      destruct (contract [] Hx) as (c' & Hc' & _ & He & _). rewrite Hc in Hc'. injection Hc' as <-.
      rewrite (He eq_refl). reflexivity.
    - replace (zlen (x0 :: xr) =? 0) with false by (rewrite zlen_cons; pose proof (zlen_nonneg xr); lia).
      exact Hd.
  Qed.

  (* what the segment codec needs (proofs/SegmentProofs.v comp_contract), from the block contract *)
  Hypothesis bound_small : forall x, bytes_ok x -> zlen x <= 131071 ->
    forall c, compress_block x (bound (zlen x)) = Ok c -> zlen c < 2147483648.

  Theorem lz4_meets_segment_contract p : bytes_ok p -> zlen p <= 131071 ->
    comp_contract (lz4_payload_compressor compress_block uncompress_block bound) p.
  Proof.
    intros Hp Hl. destruct (lz4_roundtrip p Hp) as (c & Hc & Hcb & Hd).
    exists c. cbn [cmp dcmp lz4_payload_compressor]. split; [exact Hc|]. split; [exact Hcb|]. split.
    { apply (bound_small p Hp Hl c). exact Hc. }
    split; [|exact Hd].
    intros Hne. destruct (contract p Hp) as (c' & Hc' & _ & _ & Hn). unfold lz4_compress in Hc. rewrite Hc in Hc'. injection Hc' as <-.
    apply Hn. exact Hne.
  Qed.
End Lz4Proofs.

(* a segment encoded with the LZ4 compressor decodes to the same payload, flag and lengths (feeds C06) *)
Theorem segment_with_lz4_roundtrip compress_block uncompress_block bound :
  lz4_block_contract compress_block uncompress_block bound ->
  (forall x, bytes_ok x -> zlen x <= 131071 -> forall c, compress_block x (bound (zlen x)) = Ok c -> zlen c < 2147483648) ->
  forall sc p rest, bytes_ok p -> Z.of_nat (length p) <= 131071 ->
  let k := lz4_payload_compressor compress_block uncompress_block bound in
  exists bs cp, cmp k p = Ok cp /\ encode_segment (Some k) sc p = Ok bs /\
    exists hd transmitted,
    decode_segment (Some k) (bs ++ rest) =
    Ok (mkSegment (mkHeader sc (Z.of_nat (length p)) (compressed_len_of p cp) (checksum_koopman hd 5)) p (checksum_ieee transmitted), rest).
Proof.
  intros Hc Hb sc p rest Hp Hl k. apply roundtrip_comp; [exact Hp | exact Hl |].
  apply lz4_meets_segment_contract; assumption.
Qed.

(* a lossy block codec is not masked by the wrapper: whatever UncompressBlock returns for the first destination size
   it accepts is handed to the caller unchecked (no length comparison, no checksum of the uncompressed data) *)
Theorem lz4_wrapper_forwards_block_result uncompress_block c y :
  2 <= zlen c -> uncompress_block c (2 * zlen c) = Ok y -> lz4_decompress uncompress_block c = Ok y.
Proof.
  intros Hn Hu. unfold lz4_decompress.
  destruct c as [|b [|b' r]]; [rewrite zlen_nil in Hn; lia | rewrite zlen_cons, zlen_nil in Hn; lia |].
  cbn [try_sizes]. replace (2 * zlen (b :: b' :: r) <=? 256 * zlen (b :: b' :: r)) with true by lia.
  rewrite Hu. destruct b; reflexivity.
Qed.

Section SnappyProofs.
  Variable snappy_encode : list Z -> list Z.
  Variable snappy_decode : list Z -> result (list Z).
  Hypothesis contract : snappy_contract snappy_encode snappy_decode.
  Theorem snappy_roundtrip x : bytes_ok x ->
    exists c, snappy_compress_with_length snappy_encode x = Ok c /\ snappy_decompress_with_length snappy_decode c = Ok x.
  Proof. intro H. eexists. split; [reflexivity|]. apply contract. exact H. Qed.
End SnappyProofs.

(* ---------------------------------------------------------------- non-vacuity of the contract *)
Definition store_compress (x : list Z) (_ : Z) : result (list Z) := Ok (match x with [] => [0] | _ => 1 :: x end).
Definition store_uncompress (c : list Z) (n : Z) : result (list Z) :=
  match c with 1 :: x => if zlen x <=? n then Ok x else Err | _ => Err end.
Lemma store_contract : lz4_block_contract store_compress store_uncompress (fun n => n + 1).
Proof.
  intros x Hx. destruct x as [|x0 xr].
  - exists [0]. split; [reflexivity|]. split; [constructor; [unfold byte_ok; lia | constructor]|].
    split; [reflexivity|]. intro H. contradiction.
  - exists (1 :: x0 :: xr). split; [reflexivity|]. split; [constructor; [unfold byte_ok; lia | exact Hx]|].
    split; [discriminate|]. intros _. split; [discriminate|]. split; [discriminate|].
    split; [rewrite (zlen_cons 1); pose proof (zlen_nonneg (x0 :: xr)); lia|].
    split; intros n Hn; cbn [store_uncompress].
    + replace (zlen (x0 :: xr) <=? n) with true by lia. reflexivity.
    + replace (zlen (x0 :: xr) <=? n) with false by lia. reflexivity.
Qed.

(* an observed lossy block round trip (x compresses to c, c uncompresses into a destination of exactly |x| bytes to
   y <> x) is incompatible with the contract: this is how the harness observation on the real library reads in Coq *)
Theorem contract_refuted_by_lossy_witness
    (cb ub : list Z -> Z -> result (list Z)) (bound : Z -> Z) (x c y : list Z) :
  bytes_ok x -> x <> [] -> cb x (bound (zlen x)) = Ok c -> ub c (zlen x) = Ok y -> y <> x ->
  ~ lz4_block_contract cb ub bound.
Proof.
  intros Hx Hne Hc Hu Hy Hcontract.
  destruct (Hcontract x Hx) as (c' & Hc' & _ & _ & Hn). rewrite Hc in Hc'. injection Hc' as <-.
  destruct (Hn Hne) as (_ & _ & _ & Hbig & _).
  specialize (Hbig (zlen x) ltac:(lia)). rewrite Hu in Hbig. injection Hbig as E. exact (Hy E).
Qed.

(* ---------------------------------------------------------------- C04 support: the fuel of the doubling loop is never
   exhausted for a non-empty input, whatever the block decoder answers (sizes 2n, 4n, .., 256n: at most 8 attempts) *)
Theorem try_sizes_fuel_irrelevant (ub : list Z -> Z -> result (list Z)) (src : list Z) (k : nat) :
  1 <= zlen src ->
  try_sizes ub (9 + k) src (2 * zlen src) (256 * zlen src) = try_sizes ub 9 src (2 * zlen src) (256 * zlen src).
Proof.
  intro Hn. set (n := zlen src) in *.
  change (9 + k)%nat with (S (S (S (S (S (S (S (S (S k))))))))). cbn [try_sizes].
  repeat (match goal with |- context [?i <=? ?lim] =>
            first [ replace (i <=? lim) with true by lia | replace (i <=? lim) with false by lia ] end;
          try match goal with |- context [ub src ?i] => destruct (ub src i); [reflexivity|] end).
  destruct k; reflexivity.
Qed.

(* every wrapper returns a value or an error for every input and every block decoder *)
Theorem lz4_decompress_total (ub : list Z -> Z -> result (list Z)) (src : list Z) :
  (exists d, lz4_decompress ub src = Ok d) \/ lz4_decompress ub src = Err.
Proof. destruct (lz4_decompress ub src) as [d|]; [left; exists d; reflexivity | right; reflexivity]. Qed.
