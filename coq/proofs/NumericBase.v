(* Lemmas and tactics shared by the C13 proofs: literal forms of wrap_* / in_* so that lia sees the bounds. *)
From Coq Require Import ZArith List String Bool Lia.
From Coq Require Import ZifyBool.
From GCNP Require Import base.GoInt base.GoNum.
Import ListNotations.
Open Scope Z_scope.
Ltac Zify.zify_post_hook ::= Z.div_mod_to_equations.

Lemma wrap_i8_eq x : wrap_i8 x = (x + 128) mod 256 - 128. Proof. reflexivity. Qed.
Lemma wrap_i16_eq x : wrap_i16 x = (x + 32768) mod 65536 - 32768. Proof. reflexivity. Qed.
Lemma wrap_i32_eq x : wrap_i32 x = (x + 2147483648) mod 4294967296 - 2147483648. Proof. reflexivity. Qed.
Lemma wrap_i64_eq x : wrap_i64 x = (x + 9223372036854775808) mod 18446744073709551616 - 9223372036854775808. Proof. reflexivity. Qed.
Lemma wrap_u8_eq x : wrap_u8 x = x mod 256. Proof. reflexivity. Qed.
Lemma wrap_u16_eq x : wrap_u16 x = x mod 65536. Proof. reflexivity. Qed.
Lemma wrap_u32_eq x : wrap_u32 x = x mod 4294967296. Proof. reflexivity. Qed.
Lemma wrap_u64_eq x : wrap_u64 x = x mod 18446744073709551616. Proof. reflexivity. Qed.
Lemma wrap_i64'_eq x : wrap_i 64 x = (x + 9223372036854775808) mod 18446744073709551616 - 9223372036854775808. Proof. reflexivity. Qed.
Lemma wrap_u64'_eq x : wrap_u 64 x = x mod 18446744073709551616. Proof. reflexivity. Qed.

Lemma in_i8_eq x : in_i 8 x = (-128 <=? x) && (x <? 128). Proof. reflexivity. Qed.
Lemma in_i16_eq x : in_i 16 x = (-32768 <=? x) && (x <? 32768). Proof. reflexivity. Qed.
Lemma in_i32_eq x : in_i 32 x = (-2147483648 <=? x) && (x <? 2147483648). Proof. reflexivity. Qed.
Lemma in_i64_eq x : in_i 64 x = (-9223372036854775808 <=? x) && (x <? 9223372036854775808). Proof. reflexivity. Qed.
Lemma in_u8_eq x : in_u 8 x = (0 <=? x) && (x <? 256). Proof. reflexivity. Qed.
Lemma in_u16_eq x : in_u 16 x = (0 <=? x) && (x <? 65536). Proof. reflexivity. Qed.
Lemma in_u32_eq x : in_u 32 x = (0 <=? x) && (x <? 4294967296). Proof. reflexivity. Qed.
Lemma in_u64_eq x : in_u 64 x = (0 <=? x) && (x <? 18446744073709551616). Proof. reflexivity. Qed.

(* rewrites every wrap / range test into literal arithmetic, in goal and hypotheses *)
Ltac norm_int :=
  unfold big_IsInt64, big_IsUint64, big_Int64, big_Uint64, go_quot, go_rem in *;
  rewrite ?wrap_i8_eq, ?wrap_i16_eq, ?wrap_i32_eq, ?wrap_i64_eq, ?wrap_u8_eq, ?wrap_u16_eq, ?wrap_u32_eq, ?wrap_u64_eq,
          ?wrap_i64'_eq, ?wrap_u64'_eq,
          ?in_i8_eq, ?in_i16_eq, ?in_i32_eq, ?in_i64_eq, ?in_u8_eq, ?in_u16_eq, ?in_u32_eq, ?in_u64_eq in *.

(* case split on every if-condition of the goal, remembering its value *)
Ltac split_ifs :=
  repeat match goal with
  | |- context [if ?c then _ else _] => let E := fresh "E" in destruct c eqn:E
  end.

Lemma res_split_ok {A} (d : A) r v e : res_split d r = (v, e) -> e = Ok tt -> r = Ok v.
Proof. destruct r; cbn; intros H He; inversion H; subst; [reflexivity|discriminate]. Qed.
