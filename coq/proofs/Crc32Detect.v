(* C07, payload clause: which error patterns over payload || CRC-32 the seeded CRC-32 detects.
   An error pattern is a bit list in the order the reflected CRC consumes the bits (byte order, least significant bit of
   each byte first), over the payload bytes followed by the 32 checksum bits (little-endian field, same order). *)
From Coq Require Import ZArith NArith List Bool Lia.
From Coq Require Import ZifyBool ZifyN ZifyNat.
From GCNP Require Import base.GoInt base.Bytes gen.Crc_gen model.Crc proofs.Crc24Proofs proofs.Crc32Proofs.
Import ListNotations.
Open Scope N_scope.

Notation P := crc32_poly.
Notation step := crc32_step.
Notation run := crc32_run.

(* ---------------------------------------------------------------- xor of byte strings *)
Definition xor_byte (a b : Z) : Z := Z.of_N (N.lxor (Z.to_N a) (Z.to_N b)).
Fixpoint xor_bytes (a b : list Z) : list Z :=
  match a, b with x :: a', y :: b' => xor_byte x y :: xor_bytes a' b' | _, _ => [] end.

Lemma xor_bytes_length : forall a b, length a = length b -> length (xor_bytes a b) = length a.
Proof. induction a as [|x a IH]; intros [|y b] H; try discriminate; cbn [xor_bytes length]; [reflexivity|]. rewrite IH; [reflexivity|]. cbn [length] in H. lia. Qed.

Lemma xor_byte_ok x y : byte_ok x -> byte_ok y -> byte_ok (xor_byte x y).
Proof.
  unfold byte_ok, xor_byte. intros Hx Hy.
  assert (N.lxor (Z.to_N x) (Z.to_N y) < 2 ^ 8) by (apply lxor_lt; change (2 ^ 8) with 256; lia).
  change (2 ^ 8) with 256 in H. lia.
Qed.

Lemma xor_bytes_ok : forall a b, bytes_ok a -> bytes_ok b -> bytes_ok (xor_bytes a b).
Proof.
  induction a as [|x a IH]; intros [|y b] Ha Hb; cbn [xor_bytes]; try constructor.
  - inversion Ha; inversion Hb; subst. apply xor_byte_ok; assumption.
  - inversion Ha; inversion Hb; subst. apply IH; assumption.
Qed.

Lemma bits_lsb_lxor k : forall a b, bits_lsb k (N.lxor a b) = xor_bits_l (bits_lsb k a) (bits_lsb k b).
Proof.
  induction k as [|k IH]; intros a b; cbn [bits_lsb xor_bits_l]; [reflexivity|].
  rewrite N.lxor_spec, N.shiftr_lxor, IH. reflexivity.
Qed.

Lemma bits_lsb_length k : forall v, length (bits_lsb k v) = k.
Proof. induction k as [|k IH]; intro v; cbn [bits_lsb length]; [reflexivity|]. rewrite IH. reflexivity. Qed.

Lemma xor_bits_l_app : forall a b c d, length a = length b ->
  xor_bits_l (a ++ c) (b ++ d) = xor_bits_l a b ++ xor_bits_l c d.
Proof.
  induction a as [|x a IH]; intros [|y b] c d H; try discriminate; cbn [app xor_bits_l]; [reflexivity|].
  rewrite IH; [reflexivity|]. cbn [length] in H. lia.
Qed.

Lemma bits_of_bytes_length bs : length (bits_of_bytes bs) = (8 * length bs)%nat.
Proof. induction bs as [|v r IH]; [reflexivity|]. cbn [bits_of_bytes length]. rewrite app_length, IH. unfold bits_of_byte. rewrite bits_lsb_length. lia. Qed.

Lemma bits_of_xor_bytes : forall a b, length a = length b -> bytes_ok a -> bytes_ok b ->
  bits_of_bytes (xor_bytes a b) = xor_bits_l (bits_of_bytes a) (bits_of_bytes b).
Proof.
  induction a as [|x a IH]; intros [|y b] Hl Ha Hb; try discriminate; [reflexivity|].
  cbn [xor_bytes bits_of_bytes]. inversion Ha; inversion Hb; subst.
  rewrite xor_bits_l_app by (unfold bits_of_byte; rewrite !bits_lsb_length; reflexivity).
  rewrite IH by (try assumption; cbn [length] in Hl; lia).
  f_equal. unfold bits_of_byte, xor_byte. rewrite N2Z.id. apply bits_lsb_lxor.
Qed.

(* ---------------------------------------------------------------- "recomputed = received"  <=>  the LFSR run over the
   error pattern (payload part, then the 32 bits of the checksum-field error) from the zero register ends in zero *)
Lemma iter_step0_run k : forall s, iterN k crc32_step0 s = run s (zeros k).
Proof. induction k as [|k IH]; intro s; [reflexivity|]. unfold run, zeros in *. cbn [iterN repeat fold_left]. apply IH. Qed.

Lemma lxor_cancel_l a b c : N.lxor a b = N.lxor a c -> b = c.
Proof.
  intro H. apply (f_equal (N.lxor a)) in H.
  rewrite <- !N.lxor_assoc, !N.lxor_nilpotent, !N.lxor_0_l in H. exact H.
Qed.

Definition error_bits (e : list Z) (ec : N) : list bool := bits_of_bytes e ++ bits_lsb 32 ec.

Theorem crc32_accepts_iff enc e ec :
  length e = length enc -> bytes_ok enc -> bytes_ok e -> ec < 2 ^ 32 ->
  (checksum_ieee (xor_bytes enc e) = N.lxor (checksum_ieee enc) ec <-> run 0 (error_bits e ec) = 0).
Proof.
  intros Hl Henc He Hec.
  rewrite (checksum_ieee_run (xor_bytes enc e)) by (apply xor_bytes_ok; assumption).
  rewrite (checksum_ieee_run enc) by assumption.
  rewrite bits_of_xor_bytes by (try assumption; lia).
  rewrite <- (N.lxor_0_r seeded_state) at 1.
  rewrite run_lxor by (rewrite !bits_of_bytes_length; lia).
  set (A := run seeded_state (bits_of_bytes enc)). set (X := run 0 (bits_of_bytes e)).
  assert (HX : X < 2 ^ 32) by (apply run_lt; reflexivity).
  unfold error_bits. rewrite run_app. fold X.
  rewrite (feed_bits 32 X ec) by exact Hec. rewrite iter_step0_run.
  split.
  - intro H.
    assert (E : X = ec).
    { replace (N.lxor (N.lxor A X) mask32) with (N.lxor (N.lxor A mask32) X) in H
        by (rewrite !N.lxor_assoc; f_equal; apply N.lxor_comm).
      apply lxor_cancel_l in H. exact H. }
    rewrite E, N.lxor_nilpotent. apply run_zeros_0.
  - intro H.
    assert (E : N.lxor X ec = 0).
    { destruct (N.eq_dec (N.lxor X ec) 0) as [E|Hne]; [exact E|].
      exfalso. apply (run_zeros_nonzero 32 (N.lxor X ec)); [apply lxor_lt; assumption | exact Hne | exact H]. }
    apply N.lxor_eq in E. subst ec.
    rewrite !N.lxor_assoc. f_equal. apply N.lxor_comm.
Qed.

(* ---------------------------------------------------------------- bursts *)
Theorem burst_detected a B z : (length B <= 31)%nat -> run 0 (zeros a ++ true :: B ++ zeros z) <> 0.
Proof.
  intro HB. rewrite run_app, run_zeros_0.
  change (true :: B ++ zeros z) with ((true :: B) ++ zeros z). rewrite run_app.
  apply run_zeros_nonzero; [apply run_lt; reflexivity | apply burst_nonzero; exact HB].
Qed.

Corollary single_bit_detected a z : run 0 (zeros a ++ true :: zeros z) <> 0.
Proof. apply (burst_detected a [] z). cbn. lia. Qed.

(* ---------------------------------------------------------------- two flipped bits: the order argument *)
Lemma step_true_zero s : s < 2 ^ 32 -> step s true = 0 -> s = 1.
Proof.
  intros Hs H. unfold step in H. destruct (N.testbit s 0) eqn:Hb; cbn [xorb] in H.
  - rewrite N.shiftr_div_pow2 in H. change (2 ^ 1) with 2 in H.
    rewrite N.bit0_odd in Hb. apply N.odd_spec in Hb. destruct Hb as [m ->]. lia.
  - exfalso. apply N.lxor_eq in H.
    pose proof (lt_pow2_bit _ 31 (shiftr1_lt s Hs)) as Hc. rewrite H, P_bit31 in Hc. discriminate.
Qed.

Fixpoint no_return (fuel : nat) (s : N) : bool :=
  match fuel with O => true | S f => negb (s =? 1) && no_return f (crc32_step0 s) end.

Lemma no_return_sound : forall fuel s, no_return fuel s = true -> forall m, (m < fuel)%nat -> iterN m crc32_step0 s <> 1.
Proof.
  induction fuel as [|f IH]; intros s H m Hm; [lia|].
  cbn [no_return] in H. apply andb_true_iff in H. destruct H as [H1 H2].
  destruct m as [|m]; cbn [iterN].
  - apply negb_true_iff, N.eqb_neq in H1. exact H1.
  - apply IH; [exact H2 | lia].
Qed.

(* the number of zero-input steps for which the register started at P provably does not pass through 1:
   131071 * 8 + 32 bits is the longest payload || checksum *)
Definition max_gap : nat := N.to_nat 1048600.
Lemma max_gap_val : Z.of_nat max_gap = 1048600%Z. Proof. unfold max_gap. lia. Qed.

Lemma no_return_P : no_return max_gap P = true.
Proof. vm_cast_no_check (eq_refl true). Qed.
Global Opaque max_gap.

Theorem double_bit_detected a m z : (m < max_gap)%nat ->
  run 0 (zeros a ++ true :: zeros m ++ true :: zeros z) <> 0.
Proof.
  intro Hm. rewrite run_app, run_zeros_0.
  change (true :: zeros m ++ true :: zeros z) with ([true] ++ zeros m ++ [true] ++ zeros z).
  rewrite !run_app. change (run 0 [true]) with P.
  set (s := run P (zeros m)).
  assert (Hs : s < 2 ^ 32) by (apply run_lt, P_lt).
  apply run_zeros_nonzero.
  - unfold run. cbn [fold_left]. apply step_lt. exact Hs.
  - unfold run at 1. cbn [fold_left]. intro H. apply step_true_zero in H; [|exact Hs].
    unfold s in H. rewrite <- iter_step0_run in H.
    exact (no_return_sound max_gap P no_return_P m Hm H).
Qed.
