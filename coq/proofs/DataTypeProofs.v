(* Round trip, length and fuel lemmas for data type descriptors (model/DataType.v). *)
From Coq Require Import ZArith List Bool Lia.
From Coq Require Import ZifyBool ZifyNat.
From GCNP Require Import base.GoInt base.Bytes base.Codec gen.Constants_gen model.Prim model.DataType proofs.PrimProofs.
Import ListNotations.
Open Scope Z_scope.

(* ---------- induction principle through the nested lists / options ---------- *)
Section DTInd.
  Variable P : DataType -> Prop.
  Definition PO (o : option DataType) : Prop := match o with Some t => P t | None => True end.
  Hypothesis HPrim : forall c, P (DT_Primitive c).
  Hypothesis HCustom : forall c, P (DT_Custom c).
  Hypothesis HList : forall e, PO e -> P (DT_List e).
  Hypothesis HMap : forall k v, PO k -> PO v -> P (DT_Map k v).
  Hypothesis HSet : forall e, PO e -> P (DT_Set e).
  Hypothesis HTuple : forall fs, Forall PO fs -> P (DT_Tuple fs).
  Hypothesis HUdt : forall ks name names types, Forall PO types -> P (DT_Udt ks name names types).

  Fixpoint DataType_ind' (t : DataType) : P t :=
    let po := fun (o : option DataType) => match o as o' return PO o' with Some t' => DataType_ind' t' | None => I end in
    let pl := fix go (l : list (option DataType)) : Forall PO l :=
                match l with [] => Forall_nil _ | o :: r => Forall_cons o (po o) (go r) end in
    match t with
    | DT_Primitive c => HPrim c
    | DT_Custom c => HCustom c
    | DT_List e => HList e (po e)
    | DT_Map k v => HMap k v (po k) (po v)
    | DT_Set e => HSet e (po e)
    | DT_Tuple fs => HTuple fs (pl fs)
    | DT_Udt ks name names types => HUdt ks name names types (pl types)
    end.
End DTInd.

(* ---------- validity and the pure encoding ---------- *)
Fixpoint dt_okb (t : DataType) : bool :=
  let oo := fun (o : option DataType) => match o with Some t' => dt_okb t' | None => false end in
  match t with
  | DT_Primitive c => existsb (Z.eqb c) primitive_codes
  | DT_Custom c => zlen c <=? 65535
  | DT_List e => oo e
  | DT_Set e => oo e
  | DT_Map k v => oo k && oo v
  | DT_Tuple fs => (zlen fs <=? 65535) && forallb oo fs
  | DT_Udt ks name names types =>
      (zlen ks <=? 65535) && (zlen name <=? 65535) && (zlen names =? zlen types) && (zlen types <=? 65535)
      && forallb (fun n => zlen n <=? 65535) names && forallb oo types
  end.
Definition odt_okb (o : option DataType) : bool := match o with Some t => dt_okb t | None => false end.

Section EZip.
  Context {A : Type} (f : bytes -> A -> bytes).
  Fixpoint ezip (names : list bytes) (types : list A) {struct types} : bytes :=
    match types, names with
    | t :: ts, n :: ns => f n t ++ ezip ns ts
    | _, _ => []
    end.
End EZip.
Lemma ezip_combine {A} (f : bytes -> A -> bytes) names types :
  ezip f names types = concat (map (fun nt => f (fst nt) (snd nt)) (combine names types)).
Proof.
  revert names; induction types as [|t ts IH]; intros [|n ns]; cbn [ezip combine map concat]; try reflexivity.
  cbn [fst snd]. rewrite IH. reflexivity.
Qed.

Fixpoint enc_dt (t : DataType) : bytes :=
  let eo := fun (o : option DataType) => match o with Some t' => enc_dt t' | None => [] end in
  be_bytes 2 (dt_code t) ++
  match t with
  | DT_Primitive _ => []
  | DT_Custom c => enc_string c
  | DT_List e => eo e
  | DT_Set e => eo e
  | DT_Map k v => eo k ++ eo v
  | DT_Tuple fs => be_bytes 2 (zlen fs) ++ concat (map eo fs)
  | DT_Udt ks name names types =>
      enc_string ks ++ enc_string name ++ be_bytes 2 (zlen types) ++
      ezip (fun n o => enc_string n ++ eo o) names types
  end.
Definition enc_odt (o : option DataType) : bytes := match o with Some t => enc_dt t | None => [] end.

Fixpoint dt_depth (t : DataType) : nat :=
  let od := fun (o : option DataType) => match o with Some t' => dt_depth t' | None => O end in
  S (match t with
     | DT_Primitive _ | DT_Custom _ => O
     | DT_List e | DT_Set e => od e
     | DT_Map k v => Nat.max (od k) (od v)
     | DT_Tuple fs => fold_right (fun o acc => Nat.max (od o) acc) O fs
     | DT_Udt _ _ _ types => fold_right (fun o acc => Nat.max (od o) acc) O types
     end).
Definition odt_depth (o : option DataType) : nat := match o with Some t => dt_depth t | None => O end.

Lemma primitive_codes_facts c : existsb (Z.eqb c) primitive_codes = true ->
  DataTypeCode_IsValid c = true /\ c <> DataTypeCodeCustom /\ c <> DataTypeCodeList /\ c <> DataTypeCodeMap /\
  c <> DataTypeCodeSet /\ c <> DataTypeCodeUdt /\ c <> DataTypeCodeTuple /\ 0 <= c < 65536.
Proof.
  intro H. apply existsb_exists in H. destruct H as [x [Hx He]]. apply Z.eqb_eq in He. subst x.
  cbv [primitive_codes In] in Hx.
  repeat (destruct Hx as [<-|Hx]; [vm_compute; repeat split; intros; discriminate|]). destruct Hx.
Qed.

Lemma check_dt_code c v : is_ok (CheckValidDataTypeCode c v) = DataTypeCode_IsValid c.
Proof. unfold CheckValidDataTypeCode. destruct (DataTypeCode_IsValid c); reflexivity. Qed.

(* wzip over lists of equal length is wlist over the zipped list *)
Lemma wzip_combine {A} (f : bytes -> A -> W) names types :
  length names = length types -> wzip f names types = wlist (fun nt => f (fst nt) (snd nt)) (combine names types).
Proof.
  revert names; induction types as [|t ts IH]; intros [|n ns] H; cbn [wzip wlist combine length] in *; try reflexivity; try discriminate.
  cbn [fst snd]. rewrite IH by lia. reflexivity.
Qed.
Lemma lzip_combine {A} (f : bytes -> A -> L) names types :
  length names = length types -> lzip f names types = llist (fun nt => f (fst nt) (snd nt)) (combine names types).
Proof.
  revert names; induction types as [|t ts IH]; intros [|n ns] H; cbn [lzip llist combine length] in *; try reflexivity; try discriminate.
  cbn [fst snd]. rewrite IH by lia. reflexivity.
Qed.
Lemma map_fst_combine {A B} (a : list A) (b : list B) : length a = length b -> map fst (combine a b) = a.
Proof. revert b; induction a as [|x a IH]; intros [|y b] H; cbn in *; try reflexivity; try discriminate. f_equal. apply IH. lia. Qed.
Lemma map_snd_combine {A B} (a : list A) (b : list B) : length a = length b -> map snd (combine a b) = b.
Proof. revert b; induction a as [|x a IH]; intros [|y b] H; cbn in *; try reflexivity; try discriminate. f_equal. apply IH. lia. Qed.
Lemma combine_length' {A B} (a : list A) (b : list B) : length a = length b -> length (combine a b) = length b.
Proof. intro H. rewrite combine_length. lia. Qed.

Lemma zlen_eq_length {A B} (a : list A) (b : list B) : zlen a = zlen b -> length a = length b.
Proof. unfold zlen. lia. Qed.

(* ---------- encoder produces enc_dt ---------- *)
Lemma write_dt_ok version t : dt_okb t = true -> write_dt version t = Ok (enc_dt t).
Proof.
  induction t as [c|c|e IHe|k v IHk IHv|e IHe|fs IH|ks name names types IH] using DataType_ind'; intro Hok.
  - cbn [dt_okb] in Hok. destruct (primitive_codes_facts c Hok) as (Hv & H1 & H2 & H3 & H4 & H5 & H6 & Hr).
    cbn [write_dt enc_dt dt_code]. rewrite check_dt_code, Hv.
    destruct (Z.eqb_spec c DataTypeCodeCustom); [contradiction|]. destruct (Z.eqb_spec c DataTypeCodeList); [contradiction|].
    destruct (Z.eqb_spec c DataTypeCodeMap); [contradiction|]. destruct (Z.eqb_spec c DataTypeCodeSet); [contradiction|].
    destruct (Z.eqb_spec c DataTypeCodeUdt); [contradiction|]. destruct (Z.eqb_spec c DataTypeCodeTuple); [contradiction|].
    reflexivity.
  - cbn [dt_okb] in Hok. cbn [write_dt enc_dt dt_code]. rewrite check_dt_code.
    change (DataTypeCode_IsValid DataTypeCodeCustom) with true. change (DataTypeCodeCustom =? DataTypeCodeCustom) with true.
    cbn [wguard]. rewrite write_string_ok by lia. reflexivity.
  - cbn [dt_okb] in Hok. destruct e as [t'|]; [|discriminate]. cbn [PO] in IHe.
    cbn [write_dt enc_dt dt_code]. rewrite check_dt_code.
    change (DataTypeCode_IsValid DataTypeCodeList) with true. change (DataTypeCodeList =? DataTypeCodeCustom) with false.
    change (DataTypeCodeList =? DataTypeCodeList) with true. cbn [wguard]. rewrite IHe by exact Hok. reflexivity.
  - cbn [dt_okb] in Hok. destruct k as [kt|]; [|discriminate]. destruct v as [vt|]; [|rewrite andb_false_r in Hok; discriminate].
    apply andb_prop in Hok. destruct Hok as [Hk Hv]. cbn [PO] in IHk, IHv.
    cbn [write_dt enc_dt dt_code]. rewrite check_dt_code.
    change (DataTypeCode_IsValid DataTypeCodeMap) with true. change (DataTypeCodeMap =? DataTypeCodeCustom) with false.
    change (DataTypeCodeMap =? DataTypeCodeList) with false. change (DataTypeCodeMap =? DataTypeCodeMap) with true.
    cbn [wguard]. rewrite IHk, IHv by assumption. cbn [wapp]. rewrite <- ?app_assoc. reflexivity.
  - cbn [dt_okb] in Hok. destruct e as [t'|]; [|discriminate]. cbn [PO] in IHe.
    cbn [write_dt enc_dt dt_code]. rewrite check_dt_code.
    change (DataTypeCode_IsValid DataTypeCodeSet) with true. change (DataTypeCodeSet =? DataTypeCodeCustom) with false.
    change (DataTypeCodeSet =? DataTypeCodeList) with false. change (DataTypeCodeSet =? DataTypeCodeMap) with false.
    change (DataTypeCodeSet =? DataTypeCodeSet) with true. cbn [wguard]. rewrite IHe by exact Hok. reflexivity.
  - cbn [dt_okb] in Hok. apply andb_prop in Hok. destruct Hok as [Hn Hall].
    cbn [write_dt enc_dt dt_code]. rewrite check_dt_code.
    change (DataTypeCode_IsValid DataTypeCodeTuple) with true. change (DataTypeCodeTuple =? DataTypeCodeCustom) with false.
    change (DataTypeCodeTuple =? DataTypeCodeList) with false. change (DataTypeCodeTuple =? DataTypeCodeMap) with false.
    change (DataTypeCodeTuple =? DataTypeCodeSet) with false. change (DataTypeCodeTuple =? DataTypeCodeUdt) with false.
    change (DataTypeCodeTuple =? DataTypeCodeTuple) with true. cbn [wguard].
    pose proof (zlen_nonneg fs). unfold write_short. rewrite wrap_u16_small by lia.
    rewrite (wlist_ok _ (fun o : option DataType => match o with Some t' => enc_dt t' | None => [] end)).
    + cbn [wapp]. rewrite <- ?app_assoc. reflexivity.
    + intros o Ho. rewrite forallb_forall in Hall. specialize (Hall o Ho). rewrite Forall_forall in IH. specialize (IH o Ho).
      destruct o as [t'|]; [|discriminate]. cbn [PO] in IH. apply IH. exact Hall.
  - cbn [dt_okb] in Hok. repeat (apply andb_prop in Hok; destruct Hok as [Hok ?]).
    cbn [write_dt enc_dt dt_code]. rewrite check_dt_code.
    change (DataTypeCode_IsValid DataTypeCodeUdt) with true. change (DataTypeCodeUdt =? DataTypeCodeCustom) with false.
    change (DataTypeCodeUdt =? DataTypeCodeList) with false. change (DataTypeCodeUdt =? DataTypeCodeMap) with false.
    change (DataTypeCodeUdt =? DataTypeCodeSet) with false. change (DataTypeCodeUdt =? DataTypeCodeUdt) with true. cbn [wguard].
    rewrite !write_string_ok by lia. pose proof (zlen_nonneg types). unfold write_short. rewrite wrap_u16_small by lia.
    assert (Hlen : length names = length types) by (apply zlen_eq_length; lia).
    replace (zlen names =? zlen types) with true by lia.
    rewrite wzip_combine by exact Hlen.
    rewrite (wlist_ok _ (fun nt : bytes * option DataType => enc_string (fst nt) ++ match snd nt with Some t' => enc_dt t' | None => [] end)).
    + cbn [wapp]. rewrite ezip_combine. rewrite <- ?app_assoc. reflexivity.
    + intros [n o] Hno. cbn [fst snd].
      assert (Hn : In n names) by (eapply in_combine_l; exact Hno). assert (Ho : In o types) by (eapply in_combine_r; exact Hno).
      match goal with Hf : forallb _ names = true |- _ => rewrite forallb_forall in Hf; specialize (Hf n Hn) end.
      match goal with Hf : forallb _ types = true |- _ => rewrite forallb_forall in Hf; specialize (Hf o Ho) end.
      rewrite Forall_forall in IH. specialize (IH o Ho). destruct o as [t'|]; [|discriminate]. cbn [PO] in IH.
      rewrite write_string_ok by lia. rewrite IH by assumption. reflexivity.
Qed.

(* ---------- decoder inverts the encoder (for every remaining input [rest]) ---------- *)
Ltac eval_closed_tests :=
  repeat match goal with
  | |- context [Z.eqb ?a ?b] =>
      let v := eval vm_compute in (Z.eqb a b) in
      match v with
      | true => change (Z.eqb a b) with true
      | false => change (Z.eqb a b) with false
      end
  | |- context [existsb (Z.eqb ?a) primitive_codes] =>
      let v := eval vm_compute in (existsb (Z.eqb a) primitive_codes) in
      match v with
      | true => change (existsb (Z.eqb a) primitive_codes) with true
      | false => change (existsb (Z.eqb a) primitive_codes) with false
      end
  | |- context [DataTypeCode_IsValid ?a] =>
      let v := eval vm_compute in (DataTypeCode_IsValid a) in
      match v with
      | true => change (DataTypeCode_IsValid a) with true
      end
  end.

Lemma enc_dt_min t : (2 <= length (enc_dt t))%nat.
Proof. destruct t; cbn [enc_dt]; rewrite app_length, be_bytes_length; lia. Qed.

Lemma dt_code_range t : dt_okb t = true -> in_u16 (dt_code t).
Proof.
  destruct t; cbn [dt_okb dt_code]; intro H; try (unfold in_u16; cbv [DataTypeCodeCustom DataTypeCodeList DataTypeCodeMap DataTypeCodeSet DataTypeCodeTuple DataTypeCodeUdt]; lia).
  destruct (primitive_codes_facts _ H) as (_ & _ & _ & _ & _ & _ & _ & Hr). exact Hr.
Qed.

Lemma fold_max_in (f : option DataType -> nat) l o : In o l -> (f o <= fold_right (fun o acc => Nat.max (f o) acc) O l)%nat.
Proof. induction l as [|x l IH]; intro Hin; [destruct Hin|]. destruct Hin as [<-|H]; cbn [fold_right]; [lia|]. specialize (IH H). lia. Qed.

Lemma read_dt_app t : dt_okb t = true -> forall version fuel rest, (dt_depth t <= fuel)%nat ->
  read_data_type fuel version (enc_dt t ++ rest) = DOk t rest.
Proof.
  induction t as [c|c|e IHe|k v IHk IHv|e IHe|fs IH|ks name names types IH] using DataType_ind';
    intros Hok version fuel rest Hfuel; pose proof (dt_code_range _ Hok) as Hcode;
    (destruct fuel as [|fuel]; [cbn [dt_depth] in Hfuel; lia|]);
    cbn [read_data_type enc_dt]; rewrite <- app_assoc; unfold bind at 1; rewrite read_short_app by exact Hcode;
    rewrite check_dt_code; cbn [dt_code] in *.
  - cbn [dt_okb] in Hok. destruct (primitive_codes_facts c Hok) as (Hv & _). rewrite Hv, Hok. reflexivity.
  - cbn [dt_okb] in Hok. eval_closed_tests. cbn [rguard andb]. unfold bind at 1, ret at 1.
    unfold bind at 1. rewrite read_string_app by lia. reflexivity.
  - cbn [dt_okb] in Hok. destruct e as [t'|]; [|discriminate]. cbn [PO] in IHe. eval_closed_tests. cbn [rguard andb].
    unfold bind at 1, ret at 1. unfold bind at 1. cbn [dt_depth] in Hfuel. rewrite IHe by (try exact Hok; lia). reflexivity.
  - cbn [dt_okb] in Hok. destruct k as [kt|]; [|discriminate]. destruct v as [vt|]; [|rewrite andb_false_r in Hok; discriminate].
    apply andb_prop in Hok. destruct Hok as [Hk Hv]. cbn [PO] in IHk, IHv. eval_closed_tests. cbn [rguard andb].
    unfold bind at 1, ret at 1. cbn [dt_depth] in Hfuel. rewrite <- app_assoc.
    unfold bind at 1. rewrite IHk by (try exact Hk; lia). unfold bind at 1. rewrite IHv by (try exact Hv; lia). reflexivity.
  - cbn [dt_okb] in Hok. destruct e as [t'|]; [|discriminate]. cbn [PO] in IHe. eval_closed_tests. cbn [rguard andb].
    unfold bind at 1, ret at 1. unfold bind at 1. cbn [dt_depth] in Hfuel. rewrite IHe by (try exact Hok; lia). reflexivity.
  - cbn [dt_okb] in Hok. apply andb_prop in Hok. destruct Hok as [Hn Hall]. eval_closed_tests. cbn [rguard andb].
    unfold bind at 1, ret at 1. rewrite <- app_assoc. pose proof (zlen_nonneg fs).
    unfold bind at 1. rewrite read_short_app by (unfold in_u16; lia).
    unfold bind at 1.
    rewrite (read_count_app (fun o : option DataType => match o with Some t' => enc_dt t' | None => [] end)
               (rmap Some (read_data_type fuel version)) (fun o => o)).
    + rewrite map_id. reflexivity.
    + intros o r Ho. rewrite forallb_forall in Hall. specialize (Hall o Ho). rewrite Forall_forall in IH. specialize (IH o Ho).
      destruct o as [t'|]; [|discriminate]. cbn [PO] in IH. unfold rmap, bind. rewrite IH; [reflexivity|exact Hall|].
      cbn [dt_depth] in Hfuel. pose proof (fold_max_in (fun o => match o with Some t' => dt_depth t' | None => O end) fs (Some t') Ho). cbn beta iota in *. lia.
    + intros o Ho. rewrite forallb_forall in Hall. specialize (Hall o Ho). destruct o as [t'|]; [|discriminate].
      pose proof (enc_dt_min t'). lia.
  - cbn [dt_okb] in Hok. repeat (apply andb_prop in Hok; destruct Hok as [Hok ?]). eval_closed_tests. cbn [rguard andb].
    unfold bind at 1, ret at 1. rewrite <- !app_assoc.
    unfold bind at 1. rewrite read_string_app by lia. unfold bind at 1. rewrite read_string_app by lia.
    pose proof (zlen_nonneg types). unfold bind at 1. rewrite read_short_app by (unfold in_u16; lia).
    assert (Hlen : length names = length types) by (apply zlen_eq_length; lia).
    rewrite ezip_combine. unfold bind at 1.
    replace (zlen types) with (zlen (combine names types)) by (unfold zlen; rewrite combine_length'; [reflexivity|exact Hlen]).
    rewrite (read_count_app (fun nt : bytes * option DataType => enc_string (fst nt) ++ match snd nt with Some t' => enc_dt t' | None => [] end)
               _ (fun nt => nt)).
    + rewrite map_id, map_fst_combine, map_snd_combine by exact Hlen. reflexivity.
    + intros [n o] r Hno. cbn [fst snd].
      assert (Hn : In n names) by (eapply in_combine_l; exact Hno). assert (Ho : In o types) by (eapply in_combine_r; exact Hno).
      match goal with Hf : forallb _ names = true |- _ => rewrite forallb_forall in Hf; specialize (Hf n Hn) end.
      match goal with Hf : forallb _ types = true |- _ => rewrite forallb_forall in Hf; specialize (Hf o Ho) end.
      rewrite Forall_forall in IH. specialize (IH o Ho). destruct o as [t'|]; [|discriminate]. cbn [PO] in IH.
      rewrite <- app_assoc. unfold bind at 1. rewrite read_string_app by lia.
      unfold bind at 1. rewrite IH; [reflexivity|assumption|].
      cbn [dt_depth] in Hfuel. pose proof (fold_max_in (fun o => match o with Some t' => dt_depth t' | None => O end) types (Some t') Ho). cbn beta iota in *. lia.
    + intros [n o] Hno. cbn [fst]. rewrite app_length. pose proof (enc_string_nonempty n). lia.
Qed.

(* the nesting depth is bounded by the length of the encoding, so fuel = number of input bytes always suffices *)
Lemma fold_max_le_concat (eo : option DataType -> bytes) (od : option DataType -> nat) l :
  (forall o, In o l -> (od o <= length (eo o))%nat) ->
  (fold_right (fun o acc => Nat.max (od o) acc) O l <= length (concat (map eo l)))%nat.
Proof.
  induction l as [|o l IH]; intro H; cbn [fold_right map concat]; [lia|].
  rewrite app_length. pose proof (H o (or_introl eq_refl)). assert (forall o', In o' l -> (od o' <= length (eo o'))%nat) by (intros; apply H; right; assumption).
  specialize (IH H1). lia.
Qed.

Lemma concat_types_le_combine (names : list bytes) (types : list (option DataType)) (eo : option DataType -> bytes) :
  length names = length types ->
  (length (concat (map eo types)) <= length (concat (map (fun nt : bytes * option DataType => enc_string (fst nt) ++ eo (snd nt)) (combine names types))))%nat.
Proof.
  revert names; induction types as [|o ts IH]; intros [|n ns] H; cbn [length combine map concat] in *; try lia.
  rewrite !app_length. cbn [fst snd]. specialize (IH ns). lia.
Qed.

Lemma dt_depth_bound t : dt_okb t = true -> (dt_depth t <= length (enc_dt t))%nat.
Proof.
  induction t as [c|c|e IHe|k v IHk IHv|e IHe|fs IH|ks name names types IH] using DataType_ind'; intro Hok;
    cbn [dt_okb] in Hok; cbn [dt_depth enc_dt]; rewrite app_length, be_bytes_length.
  - lia.
  - lia.
  - destruct e as [t'|]; [|discriminate]. cbn [PO] in IHe. specialize (IHe Hok). lia.
  - destruct k as [kt|]; [|discriminate]. destruct v as [vt|]; [|rewrite andb_false_r in Hok; discriminate].
    apply andb_prop in Hok. destruct Hok as [Hk Hv]. cbn [PO] in IHk, IHv. specialize (IHk Hk). specialize (IHv Hv).
    rewrite app_length. lia.
  - destruct e as [t'|]; [|discriminate]. cbn [PO] in IHe. specialize (IHe Hok). lia.
  - apply andb_prop in Hok. destruct Hok as [_ Hall]. rewrite app_length, be_bytes_length.
    pose proof (fold_max_le_concat (fun o : option DataType => match o with Some t' => enc_dt t' | None => [] end)
                  (fun o => match o with Some t' => dt_depth t' | None => O end) fs) as Hm.
    cbn beta in Hm. enough (forall o, In o fs -> (match o with Some t' => dt_depth t' | None => O end <= length (match o with Some t' => enc_dt t' | None => [] end))%nat) as Hall'.
    { specialize (Hm Hall'). lia. }
    intros o Ho. rewrite forallb_forall in Hall. specialize (Hall o Ho). rewrite Forall_forall in IH. specialize (IH o Ho).
    destruct o as [t'|]; [|discriminate]. cbn [PO] in IH. apply IH. exact Hall.
  - repeat (apply andb_prop in Hok; destruct Hok as [Hok ?]). rewrite !app_length, be_bytes_length.
    match goal with Hf : forallb _ types = true |- _ => rename Hf into Hall end.
    assert (Hlen : length names = length types) by (apply zlen_eq_length; lia).
    rewrite ezip_combine.
    pose proof (concat_types_le_combine names types (fun o : option DataType => match o with Some t' => enc_dt t' | None => [] end) Hlen) as Hc.
    pose proof (fold_max_le_concat (fun o : option DataType => match o with Some t' => enc_dt t' | None => [] end)
                  (fun o => match o with Some t' => dt_depth t' | None => O end) types) as Hm.
    cbn beta in Hm, Hc. cbn beta. enough (forall o, In o types -> (match o with Some t' => dt_depth t' | None => O end <= length (match o with Some t' => enc_dt t' | None => [] end))%nat) as Hall'.
    { specialize (Hm Hall'). pose proof (Nat.le_trans _ _ _ Hm Hc) as Ht. clear Hm Hc Hall'.
      set (X := length (concat _)) in *. set (F := fold_right _ _ _) in *. lia. }
    intros o Ho. rewrite forallb_forall in Hall. specialize (Hall o Ho). rewrite Forall_forall in IH. specialize (IH o Ho).
    destruct o as [t'|]; [|discriminate]. cbn [PO] in IH. apply IH. exact Hall.
Qed.

(* the entry point used by the models: fuel = number of input bytes *)
Theorem read_data_type_roundtrip t version rest : dt_okb t = true ->
  read_data_type (length (enc_dt t ++ rest)) version (enc_dt t ++ rest) = DOk t rest.
Proof.
  intro H. apply read_dt_app; [exact H|]. rewrite app_length. pose proof (dt_depth_bound t H). lia.
Qed.
