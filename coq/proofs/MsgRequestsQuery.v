(* QueryOptions, ContinuousPagingOptions, QUERY and EXECUTE of model/MsgRequests.v: round trip (arbitrary suffix),
   declared length, totality, closure of the normal form, non-vacuity Examples. *)
From Coq Require Import ZArith List Bool Lia.
From Coq Require Import ZifyBool ZifyNat.
From GCNP Require Import base.GoInt base.Bytes base.Codec base.StrBytes gen.Constants_gen model.Prim model.DataType
  model.MsgTypes model.MsgRequests proofs.PrimProofs proofs.PrimTotal proofs.MsgRequestsLib proofs.MsgRequestsSimple.
From Coq Require String.
Import String.StringSyntax.
Import ListNotations.
Open Scope Z_scope.
Ltac Zify.zify_post_hook ::= Z.div_mod_to_equations.
Local Notation B s := (bytes_of_string s) (only parsing).

(* ---------- consistency levels ---------- *)
Lemma consistency_valid_range c : is_ok (CheckValidConsistencyLevel c) = true -> in_u16 c.
Proof.
  unfold CheckValidConsistencyLevel, ConsistencyLevel_IsValid, in_u16.
  repeat match goal with |- context [Z.eqb c ?k] => destruct (Z.eqb_spec c k); [subst c; intros _; vm_compute; split; [discriminate|reflexivity]|] end.
  cbn. discriminate.
Qed.
Lemma consistency_serial_valid c : is_ok (CheckSerialConsistencyLevel c) = true -> is_ok (CheckValidConsistencyLevel c) = true.
Proof.
  unfold CheckSerialConsistencyLevel, ConsistencyLevel_IsSerial.
  repeat match goal with |- context [Z.eqb c ?k] => destruct (Z.eqb_spec c k); [subst c; intros _; reflexivity|] end.
  cbn. discriminate.
Qed.

(* ---------- the flags word of QueryOptions: one bit per feature ---------- *)
Ltac qo_unfold_flags :=
  cbv [QueryOptions_Flags qo_PositionalValues qo_NamedValues qo_SkipMetadata qo_PageSize qo_PageSizeInBytes qo_PagingState
       qo_SerialConsistency qo_DefaultTimestamp qo_Keyspace qo_NowInSeconds qo_ContinuousPagingOptions].
Lemma qo_flags_spec o : let f := QueryOptions_Flags o in
  QueryFlag_Contains f QueryFlagValues = (is_some (qo_PositionalValues o) || is_some (qo_NamedValues o)) /\
  QueryFlag_Contains f QueryFlagValueNames = (negb (is_some (qo_PositionalValues o)) && is_some (qo_NamedValues o)) /\
  QueryFlag_Contains f QueryFlagSkipMetadata = qo_SkipMetadata o /\
  QueryFlag_Contains f QueryFlagPageSize = (qo_PageSize o >? 0) /\
  QueryFlag_Contains f QueryFlagDsePageSizeBytes = ((qo_PageSize o >? 0) && qo_PageSizeInBytes o) /\
  QueryFlag_Contains f QueryFlagPagingState = is_some (qo_PagingState o) /\
  QueryFlag_Contains f QueryFlagSerialConsistency = is_some (qo_SerialConsistency o) /\
  QueryFlag_Contains f QueryFlagDefaultTimestamp = is_some (qo_DefaultTimestamp o) /\
  QueryFlag_Contains f QueryFlagWithKeyspace = nonempty (qo_Keyspace o) /\
  QueryFlag_Contains f QueryFlagNowInSeconds = is_some (qo_NowInSeconds o) /\
  QueryFlag_Contains f QueryFlagDseWithContinuousPagingOptions = is_some (qo_ContinuousPagingOptions o).
Proof.
  destruct o as [cons pos named skip ps inb pgs ser ts ks now cpo]. qo_unfold_flags.
  destruct pos, named, (ps >? 0), inb; cbn [is_some]; repeat split; contains_tb; reflexivity.
Qed.
Lemma qo_flags_range o : 0 <= QueryOptions_Flags o < 4294967296.
Proof.
  destruct o as [cons pos named skip ps inb pgs ser ts ks now cpo]. qo_unfold_flags. change 4294967296 with (2 ^ 32).
  destruct pos, named, (ps >? 0); flags_range.
Qed.
Lemma qo_flags_small o : is_some (qo_NowInSeconds o) = false -> ((qo_PageSize o >? 0) && qo_PageSizeInBytes o) = false ->
  is_some (qo_ContinuousPagingOptions o) = false -> 0 <= QueryOptions_Flags o < 256.
Proof.
  destruct o as [cons pos named skip ps inb pgs ser ts ks now cpo]. qo_unfold_flags. change 256 with (2 ^ 8).
  intros -> H ->. destruct pos, named, (ps >? 0); cbn [andb] in H; try subst inb; cbn [flag_if]; flags_range.
Qed.

Lemma flags_supported_in version flags flag : flags_supportedb version flags = true -> In flag qo_flag_list ->
  QueryFlag_Contains flags flag = true -> ProtocolVersion_SupportsQueryFlag version flag = true.
Proof.
  unfold flags_supportedb. intros H Hin Hc. rewrite forallb_forall in H. specialize (H flag Hin). rewrite Hc in H. exact H.
Qed.
Lemma dse_uses4 v : ProtocolVersion_IsDse v = true -> ProtocolVersion_Uses4BytesQueryFlags v = true.
Proof.
  unfold ProtocolVersion_IsDse, ProtocolVersion_Uses4BytesQueryFlags.
  destruct (Z.eqb_spec v ProtocolVersionDse1) as [->|]; [reflexivity|]. destruct (Z.eqb_spec v ProtocolVersionDse2) as [->|]; [reflexivity|discriminate].
Qed.
Lemma supports_now_uses4 v : ProtocolVersion_SupportsQueryFlag v QueryFlagNowInSeconds = true -> ProtocolVersion_Uses4BytesQueryFlags v = true.
Proof.
  change (ProtocolVersion_SupportsQueryFlag v QueryFlagNowInSeconds) with
    (((Z.geb v ProtocolVersion5) && (negb (Z.eqb v ProtocolVersionDse1))) && (negb (Z.eqb v ProtocolVersionDse2))).
  unfold ProtocolVersion_Uses4BytesQueryFlags. intro H. apply andb_prop in H. destruct H as [H _]. apply andb_prop in H. destruct H as [H _]. exact H.
Qed.
Lemma supports_dsebytes_dse v : ProtocolVersion_SupportsQueryFlag v QueryFlagDsePageSizeBytes = true -> ProtocolVersion_IsDse v = true.
Proof. intro H. exact H. Qed.
Lemma supports_cpo_dse v : ProtocolVersion_SupportsQueryFlag v QueryFlagDseWithContinuousPagingOptions = true -> ProtocolVersion_IsDse v = true.
Proof. intro H. exact H. Qed.

(* ================= ContinuousPagingOptions ================= *)
Definition bytes_cpo (v : Z) (c : ContinuousPagingOptions) : bytes :=
  be_bytes 4 (cpo_MaxPages c) ++ be_bytes 4 (cpo_PagesPerSecond c) ++
  (if Z.geb v ProtocolVersionDse2 then be_bytes 4 (cpo_NextPages c) else []).
Lemma ContinuousPagingOptions_facts v c : ContinuousPagingOptions_okb v c = true ->
  facts (enc_ContinuousPagingOptions v (Some c)) (len_ContinuousPagingOptions v (Some c)) (dec_ContinuousPagingOptions v) (bytes_cpo v c) c.
Proof.
  unfold ContinuousPagingOptions_okb. intro H. bsplit H.
  pose proof (i32_okb_in _ H3) as Hm. pose proof (i32_okb_in _ H2) as Hp. pose proof (i32_okb_in _ H1) as Hn.
  destruct c as [mx pps np]. cbn [cpo_MaxPages cpo_PagesPerSecond cpo_NextPages] in *.
  unfold facts, bytes_cpo, enc_ContinuousPagingOptions, len_ContinuousPagingOptions, dec_ContinuousPagingOptions.
  cbn [cpo_MaxPages cpo_PagesPerSecond cpo_NextPages]. rewrite H. repeat split.
  - cbn [wguard]. rewrite wapp_nil_l. unfold write_int. destruct (Z.geb v ProtocolVersionDse2); cbn [wapp]; rewrite ?app_nil_r; reflexivity.
  - intro rest. cbn [rguard]. unfold bind at 1, ret at 1. rewrite <- !app_assoc.
    unfold bind at 1. rewrite read_int_app by exact Hm. unfold bind at 1. rewrite read_int_app by exact Hp.
    destruct (Z.geb v ProtocolVersionDse2).
    + unfold bind. rewrite read_int_app by exact Hn. reflexivity.
    + cbn [orb] in H0. apply Z.eqb_eq in H0. subst np. reflexivity.
  - cbn [ladd]. destruct (Z.geb v ProtocolVersionDse2); cbn [ladd]; rewrite !zlen_app, !be_bytes_zlen; reflexivity.
Qed.
Theorem ContinuousPagingOptions_roundtrip v c : ContinuousPagingOptions_okb v c = true ->
  exists b, enc_ContinuousPagingOptions v (Some c) = Ok b /\ forall rest, dec_ContinuousPagingOptions v (b ++ rest) = DOk c rest.
Proof. intro H. exact (facts_roundtrip _ _ _ _ _ (ContinuousPagingOptions_facts v c H)). Qed.
Theorem ContinuousPagingOptions_length v c b : ContinuousPagingOptions_okb v c = true ->
  enc_ContinuousPagingOptions v (Some c) = Ok b -> len_ContinuousPagingOptions v (Some c) = Ok (zlen b).
Proof. intro H. exact (facts_length _ _ _ _ _ (ContinuousPagingOptions_facts v c H) b). Qed.
Lemma total_dec_cpo v : total (dec_ContinuousPagingOptions v).
Proof. unfold dec_ContinuousPagingOptions. total_tac. Qed.
Theorem ContinuousPagingOptions_total v bs : dec_ContinuousPagingOptions v bs <> DPanic /\ dec_ContinuousPagingOptions v bs <> DFuel.
Proof. apply total_at, total_dec_cpo. Qed.
Example ContinuousPagingOptions_example :
  ContinuousPagingOptions_okb 66 {| cpo_MaxPages := 10; cpo_PagesPerSecond := 2; cpo_NextPages := 3 |} = true
  /\ ContinuousPagingOptions_okb 65 {| cpo_MaxPages := 10; cpo_PagesPerSecond := 2; cpo_NextPages := 0 |} = true.
Proof. vm_compute. split; reflexivity. Qed.

(* ================= the optional parts of QueryOptions ================= *)
Definition bytes_qo_values (o : QueryOptions) : bytes :=
  match qo_PositionalValues o with
  | Some l => enc_positional_values l
  | None => match qo_NamedValues o with Some l => enc_named_values l | None => [] end
  end.
Definition bytes_opt {A} (f : A -> bytes) (o : option A) : bytes := match o with Some x => f x | None => [] end.
Definition bytes_qo_page_size (o : QueryOptions) : bytes := if qo_PageSize o >? 0 then be_bytes 4 (qo_PageSize o) else [].
Definition bytes_qo_paging_state (o : QueryOptions) : bytes := bytes_opt (fun b => enc_bytes (Some b)) (qo_PagingState o).
Definition bytes_qo_serial (o : QueryOptions) : bytes := bytes_opt (be_bytes 2) (qo_SerialConsistency o).
Definition bytes_qo_timestamp (o : QueryOptions) : bytes := bytes_opt (be_bytes 8) (qo_DefaultTimestamp o).
Definition bytes_qo_keyspace (o : QueryOptions) : bytes := if nonempty (qo_Keyspace o) then enc_string (qo_Keyspace o) else [].
Definition bytes_qo_now (o : QueryOptions) : bytes := bytes_opt (be_bytes 4) (qo_NowInSeconds o).
Definition bytes_qo_cpo (v : Z) (o : QueryOptions) : bytes := bytes_opt (bytes_cpo v) (qo_ContinuousPagingOptions o).

Definition qo_vals' (o : QueryOptions) :=
  (option_map (map novalue) (qo_PositionalValues o),
   match qo_PositionalValues o with
   | Some _ => None
   | None => option_map (map (fun kv => (fst kv, novalue (snd kv)))) (qo_NamedValues o)
   end).

(* values *)
Lemma qo_values_facts v flags o :
  QueryFlag_Contains flags QueryFlagValues = (is_some (qo_PositionalValues o) || is_some (qo_NamedValues o)) ->
  QueryFlag_Contains flags QueryFlagValueNames = (negb (is_some (qo_PositionalValues o)) && is_some (qo_NamedValues o)) ->
  opt_okb (values_okb v) (qo_PositionalValues o) = true ->
  opt_okb (named_values_okb v) (qo_NamedValues o) = true ->
  facts (enc_qo_values v flags o) (len_qo_values flags o) (dec_qo_values v flags) (bytes_qo_values o) (qo_vals' o).
Proof.
  intros Fv Fn Hpos Hnamed.
  unfold facts, enc_qo_values, len_qo_values, dec_qo_values, bytes_qo_values, qo_vals'. rewrite Fv, Fn.
  destruct (qo_PositionalValues o) as [pl|]; cbn [is_some orb negb andb olist option_map opt_okb] in Hpos |- *.
  - pose proof (values_okb_ok _ _ Hpos) as Hp. repeat split.
    + apply write_positional_values_ok. exact Hp.
    + intro rest. unfold bind. rewrite read_positional_values_app by exact Hp. reflexivity.
    + apply (len_positional_values_ok v). exact Hp.
  - destruct (qo_NamedValues o) as [nl|]; cbn [is_some orb negb andb olist option_map opt_okb] in Hnamed |- *.
    + destruct (named_values_okb_ok _ _ Hnamed) as [Hn Hd]. repeat split.
      * apply write_named_values_ok. exact Hn.
      * intro rest. unfold bind. rewrite read_named_values_app by exact Hn. unfold ret.
        rewrite dedup_last_nodup by (rewrite nodup_keysb_map; exact Hd). reflexivity.
      * apply (len_named_values_ok v). exact Hn.
    + repeat split.
Qed.

(* page size *)
Lemma qo_page_size_facts flags o :
  QueryFlag_Contains flags QueryFlagPageSize = (qo_PageSize o >? 0) ->
  QueryFlag_Contains flags QueryFlagDsePageSizeBytes = ((qo_PageSize o >? 0) && qo_PageSizeInBytes o) ->
  i32_okb (qo_PageSize o) = true ->
  facts (enc_qo_page_size flags o) (if QueryFlag_Contains flags QueryFlagPageSize then Ok LengthOfInt else Ok 0)
        (dec_qo_page_size flags) (bytes_qo_page_size o)
        (if qo_PageSize o >? 0 then qo_PageSize o else 0, (qo_PageSize o >? 0) && qo_PageSizeInBytes o).
Proof.
  intros Fp Fb Hps.
  unfold facts, enc_qo_page_size, dec_qo_page_size, bytes_qo_page_size. rewrite Fb, Fp. apply i32_okb_in in Hps.
  destruct (qo_PageSize o >? 0); repeat split.
  - intro rest. unfold bind. rewrite read_int_app by exact Hps. reflexivity.
Qed.

(* paging state *)
Lemma qo_paging_state_facts flags o :
  QueryFlag_Contains flags QueryFlagPagingState = is_some (qo_PagingState o) ->
  lstr_okb (olist (qo_PagingState o)) = true ->
  facts (enc_qo_paging_state flags o) (if QueryFlag_Contains flags QueryFlagPagingState then Ok (len_bytes (qo_PagingState o)) else Ok 0)
        (dec_qo_paging_state flags) (bytes_qo_paging_state o) (qo_PagingState o).
Proof.
  intros Fs Hpgs.
  unfold facts, enc_qo_paging_state, dec_qo_paging_state, bytes_qo_paging_state. rewrite Fs. apply lstr_okb_le in Hpgs.
  destruct (qo_PagingState o) as [b|]; cbn [is_some bytes_opt]; repeat split.
  - apply write_bytes_ok. exact Hpgs.
  - intro rest. apply read_bytes_app. exact Hpgs.
  - rewrite enc_bytes_len. reflexivity.
Qed.

(* serial consistency *)
Lemma qo_serial_facts flags o :
  QueryFlag_Contains flags QueryFlagSerialConsistency = is_some (qo_SerialConsistency o) ->
  opt_okb (fun c => is_ok (CheckSerialConsistencyLevel c)) (qo_SerialConsistency o) = true ->
  facts (enc_qo_serial flags o) (if QueryFlag_Contains flags QueryFlagSerialConsistency then Ok LengthOfShort else Ok 0)
        (dec_qo_serial flags) (bytes_qo_serial o) (qo_SerialConsistency o).
Proof.
  intros Fc Hser.
  unfold facts, enc_qo_serial, dec_qo_serial, bytes_qo_serial. rewrite Fc.
  destruct (qo_SerialConsistency o) as [c|]; cbn [is_some bytes_opt opt_okb] in Hser |- *; repeat split.
  - rewrite Hser. cbn [wguard]. rewrite wapp_nil_l. unfold write_short.
    pose proof (consistency_valid_range c (consistency_serial_valid c Hser)). rewrite wrap_u16_small by (unfold in_u16 in *; lia). reflexivity.
  - intro rest. pose proof (consistency_serial_valid c Hser) as Hv. pose proof (consistency_valid_range c Hv).
    unfold bind at 1. rewrite read_short_app by assumption. rewrite Hv. reflexivity.
Qed.

(* default timestamp *)
Lemma qo_timestamp_facts flags o :
  QueryFlag_Contains flags QueryFlagDefaultTimestamp = is_some (qo_DefaultTimestamp o) ->
  opt_okb i64_okb (qo_DefaultTimestamp o) = true ->
  facts (enc_qo_timestamp flags o) (if QueryFlag_Contains flags QueryFlagDefaultTimestamp then Ok LengthOfLong else Ok 0)
        (dec_qo_timestamp flags) (bytes_qo_timestamp o) (qo_DefaultTimestamp o).
Proof.
  intros Ft Hts.
  unfold facts, enc_qo_timestamp, dec_qo_timestamp, bytes_qo_timestamp. rewrite Ft.
  destruct (qo_DefaultTimestamp o) as [t|]; cbn [is_some bytes_opt opt_okb] in Hts |- *; repeat split.
  - intro rest. unfold rmap, bind. rewrite read_long_app by (apply i64_okb_in; exact Hts). reflexivity.
Qed.

(* keyspace *)
Lemma qo_keyspace_facts flags o :
  QueryFlag_Contains flags QueryFlagWithKeyspace = nonempty (qo_Keyspace o) ->
  str_okb (qo_Keyspace o) = true ->
  facts (enc_qo_keyspace flags o) (if QueryFlag_Contains flags QueryFlagWithKeyspace then Ok (len_string (qo_Keyspace o)) else Ok 0)
        (dec_qo_keyspace flags) (bytes_qo_keyspace o) (qo_Keyspace o).
Proof.
  intros Fk Hks.
  unfold facts, enc_qo_keyspace, dec_qo_keyspace, bytes_qo_keyspace. rewrite Fk. apply str_okb_le in Hks.
  destruct (nonempty (qo_Keyspace o)) eqn:E; repeat split.
  - apply write_string_ok. exact Hks.
  - intro rest. apply read_string_app. exact Hks.
  - rewrite enc_string_len. reflexivity.
  - intro rest. apply nonempty_false in E. rewrite E. reflexivity.
Qed.

(* now-in-seconds *)
Lemma qo_now_facts flags o :
  QueryFlag_Contains flags QueryFlagNowInSeconds = is_some (qo_NowInSeconds o) ->
  opt_okb i32_okb (qo_NowInSeconds o) = true ->
  facts (enc_qo_now flags o) (if QueryFlag_Contains flags QueryFlagNowInSeconds then Ok LengthOfInt else Ok 0)
        (dec_qo_now flags) (bytes_qo_now o) (qo_NowInSeconds o).
Proof.
  intros Fw Hnow.
  unfold facts, enc_qo_now, dec_qo_now, bytes_qo_now. rewrite Fw.
  destruct (qo_NowInSeconds o) as [t|]; cbn [is_some bytes_opt opt_okb] in Hnow |- *; repeat split.
  - intro rest. unfold rmap, bind. rewrite read_int_app by (apply i32_okb_in; exact Hnow). reflexivity.
Qed.

(* continuous paging options *)
Lemma qo_cpo_facts v flags o :
  QueryFlag_Contains flags QueryFlagDseWithContinuousPagingOptions = is_some (qo_ContinuousPagingOptions o) ->
  opt_okb (ContinuousPagingOptions_okb v) (qo_ContinuousPagingOptions o) = true ->
  facts (enc_qo_cpo v flags o)
        (if QueryFlag_Contains flags QueryFlagDseWithContinuousPagingOptions then len_ContinuousPagingOptions v (qo_ContinuousPagingOptions o) else Ok 0)
        (dec_qo_cpo v flags) (bytes_qo_cpo v o) (qo_ContinuousPagingOptions o).
Proof.
  intros Fo Hcpo.
  unfold facts, enc_qo_cpo, dec_qo_cpo, bytes_qo_cpo. rewrite Fo.
  destruct (qo_ContinuousPagingOptions o) as [c|]; cbn [is_some bytes_opt opt_okb] in Hcpo |- *; [|repeat split].
  destruct (ContinuousPagingOptions_facts v c Hcpo) as (E1 & E2 & E3). repeat split; [exact E1| |exact E3].
  intro rest. unfold rmap, bind. rewrite E2. reflexivity.
Qed.

(* ================= QueryOptions ================= *)
Definition bytes_QueryOptions (v : Z) (o : QueryOptions) : bytes :=
  be_bytes 2 (qo_Consistency o) ++ bytes_query_flags v (QueryOptions_Flags o) ++
  bytes_qo_values o ++ bytes_qo_page_size o ++ bytes_qo_paging_state o ++ bytes_qo_serial o ++ bytes_qo_timestamp o ++
  bytes_qo_keyspace o ++ bytes_qo_now o ++ bytes_qo_cpo v o.

Lemma qo_flags_byte v o : flags_supportedb v (QueryOptions_Flags o) = true ->
  ProtocolVersion_Uses4BytesQueryFlags v = false -> 0 <= QueryOptions_Flags o < 256.
Proof.
  intros Hs Hu. destruct (qo_flags_spec o) as (_ & _ & _ & _ & Fb & _ & _ & _ & _ & Fw & Fo). cbv zeta in *.
  assert (Hin : forall fl, In fl [QueryFlagNowInSeconds; QueryFlagDsePageSizeBytes; QueryFlagDseWithContinuousPagingOptions] -> In fl qo_flag_list).
  { unfold qo_flag_list. cbn [In]. intuition. }
  apply qo_flags_small.
  - destruct (is_some (qo_NowInSeconds o)) eqn:E1; [|reflexivity].
    pose proof (flags_supported_in _ _ _ Hs (Hin _ (or_introl eq_refl)) Fw) as S. apply supports_now_uses4 in S. congruence.
  - destruct ((qo_PageSize o >? 0) && qo_PageSizeInBytes o) eqn:E2; [|reflexivity].
    pose proof (flags_supported_in _ _ _ Hs (Hin _ (or_intror (or_introl eq_refl))) Fb) as S. apply dse_uses4 in S. congruence.
  - destruct (is_some (qo_ContinuousPagingOptions o)) eqn:E3; [|reflexivity].
    pose proof (flags_supported_in _ _ _ Hs (Hin _ (or_intror (or_intror (or_introl eq_refl)))) Fo) as S. apply dse_uses4 in S. congruence.
Qed.

Lemma QueryOptions_facts v o : QueryOptions_okb v o = true ->
  facts (enc_QueryOptions v (Some o)) (len_QueryOptions v (Some o)) (dec_QueryOptions v) (bytes_QueryOptions v o) (norm_QueryOptions v o).
Proof.
  unfold QueryOptions_okb. intro H. bsplit H.
  destruct (qo_flags_spec o) as (Fv & Fn & Fk & Fp & Fb & Fs & Fc & Ft & Fy & Fw & Fo). cbv zeta in *.
  pose proof (qo_flags_byte v o H9) as Hbyte.
  pose proof (consistency_valid_range _ H) as Hcons.
  pose proof (qo_flags_range o) as Hrange.
  destruct (qo_values_facts v _ o Fv Fn H8 H7) as (V1 & V2 & V3).
  destruct (qo_page_size_facts _ o Fp Fb H6) as (P1 & P2 & P3).
  destruct (qo_paging_state_facts _ o Fs H5) as (S1 & S2 & S3).
  destruct (qo_serial_facts _ o Fc H4) as (C1 & C2 & C3).
  destruct (qo_timestamp_facts _ o Ft H3) as (T1 & T2 & T3).
  destruct (qo_keyspace_facts _ o Fy H2) as (K1 & K2 & K3).
  destruct (qo_now_facts _ o Fw H1) as (N1 & N2 & N3).
  destruct (qo_cpo_facts v _ o Fo H0) as (O1 & O2 & O3).
  unfold facts, bytes_QueryOptions. repeat split.
  - unfold enc_QueryOptions. cbv zeta. rewrite H. cbn [wguard]. rewrite wapp_nil_l.
    unfold write_short. rewrite wrap_u16_small by exact Hcons.
    rewrite (enc_query_flags_ok v _ Hbyte), V1, P1, S1, C1, T1, K1, N1, O1. reflexivity.
  - intro rest. unfold dec_QueryOptions. rewrite <- !app_assoc.
    unfold bind at 1. rewrite read_short_app by exact Hcons. rewrite H. cbn [rguard]. unfold bind at 1, ret at 1.
    unfold bind at 1. rewrite (dec_query_flags_app v _ _ Hrange Hbyte).
    unfold bind at 1. rewrite V2. cbv zeta.
    unfold bind at 1. rewrite P2. unfold bind at 1. rewrite S2. unfold bind at 1. rewrite C2.
    unfold bind at 1. rewrite T2. unfold bind at 1. rewrite K2. unfold bind at 1. rewrite N2.
    unfold bind at 1. rewrite O2. unfold ret. rewrite Fk. reflexivity.
  - unfold len_QueryOptions. cbv zeta. rewrite (len_query_flags_ok v (QueryOptions_Flags o)), V3, P3, S3, C3, T3, K3, N3, O3.
    cbn [ladd]. rewrite !zlen_app, be_bytes_zlen. unfold LengthOfShort. f_equal; lia.
Qed.

Definition oqo (oo : option QueryOptions) : QueryOptions := match oo with Some o => o | None => default_QueryOptions end.
Definition bytes_oQueryOptions (v : Z) (oo : option QueryOptions) : bytes := bytes_QueryOptions v (oqo oo).
Lemma oQueryOptions_facts v oo : oQueryOptions_okb v oo = true ->
  facts (enc_QueryOptions v oo) (len_QueryOptions v oo) (dec_QueryOptions v) (bytes_oQueryOptions v oo) (norm_QueryOptions v (oqo oo)).
Proof. intro H. destruct oo as [o|]; exact (QueryOptions_facts v _ H). Qed.

Theorem QueryOptions_roundtrip v oo : oQueryOptions_okb v oo = true ->
  exists b, enc_QueryOptions v oo = Ok b /\ forall rest, dec_QueryOptions v (b ++ rest) = DOk (norm_QueryOptions v (oqo oo)) rest.
Proof. intro H. exact (facts_roundtrip _ _ _ _ _ (oQueryOptions_facts v oo H)). Qed.
Theorem QueryOptions_length v oo b : oQueryOptions_okb v oo = true -> enc_QueryOptions v oo = Ok b -> len_QueryOptions v oo = Ok (zlen b).
Proof. intro H. exact (facts_length _ _ _ _ _ (oQueryOptions_facts v oo H) b). Qed.
Lemma total_dec_QueryOptions v : total (dec_QueryOptions v).
Proof.
  unfold dec_QueryOptions, dec_qo_values, dec_qo_page_size, dec_qo_paging_state, dec_qo_serial, dec_qo_timestamp, dec_qo_keyspace,
    dec_qo_now, dec_qo_cpo.
  pose proof (total_dec_cpo v). total_tac.
Qed.
Theorem QueryOptions_total v bs : dec_QueryOptions v bs <> DPanic /\ dec_QueryOptions v bs <> DFuel.
Proof. apply total_at, total_dec_QueryOptions. Qed.

(* normal form *)
Lemma nvalue_idem x : nvalue (nvalue x) = nvalue x.
Proof.
  destruct x as [t c]. unfold nvalue, NewValue. cbn [value_type value_contents]. unfold ValueTypeRegular.
  destruct (Z.eqb_spec t 0) as [->|Ht].
  - destruct c; cbn [value_type value_contents Z.eqb]; reflexivity.
  - cbn [value_type value_contents]. destruct (Z.eqb_spec t 0); [contradiction|reflexivity].
Qed.
Lemma novalue_idem x : novalue (novalue x) = novalue x.
Proof. destruct x as [x|]; [|reflexivity]. cbn [novalue option_map]. rewrite nvalue_idem. reflexivity. Qed.
Lemma value_okb_novalue v x : value_okb v x = true -> value_okb v (novalue x) = true.
Proof. destruct x as [x|]; [|discriminate]. intro H. apply value_okb_nvalue. exact H. Qed.
Lemma named_values_okb_norm v nl : named_values_okb v nl = true ->
  named_values_okb v (map (fun kv => (fst kv, novalue (snd kv))) nl) = true.
Proof.
  unfold named_values_okb. intro H. bsplit H.
  assert (Hl : zlen (map (fun kv : bytes * option Value => (fst kv, novalue (snd kv))) nl) = zlen nl) by (unfold zlen; rewrite map_length; reflexivity).
  rewrite Hl, nodup_keysb_map, H, H1. cbn [andb]. apply forallb_forall. intros x Hx. apply in_map_iff in Hx.
  destruct Hx as ([k y] & <- & Hy). rewrite forallb_forall in H0. specialize (H0 _ Hy). cbn [fst snd] in *.
  apply andb_prop in H0. destruct H0 as [Hk Hv]. rewrite Hk, (value_okb_novalue _ _ Hv). reflexivity.
Qed.
Lemma norm_QueryOptions_flags v o : QueryOptions_Flags (norm_QueryOptions v o) = QueryOptions_Flags o.
Proof.
  destruct o as [cons pos named skip ps inb pgs ser ts ks now cpo].
  cbv [QueryOptions_Flags norm_QueryOptions qo_PositionalValues qo_NamedValues qo_SkipMetadata qo_PageSize qo_PageSizeInBytes qo_PagingState
       qo_SerialConsistency qo_DefaultTimestamp qo_Keyspace qo_NowInSeconds qo_ContinuousPagingOptions].
  destruct pos, named; cbn [option_map]; destruct (ps >? 0) eqn:E; rewrite ?E; destruct inb; cbn [andb]; reflexivity.
Qed.
Theorem norm_QueryOptions_ok v o : QueryOptions_okb v o = true ->
  QueryOptions_okb v (norm_QueryOptions v o) = true /\ norm_QueryOptions v (norm_QueryOptions v o) = norm_QueryOptions v o.
Proof.
  intro H. split.
  - unfold QueryOptions_okb in *. rewrite norm_QueryOptions_flags. bsplit H.
    destruct o as [cons pos named skip ps inb pgs ser ts ks now cpo].
    cbn [norm_QueryOptions qo_Consistency qo_PositionalValues qo_NamedValues qo_SkipMetadata qo_PageSize qo_PageSizeInBytes qo_PagingState
       qo_SerialConsistency qo_DefaultTimestamp qo_Keyspace qo_NowInSeconds qo_ContinuousPagingOptions] in *.
    rewrite H, H9, H5, H4, H3, H2, H1, H0. cbn [andb]. rewrite !andb_true_r.
    apply andb_true_intro. split; [apply andb_true_intro; split|].
    + destruct pos as [pl|]; [|reflexivity]. cbn [option_map opt_okb] in *. apply values_okb_norm. exact H8.
    + destruct pos as [pl|]; [reflexivity|]. destruct named as [nl|]; [|reflexivity]. cbn [option_map opt_okb] in *.
      apply named_values_okb_norm. exact H7.
    + destruct (ps >? 0); [exact H6|reflexivity].
  - destruct o as [cons pos named skip ps inb pgs ser ts ks now cpo]. unfold norm_QueryOptions.
    cbn [qo_Consistency qo_PositionalValues qo_NamedValues qo_SkipMetadata qo_PageSize qo_PageSizeInBytes qo_PagingState
       qo_SerialConsistency qo_DefaultTimestamp qo_Keyspace qo_NowInSeconds qo_ContinuousPagingOptions].
    f_equal.
    + destruct pos as [pl|]; [|reflexivity]. cbn [option_map]. f_equal. rewrite map_map. apply map_ext. intro. apply novalue_idem.
    + destruct pos as [pl|]; [reflexivity|]. destruct named as [nl|]; [|reflexivity]. cbn [option_map]. f_equal.
      rewrite map_map. apply map_ext. intros [k x]. cbn [fst snd]. rewrite novalue_idem. reflexivity.
    + destruct (ps >? 0) eqn:E; [rewrite E; reflexivity|reflexivity].
    + destruct (ps >? 0) eqn:E; [rewrite E; reflexivity|reflexivity].
Qed.

Definition ex_QueryOptions : QueryOptions :=
  {| qo_Consistency := 6; qo_PositionalValues := Some [Some (NewValue (Some [1; 2])); Some (NewValue None); Some NewUnsetValue];
     qo_NamedValues := None; qo_SkipMetadata := true; qo_PageSize := 100; qo_PageSizeInBytes := false;
     qo_PagingState := Some [9; 9]; qo_SerialConsistency := Some 8; qo_DefaultTimestamp := Some (-5);
     qo_Keyspace := B "ks"; qo_NowInSeconds := Some 123; qo_ContinuousPagingOptions := None |}.
Definition ex_QueryOptions_dse : QueryOptions :=
  {| qo_Consistency := 1; qo_PositionalValues := None;
     qo_NamedValues := Some [(B "a", Some (NewValue (Some [7]))); (B "b", Some (NewValue None))];
     qo_SkipMetadata := false; qo_PageSize := 5000; qo_PageSizeInBytes := true;
     qo_PagingState := None; qo_SerialConsistency := Some 9; qo_DefaultTimestamp := None;
     qo_Keyspace := B "ks"; qo_NowInSeconds := None;
     qo_ContinuousPagingOptions := Some {| cpo_MaxPages := 4; cpo_PagesPerSecond := 1; cpo_NextPages := 2 |} |}.
Example QueryOptions_example :
  oQueryOptions_okb 5 (Some ex_QueryOptions) = true /\ oQueryOptions_okb 66 (Some ex_QueryOptions_dse) = true
  /\ oQueryOptions_okb 2 None = true.
Proof. vm_compute. repeat split; reflexivity. Qed.

(* ================= QUERY ================= *)
Definition bytes_Query (v : Z) (m : Query) : bytes := enc_long_string (q_Query m) ++ bytes_oQueryOptions v (q_Options m).
Lemma Query_facts v m : Query_okb v m = true ->
  facts (enc_Query v m) (len_Query v m) (dec_Query v) (bytes_Query v m) (norm_Query v m).
Proof.
  unfold Query_okb. intro H. bsplit H. pose proof (lstr_okb_le _ H) as Hq.
  destruct (oQueryOptions_facts v _ H0) as (E1 & E2 & E3).
  unfold facts, bytes_Query, enc_Query, len_Query, dec_Query, norm_Query. repeat split.
  - rewrite write_long_string_ok by exact Hq. rewrite E1. reflexivity.
  - intro rest. rewrite <- app_assoc. unfold bind at 1. rewrite read_long_string_app by exact Hq.
    unfold bind. rewrite E2. reflexivity.
  - rewrite E3. cbn [ladd]. rewrite zlen_app, enc_long_string_len. reflexivity.
Qed.
Theorem Query_roundtrip v m : Query_okb v m = true ->
  exists b, enc_Query v m = Ok b /\ forall rest, dec_Query v (b ++ rest) = DOk (norm_Query v m) rest.
Proof. intro H. exact (facts_roundtrip _ _ _ _ _ (Query_facts v m H)). Qed.
Theorem Query_length v m b : Query_okb v m = true -> enc_Query v m = Ok b -> len_Query v m = Ok (zlen b).
Proof. intro H. exact (facts_length _ _ _ _ _ (Query_facts v m H) b). Qed.
Theorem Query_total v bs : dec_Query v bs <> DPanic /\ dec_Query v bs <> DFuel.
Proof. apply total_at. unfold dec_Query. pose proof (total_dec_QueryOptions v). total_tac. Qed.
Lemma norm_oQueryOptions_ok v oo : oQueryOptions_okb v oo = true ->
  oQueryOptions_okb v (norm_oQueryOptions v oo) = true /\ norm_oQueryOptions v (norm_oQueryOptions v oo) = norm_oQueryOptions v oo.
Proof.
  intro H. unfold oQueryOptions_okb, norm_oQueryOptions in *. destruct (norm_QueryOptions_ok v _ H) as [H1 H2].
  split; [exact H1|]. f_equal. exact H2.
Qed.
Theorem norm_Query_ok v m : Query_okb v m = true ->
  Query_okb v (norm_Query v m) = true /\ norm_Query v (norm_Query v m) = norm_Query v m.
Proof.
  unfold Query_okb. intro H. bsplit H. destruct (norm_oQueryOptions_ok v _ H0) as [H1 H2].
  unfold norm_Query. cbn [q_Query q_Options]. split; [rewrite H, H1; reflexivity|]. f_equal. exact H2.
Qed.
Example Query_example :
  Query_okb 5 {| q_Query := B "SELECT * FROM t WHERE a = ? AND b = ? AND c = ?"; q_Options := Some ex_QueryOptions |} = true
  /\ Query_okb 66 {| q_Query := B "SELECT * FROM t WHERE a = :a AND b = :b"; q_Options := Some ex_QueryOptions_dse |} = true
  /\ Query_okb 3 {| q_Query := B "SELECT now() FROM system.local"; q_Options := None |} = true.
Proof. vm_compute. repeat split; reflexivity. Qed.

(* ================= EXECUTE ================= *)
Definition bytes_Execute (v : Z) (m : Execute) : bytes :=
  enc_short_bytes (ex_QueryId m) ++
  (if ProtocolVersion_SupportsResultMetadataId v then enc_short_bytes (ex_ResultMetadataId m) else []) ++
  bytes_oQueryOptions v (ex_Options m).
Lemma Execute_facts v m : Execute_okb v m = true ->
  facts (enc_Execute v m) (len_Execute v m) (dec_Execute v) (bytes_Execute v m) (norm_Execute v m).
Proof.
  unfold Execute_okb. intro H. bsplit H.
  pose proof (str_okb_le _ H2) as Hq. pose proof (nonempty_pos _ H) as Hqp.
  destruct (oQueryOptions_facts v _ H0) as (E1 & E2 & E3).
  unfold facts, bytes_Execute, enc_Execute, len_Execute, dec_Execute, norm_Execute. repeat split.
  - destruct (Z.eqb_spec (zlen (olist (ex_QueryId m))) 0); [lia|]. rewrite write_short_bytes_ok by exact Hq.
    destruct (ProtocolVersion_SupportsResultMetadataId v).
    + bsplit H1. pose proof (str_okb_le _ H3) as Hr. pose proof (nonempty_pos _ H1) as Hrp.
      destruct (Z.eqb_spec (zlen (olist (ex_ResultMetadataId m))) 0); [lia|]. rewrite write_short_bytes_ok by exact Hr.
      rewrite E1. reflexivity.
    + rewrite E1. reflexivity.
  - intro rest. rewrite <- !app_assoc. unfold bind at 1. rewrite read_short_bytes_app by exact Hq. cbn [olist].
    destruct (Z.eqb_spec (zlen (olist (ex_QueryId m))) 0); [lia|]. cbn [negb rguard]. unfold bind at 1, ret at 1.
    destruct (ProtocolVersion_SupportsResultMetadataId v).
    + bsplit H1. pose proof (str_okb_le _ H3) as Hr. pose proof (nonempty_pos _ H1) as Hrp.
      unfold bind at 1. unfold bind at 1. rewrite read_short_bytes_app by exact Hr. cbn [olist].
      destruct (Z.eqb_spec (zlen (olist (ex_ResultMetadataId m))) 0); [lia|]. cbn [negb rguard]. unfold bind at 1, ret at 1.
      unfold ret at 1. unfold bind. rewrite E2. reflexivity.
    + unfold bind at 1, ret at 1. cbn [app]. unfold bind. rewrite E2. reflexivity.
  - rewrite E3. destruct (ProtocolVersion_SupportsResultMetadataId v); cbn [ladd];
      rewrite !zlen_app, !enc_short_bytes_len; cbn [zlen length]; f_equal; lia.
Qed.
Theorem Execute_roundtrip v m : Execute_okb v m = true ->
  exists b, enc_Execute v m = Ok b /\ forall rest, dec_Execute v (b ++ rest) = DOk (norm_Execute v m) rest.
Proof. intro H. exact (facts_roundtrip _ _ _ _ _ (Execute_facts v m H)). Qed.
Theorem Execute_length v m b : Execute_okb v m = true -> enc_Execute v m = Ok b -> len_Execute v m = Ok (zlen b).
Proof. intro H. exact (facts_length _ _ _ _ _ (Execute_facts v m H) b). Qed.
Theorem Execute_total v bs : dec_Execute v bs <> DPanic /\ dec_Execute v bs <> DFuel.
Proof. apply total_at. unfold dec_Execute. pose proof (total_dec_QueryOptions v). total_tac. Qed.
Theorem norm_Execute_ok v m : Execute_okb v m = true ->
  Execute_okb v (norm_Execute v m) = true /\ norm_Execute v (norm_Execute v m) = norm_Execute v m.
Proof.
  unfold Execute_okb. intro H. bsplit H. destruct (norm_oQueryOptions_ok v _ H0) as [N1 N2].
  unfold norm_Execute. cbn [ex_QueryId ex_ResultMetadataId ex_Options olist]. split.
  - rewrite H, H2, N1. destruct (ProtocolVersion_SupportsResultMetadataId v); cbn [olist]; [rewrite H1|]; reflexivity.
  - f_equal; [destruct (ProtocolVersion_SupportsResultMetadataId v); reflexivity|exact N2].
Qed.
Example Execute_example :
  Execute_okb 5 {| ex_QueryId := Some [1; 2; 3; 4]; ex_ResultMetadataId := Some [5; 6]; ex_Options := Some ex_QueryOptions |} = true
  /\ Execute_okb 4 {| ex_QueryId := Some [1; 2; 3; 4]; ex_ResultMetadataId := None; ex_Options := None |} = true.
Proof. vm_compute. repeat split; reflexivity. Qed.
