(* Data type descriptors: the two facts still missing in DataTypeProofs.v
     len_dt_ok               : LengthOfDataType agrees with the encoder on every valid type
     read_data_type_total    : ReadDataType neither panics nor runs out of fuel when fuel exceeds half the
                               number of input bytes (every nesting level consumes its 2-byte code)
   plus the vocabulary [total_upto n r] (totality on inputs of at most n bytes) that the RESULT decoders need
   because they contain the fuelled [read_data_type]; it extends [total] / [consumes] of proofs/PrimTotal.v. *)
From Coq Require Import ZArith List Bool Lia.
From Coq Require Import ZifyBool ZifyNat.
From GCNP Require Import base.GoInt base.Bytes base.Codec gen.Constants_gen model.Prim model.DataType
  proofs.PrimProofs proofs.PrimTotal proofs.DataTypeProofs.
Import ListNotations.
Open Scope Z_scope.
Ltac Zify.zify_post_hook ::= Z.div_mod_to_equations.

(* ---------- totality relative to a bound on the input length ---------- *)
Definition total_upto {A} (n : nat) (r : R A) : Prop :=
  forall bs, (length bs <= n)%nat -> r bs <> DPanic /\ r bs <> DFuel.

Lemma total_upto_of_total {A} n (r : R A) : total r -> total_upto n r.
Proof. intros H bs _. apply H. Qed.
Lemma total_of_total_upto {A} (r : R A) : (forall n, total_upto n r) -> total r.
Proof. intros H bs. apply (H (length bs)). lia. Qed.
Lemma total_upto_mono {A} n m (r : R A) : (m <= n)%nat -> total_upto n r -> total_upto m r.
Proof. intros Hle H bs Hbs. apply H. lia. Qed.

(* bind: the continuation runs on an input shorter by what the first reader consumed *)
Lemma total_upto_bind_c {A B} (c n : nat) (r : R A) (k : A -> R B) :
  total_upto n r -> consumes c r -> (forall a, (c <= n)%nat -> total_upto (n - c) (k a)) -> total_upto n (bind r k).
Proof.
  intros Hr Hc Hk bs Hbs. unfold bind. destruct (Hr bs Hbs) as [H1 H2].
  destruct (r bs) as [a rest| | |] eqn:E; try congruence; [|split; discriminate].
  specialize (Hc bs a rest E). apply Hk; lia.
Qed.
Lemma total_upto_bind {A B} (n : nat) (r : R A) (k : A -> R B) :
  total_upto n r -> consumes 0 r -> (forall a, total_upto n (k a)) -> total_upto n (bind r k).
Proof.
  intros Hr Hc Hk. apply (total_upto_bind_c 0 n); [exact Hr|exact Hc|].
  intros a _. replace (n - 0)%nat with n by lia. apply Hk.
Qed.
Lemma total_upto_rmap {A B} n (f : A -> B) (r : R A) : total_upto n r -> consumes 0 r -> total_upto n (rmap f r).
Proof. intros H Hc. unfold rmap. apply total_upto_bind; [exact H|exact Hc|intro; apply total_upto_of_total, total_ret]. Qed.

Lemma total_upto_read_rep {A} (r : R A) n m : total_upto n r -> consumes 0 r -> total_upto n (read_rep m r).
Proof.
  intros H Hc. unfold read_rep. induction m as [|m IH]; cbn [read_rep_]; [apply total_upto_of_total, total_ret|].
  apply total_upto_bind; [exact H|exact Hc|intro].
  apply total_upto_bind; [exact IH|apply (consumes0_read_rep r m Hc)|intro; apply total_upto_of_total, total_ret].
Qed.
Lemma total_upto_read_count {A} (r : R A) n count : total_upto n r -> progress r -> total_upto n (read_count count r).
Proof.
  intros Ht Hp bs Hbs. unfold read_count.
  assert (Hc0 : consumes 0 r) by (eapply consumes_weaken; [|exact Hp]; lia).
  destruct (count <=? 0); [split; discriminate|].
  destruct (count <=? zlen bs); [apply (total_upto_read_rep r n _ Ht Hc0); exact Hbs|].
  destruct (total_upto_read_rep r n (length bs) Ht Hc0 bs Hbs) as [H1 H2].
  destruct (read_rep (length bs) r bs) as [l rest| | |] eqn:E; try congruence; [|split; discriminate].
  pose proof (consumes_read_rep r (length bs) Hp bs l rest E) as Hc.
  destruct (Ht rest ltac:(lia)) as [H3 H4].
  destruct (r rest) as [a rest'| | |] eqn:E'; try congruence; [|split; discriminate].
  exfalso. specialize (Hp rest a rest' E'). lia.
Qed.

Lemma consumes_rfuel {A} n : consumes n (@rfuel A).
Proof. intros bs a rest E. discriminate. Qed.

Ltac total_upto_tac :=
  repeat match goal with
  | |- total_upto _ (bind _ _) => apply total_upto_bind; [| |intro]
  | |- total_upto _ (rmap _ _) => apply total_upto_rmap
  | |- total_upto _ (if ?b then _ else _) => destruct b eqn:?
  | |- total_upto _ (match ?x with _ => _ end) => destruct x eqn:?
  | |- total_upto _ (let _ := _ in _) => cbv zeta
  | |- total_upto _ _ => solve [assumption | apply total_upto_of_total; total_tac]
  | |- consumes 0 _ => solve [consumes0_tac]
  end.

(* ---------- ReadDataType: consumption ---------- *)
Lemma consumes_read_data_type fuel version : consumes 2 (read_data_type fuel version).
Proof.
  induction fuel as [|k IH]; cbn [read_data_type]; [apply consumes_rfuel|].
  assert (IH0 : consumes 0 (read_data_type k version)) by (eapply consumes_weaken; [|exact IH]; lia).
  apply consumes_bind_l; [apply consumes_read_short|intro code].
  consumes0_tac.
Qed.
(* the form asked for by the frame layer *)
Lemma read_data_type_consumes fuel version bs t rest :
  read_data_type fuel version bs = DOk t rest -> (length rest + 2 <= length bs)%nat.
Proof. apply consumes_read_data_type. Qed.
Lemma consumes0_read_data_type fuel version : consumes 0 (read_data_type fuel version).
Proof. eapply consumes_weaken; [|apply consumes_read_data_type]; lia. Qed.
Lemma progress_read_data_type fuel version : progress (read_data_type fuel version).
Proof. eapply consumes_weaken; [|apply consumes_read_data_type]; lia. Qed.
#[export] Hint Resolve consumes0_read_data_type : consumes.

(* ---------- ReadDataType: enough fuel ---------- *)
(* fuel k suffices for every input of fewer than 2k bytes: each level consumes its 2-byte code before recursing *)
Lemma total_upto_read_data_type version fuel : forall n, (n < 2 * fuel)%nat -> total_upto n (read_data_type fuel version).
Proof.
  induction fuel as [|k IH]; intros n Hn; [lia|]. cbn [read_data_type].
  apply (total_upto_bind_c 2 n); [apply total_upto_of_total, total_read_short|apply consumes_read_short|].
  intros code Hc. assert (IHn : total_upto (n - 2) (read_data_type k version)) by (apply IH; lia).
  pose proof (consumes0_read_data_type k version) as IH0.
  total_upto_tac.
  - apply total_upto_read_count.
    + total_upto_tac.
    + unfold progress. apply consumes_bind_l; [apply progress_read_string|intro]. consumes0_tac.
  - apply total_upto_read_count.
    + total_upto_tac.
    + apply consumes_rmap, progress_read_data_type.
Qed.

Lemma read_data_type_enough fuel version bs : (length bs < 2 * fuel)%nat ->
  read_data_type fuel version bs <> DPanic /\ read_data_type fuel version bs <> DFuel.
Proof. intro H. apply (total_upto_read_data_type version fuel (length bs) H). lia. Qed.

(* fuel = number of input bytes: enough for every non-empty input ... *)
Theorem read_data_type_total bs version : bs <> [] ->
  read_data_type (length bs) version bs <> DPanic /\ read_data_type (length bs) version bs <> DFuel.
Proof. intro H. apply read_data_type_enough. destruct bs; [congruence|cbn [length]; lia]. Qed.
(* ... and fuel = number of input bytes + 1 for every input (on the empty input with fuel 0 the model answers DFuel
   before looking at the input: the only reason for the +1) *)
Theorem read_data_type_total_S bs version :
  read_data_type (S (length bs)) version bs <> DPanic /\ read_data_type (S (length bs)) version bs <> DFuel.
Proof. apply read_data_type_enough. lia. Qed.
Example read_data_type_fuel0 : read_data_type (length (@nil Z)) 4 [] = DFuel.
Proof. reflexivity. Qed.
(* ---------- LengthOfDataType ---------- *)
Lemma llist_ok {A} (f : A -> L) (enc : A -> list Z) l :
  (forall x, In x l -> f x = Ok (zlen (enc x))) -> llist f l = Ok (zlen (concat (map enc l))).
Proof.
  induction l as [|x l IH]; intro H; cbn [llist map concat]; [reflexivity|].
  rewrite H by (left; reflexivity). rewrite IH by (intros; apply H; right; assumption).
  cbn [ladd]. rewrite zlen_app. reflexivity.
Qed.

Lemma len_dt_ok version t : dt_okb t = true -> len_dt version t = Ok (zlen (enc_dt t)).
Proof.
  induction t as [c|c|e IHe|k v IHk IHv|e IHe|fs IH|ks name names types IH] using DataType_ind'; intro Hok.
  - cbn [dt_okb] in Hok. destruct (primitive_codes_facts c Hok) as (Hv & H1 & H2 & H3 & H4 & H5 & H6 & Hr).
    cbn [len_dt enc_dt dt_code].
    destruct (Z.eqb_spec c DataTypeCodeCustom); [contradiction|]. destruct (Z.eqb_spec c DataTypeCodeList); [contradiction|].
    destruct (Z.eqb_spec c DataTypeCodeMap); [contradiction|]. destruct (Z.eqb_spec c DataTypeCodeSet); [contradiction|].
    destruct (Z.eqb_spec c DataTypeCodeUdt); [contradiction|]. destruct (Z.eqb_spec c DataTypeCodeTuple); [contradiction|].
    cbn [ladd]. rewrite zlen_app, be_bytes_zlen. reflexivity.
  - cbn [len_dt enc_dt dt_code]. change (DataTypeCodeCustom =? DataTypeCodeCustom) with true.
    cbn [ladd]. rewrite zlen_app, be_bytes_zlen, enc_string_len. reflexivity.
  - cbn [dt_okb] in Hok. destruct e as [t'|]; [|discriminate]. cbn [PO] in IHe.
    cbn [len_dt enc_dt dt_code]. change (DataTypeCodeList =? DataTypeCodeCustom) with false.
    change (DataTypeCodeList =? DataTypeCodeList) with true. rewrite IHe by exact Hok.
    cbn [ladd]. rewrite zlen_app, be_bytes_zlen. reflexivity.
  - cbn [dt_okb] in Hok. destruct k as [kt|]; [|discriminate]. destruct v as [vt|]; [|rewrite andb_false_r in Hok; discriminate].
    apply andb_prop in Hok. destruct Hok as [Hk Hv]. cbn [PO] in IHk, IHv.
    cbn [len_dt enc_dt dt_code]. change (DataTypeCodeMap =? DataTypeCodeCustom) with false.
    change (DataTypeCodeMap =? DataTypeCodeList) with false. change (DataTypeCodeMap =? DataTypeCodeMap) with true.
    rewrite IHk, IHv by assumption. cbn [ladd]. rewrite !zlen_app, be_bytes_zlen. reflexivity.
  - cbn [dt_okb] in Hok. destruct e as [t'|]; [|discriminate]. cbn [PO] in IHe.
    cbn [len_dt enc_dt dt_code]. change (DataTypeCodeSet =? DataTypeCodeCustom) with false.
    change (DataTypeCodeSet =? DataTypeCodeList) with false. change (DataTypeCodeSet =? DataTypeCodeMap) with false.
    change (DataTypeCodeSet =? DataTypeCodeSet) with true. rewrite IHe by exact Hok.
    cbn [ladd]. rewrite zlen_app, be_bytes_zlen. reflexivity.
  - cbn [dt_okb] in Hok. apply andb_prop in Hok. destruct Hok as [Hn Hall].
    cbn [len_dt enc_dt dt_code]. change (DataTypeCodeTuple =? DataTypeCodeCustom) with false.
    change (DataTypeCodeTuple =? DataTypeCodeList) with false. change (DataTypeCodeTuple =? DataTypeCodeMap) with false.
    change (DataTypeCodeTuple =? DataTypeCodeSet) with false. change (DataTypeCodeTuple =? DataTypeCodeUdt) with false.
    change (DataTypeCodeTuple =? DataTypeCodeTuple) with true.
    rewrite (llist_ok _ (fun o : option DataType => match o with Some t' => enc_dt t' | None => [] end)).
    + cbn [ladd]. rewrite !zlen_app, !be_bytes_zlen. reflexivity.
    + intros o Ho. rewrite forallb_forall in Hall. specialize (Hall o Ho). rewrite Forall_forall in IH. specialize (IH o Ho).
      destruct o as [t'|]; [|discriminate]. cbn [PO] in IH. apply IH. exact Hall.
  - cbn [dt_okb] in Hok. repeat (apply andb_prop in Hok; destruct Hok as [Hok ?]).
    cbn [len_dt enc_dt dt_code]. change (DataTypeCodeUdt =? DataTypeCodeCustom) with false.
    change (DataTypeCodeUdt =? DataTypeCodeList) with false. change (DataTypeCodeUdt =? DataTypeCodeMap) with false.
    change (DataTypeCodeUdt =? DataTypeCodeSet) with false. change (DataTypeCodeUdt =? DataTypeCodeUdt) with true.
    assert (Hlen : length names = length types) by (apply zlen_eq_length; lia).
    replace (zlen names =? zlen types) with true by lia.
    rewrite lzip_combine by exact Hlen.
    rewrite (llist_ok _ (fun nt : bytes * option DataType => enc_string (fst nt) ++ match snd nt with Some t' => enc_dt t' | None => [] end)).
    + cbn [ladd]. rewrite ezip_combine. rewrite !zlen_app, !be_bytes_zlen, !enc_string_len. set (X := zlen (concat _)). f_equal. unfold LengthOfShort. lia.
    + intros [n o] Hno. cbn [fst snd].
      assert (Ho : In o types) by (eapply in_combine_r; exact Hno).
      match goal with Hf : forallb _ types = true |- _ => rewrite forallb_forall in Hf; specialize (Hf o Ho) end.
      rewrite Forall_forall in IH. specialize (IH o Ho). destruct o as [t'|]; [|discriminate]. cbn [PO] in IH.
      rewrite IH by assumption. cbn [ladd]. rewrite zlen_app, enc_string_len. reflexivity.
Qed.

Lemma len_data_type_ok version ot : odt_okb ot = true -> len_data_type version ot = Ok (zlen (enc_odt ot)).
Proof. destruct ot as [t|]; [|discriminate]. cbn [odt_okb len_data_type enc_odt]. apply len_dt_ok. Qed.

(* non-vacuity *)
Example len_dt_ok_example :
  let t := DT_Map (Some (DT_Primitive DataTypeCodeInt)) (Some (DT_List (Some (DT_Custom [65;66])))) in
  dt_okb t = true /\ len_dt 4 t = Ok 12.
Proof. vm_compute. split; reflexivity. Qed.
