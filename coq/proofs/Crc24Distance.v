(* C07, header clause: the CRC-24 code over 24- and 40-bit headers has minimum distance 8.
   A recursive enumerator over all data error patterns of weight <= 7 (xor-accumulated syndromes) is run inside the
   kernel (vm_compute; 23.2 M leaves for 40 bits) and lifted to the statement by a soundness lemma. *)
From Coq Require Import ZArith NArith List Bool Lia.
From Coq Require Import ZifyBool ZifyN ZifyNat.
From GCNP Require Import base.GoInt gen.Crc_gen model.Crc proofs.Crc24Proofs.
Import ListNotations.
Open Scope N_scope.

(* ---------------------------------------------------------------- weight *)
Fixpoint popcount_pos (p : positive) : nat :=
  match p with xH => 1%nat | xO q => popcount_pos q | xI q => S (popcount_pos q) end.
Definition popcount (n : N) : nat := match n with N0 => 0%nat | Npos p => popcount_pos p end.

Fixpoint count_true (bs : list bool) : nat :=
  match bs with [] => 0%nat | b :: r => ((if b then 1 else 0) + count_true r)%nat end.

Lemma popcount_step v : popcount v = ((if N.testbit v 0 then 1 else 0) + popcount (N.shiftr v 1))%nat.
Proof. destruct v as [|[p|p|]]; reflexivity. Qed.

Lemma popcount_bits n : forall v, v < 2 ^ N.of_nat n -> count_true (bits_lsb n v) = popcount v.
Proof.
  induction n as [|k IH]; intros v Hv.
  - cbn in Hv. assert (v = 0) by lia. subst v. reflexivity.
  - cbn [bits_lsb count_true]. rewrite (popcount_step v), IH; [reflexivity|].
    rewrite N.shiftr_div_pow2. change (2 ^ 1) with 2. rewrite Nnat.Nat2N.inj_succ, N.pow_succ_r' in Hv. lia.
Qed.

Lemma popcount_0 v : popcount v = 0%nat -> v = 0.
Proof.
  destruct v as [|p]; [reflexivity|]. cbn [popcount]. intro H. exfalso.
  induction p as [q IH|q IH|]; cbn [popcount_pos] in H; [discriminate | exact (IH H) | discriminate].
Qed.

(* ---------------------------------------------------------------- an error word as the xor of its single-bit words *)
Fixpoint from_bits (bs : list bool) (k : N) : N :=
  match bs with [] => 0 | b :: r => N.lxor (if b then N.shiftl 1 k else 0) (from_bits r (k + 1)) end.

Lemma shiftl_from_bits n : forall v k, v < 2 ^ N.of_nat n -> N.shiftl v k = from_bits (bits_lsb n v) k.
Proof.
  induction n as [|m IH]; intros v k Hv.
  - cbn in Hv. assert (v = 0) by lia. subst v. apply N.shiftl_0_l.
  - cbn [bits_lsb from_bits]. rewrite <- IH.
    2:{ rewrite N.shiftr_div_pow2. change (2 ^ 1) with 2. rewrite Nnat.Nat2N.inj_succ, N.pow_succ_r' in Hv. lia. }
    apply N.bits_inj. intro i. rewrite N.lxor_spec.
    destruct (N.ltb_spec i k) as [Hlo|Hhi].
    + rewrite !N.shiftl_spec_low by lia.
      destruct (N.testbit v 0); [rewrite N.shiftl_spec_low by lia|rewrite N.bits_0]; reflexivity.
    + rewrite (N.shiftl_spec_high' v) by lia.
      destruct (N.eq_dec i k) as [->|Hne].
      * rewrite N.sub_diag. rewrite (N.shiftl_spec_low (N.shiftr v 1)) by lia.
        destruct (N.testbit v 0); [rewrite N.shiftl_spec_high' by lia; rewrite N.sub_diag; reflexivity | rewrite N.bits_0; reflexivity].
      * rewrite (N.shiftl_spec_high' (N.shiftr v 1)) by lia. rewrite N.shiftr_spec'.
        replace (i - (k + 1) + 1) with (i - k) by lia.
        destruct (N.testbit v 0).
        -- rewrite N.shiftl_spec_high' by lia. change 1 with (2 ^ 0) at 1. rewrite N.pow2_bits_false by lia. rewrite xorb_false_l. reflexivity.
        -- rewrite N.bits_0, xorb_false_l. reflexivity.
Qed.

Section Distance.
  Variable hlen : nat.

  Fixpoint cols_from (k : N) (n : nat) : list N :=
    match n with O => [] | S m => crc24_lin (N.shiftl 1 k) hlen :: cols_from (k + 1) m end.

  Fixpoint select (bs : list bool) (cs : list N) : list N :=
    match bs, cs with
    | b :: r, c :: t => if b then c :: select r t else select r t
    | _, _ => []
    end.

  Definition xor_all (l : list N) : N := fold_right N.lxor 0 l.

  Lemma lin_from_bits : forall bs k, crc24_lin (from_bits bs k) hlen = xor_all (select bs (cols_from k (length bs))).
  Proof.
    induction bs as [|b r IH]; intro k; cbn [from_bits length cols_from select].
    - apply crc24_lin_0.
    - rewrite crc24_lin_lxor, IH. destruct b; cbn [xor_all fold_right]; [reflexivity|].
      rewrite crc24_lin_0, N.lxor_0_l. reflexivity.
  Qed.

  (* ---------------------------------------------------------------- the enumerator *)
  Fixpoint forall_tails (f : N -> list N -> bool) (l : list N) : bool :=
    match l with [] => true | c :: tl => f c tl && forall_tails f tl end.

  (* every way of picking at most k further columns (in order) on top of w already picked ones with syndrome acc
     has total weight (data bits picked + syndrome weight) at least 8, unless nothing has been picked *)
  Fixpoint chk (k : nat) (cols : list N) (w : nat) (acc : N) {struct k} : bool :=
    (Nat.eqb w 0 || Nat.leb 8 (w + popcount acc)) &&
    match k with
    | O => true
    | S k' => forall_tails (fun c tl => chk k' tl (S w) (N.lxor acc c)) cols
    end.

  Lemma select_none : forall bs cs, count_true bs = 0%nat -> select bs cs = [].
  Proof.
    induction bs as [|b r IH]; intros cs H; [reflexivity|]. destruct cs as [|c t]; [reflexivity|].
    cbn [count_true] in H. destruct b; [discriminate|]. cbn [select]. apply IH. exact H.
  Qed.

  Lemma chk_sound : forall k cols w acc, chk k cols w acc = true ->
    forall bs, length bs = length cols -> (count_true bs <= k)%nat -> (0 < w + count_true bs)%nat ->
    (8 <= w + count_true bs + popcount (N.lxor acc (xor_all (select bs cols))))%nat.
  Proof.
    induction k as [|k IH]; intros cols w acc H bs Hl Hc Hpos.
    - cbn [chk] in H. rewrite andb_true_r in H.
      assert (E : count_true bs = 0%nat) by lia. rewrite (select_none bs cols E). cbn [xor_all fold_right]. rewrite N.lxor_0_r.
      apply orb_true_iff in H. destruct H as [H|H]; [apply Nat.eqb_eq in H; lia | apply Nat.leb_le in H; lia].
    - cbn [chk] in H. apply andb_true_iff in H. destruct H as [Hhead Htails].
      destruct (Nat.eq_dec (count_true bs) 0) as [E|Hne].
      + rewrite (select_none bs cols E). cbn [xor_all fold_right]. rewrite N.lxor_0_r.
        apply orb_true_iff in Hhead. destruct Hhead as [H|H]; [apply Nat.eqb_eq in H; lia | apply Nat.leb_le in H; lia].
      + clear Hhead Hpos. revert bs Hl Hc Hne Htails.
        induction cols as [|c tl IHc]; intros bs Hl Hc Hne Htails.
        * destruct bs; [cbn in Hne; lia | discriminate].
        * destruct bs as [|b r]; [discriminate|]. cbn [length] in Hl. injection Hl as Hl.
          cbn [forall_tails] in Htails. apply andb_true_iff in Htails. destruct Htails as [Hc1 Ht].
          cbn [count_true select] in *. destruct b.
          -- specialize (IH tl (S w) (N.lxor acc c) Hc1 r Hl ltac:(lia) ltac:(lia)).
             cbn [xor_all fold_right]. fold (xor_all (select r tl)). rewrite N.lxor_assoc in IH. lia.
          -- apply IHc; try assumption; lia.
  Qed.

  (* ---------------------------------------------------------------- distance *)
  Definition nbits : nat := (8 * hlen)%nat.
  Hypothesis enumerated : chk 7 (cols_from 0 nbits) 0 0 = true.

  Lemma cols_from_length : forall n k, length (cols_from k n) = n.
  Proof. induction n as [|m IH]; intro k; cbn [cols_from length]; [reflexivity|]. rewrite IH. reflexivity. Qed.

  Lemma bits_lsb_length : forall n v, length (bits_lsb n v) = n.
  Proof. induction n as [|m IH]; intro v; cbn [bits_lsb length]; [reflexivity|]. rewrite IH. reflexivity. Qed.

  Theorem min_distance ed : ed < 2 ^ N.of_nat nbits -> ed <> 0 -> (popcount ed <= 7)%nat ->
    (8 <= popcount ed + popcount (crc24_lin ed hlen))%nat.
  Proof.
    intros Hlt Hnz Hw.
    pose proof (shiftl_from_bits nbits ed 0 Hlt) as E. rewrite N.shiftl_0_r in E.
    pose proof (popcount_bits nbits ed Hlt) as Hp.
    assert (Hpos : (0 < popcount ed)%nat).
    { destruct (Nat.eq_dec (popcount ed) 0) as [E0|]; [apply popcount_0 in E0; contradiction | lia]. }
    pose proof (chk_sound 7 (cols_from 0 nbits) 0 0 enumerated (bits_lsb nbits ed)) as S.
    rewrite cols_from_length, bits_lsb_length, Hp in S. specialize (S eq_refl Hw ltac:(lia)).
    rewrite N.lxor_0_l in S.
    rewrite E at 2. rewrite lin_from_bits, bits_lsb_length. lia.
  Qed.

  (* a corrupted header word and checksum field are never consistent when 1..7 bits in all were flipped *)
  Theorem header_corruption_detected hd ed ec :
    ed < 2 ^ N.of_nat nbits -> (1 <= popcount ed + popcount ec <= 7)%nat ->
    checksum_koopman (N.lxor hd ed) hlen <> N.lxor (checksum_koopman hd hlen) ec.
  Proof.
    intros Hlt Hw Heq. rewrite checksum_koopman_affine in Heq.
    assert (Hec : crc24_lin ed hlen = ec).
    { apply (f_equal (N.lxor (checksum_koopman hd hlen))) in Heq.
      rewrite <- !N.lxor_assoc, !N.lxor_nilpotent, !N.lxor_0_l in Heq. exact Heq. }
    destruct (N.eq_dec ed 0) as [E0|Hnz].
    - subst ed. rewrite crc24_lin_0 in Hec. subst ec. cbn in Hw. lia.
    - pose proof (min_distance ed Hlt Hnz ltac:(lia)) as Hd. rewrite Hec in Hd. lia.
  Qed.
End Distance.
