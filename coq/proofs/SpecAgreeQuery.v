(* C02, body clause for QUERY, EXECUTE and BATCH (model/MsgRequests.v; pure encodings of proofs/MsgRequestsQuery.v and
   proofs/MsgRequestsBatch.v). *)
From Coq Require Import ZArith List Bool Lia.
From Coq Require Import ZifyBool ZifyNat.
From GCNP Require Import spec.SpecClean base.GoInt base.Bytes base.Codec gen.Constants_gen spec.SpecTables model.Prim model.DataType
  model.MsgTypes model.Frame model.MsgRequests proofs.PrimProofs proofs.CqlBytesLemmas proofs.FrameProofs proofs.MsgRequestsLib
  proofs.MsgRequestsSimple proofs.MsgRequestsQuery proofs.MsgRequestsBatch
  spec.SpecNotation spec.SpecMsg spec.SpecFrame proofs.SpecAgreeLib proofs.SpecAgreeErrors.
Import ListNotations.
Open Scope Z_scope.
Ltac Zify.zify_post_hook ::= Z.div_mod_to_equations.

Ltac raw_head Hv := unfold spec_body_raw; rewrite (supported_is_version _ Hv); cbn [negb].

(* ---------- values ---------- *)
(* value_clean: see spec/SpecClean.v *)

Lemma from_v4_geb v : supported v -> spec_from_v4 v = (4 <=? v).
Proof. intro H. destruct (supported_cases _ H) as [->|[->|[->|[->|[->| ->]]]]]; reflexivity. Qed.

Lemma value_spec v x : supported v -> value_okb v x = true -> value_clean x = true ->
  exists n, spec_value_notation v x = Some n /\ notation_ok n = true /\ ser n = enc_value x.
Proof.
  intros Hv Hok Hcl. destruct x as [[t c]|]; [|discriminate]. unfold value_okb, value_clean in *. cbn [value_type value_contents] in *.
  unfold spec_value_notation, enc_value. cbn [obind value_type value_contents]. rewrite (from_v4_geb v Hv).
  unfold ValueTypeRegular, ValueTypeNull, ValueTypeUnset in *.
  destruct (Z.eqb_spec t 0) as [->|Hn0].
  - change (0 =? -1) with false in *. change (0 =? -2) with false in *. cbn [negb orb andb] in *.
    destruct c as [b|]; [|discriminate]. cbn [obind is_some olist] in *. unfold lstr_okb in Hok.
    destruct (4 <=? v); eexists; (split; [reflexivity|]); (split; [cbn [notation_ok]; apply blob_ok_le; lia|reflexivity]).
  - destruct (Z.eqb_spec t (-1)) as [->|Hn1].
    + change (-1 =? -2) with false in *. destruct (4 <=? v); eexists; (split; [reflexivity|]); split; reflexivity.
    + destruct (Z.eqb_spec t (-2)) as [->|Hn2].
      * change (-2 =? -1) with false in Hok. change (-2 =? -2) with true in Hok. change (-2 =? 0) with false in Hok.
        cbn [orb andb] in Hok. rewrite orb_false_r in Hok. apply andb_prop in Hok. destruct Hok as [_ H4]. rewrite H4. eexists. split; [reflexivity|]. split; reflexivity.
      * destruct (Z.eqb_spec t (-1)); [contradiction|]. destruct (Z.eqb_spec t (-2)); [contradiction|]. destruct (Z.eqb_spec t 0); [contradiction|].
        cbn [orb andb] in Hok. discriminate.
Qed.

Lemma positional_spec v l : supported v -> values_okb v l = true -> forallb value_clean l = true ->
  exists ns, spec_positional v l = Some ns /\ forallb notation_ok ns = true /\ ser_all ns = enc_positional_values l.
Proof.
  intros Hv Hok Hcl. unfold values_okb in Hok. apply andb_prop in Hok. destruct Hok as [Hn Hall].
  destruct (oall_concat (fun x => do n <- spec_value_notation v x; Some [n]) enc_value l) as (nss & E1 & E2 & E3).
  { intros x Hx. rewrite forallb_forall in Hall, Hcl. destruct (value_spec v x Hv (Hall x Hx) (Hcl x Hx)) as (n & A & B & C).
    exists [n]. rewrite A. cbn [obind]. repeat split; [cbn [forallb]; rewrite B; reflexivity|rewrite ser_all_one; exact C]. }
  assert (E1' : oall (spec_value_notation v) l = Some (concat nss)).
  { clear - E1. revert nss E1. induction l as [|x l IH]; intros nss E1; cbn [oall] in *.
    - assert (nss = []) by congruence. subst. reflexivity.
    - destruct (spec_value_notation v x) as [n|]; [|discriminate]. cbn [obind] in *.
      destruct (oall (fun x0 => do n0 <- spec_value_notation v x0; Some [n0]) l) as [r|]; [|discriminate]. cbn [obind] in E1.
      assert (nss = [n] :: r) by congruence. subst. rewrite (IH r eq_refl). reflexivity. }
  exists (NShort (zlen l) :: concat nss). unfold spec_positional. rewrite E1'. cbn [obind]. split; [reflexivity|]. split.
  - cbn [forallb notation_ok]. rewrite E2, fits_u16 by (split; [apply zlen_nonneg|lia]). reflexivity.
  - rewrite ser_all_cons, E3. reflexivity.
Qed.

Lemma named_spec v l : supported v -> named_values_okb v l = true -> forallb (fun kv => value_clean (snd kv)) l = true ->
  exists ns, spec_named v l = Some ns /\ forallb notation_ok ns = true /\ ser_all ns = enc_named_values l.
Proof.
  intros Hv Hok Hcl. unfold named_values_okb in Hok. apply andb_prop in Hok. destruct Hok as [Hok Hall]. apply andb_prop in Hok. destruct Hok as [Hn _].
  destruct (oall_concat (fun nv => do x <- spec_value_notation v (snd nv); Some [NString (fst nv); x]) enc_named_entry l) as (nss & E1 & E2 & E3).
  { intros [k x] Hx. rewrite forallb_forall in Hall, Hcl. specialize (Hall _ Hx). specialize (Hcl _ Hx). cbn [fst snd] in *.
    apply andb_prop in Hall. destruct Hall as [Hk Hval]. destruct (value_spec v x Hv Hval Hcl) as (n & A & B & C).
    exists [NString k; n]. rewrite A. cbn [obind]. repeat split.
    - cbn [forallb notation_ok]. rewrite B, string_ok_le by (apply str_okb_le; exact Hk). reflexivity.
    - sers. unfold enc_named_entry. cbn [fst snd ser]. rewrite C. reflexivity. }
  exists (NShort (zlen l) :: concat nss). unfold spec_named. rewrite E1. cbn [obind]. split; [reflexivity|]. split.
  - cbn [forallb notation_ok]. rewrite E2, fits_u16 by (split; [apply zlen_nonneg|lia]). reflexivity.
  - rewrite ser_all_cons, E3. reflexivity.
Qed.

(* ---------- the flags word: Go ors the masks in (QueryOptions.Flags()), the specification side adds them ---------- *)
Definition go_flags (pos named skip page inb pgs ser ts ks now cpo : bool) : Z :=
  let flags := 0 in
  let flags := if pos then QueryFlag_Add flags QueryFlagValues
               else if named then QueryFlag_Add (QueryFlag_Add flags QueryFlagValues) QueryFlagValueNames else flags in
  let flags := flag_if skip flags QueryFlagSkipMetadata in
  let flags := if page then flag_if inb (QueryFlag_Add flags QueryFlagPageSize) QueryFlagDsePageSizeBytes else flags in
  let flags := flag_if pgs flags QueryFlagPagingState in
  let flags := flag_if ser flags QueryFlagSerialConsistency in
  let flags := flag_if ts flags QueryFlagDefaultTimestamp in
  let flags := flag_if ks flags QueryFlagWithKeyspace in
  let flags := flag_if now flags QueryFlagNowInSeconds in
  flag_if cpo flags QueryFlagDseWithContinuousPagingOptions.
Definition spec_flags (pos named skip page inb pgs ser ts ks now cpo : bool) : Z :=
  flag (pos || named) 1 + flag skip 2 + flag page 4 + flag pgs 8 + flag ser 16 + flag ts 32 + flag named 64 + flag ks 128 +
  flag now 256 + flag inb 1073741824 + flag cpo 2147483648.

Lemma QueryOptions_Flags_bools o :
  QueryOptions_Flags o = go_flags (is_some (qo_PositionalValues o)) (is_some (qo_NamedValues o)) (qo_SkipMetadata o)
    (qo_PageSize o >? 0) (qo_PageSizeInBytes o) (is_some (qo_PagingState o)) (is_some (qo_SerialConsistency o))
    (is_some (qo_DefaultTimestamp o)) (nonempty (qo_Keyspace o)) (is_some (qo_NowInSeconds o)) (is_some (qo_ContinuousPagingOptions o)).
Proof. destruct o as [cons pos named skip ps inb pgs ser ts ks now cpo]. destruct pos, named; reflexivity. Qed.

(* under the two conditions of the specification side (one list of values; size-in-bytes only with a page size) *)
Lemma go_flags_sum pos named skip page inb pgs ser ts ks now cpo :
  negb (pos && named) = true -> negb inb || page = true ->
  go_flags pos named skip page inb pgs ser ts ks now cpo = spec_flags pos named skip page inb pgs ser ts ks now cpo.
Proof.
  destruct pos, named; cbn [andb negb]; intro H1; try discriminate H1;
    destruct page, inb; cbn [orb negb]; intro H2; try discriminate H2;
    destruct skip, pgs, ser, ts, ks, now, cpo; reflexivity.
Qed.

Lemma be4_wrap_i x : be_bytes 4 (wrap_i 32 x) = be_bytes 4 x.
Proof.
  apply be_bytes_congr. unfold wrap_i. change (2 ^ (32 - 1)) with 2147483648. change (2 ^ 32) with 4294967296.
  change (256 ^ Z.of_nat 4) with 4294967296. lia.
Qed.

(* ---------- version facts ---------- *)
Lemma uses4_version v : supported v -> ProtocolVersion_Uses4BytesQueryFlags v = spec_v5_or_dse v.
Proof. intro H. destruct (supported_cases _ H) as [->|[->|[->|[->|[->| ->]]]]]; reflexivity. Qed.
Lemma supports_flag_version v : supported v ->
  ProtocolVersion_SupportsQueryFlag v QueryFlagDefaultTimestamp = spec_from_v3 v /\
  ProtocolVersion_SupportsQueryFlag v QueryFlagValueNames = spec_from_v3 v /\
  ProtocolVersion_SupportsQueryFlag v QueryFlagWithKeyspace = spec_v5_or_dse2 v /\
  ProtocolVersion_SupportsQueryFlag v QueryFlagNowInSeconds = (v =? 5) /\
  ProtocolVersion_SupportsQueryFlag v QueryFlagDsePageSizeBytes = spec_is_dse v /\
  ProtocolVersion_SupportsQueryFlag v QueryFlagDseWithContinuousPagingOptions = spec_is_dse v.
Proof. intro H. destruct (supported_cases _ H) as [->|[->|[->|[->|[->| ->]]]]]; repeat split; reflexivity. Qed.

(* the tail of <query_parameters>: [<keyspace>][<now_in_seconds>][continuous paging] in the order of each version *)
Lemma tail_order v (K N P : list notation) :
  supported v -> (K <> [] -> spec_v5_or_dse2 v = true) -> (N <> [] -> (v =? 5) = true) -> (P <> [] -> spec_is_dse v = true) ->
  (if v =? 5 then K ++ N else if v =? 65 then P else if v =? 66 then K ++ P else []) = K ++ N ++ P.
Proof.
  intros Hv HK HN HP.
  assert (Dk : K = [] \/ K <> []) by (destruct K; [left; reflexivity|right; discriminate]).
  assert (Dn : N = [] \/ N <> []) by (destruct N; [left; reflexivity|right; discriminate]).
  assert (Dp : P = [] \/ P <> []) by (destruct P; [left; reflexivity|right; discriminate]).
  destruct (supported_cases _ Hv) as [->|[->|[->|[->|[->| ->]]]]]; cbn [Z.eqb Pos.eqb];
    destruct Dk as [->|Dk]; try (specialize (HK Dk); discriminate HK);
    destruct Dn as [->|Dn]; try (specialize (HN Dn); discriminate HN);
    destruct Dp as [->|Dp]; try (specialize (HP Dp); discriminate HP);
    rewrite ?app_nil_r, ?app_nil_l; reflexivity.
Qed.

(* ---------- <query_parameters> ---------- *)
(* what the specification needs beyond QueryOptions_okb (the Go encoder's choices for these inputs are documented in
   model/MsgRequests.v: positional values win over named ones; a page size <= 0 is not written and takes PageSizeInBytes
   with it; Value{Regular,nil} is written as null): the specification side has no reading for them *)
(* qo_clean: see spec/SpecClean.v *)

Lemma opt_guard (b s : bool) : (b = true -> s = true) -> negb b || s = true.
Proof. destruct b; [intro H; rewrite H; reflexivity|reflexivity]. Qed.

Lemma query_parameters_agree v o : supported v -> QueryOptions_okb v o = true -> qo_clean o = true ->
  exists ns, spec_query_parameters v o = Some ns /\ forallb notation_ok ns = true /\ ser_all ns = bytes_QueryOptions v o.
Proof.
  intros Hv Hok Hcl. unfold QueryOptions_okb in Hok. bsplit Hok. unfold qo_clean in Hcl. bsplit Hcl.
  destruct (qo_flags_spec o) as (Fv & Fn & Fk & Fp & Fb & Fs & Fc & Ft & Fy & Fw & Fo). cbv zeta in *.
  destruct (supports_flag_version v Hv) as (Sts & Snm & Sks & Snow & Sby & Scp).
  match goal with Hx : flags_supportedb v _ = true |- _ => rename Hx into Hsup end.
  assert (Hin : forall fl, In fl qo_flag_list -> QueryFlag_Contains (QueryOptions_Flags o) fl = true -> ProtocolVersion_SupportsQueryFlag v fl = true)
    by (intros fl Hfl Hc; exact (flags_supported_in _ _ _ Hsup Hfl Hc)).
  unfold qo_flag_list in Hin.
  destruct o as [cons pos named skip ps inb pgs serc ts ks now cpo].
  cbn [qo_Consistency qo_PositionalValues qo_NamedValues qo_SkipMetadata qo_PageSize qo_PageSizeInBytes qo_PagingState
       qo_SerialConsistency qo_DefaultTimestamp qo_Keyspace qo_NowInSeconds qo_ContinuousPagingOptions] in *.
  set (o := {| qo_Consistency := cons; qo_PositionalValues := pos; qo_NamedValues := named; qo_SkipMetadata := skip; qo_PageSize := ps;
               qo_PageSizeInBytes := inb; qo_PagingState := pgs; qo_SerialConsistency := serc; qo_DefaultTimestamp := ts;
               qo_Keyspace := ks; qo_NowInSeconds := now; qo_ContinuousPagingOptions := cpo |}) in *.
  (* the guards of the specification side *)
  assert (G2 : negb (isSome pos && isSome named) = true) by (rewrite !isSome_is_some; assumption).
  assert (G3 : negb (isSome named) || spec_from_v3 v = true).
  { apply opt_guard. intro E. rewrite <- Snm. apply Hin; [cbn [In]; tauto|]. rewrite Fn.
    destruct pos; destruct named; cbn [isSome is_some negb andb] in *; try discriminate; reflexivity. }
  assert (G5 : negb inb || (spec_is_dse v && (0 <? ps)) = true).
  { apply opt_guard. intro E. subst inb. match goal with Hx : negb true || (ps >? 0) = true |- _ => cbn [negb orb] in Hx; rename Hx into Hps end.
    rewrite <- Sby. rewrite (Hin QueryFlagDsePageSizeBytes) by (cbn [In]; tauto || (rewrite Fb, Hps; reflexivity)).
    rewrite Z.gtb_ltb in Hps. rewrite Hps. reflexivity. }
  assert (G6 : negb (isSome ts) || spec_from_v3 v = true).
  { apply opt_guard. intro E. rewrite <- Sts. apply Hin; [cbn [In]; tauto|]. rewrite Ft, <- isSome_is_some. exact E. }
  assert (G7 : negb (SpecMsg.nonempty ks) || spec_v5_or_dse2 v = true).
  { apply opt_guard. intro E. rewrite <- Sks. apply Hin; [cbn [In]; tauto|]. rewrite Fy, <- nonempty_eq. exact E. }
  assert (G8 : negb (isSome now) || (v =? 5) = true).
  { apply opt_guard. intro E. rewrite <- Snow. apply Hin; [cbn [In]; tauto|]. rewrite Fw, <- isSome_is_some. exact E. }
  assert (G9 : negb (isSome cpo) || spec_is_dse v = true).
  { apply opt_guard. intro E. rewrite <- Scp. apply Hin; [cbn [In]; tauto|]. rewrite Fo, <- isSome_is_some. exact E. }
  assert (G10 : match cpo with Some c => (v =? 66) || (cpo_NextPages c =? 0) | None => true end = true).
  { destruct cpo as [c|]; [|reflexivity]. match goal with Hx : opt_okb (ContinuousPagingOptions_okb v) (Some c) = true |- _ => cbn [opt_okb] in Hx; unfold ContinuousPagingOptions_okb in Hx; bsplit Hx end.
    match goal with Hx : (v >=? ProtocolVersionDse2) || _ = true |- _ => revert Hx end.
    destruct (supported_cases _ Hv) as [->|[->|[->|[->|[->| ->]]]]]; cbn [Z.geb Z.compare Pos.compare Pos.compare_cont Z.eqb Pos.eqb ProtocolVersionDse2 orb]; intro Hx; exact Hx. }
  (* values *)
  assert (Hvals : exists vns, match pos, named with Some l, _ => spec_positional v l | None, Some l => spec_named v l | None, None => Some [] end = Some vns /\
                              forallb notation_ok vns = true /\ ser_all vns = bytes_qo_values o).
  { unfold bytes_qo_values. cbn [qo_PositionalValues qo_NamedValues o]. destruct pos as [l|].
    - cbn [opt_okb olist] in *. apply positional_spec; assumption.
    - destruct named as [l|]; [cbn [opt_okb olist] in *; apply named_spec; assumption|]. exists []. repeat split. }
  destruct Hvals as (vns & V1 & V2 & V3).
  subst o. unfold spec_query_parameters. cbn [qo_Consistency qo_PositionalValues qo_NamedValues qo_SkipMetadata qo_PageSize qo_PageSizeInBytes qo_PagingState
       qo_SerialConsistency qo_DefaultTimestamp qo_Keyspace qo_NowInSeconds qo_ContinuousPagingOptions]. cbv zeta.
  rewrite (supported_is_version _ Hv). cbn [guard obind]. rewrite G2. cbn [guard obind]. rewrite G3. cbn [guard obind].
  match goal with Hx : (0 <=? ps) = true |- _ => rewrite Hx end. cbn [guard obind]. rewrite G5. cbn [guard obind]. rewrite G6. cbn [guard obind].
  rewrite G7. cbn [guard obind]. rewrite G8. cbn [guard obind]. rewrite G9. cbn [guard obind]. rewrite G10. cbn [guard obind].
  rewrite V1. cbn [obind].
  eexists. split; [reflexivity|].
  set (o := {| qo_Consistency := cons; qo_PositionalValues := pos; qo_NamedValues := named; qo_SkipMetadata := skip; qo_PageSize := ps;
               qo_PageSizeInBytes := inb; qo_PagingState := pgs; qo_SerialConsistency := serc; qo_DefaultTimestamp := ts;
               qo_Keyspace := ks; qo_NowInSeconds := now; qo_ContinuousPagingOptions := cpo |}) in *.
  (* the tail *)
  set (K := if SpecMsg.nonempty ks then [NString ks] else []).
  set (N := opt_list now (fun n => [NInt n])).
  set (P := opt_list cpo (fun c => [NInt (cpo_MaxPages c); NInt (cpo_PagesPerSecond c)] ++ (if v =? 66 then [NInt (cpo_NextPages c)] else []))).
  rewrite (tail_order v K N P Hv).
  2:{ intro HK. destruct (SpecMsg.nonempty ks); [exact G7|exfalso; apply HK; reflexivity]. }
  2:{ intro HN. destruct now; [exact G8|exfalso; apply HN; reflexivity]. }
  2:{ intro HP. destruct cpo; [exact G9|exfalso; apply HP; reflexivity]. }
  (* the flags word *)
  assert (Efl : QueryOptions_Flags o = flag (isSome pos || isSome named) 1 + flag skip 2 + flag (0 <? ps) 4 + flag (isSome pgs) 8 +
                flag (isSome serc) 16 + flag (isSome ts) 32 + flag (isSome named) 64 + flag (SpecMsg.nonempty ks) 128 +
                flag (isSome now) 256 + flag inb 1073741824 + flag (isSome cpo) 2147483648).
  { rewrite QueryOptions_Flags_bools. cbn [qo_PositionalValues qo_NamedValues qo_SkipMetadata qo_PageSize qo_PageSizeInBytes qo_PagingState
       qo_SerialConsistency qo_DefaultTimestamp qo_Keyspace qo_NowInSeconds qo_ContinuousPagingOptions o].
    rewrite go_flags_sum by assumption. unfold spec_flags. rewrite Z.gtb_ltb. reflexivity. }
  rewrite <- Efl.
  pose proof (qo_flags_range o) as Hrange. pose proof (qo_flags_byte v o Hsup) as Hbyte. rewrite uses4_version in Hbyte by exact Hv.
  pose proof (consistency_valid_range _ Hok) as Hcons. unfold in_u16 in Hcons.
  split.
  - cbn [app forallb notation_ok]. rewrite fits_u16 by lia. cbn [andb].
    rewrite !forallb_app, V2.
    assert (N1 : notation_ok (if spec_v5_or_dse v then NInt (QueryOptions_Flags o) else NByte (QueryOptions_Flags o)) = true).
    { destruct (spec_v5_or_dse v); cbn [notation_ok]; [apply fits_any32; lia|apply fits_u8; specialize (Hbyte eq_refl); lia]. }
    rewrite N1. cbn [andb].
    assert (N2 : forallb notation_ok (if 0 <? ps then [NInt ps] else []) = true).
    { destruct (0 <? ps); [|reflexivity]. cbn [forallb notation_ok]. match goal with Hx : i32_okb ps = true |- _ => apply i32_okb_in in Hx; unfold in_i32 in Hx end.
      rewrite fits_any32 by lia. reflexivity. }
    assert (N3 : forallb notation_ok (opt_list pgs (fun b => [NBytes (Some b)])) = true).
    { destruct pgs as [b|]; [|reflexivity]. cbn [opt_list forallb]. rewrite obytes_nok; [reflexivity|].
      match goal with Hx : lstr_okb (olist (Some b)) = true |- _ => apply lstr_okb_le in Hx; exact Hx end. }
    assert (N4 : forallb notation_ok (opt_list serc (fun c => [NConsistency c])) = true).
    { destruct serc as [c|]; [|reflexivity]. cbn [opt_list forallb notation_ok].
      match goal with Hx : opt_okb _ (Some c) = true |- _ => cbn [opt_okb] in Hx; apply consistency_serial_valid, consistency_valid_range in Hx; unfold in_u16 in Hx end.
      rewrite fits_u16 by lia. reflexivity. }
    assert (N5 : forallb notation_ok (opt_list ts (fun t => [NLong t])) = true).
    { destruct ts as [t|]; [|reflexivity]. cbn [opt_list forallb notation_ok].
      match goal with Hx : opt_okb i64_okb (Some t) = true |- _ => cbn [opt_okb] in Hx; apply i64_okb_in in Hx; unfold in_i64 in Hx end.
      rewrite fits_any64 by lia. reflexivity. }
    assert (N6 : forallb notation_ok K = true).
    { unfold K. destruct (SpecMsg.nonempty ks); [|reflexivity]. cbn [forallb notation_ok].
      match goal with Hx : str_okb ks = true |- _ => rewrite (string_ok_le _ (str_okb_le _ Hx)) end. reflexivity. }
    assert (N7 : forallb notation_ok N = true).
    { unfold N. destruct now as [n|]; [|reflexivity]. cbn [opt_list forallb notation_ok].
      match goal with Hx : opt_okb i32_okb (Some n) = true |- _ => cbn [opt_okb] in Hx; apply i32_okb_in in Hx; unfold in_i32 in Hx end.
      rewrite fits_any32 by lia. reflexivity. }
    assert (N8 : forallb notation_ok P = true).
    { unfold P. destruct cpo as [c|]; [|reflexivity]. cbn [opt_list].
      match goal with Hx : opt_okb (ContinuousPagingOptions_okb v) (Some c) = true |- _ => cbn [opt_okb] in Hx; unfold ContinuousPagingOptions_okb in Hx; bsplit Hx end.
      repeat match goal with Hx : i32_okb _ = true |- _ => apply i32_okb_in in Hx; unfold in_i32 in Hx end.
      rewrite forallb_app. cbn [forallb notation_ok]. rewrite !fits_any32 by lia. cbn [andb].
      destruct (v =? 66); [|reflexivity]. cbn [forallb notation_ok]. rewrite fits_any32 by lia. reflexivity. }
    rewrite N2, N3, N4, N5, N6, N7, N8. reflexivity.
  - unfold bytes_QueryOptions. rewrite !ser_all_app, V3. rewrite !ser_all_cons, ser_all_nil, app_nil_r. rewrite <- ?app_assoc.
    cbn [ser qo_Consistency o]. f_equal.
    assert (B1 : ser (if spec_v5_or_dse v then NInt (QueryOptions_Flags o) else NByte (QueryOptions_Flags o)) = bytes_query_flags v (QueryOptions_Flags o)).
    { unfold bytes_query_flags. rewrite uses4_version by exact Hv. destruct (spec_v5_or_dse v); cbn [ser]; [symmetry; apply be4_wrap_i|reflexivity]. }
    rewrite B1. f_equal. f_equal.
    assert (B2 : ser_all (if 0 <? ps then [NInt ps] else []) = bytes_qo_page_size o).
    { unfold bytes_qo_page_size. cbn [qo_PageSize o]. rewrite Z.gtb_ltb. destruct (0 <? ps); sers; reflexivity. }
    assert (B3 : ser_all (opt_list pgs (fun b => [NBytes (Some b)])) = bytes_qo_paging_state o) by (destruct pgs; cbn [opt_list]; sers; reflexivity).
    assert (B4 : ser_all (opt_list serc (fun c => [NConsistency c])) = bytes_qo_serial o) by (destruct serc; cbn [opt_list]; sers; reflexivity).
    assert (B5 : ser_all (opt_list ts (fun t => [NLong t])) = bytes_qo_timestamp o) by (destruct ts; cbn [opt_list]; sers; reflexivity).
    assert (B6 : ser_all K = bytes_qo_keyspace o).
    { unfold K, bytes_qo_keyspace. cbn [qo_Keyspace o]. rewrite nonempty_eq. destruct (MsgRequests.nonempty ks); sers; reflexivity. }
    assert (B7 : ser_all N = bytes_qo_now o) by (unfold N; destruct now; cbn [opt_list]; sers; reflexivity).
    assert (B8 : ser_all P = bytes_qo_cpo v o).
    { unfold P, bytes_qo_cpo, bytes_cpo. cbn [qo_ContinuousPagingOptions o]. destruct cpo as [c|]; [|reflexivity]. cbn [opt_list bytes_opt].
      assert (Eg : (v >=? ProtocolVersionDse2) = (v =? 66)) by (destruct (supported_cases _ Hv) as [->|[->|[->|[->|[->| ->]]]]]; reflexivity).
      rewrite Eg. destruct (v =? 66); sers; rewrite <- ?app_assoc; reflexivity. }
    rewrite B2, B3, B4, B5, B6, B7, B8. reflexivity.
Qed.

(* ---------- QUERY ---------- *)
(* beyond Query_okb: options are given (a nil *QueryOptions is encoded by Go as the default options - consistency ANY, no
   flags -; the specification has no default), and they are clean *)
(* oqo_clean: see spec/SpecClean.v *)

Lemma agree_Query v m : supported v -> Query_okb v m = true -> oqo_clean (q_Options m) = true ->
  spec_body_bytes v (M_Query m) = Some (bytes_Query v m).
Proof.
  intros Hv H Hcl. destruct m as [q [o|]]; [|discriminate]. unfold Query_okb, oQueryOptions_okb in H. cbn [q_Query q_Options oqo_clean] in *.
  apply andb_prop in H. destruct H as [Hq Ho]. apply lstr_okb_le in Hq.
  destruct (query_parameters_agree v o Hv Ho Hcl) as (ns & E1 & E2 & E3).
  apply spec_bytes_intro with (l := NLongString q :: ns).
  - raw_head Hv. unfold spec_query. cbn [q_Query q_Options obind]. rewrite E1. reflexivity.
  - cbn [forallb notation_ok]. rewrite E2, blob_ok_le by exact Hq. reflexivity.
  - rewrite ser_all_cons, E3. reflexivity.
Qed.
(* a nil *QueryOptions: the Go encoder emits what it emits for the default options *)
Lemma Query_nil_options v q : bytes_Query v {| q_Query := q; q_Options := None |} = bytes_Query v {| q_Query := q; q_Options := Some default_QueryOptions |}.
Proof. reflexivity. Qed.

(* ---------- EXECUTE ---------- *)
(* execute_clean: see spec/SpecClean.v *)

Lemma agree_Execute v m : supported v -> Execute_okb v m = true -> execute_clean v m = true ->
  spec_body_bytes v (M_Execute m) = Some (bytes_Execute v m).
Proof.
  intros Hv H Hcl. destruct m as [id rid [o|]]; [|discriminate]. unfold Execute_okb, oQueryOptions_okb in H. unfold execute_clean in Hcl.
  cbn [ex_QueryId ex_ResultMetadataId ex_Options oqo_clean] in *.
  apply andb_prop in Hcl. destruct Hcl as [Hcl Hridc].
  apply andb_prop in H. destruct H as [H Ho]. apply andb_prop in H. destruct H as [H Hrid]. apply andb_prop in H. destruct H as [Hne Hid].
  destruct id as [id|]; [|discriminate]. cbn [olist] in *. apply str_okb_le in Hid.
  destruct (query_parameters_agree v o Hv Ho Hcl) as (ns & E1 & E2 & E3).
  unfold bytes_Execute. cbn [ex_QueryId ex_ResultMetadataId ex_Options bytes_oQueryOptions oqo].
  assert (Esup : ProtocolVersion_SupportsResultMetadataId v = spec_v5_or_dse2 v) by (destruct (supported_cases _ Hv) as [->|[->|[->|[->|[->| ->]]]]]; reflexivity).
  rewrite Esup in *. destruct (spec_v5_or_dse2 v) eqn:E5.
  - apply andb_prop in Hrid. destruct Hrid as [Hrne Hrl]. destruct rid as [rid|]; [|discriminate]. cbn [olist] in *. apply str_okb_le in Hrl.
    apply spec_bytes_intro with (l := [NShortBytes id; NShortBytes rid] ++ ns).
    + raw_head Hv. unfold spec_execute. cbn [ex_QueryId ex_ResultMetadataId ex_Options obind]. rewrite E1. cbn [obind]. rewrite E5. reflexivity.
    + cbn [app forallb notation_ok]. rewrite E2, !string_ok_le by assumption. reflexivity.
    + rewrite ser_all_app, E3. sers. rewrite <- ?app_assoc. reflexivity.
  - cbn [orb] in Hridc. destruct rid; [discriminate Hridc|].
    apply spec_bytes_intro with (l := NShortBytes id :: ns).
    + raw_head Hv. unfold spec_execute. cbn [ex_QueryId ex_ResultMetadataId ex_Options obind]. rewrite E1. cbn [obind]. rewrite E5. reflexivity.
    + cbn [forallb notation_ok]. rewrite E2, string_ok_le by assumption. reflexivity.
    + rewrite ser_all_cons, E3. reflexivity.
Qed.

(* ---------- BATCH ---------- *)
(* beyond BatchChild_okb: a child with a query text has no id at all (Go accepts and ignores an empty non-nil id);
   clean values *)
(* batch_child_clean: see spec/SpecClean.v *)

Lemma batch_child_agree v oc : supported v -> BatchChild_okb v oc = true -> batch_child_clean oc = true ->
  exists ns, spec_batch_child v oc = Some ns /\ forallb notation_ok ns = true /\ ser_all ns = bytes_BatchChild oc.
Proof.
  intros Hv H Hcl. destruct oc as [[q id vs]|]; [|discriminate]. unfold BatchChild_okb in H. unfold batch_child_clean in Hcl.
  cbn [bc_Query bc_Id bc_Values] in *. apply andb_prop in H. destruct H as [H Hvs]. apply andb_prop in Hcl. destruct Hcl as [Hidc Hvc].
  destruct (positional_spec v vs Hv Hvs Hvc) as (vns & V1 & V2 & V3).
  unfold spec_batch_child, bytes_BatchChild. cbn [obind bc_Query bc_Id bc_Values]. rewrite V1. cbn [obind]. rewrite nonempty_eq.
  destruct (MsgRequests.nonempty q) eqn:Eq.
  - cbn [negb orb] in Hidc. destruct id; [discriminate Hidc|]. apply andb_prop in H. destruct H as [Hq _]. apply lstr_okb_le in Hq.
    eexists. split; [reflexivity|]. split.
    + cbn [app forallb notation_ok]. rewrite V2, blob_ok_le by exact Hq. reflexivity.
    + rewrite ser_all_app, V3. sers. rewrite <- ?app_assoc. reflexivity.
  - apply andb_prop in H. destruct H as [Hne Hid]. destruct id as [id|]; [|discriminate]. cbn [olist] in *. apply str_okb_le in Hid.
    eexists. split; [reflexivity|]. split.
    + cbn [app forallb notation_ok]. rewrite V2, string_ok_le by exact Hid. reflexivity.
    + rewrite ser_all_app, V3. sers. rewrite <- ?app_assoc. reflexivity.
Qed.

Lemma batch_flags_sum (s t k n : bool) :
  flag_if n (flag_if k (flag_if t (flag_if s 0 QueryFlagSerialConsistency) QueryFlagDefaultTimestamp) QueryFlagWithKeyspace) QueryFlagNowInSeconds
  = flag s 16 + flag t 32 + flag k 128 + flag n 256.
Proof. destruct s, t, k, n; reflexivity. Qed.

Lemma batch_flags_version v : supported v -> ProtocolVersion_SupportsBatchQueryFlags v = negb (v =? 2).
Proof. intro H. destruct (supported_cases _ H) as [->|[->|[->|[->|[->| ->]]]]]; reflexivity. Qed.

Lemma agree_Batch v m : supported v -> Batch_okb v m = true -> forallb batch_child_clean (b_Children m) = true ->
  spec_body_bytes v (M_Batch m) = Some (bytes_Batch v m).
Proof.
  intros Hv H Hcl. unfold Batch_okb in H. bsplit H.
  destruct m as [ty children cons serial ts ks now]. cbn [b_Type b_Children b_Consistency b_SerialConsistency b_DefaultTimestamp b_Keyspace b_NowInSeconds] in *.
  destruct (supports_flag_version v Hv) as (Sts & _ & Sks & Snow & _ & _).
  match goal with Hx : forallb (BatchChild_okb v) children = true |- _ => rename Hx into Hall end.
  match goal with Hx : (if ProtocolVersion_SupportsBatchQueryFlags v then _ else _) = true |- _ => rename Hx into Hfl end.
  rewrite batch_flags_version in Hfl by exact Hv.
  destruct (oall_concat (spec_batch_child v) bytes_BatchChild children) as (nss & C1 & C2 & C3).
  { intros oc Hoc. rewrite forallb_forall in Hall, Hcl. apply batch_child_agree; [exact Hv|apply Hall; exact Hoc|apply Hcl; exact Hoc]. }
  unfold Batch_Flags in Hfl. cbn [b_SerialConsistency b_DefaultTimestamp b_Keyspace b_NowInSeconds] in Hfl. rewrite batch_flags_sum in Hfl.
  (* which optional fields the version allows *)
  assert (G : (is_some serial = true -> spec_from_v3 v = true) /\ (is_some ts = true -> spec_from_v3 v = true) /\
              (MsgRequests.nonempty ks = true -> spec_v5_or_dse2 v = true) /\ (is_some now = true -> (v =? 5) = true)).
  { destruct (Z.eqb_spec v 2) as [->|Hn2]; cbn [negb] in Hfl.
    - destruct (is_some serial), (is_some ts), (MsgRequests.nonempty ks), (is_some now); try discriminate Hfl; repeat split; intro; discriminate.
    - unfold flags_supportedb, qo_flag_list in Hfl. rewrite forallb_forall in Hfl.
      assert (Hv3 : spec_from_v3 v = true) by (destruct (supported_cases _ Hv) as [->|[->|[->|[->|[->| ->]]]]]; try reflexivity; contradiction).
      repeat split; intro E; try exact Hv3.
      + rewrite <- Sks. specialize (Hfl QueryFlagWithKeyspace). cbn [In] in Hfl. apply orb_prop in Hfl; [|tauto]. destruct Hfl as [Hfl|Hfl]; [|exact Hfl].
        exfalso. rewrite E in Hfl. destruct (is_some serial), (is_some ts), (is_some now); discriminate Hfl.
      + rewrite <- Snow. specialize (Hfl QueryFlagNowInSeconds). cbn [In] in Hfl. apply orb_prop in Hfl; [|tauto]. destruct Hfl as [Hfl|Hfl]; [|exact Hfl].
        exfalso. rewrite E in Hfl. destruct (is_some serial), (is_some ts), (MsgRequests.nonempty ks); discriminate Hfl. }
  destruct G as (Gs & Gt & Gk & Gn).
  match goal with Hx : is_ok (CheckValidBatchType ty) = true |- _ => pose proof (batch_type_range _ Hx) as Hty end.
  match goal with Hx : u16_okb cons = true |- _ => apply u16_okb_in in Hx; unfold in_u16 in Hx; rename Hx into Hco end.
  set (flags := flag (isSome serial) 16 + flag (isSome ts) 32 + flag (SpecMsg.nonempty ks) 128 + flag (isSome now) 256).
  apply spec_bytes_intro with (l := [NByte ty; NShort (zlen children)] ++ concat nss ++ [NConsistency cons] ++
      (if v =? 2 then [] else [if spec_v5_or_dse v then NInt flags else NByte flags] ++ opt_list serial (fun c => [NConsistency c]) ++
         opt_list ts (fun t => [NLong t]) ++ (if SpecMsg.nonempty ks then [NString ks] else []) ++ opt_list now (fun n => [NInt n]))).
  - raw_head Hv. unfold spec_batch. cbn [b_Type b_Children b_Consistency b_SerialConsistency b_DefaultTimestamp b_Keyspace b_NowInSeconds].
    rewrite (supported_is_version _ Hv). cbn [guard obind]. rewrite C1. cbn [obind].
    rewrite (opt_guard (isSome serial) _ Gs). cbn [guard obind]. rewrite (opt_guard (isSome ts) _ Gt). cbn [guard obind].
    rewrite (opt_guard (SpecMsg.nonempty ks) (spec_v5_or_dse2 v)) by (rewrite nonempty_eq; exact Gk). cbn [guard obind].
    rewrite (opt_guard (isSome now) _ Gn). cbn [guard obind]. reflexivity.
  - rewrite !forallb_app, C2. cbn [forallb notation_ok]. rewrite fits_u8 by lia. rewrite (fits_u16 (zlen children)) by (split; [apply zlen_nonneg|lia]).
    rewrite (fits_u16 cons) by lia. cbn [andb].
    destruct (v =? 2); [reflexivity|]. rewrite !forallb_app.
    assert (Hfr : 0 <= flags < 512) by (unfold flags; destruct (isSome serial), (isSome ts), (SpecMsg.nonempty ks), (isSome now); cbn [flag]; lia).
    assert (Hf8 : spec_v5_or_dse v = false -> 0 <= flags < 256).
    { intro E. assert (Hnow : isSome now = false).
      { destruct (isSome now) eqn:En; [|reflexivity]. specialize (Gn En). apply Z.eqb_eq in Gn. subst v. discriminate E. }
      unfold flags. rewrite Hnow. destruct (isSome serial), (isSome ts), (SpecMsg.nonempty ks); cbn [flag]; lia. }
    assert (N1 : forallb notation_ok [if spec_v5_or_dse v then NInt flags else NByte flags] = true).
    { cbn [forallb]. destruct (spec_v5_or_dse v); cbn [notation_ok]; [rewrite fits_any32 by lia|rewrite fits_u8 by (specialize (Hf8 eq_refl); lia)]; reflexivity. }
    assert (N2 : forallb notation_ok (opt_list serial (fun c => [NConsistency c])) = true).
    { destruct serial as [c|]; [|reflexivity]. cbn [opt_list forallb notation_ok].
      match goal with Hx : opt_okb u16_okb (Some c) = true |- _ => cbn [opt_okb] in Hx; apply u16_okb_in in Hx; unfold in_u16 in Hx end.
      rewrite fits_u16 by lia. reflexivity. }
    assert (N3 : forallb notation_ok (opt_list ts (fun t => [NLong t])) = true).
    { destruct ts as [t|]; [|reflexivity]. cbn [opt_list forallb notation_ok].
      match goal with Hx : opt_okb i64_okb (Some t) = true |- _ => cbn [opt_okb] in Hx; apply i64_okb_in in Hx; unfold in_i64 in Hx end.
      rewrite fits_any64 by lia. reflexivity. }
    assert (N4 : forallb notation_ok (if SpecMsg.nonempty ks then [NString ks] else []) = true).
    { destruct (SpecMsg.nonempty ks); [|reflexivity]. cbn [forallb notation_ok].
      match goal with Hx : str_okb ks = true |- _ => rewrite (string_ok_le _ (str_okb_le _ Hx)) end. reflexivity. }
    assert (N5 : forallb notation_ok (opt_list now (fun n => [NInt n])) = true).
    { destruct now as [n|]; [|reflexivity]. cbn [opt_list forallb notation_ok].
      match goal with Hx : opt_okb i32_okb (Some n) = true |- _ => cbn [opt_okb] in Hx; apply i32_okb_in in Hx; unfold in_i32 in Hx end.
      rewrite fits_any32 by lia. reflexivity. }
    rewrite N1, N2, N3, N4, N5. reflexivity.
  - unfold bytes_Batch, bytes_batch_tail. cbn [b_Type b_Children b_Consistency b_SerialConsistency b_DefaultTimestamp b_Keyspace b_NowInSeconds].
    rewrite batch_flags_version by exact Hv. unfold Batch_Flags. cbn [b_SerialConsistency b_DefaultTimestamp b_Keyspace b_NowInSeconds]. rewrite batch_flags_sum.
    rewrite !ser_all_app, C3. rewrite !ser_all_cons, ser_all_nil, !app_nil_r. rewrite <- ?app_assoc. cbn [ser].
    do 4 apply f_equal.
    destruct (v =? 2); cbn [negb]; [reflexivity|]. rewrite !ser_all_app. rewrite ser_all_one.
    assert (B1 : ser (if spec_v5_or_dse v then NInt flags else NByte flags) =
                 bytes_query_flags v (flag (is_some serial) 16 + flag (is_some ts) 32 + flag (MsgRequests.nonempty ks) 128 + flag (is_some now) 256)).
    { unfold bytes_query_flags. rewrite uses4_version by exact Hv. destruct (spec_v5_or_dse v); cbn [ser]; [symmetry; apply be4_wrap_i|reflexivity]. }
    rewrite B1. apply f_equal.
    assert (B2 : ser_all (opt_list serial (fun c => [NConsistency c])) = bytes_opt (be_bytes 2) serial) by (destruct serial; cbn [opt_list]; sers; reflexivity).
    assert (B3 : ser_all (opt_list ts (fun t => [NLong t])) = bytes_opt (be_bytes 8) ts) by (destruct ts; cbn [opt_list]; sers; reflexivity).
    assert (B4 : ser_all (if SpecMsg.nonempty ks then [NString ks] else []) = (if MsgRequests.nonempty ks then enc_string ks else []))
      by (rewrite nonempty_eq; destruct (MsgRequests.nonempty ks); sers; reflexivity).
    assert (B5 : ser_all (opt_list now (fun n => [NInt n])) = bytes_opt (be_bytes 4) now) by (destruct now; cbn [opt_list]; sers; reflexivity).
    rewrite B2, B3, B4, B5. reflexivity.
Qed.
