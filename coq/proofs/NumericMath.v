(* C13, part 2: datacodec/math.go.  addExact / multiplyExact return the exact result iff it is representable in int64;
   floorDiv / floorMod are Z.div / Z.modulo (floor semantics) except for the single overflowing pair (MinInt64, -1).
   Subject: gen/Numeric_gen.v. *)
From Coq Require Import ZArith List String Bool Lia.
From Coq Require Import ZifyBool.
From GCNP Require Import base.GoInt base.GoNum gen.Numeric_gen proofs.NumericBase.
Open Scope Z_scope.
Ltac Zify.zify_post_hook ::= Z.to_euclidean_division_equations.

Definition in64 (x : Z) : Prop := -9223372036854775808 <= x <= 9223372036854775807.

Lemma lxor_neg_iff a b : Z.lxor a b < 0 <-> (a < 0 /\ 0 <= b) \/ (0 <= a /\ b < 0).
Proof. pose proof (Z.lxor_nonneg a b). lia. Qed.

Theorem addExact_spec x y : in64 x -> in64 y ->
  (in64 (x + y) -> addExact x y = (x + y, false)) /\ (~ in64 (x + y) -> addExact x y = (0, true)).
Proof.
  unfold in64, addExact. intros Hx Hy. rewrite wrap_i64_eq.
  set (r := (x + y + 9223372036854775808) mod 18446744073709551616 - 9223372036854775808).
  assert (Hr: r = x + y \/ r = x + y - 18446744073709551616 \/ r = x + y + 18446744073709551616) by (unfold r; lia).
  assert (Hr64: -9223372036854775808 <= r <= 9223372036854775807) by (unfold r; lia).
  pose proof (Z.land_neg (Z.lxor x r) (Z.lxor y r)) as HL.
  pose proof (lxor_neg_iff x r) as H1. pose proof (lxor_neg_iff y r) as H2.
  split; intro H.
  - destruct (Z.ltb_spec (Z.land (Z.lxor x r) (Z.lxor y r)) 0) as [Hn|Hn].
    + exfalso. lia.
    + f_equal. lia.
  - destruct (Z.ltb_spec (Z.land (Z.lxor x r) (Z.lxor y r)) 0) as [Hn|Hn]; [reflexivity|].
    exfalso. lia.
Qed.

Lemma quot_small r y : 2 <= Z.abs y -> Z.abs r <= 9223372036854775808 -> Z.abs (Z.quot r y) <= 4611686018427387904.
Proof.
  intros Hy Hr. pose proof (Z.quot_rem' r y) as E.
  assert (Hm: Z.abs (Z.rem r y) < Z.abs y) by (apply Z.rem_bound_abs; lia).
  assert (Hs: 0 <= Z.rem r y * r) by (apply Z.rem_sign_mul; lia).
  set (q := Z.quot r y) in *. set (m := Z.rem r y) in *. clearbody q m.
  Timeout 30 nia.
Qed.

Theorem multiplyExact_spec x y : in64 x -> in64 y ->
  (in64 (x * y) -> multiplyExact x y = (x * y, false)) /\ (~ in64 (x * y) -> multiplyExact x y = (0, true)).
Proof.
  unfold in64, multiplyExact. intros Hx Hy.
  destruct (Z.eqb_spec x 0) as [->|Hx0]; [cbn [orb]; rewrite wrap_i64_eq; split; intro; [f_equal|exfalso]; lia|].
  destruct (Z.eqb_spec y 0) as [->|Hy0]; [cbn [orb]; rewrite wrap_i64_eq, Z.mul_0_r; split; intro; [f_equal|exfalso]; lia|].
  destruct (Z.eqb_spec x 1) as [->|Hx1]; [cbn [orb]; rewrite wrap_i64_eq, Z.mul_1_l; split; intro; [f_equal|exfalso]; lia|].
  destruct (Z.eqb_spec y 1) as [->|Hy1]; [cbn [orb]; rewrite wrap_i64_eq, Z.mul_1_r; split; intro; [f_equal|exfalso]; lia|].
  cbn [orb].
  destruct (Z.eqb_spec x (-9223372036854775808)) as [->|Hxm]; [cbn [orb]; split; intro; [exfalso|reflexivity]; lia|].
  destruct (Z.eqb_spec y (-9223372036854775808)) as [->|Hym]; [cbn [orb]; split; intro; [exfalso|reflexivity]; lia|].
  cbn [orb]. unfold go_quot.
  destruct (Z.eq_dec y (-1)) as [->|Hy1'].
  { replace (x * -1) with (- x) by lia. rewrite !wrap_i64_eq.
    replace ((- x + 9223372036854775808) mod 18446744073709551616 - 9223372036854775808) with (- x) by lia.
    change (-1) with (- (1)). rewrite Z.quot_opp_opp, Z.quot_1_r by lia.
    replace ((x + 9223372036854775808) mod 18446744073709551616 - 9223372036854775808) with x by lia.
    rewrite Z.eqb_refl. cbn [negb]. split; intro; [reflexivity|exfalso; lia]. }
  set (r := wrap_i64 (x * y)).
  assert (Hr: exists k, r = x * y - k * 18446744073709551616 /\ (k = 0 <-> (-9223372036854775808 <= x * y <= 9223372036854775807))
              /\ -9223372036854775808 <= r <= 9223372036854775807).
  { unfold r. rewrite wrap_i64_eq. exists ((x * y + 9223372036854775808) / 18446744073709551616).
    set (p := x * y). clearbody p. lia. }
  destruct Hr as [k [Hk [Hk0 Hr64]]].
  pose proof (quot_small r y ltac:(lia) ltac:(lia)) as Hq.
  pose proof (Z.quot_rem' r y) as E.
  assert (Hm: Z.abs (Z.rem r y) < Z.abs y) by (apply Z.rem_bound_abs; lia).
  set (q := Z.quot r y) in *. set (m := Z.rem r y) in *.
  assert (Hwq: wrap_i64 q = q) by (rewrite wrap_i64_eq; clearbody q; lia).
  rewrite Hwq.
  split; intro H.
  - assert (k = 0) by (apply Hk0; exact H). subst k.
    assert (Hq': q = x).
    { unfold q. replace r with (x * y) by lia. apply Z.quot_mul. lia. }
    rewrite Hq', Z.eqb_refl. cbn [negb]. f_equal. lia.
  - destruct (Z.eqb_spec q x) as [Hqx|Hqx]; [|reflexivity].
    exfalso. assert (k <> 0) by (intro; apply H; apply Hk0; assumption).
    clearbody q m. subst q. 
    assert (m = - k * 18446744073709551616) by lia. lia.
Qed.

Theorem floorDiv_spec x y : in64 x -> in64 y -> y <> 0 -> ~ (x = -9223372036854775808 /\ y = -1) ->
  floorDiv x y = x / y.
Proof.
  unfold in64, floorDiv, go_quot. intros Hx Hy Hy0 Hov.
  assert (Hq: -9223372036854775808 <= Z.quot x y <= 9223372036854775807).
  { destruct (Z.eq_dec y 1) as [->|]; [rewrite Z.quot_1_r; lia|].
    destruct (Z.eq_dec y (-1)) as [->|].
    { change (-1) with (- (1)). rewrite Z.quot_opp_r, Z.quot_1_r by lia. lia. }
    assert (A1: 2 <= Z.abs y) by lia. assert (A2: Z.abs x <= 9223372036854775808) by lia.
    pose proof (quot_small x y A1 A2). lia. }
  assert (Hq2: 2 <= Z.abs y -> Z.abs (Z.quot x y) <= 4611686018427387904).
  { intro A1. apply quot_small; lia. }
  pose proof (lxor_neg_iff x y) as HX.
  pose proof (Z.quot_rem' x y) as E.
  assert (Hm: Z.abs (Z.rem x y) < Z.abs y) by (apply Z.rem_bound_abs; lia).
  assert (Hs: 0 <= Z.rem x y * x) by (apply Z.rem_sign_mul; lia).
  pose proof (Z.div_mod x y Hy0) as D.
  assert (Dm: (0 <= x mod y < y) \/ (y < x mod y <= 0)).
  { destruct (Z_lt_le_dec 0 y); [left; apply Z.mod_pos_bound; lia | right; apply Z.mod_neg_bound; lia]. }
  set (q := Z.quot x y) in *. set (m := Z.rem x y) in *. set (d := x / y) in *. set (n := x mod y) in *.
  clearbody q m d n.
  rewrite (wrap_i64_eq q). replace ((q + 9223372036854775808) mod 18446744073709551616 - 9223372036854775808) with q by lia.
  assert (Hqy: wrap_i64 (q * y) = q * y).
  { rewrite wrap_i64_eq. assert (-9223372036854775808 <= q * y <= 9223372036854775807) by nia. set (p := q * y) in *. clearbody p. lia. }
  rewrite Hqy.
  destruct (Z.ltb_spec (Z.lxor x y) 0) as [Hn|Hn]; cbn [andb].
  - destruct (Z.eqb_spec (q * y) x) as [Hex|Hex]; cbn [negb].
    + nia.
    + rewrite wrap_i64_eq.
      assert (Ht: y * (q - d) = n - m) by lia.
      assert (Hm0: m <> 0) by (intro; subst m; apply Hex; lia).
      assert (d = q - 1).
      { set (t := q - d) in *. assert (t = 1); [|lia].
        destruct (Z_lt_le_dec 0 y).
        - assert (m < 0) by nia. assert (0 < y * t < 2 * y) by lia.
          destruct (Z_lt_le_dec t 1); [exfalso; nia|]. destruct (Z_lt_le_dec 1 t); [exfalso; nia|]. lia.
        - assert (0 < x).
          { destruct (Z.eq_dec x 0) as [Hx0|Hx0]; [exfalso|lia].
            assert (q = 0) by nia. subst q. lia. }
          assert (0 < m) by nia. assert (2 * y < y * t < 0) by lia.
          destruct (Z_lt_le_dec t 1); [exfalso; nia|]. destruct (Z_lt_le_dec 1 t); [exfalso; nia|]. lia. }
      subst d.
      assert (A2: 2 <= Z.abs y) by lia. specialize (Hq2 A2). lia.
  - assert (Ht: y * (q - d) = n - m) by lia.
    set (t := q - d) in *. assert (t = 0); [|lia].
    destruct (Z_lt_le_dec 0 y).
    + assert (0 <= m).
      { destruct (Z.eq_dec x 0) as [Hx0|Hx0]; [|nia].
        assert (q = 0) by nia. subst q. lia. }
      assert (- y < y * t < y) by lia.
      destruct (Z_lt_le_dec t 0); [exfalso; nia|]. destruct (Z_lt_le_dec 0 t); [exfalso; nia|]. lia.
    + assert (m <= 0) by nia.
      assert (y < y * t < - y) by lia.
      destruct (Z_lt_le_dec t 0); [exfalso; nia|]. destruct (Z_lt_le_dec 0 t); [exfalso; nia|]. lia.
Qed.

Theorem floorDiv_overflow : floorDiv (-9223372036854775808) (-1) = -9223372036854775808.
Proof. vm_compute. reflexivity. Qed.

Theorem floorMod_spec x y : in64 x -> in64 y -> y <> 0 -> floorMod x y = x mod y.
Proof.
  intros Hx Hy Hy0. unfold floorMod.
  destruct (Z.eq_dec y (-1)) as [->|Hy1].
  - destruct (Z.eq_dec x (-9223372036854775808)) as [->|Hxm]; [vm_compute; reflexivity|].
    rewrite floorDiv_spec by (unfold in64 in *; lia).
    unfold in64 in *. rewrite !wrap_i64_eq.
    pose proof (Z.div_mod x (-1) ltac:(lia)). pose proof (Z.mod_neg_bound x (-1) ltac:(lia)). lia.
  - rewrite floorDiv_spec by (unfold in64 in *; lia).
    unfold in64 in *. rewrite !wrap_i64_eq.
    pose proof (Z.div_mod x y Hy0) as D.
    assert (Dm: (0 <= x mod y < y) \/ (y < x mod y <= 0)).
    { destruct (Z_lt_le_dec 0 y); [left; apply Z.mod_pos_bound; lia | right; apply Z.mod_neg_bound; lia]. }
    set (d := x / y) in *. set (n := x mod y) in *. clearbody d n.
    assert (Hp: d * y = x - n) by lia.
    set (p := d * y) in *. clearbody p. lia.
Qed.

(* non-vacuity and the boundary behaviour, by computation *)
Example math_examples :
  addExact 9223372036854775807 1 = (0, true) /\ addExact 9223372036854775806 1 = (9223372036854775807, false) /\
  addExact (-9223372036854775808) (-1) = (0, true) /\
  multiplyExact 4294967296 2147483648 = (0, true) /\ multiplyExact 4294967296 2147483647 = (9223372032559808512, false) /\
  multiplyExact (-9223372036854775808) (-1) = (0, true) /\ multiplyExact (-1) (-9223372036854775808) = (0, true) /\
  floorDiv (-7) 2 = -4 /\ floorMod (-7) 2 = 1 /\ floorDiv 7 (-2) = -4 /\ floorMod 7 (-2) = -1 /\
  floorMod (-9223372036854775808) (-1) = 0.
Proof. repeat split; vm_compute; reflexivity. Qed.
