(* RESULT messages: validity predicates [T_okb], normal forms [norm_T] and the pure encodings [bytes_T] the
   theorems of MsgResultsProofs.v are stated with (DEFINITIONS ONLY; lives under proofs/ because [dt_okb]
   does, in proofs/DataTypeProofs.v).  Every conjunct of a [T_okb] is commented with its status:
     (range)  the value fits its Go type / its wire notation ([string] <= 65535 bytes, int32 counts ...)
     (api)    documented or self-evident API precondition, the encoder does not (fully) check it
     (version) feature not defined for the protocol version; the encoder does not refuse it *)
From Coq Require Import ZArith List Bool.
From Coq Require String.
From GCNP Require Import base.GoInt base.Bytes base.Codec base.StrBytes gen.Constants_gen model.Prim model.DataType
  model.MsgTypes model.MsgResults proofs.PrimProofs proofs.DataTypeProofs.
Import ListNotations.
Open Scope Z_scope.

Definition str_okb (s : bytes) : bool := zlen s <=? 65535.
Definition nonempty_str_okb (s : bytes) : bool := (1 <=? zlen s) && (zlen s <=? 65535).

(* ---------- columns ---------- *)
Definition column_okb (oc : option ColumnMetadata) : bool :=
  match oc with
  | None => false                                        (* (api) nil *ColumnMetadata: the encoder dereferences it *)
  | Some c => str_okb (cm_Keyspace c) && str_okb (cm_Table c) && str_okb (cm_Name c)     (* (range) *)
              && odt_okb (cm_Type c)                     (* (api) non-nil, well-formed type: DataTypeProofs.dt_okb *)
  end.
(* Index is never on the wire: the decoder leaves it 0 *)
Definition norm_column (oc : option ColumnMetadata) : option ColumnMetadata :=
  option_map (fun c => {| cm_Keyspace := cm_Keyspace c; cm_Table := cm_Table c; cm_Name := cm_Name c;
                          cm_Index := 0; cm_Type := cm_Type c |}) oc.
Definition bytes_column (globalTableSpec : bool) (oc : option ColumnMetadata) : bytes :=
  match oc with
  | None => []
  | Some c => (if globalTableSpec then [] else enc_string (cm_Keyspace c) ++ enc_string (cm_Table c)) ++
              enc_string (cm_Name c) ++ enc_odt (cm_Type c)
  end.
Definition bytes_columns (globalTableSpec : bool) (cols : list (option ColumnMetadata)) : bytes :=
  (if globalTableSpec then
     match cols with Some c :: _ => enc_string (cm_Keyspace c) ++ enc_string (cm_Table c) | _ => [] end
   else []) ++ concat (map (bytes_column globalTableSpec) cols).
Definition same_table (cols : list (option ColumnMetadata)) : bool :=
  match haveSameTable cols with Ok true => true | _ => false end.

(* ---------- variables metadata ---------- *)
Definition VariablesMetadata_okb (version : Z) (m : VariablesMetadata) : bool :=
  forallb column_okb (vm_Columns m)
  && (zlen (vm_Columns m) <? 2147483648)                 (* (range) int32 count *)
  && (if Z.geb version ProtocolVersion4 then
        (zlen (vm_PkIndices m) <? 2147483648)            (* (range) *)
        && forallb (fun i => (0 <=? i) && (i <? 65536)) (vm_PkIndices m)      (* (range) uint16 *)
      else zlen (vm_PkIndices m) =? 0).                  (* (version) pk indices exist from v4 on; below they are not written *)
Definition norm_VariablesMetadata (m : VariablesMetadata) : VariablesMetadata :=
  {| vm_PkIndices := vm_PkIndices m; vm_Columns := map norm_column (vm_Columns m) |}.
Definition variables_flag_word (m : VariablesMetadata) : Z :=
  if (zlen (vm_Columns m) >? 0) && same_table (vm_Columns m) then 1 else 0.
Definition bytes_VariablesMetadata (version : Z) (m : VariablesMetadata) : bytes :=
  be_bytes 4 (wrap_i 32 (variables_flag_word m)) ++ be_bytes 4 (zlen (vm_Columns m)) ++
  (if Z.geb version ProtocolVersion4 then
     be_bytes 4 (zlen (vm_PkIndices m)) ++ concat (map (be_bytes 2) (vm_PkIndices m)) else []) ++
  (if zlen (vm_Columns m) >? 0 then bytes_columns (same_table (vm_Columns m)) (vm_Columns m) else []).

(* ---------- rows metadata ---------- *)
Definition RowsMetadata_okb (version : Z) (m : RowsMetadata) : bool :=
  (0 <=? rm_ColumnCount m) && (rm_ColumnCount m <? 2147483648)      (* (range) int32; a negative count is refused by the decoder *)
  && ((zlen (rm_Columns m) =? 0) || (rm_ColumnCount m =? zlen (rm_Columns m)))
                                                         (* (api, documented on the field and checked by the encoder) *)
  && forallb column_okb (rm_Columns m)
  && (zlen (olist (rm_PagingState m)) <=? 2147483647)    (* (range) [bytes] *)
  && (match rm_NewResultMetadataId m with
      | None => true
      | Some b => ProtocolVersion_SupportsResultMetadataId version   (* (version) v5 / DSE v2 only; not checked by the encoder *)
                  && (zlen b <=? 65535)                  (* (range) [short bytes] *)
      end)
  && (-2147483648 <=? rm_ContinuousPageNumber m) && (rm_ContinuousPageNumber m <? 2147483648)    (* (range) int32 *)
  && ((rm_ContinuousPageNumber m <=? 0) || ProtocolVersion_IsDse version).
                                                         (* (version) continuous paging is DSE only; not checked by the encoder *)
(* a page number <= 0 means "no continuous paging": neither it nor LastContinuousPage is written *)
Definition norm_RowsMetadata (version : Z) (m : RowsMetadata) : RowsMetadata :=
  {| rm_ColumnCount := rm_ColumnCount m;
     rm_PagingState := rm_PagingState m;
     rm_NewResultMetadataId := rm_NewResultMetadataId m;
     rm_ContinuousPageNumber := (if rm_ContinuousPageNumber m >? 0 then rm_ContinuousPageNumber m else 0);
     rm_LastContinuousPage := (rm_ContinuousPageNumber m >? 0) && rm_LastContinuousPage m;
     rm_Columns := map norm_column (rm_Columns m) |}.
(* RowsMetadata.Flags() as a function of the six conditions it tests *)
Definition rows_flag_word (nometa global more changed cp last : bool) : Z :=
  let f0 := if nometa then Z.lor 0 RowsFlagNoMetadata else if global then Z.lor 0 RowsFlagGlobalTablesSpec else 0 in
  let f1 := if more then Z.lor f0 RowsFlagHasMorePages else f0 in
  let f2 := if changed then Z.lor f1 RowsFlagMetadataChanged else f1 in
  if cp then let g := Z.lor f2 RowsFlagDseContinuousPaging in if last then Z.lor g RowsFlagDseLastContinuousPage else g
  else f2.
Definition is_some {A} (o : option A) : bool := match o with Some _ => true | None => false end.
Definition rows_flags_of (m : RowsMetadata) : Z :=
  rows_flag_word (zlen (rm_Columns m) =? 0) (same_table (rm_Columns m)) (is_some (rm_PagingState m))
                 (is_some (rm_NewResultMetadataId m)) (rm_ContinuousPageNumber m >? 0) (rm_LastContinuousPage m).
Definition bytes_RowsMetadata (version : Z) (m : RowsMetadata) : bytes :=
  be_bytes 4 (wrap_i 32 (rows_flags_of m)) ++ be_bytes 4 (rm_ColumnCount m) ++
  (match rm_PagingState m with Some _ => enc_bytes (rm_PagingState m) | None => [] end) ++
  (match rm_NewResultMetadataId m with Some _ => enc_short_bytes (rm_NewResultMetadataId m) | None => [] end) ++
  (if rm_ContinuousPageNumber m >? 0 then be_bytes 4 (rm_ContinuousPageNumber m) else []) ++
  (if zlen (rm_Columns m) =? 0 then [] else bytes_columns (same_table (rm_Columns m)) (rm_Columns m)).

Definition oVariablesMetadata (o : option VariablesMetadata) : VariablesMetadata :=
  match o with Some m => m | None => empty_VariablesMetadata end.
Definition oRowsMetadata (o : option RowsMetadata) : RowsMetadata :=
  match o with Some m => m | None => empty_RowsMetadata end.

(* ---------- SET KEYSPACE ---------- *)
Definition SetKeyspaceResult_okb (version : Z) (m : SetKeyspaceResult) : bool :=
  nonempty_str_okb (sk_Keyspace m).                      (* non-empty: checked by the encoder; (range) *)
Definition norm_SetKeyspaceResult (version : Z) (m : SetKeyspaceResult) : SetKeyspaceResult := m.
Definition bytes_SetKeyspaceResult (m : SetKeyspaceResult) : bytes := enc_string (sk_Keyspace m).

(* ---------- SCHEMA CHANGE ---------- *)
Definition SchemaChangeResult_okb (version : Z) (m : SchemaChangeResult) : bool :=
  let tg := scr_Target m in
  is_ok (CheckValidSchemaChangeType (string_of_bytes (scr_ChangeType m))) && str_okb (scr_ChangeType m)   (* checked by the encoder *)
  && is_ok (CheckValidSchemaChangeTarget (string_of_bytes tg) version) && str_okb tg                      (* checked by the encoder *)
  && bytes_okb tg              (* representation invariant of a Go string (elements are bytes); needed because the v2
                                  decoder rebuilds Target from a constant *)
  && nonempty_str_okb (scr_Keyspace m)                   (* checked by the encoder *)
  && (if Z.geb version ProtocolVersion3 then
        if target_is tg SchemaChangeTargetKeyspace then true
        else if target_is tg SchemaChangeTargetTable || target_is tg SchemaChangeTargetType then
          nonempty_str_okb (scr_Object m)                (* checked by the encoder *)
        else nonempty_str_okb (scr_Object m)             (* checked by the encoder *)
             && (zlen (scr_Arguments m) <=? 65535) && forallb str_okb (scr_Arguments m)      (* (range) [string list] *)
      else
        if target_is tg SchemaChangeTargetKeyspace then zlen (scr_Object m) =? 0             (* checked by the encoder *)
        else nonempty_str_okb (scr_Object m)).           (* checked by the encoder *)
(* fields that are irrelevant for the target / the version (see the struct's doc comments) are not written *)
Definition norm_SchemaChangeResult (version : Z) (m : SchemaChangeResult) : SchemaChangeResult :=
  let tg := scr_Target m in
  if Z.geb version ProtocolVersion3 then
    if target_is tg SchemaChangeTargetKeyspace then
      {| scr_ChangeType := scr_ChangeType m; scr_Target := tg; scr_Keyspace := scr_Keyspace m; scr_Object := []; scr_Arguments := [] |}
    else if target_is tg SchemaChangeTargetTable || target_is tg SchemaChangeTargetType then
      {| scr_ChangeType := scr_ChangeType m; scr_Target := tg; scr_Keyspace := scr_Keyspace m; scr_Object := scr_Object m; scr_Arguments := [] |}
    else m
  else
    {| scr_ChangeType := scr_ChangeType m; scr_Target := tg; scr_Keyspace := scr_Keyspace m; scr_Object := scr_Object m; scr_Arguments := [] |}.
Definition bytes_SchemaChangeResult (version : Z) (m : SchemaChangeResult) : bytes :=
  let tg := scr_Target m in
  enc_string (scr_ChangeType m) ++
  (if Z.geb version ProtocolVersion3 then
     enc_string tg ++ enc_string (scr_Keyspace m) ++
     (if target_is tg SchemaChangeTargetKeyspace then []
      else if target_is tg SchemaChangeTargetTable || target_is tg SchemaChangeTargetType then enc_string (scr_Object m)
      else enc_string (scr_Object m) ++ enc_string_list (scr_Arguments m))
   else enc_string (scr_Keyspace m) ++ enc_string (scr_Object m)).

(* ---------- PREPARED ---------- *)
Definition PreparedResult_okb (version : Z) (m : PreparedResult) : bool :=
  nonempty_str_okb (olist (pr_PreparedQueryId m))        (* non-empty: checked by the encoder; (range) [short bytes] *)
  && (if ProtocolVersion_SupportsResultMetadataId version
      then nonempty_str_okb (olist (pr_ResultMetadataId m))           (* checked by the encoder; (range) *)
      else true)
  && VariablesMetadata_okb version (oVariablesMetadata (pr_VariablesMetadata m))
  && RowsMetadata_okb version (oRowsMetadata (pr_ResultMetadata m)).
(* nil ids decode as empty non-nil slices; ResultMetadataId is not written below v5 / on DSE v1; nil metadata = empty metadata *)
Definition norm_PreparedResult (version : Z) (m : PreparedResult) : PreparedResult :=
  {| pr_PreparedQueryId := Some (olist (pr_PreparedQueryId m));
     pr_ResultMetadataId := (if ProtocolVersion_SupportsResultMetadataId version then Some (olist (pr_ResultMetadataId m)) else None);
     pr_VariablesMetadata := Some (norm_VariablesMetadata (oVariablesMetadata (pr_VariablesMetadata m)));
     pr_ResultMetadata := Some (norm_RowsMetadata version (oRowsMetadata (pr_ResultMetadata m))) |}.
Definition bytes_PreparedResult (version : Z) (m : PreparedResult) : bytes :=
  enc_short_bytes (pr_PreparedQueryId m) ++
  (if ProtocolVersion_SupportsResultMetadataId version then enc_short_bytes (pr_ResultMetadataId m) else []) ++
  bytes_VariablesMetadata version (oVariablesMetadata (pr_VariablesMetadata m)) ++
  bytes_RowsMetadata version (oRowsMetadata (pr_ResultMetadata m)).

(* ---------- ROWS ---------- *)
Definition cell_okb (c : option bytes) : bool := zlen (olist c) <=? 2147483647.      (* (range) [bytes] *)
Definition RowsResult_okb (version : Z) (m : RowsResult) : bool :=
  match rr_Metadata m with
  | None => false              (* (api) EncodedLength refuses a nil Metadata (Encode alone would accept it) *)
  | Some md =>
      RowsMetadata_okb version md
      && (zlen (rr_Data m) <? 2147483648)                (* (range) int32 row count *)
      && forallb (fun row => (zlen row =? rm_ColumnCount md)      (* (api) every row has ColumnCount cells: the decoder
                                                                    cuts the cell stream by ColumnCount; not checked by the encoder *)
                             && forallb cell_okb row) (rr_Data m)
  end.
Definition norm_RowsResult (version : Z) (m : RowsResult) : RowsResult :=
  {| rr_Metadata := Some (norm_RowsMetadata version (oRowsMetadata (rr_Metadata m))); rr_Data := rr_Data m |}.
Definition bytes_row (row : list (option bytes)) : bytes := concat (map enc_bytes row).
Definition bytes_RowsResult (version : Z) (m : RowsResult) : bytes :=
  bytes_RowsMetadata version (oRowsMetadata (rr_Metadata m)) ++ be_bytes 4 (zlen (rr_Data m)) ++ concat (map bytes_row (rr_Data m)).

(* ---------- the group ---------- *)
Definition result_okb (version : Z) (m : Message) : bool :=
  match m with
  | M_VoidResult => true
  | M_SetKeyspaceResult sk => SetKeyspaceResult_okb version sk
  | M_SchemaChangeResult sc => SchemaChangeResult_okb version sc
  | M_PreparedResult p => PreparedResult_okb version p
  | M_RowsResult r => RowsResult_okb version r
  | _ => false
  end.
Definition norm_result (version : Z) (m : Message) : Message :=
  match m with
  | M_SetKeyspaceResult sk => M_SetKeyspaceResult (norm_SetKeyspaceResult version sk)
  | M_SchemaChangeResult sc => M_SchemaChangeResult (norm_SchemaChangeResult version sc)
  | M_PreparedResult p => M_PreparedResult (norm_PreparedResult version p)
  | M_RowsResult r => M_RowsResult (norm_RowsResult version r)
  | _ => m
  end.
Definition bytes_result (version : Z) (m : Message) : bytes :=
  match m with
  | M_VoidResult => be_bytes 4 ResultTypeVoid
  | M_SetKeyspaceResult sk => be_bytes 4 ResultTypeSetKeyspace ++ bytes_SetKeyspaceResult sk
  | M_SchemaChangeResult sc => be_bytes 4 ResultTypeSchemaChange ++ bytes_SchemaChangeResult version sc
  | M_PreparedResult p => be_bytes 4 ResultTypePrepared ++ bytes_PreparedResult version p
  | M_RowsResult r => be_bytes 4 ResultTypeRows ++ bytes_RowsResult version r
  | _ => []
  end.

Definition result_group_okb (version : Z) (m : Message) : option bool :=
  if is_result m then Some (result_okb version m) else None.
Definition norm_result_group (version : Z) (m : Message) : option Message :=
  if is_result m then Some (norm_result version m) else None.
