(* Totality vocabulary for decoders (base/Codec.v) and totality of every reader of model/Prim.v:
   a decoder applied to ANY list of Z returns DOk or DErr, never DPanic (Go panic) and never DFuel
   (violated modelling assumption).  No hypothesis on the input: not even that its elements are bytes.

     total r        : forall bs, r bs <> DPanic /\ r bs <> DFuel
     consumes n r   : a successful r leaves at least n elements fewer than it was given
     progress r     : consumes 1 r   (what read_count needs of its element decoder)

   Use: [total_tac] decomposes a goal [total (x <- r ;; k)] along binds / ifs / matches and closes the leaves
   with the hint database [total]; [consumes_tac n] does the same for [consumes]. *)
From Coq Require Import ZArith List Bool Lia.
From Coq Require Import ZifyBool ZifyNat.
From GCNP Require Import base.GoInt base.Bytes base.Codec gen.Constants_gen model.Prim.
Import ListNotations.
Open Scope Z_scope.

Definition total {A} (r : R A) : Prop := forall bs, r bs <> DPanic /\ r bs <> DFuel.
Definition consumes {A} (n : nat) (r : R A) : Prop :=
  forall bs a rest, r bs = DOk a rest -> (length rest + n <= length bs)%nat.
Definition progress {A} (r : R A) : Prop := consumes 1 r.

(* ---------- combinators: total ---------- *)
Lemma total_ret {A} (a : A) : total (ret a).
Proof. intro bs. unfold ret. split; discriminate. Qed.
Lemma total_rfail {A} : total (@rfail A).
Proof. intro bs. unfold rfail. split; discriminate. Qed.
Lemma total_rguard b : total (rguard b).
Proof. destruct b; [apply total_ret|apply total_rfail]. Qed.
Lemma total_bind {A B} (r : R A) (k : A -> R B) : total r -> (forall a, total (k a)) -> total (bind r k).
Proof.
  intros Hr Hk bs. unfold bind. destruct (Hr bs) as [H1 H2].
  destruct (r bs) as [a rest| | |]; try congruence; [apply Hk|split; discriminate].
Qed.
(* the continuation may rely on a property of the value read *)
Lemma total_bind_P {A B} (P : A -> Prop) (r : R A) (k : A -> R B) :
  total r -> (forall bs a rest, r bs = DOk a rest -> P a) -> (forall a, P a -> total (k a)) -> total (bind r k).
Proof.
  intros Hr HP Hk bs. unfold bind. destruct (Hr bs) as [H1 H2].
  destruct (r bs) as [a rest| | |] eqn:E; try congruence; [apply Hk; eapply HP; exact E|split; discriminate].
Qed.
Lemma total_rmap {A B} (f : A -> B) (r : R A) : total r -> total (rmap f r).
Proof. intro H. unfold rmap. apply total_bind; [exact H|intro; apply total_ret]. Qed.
Lemma total_ext {A} (r r' : R A) : (forall bs, r bs = r' bs) -> total r -> total r'.
Proof. intros E H bs. rewrite <- E. apply H. Qed.

Lemma total_read_be n : total (read_be n).
Proof. intro bs. unfold read_be. destruct (length bs <? n)%nat; split; discriminate. Qed.
Lemma total_read_raw n : 0 <= n -> total (read_raw n).
Proof.
  intros H bs. unfold read_raw. destruct (Z.ltb_spec n 0); [lia|]. destruct (zlen bs <? n); split; discriminate.
Qed.
Lemma total_rmake n : 0 <= n -> total (rmake n).
Proof. intro H. unfold rmake. destruct (Z.ltb_spec n 0); [lia|apply total_ret]. Qed.

(* ---------- combinators: consumes ---------- *)
Lemma consumes_weaken {A} (n m : nat) (r : R A) : (m <= n)%nat -> consumes n r -> consumes m r.
Proof. intros Hle H bs a rest E. specialize (H bs a rest E). lia. Qed.
Lemma consumes_ret {A} (a : A) : consumes 0 (ret a).
Proof. intros bs a' rest E. unfold ret in E. assert (rest = bs) by congruence. subst. lia. Qed.
Lemma consumes_rfail {A} n : consumes n (@rfail A).
Proof. intros bs a rest E. discriminate. Qed.
Lemma consumes_rpanic {A} n : consumes n (@rpanic A).
Proof. intros bs a rest E. discriminate. Qed.
Lemma consumes_rguard b : consumes 0 (rguard b).
Proof. destruct b; [apply consumes_ret|apply consumes_rfail]. Qed.
Lemma consumes_bind {A B} (n m : nat) (r : R A) (k : A -> R B) :
  consumes n r -> (forall a, consumes m (k a)) -> consumes (n + m) (bind r k).
Proof.
  intros Hr Hk bs b rest E. unfold bind in E. destruct (r bs) as [a rest'| | |] eqn:Er; try discriminate.
  specialize (Hr bs a rest' Er). specialize (Hk a rest' b rest E). lia.
Qed.
Lemma consumes_bind_l {A B} (n : nat) (r : R A) (k : A -> R B) :
  consumes n r -> (forall a, consumes 0 (k a)) -> consumes n (bind r k).
Proof. intros Hr Hk. replace n with (n + 0)%nat by lia. apply consumes_bind; assumption. Qed.
Lemma consumes_bind_r {A B} (n : nat) (r : R A) (k : A -> R B) :
  consumes 0 r -> (forall a, consumes n (k a)) -> consumes n (bind r k).
Proof. intros Hr Hk. change n with (0 + n)%nat. apply consumes_bind; assumption. Qed.
Lemma consumes_rmap {A B} n (f : A -> B) (r : R A) : consumes n r -> consumes n (rmap f r).
Proof. intro H. unfold rmap. apply consumes_bind_l; [exact H|intro; apply consumes_ret]. Qed.
Lemma consumes_read_be n : consumes n (read_be n).
Proof. intros bs a rest E. apply read_be_consumes in E. lia. Qed.
Lemma consumes_read_raw n : consumes (Z.to_nat n) (read_raw n).
Proof.
  intros bs a rest E. apply read_raw_consumes in E. destruct E as (E & E' & _). unfold zlen in E, E'. lia.
Qed.
Lemma consumes_read_raw0 n : consumes 0 (read_raw n).
Proof. eapply consumes_weaken; [|apply consumes_read_raw]. lia. Qed.
Lemma consumes_rmake n : consumes 0 (rmake n).
Proof. unfold rmake. destruct (n <? 0); [apply consumes_rpanic|apply consumes_ret]. Qed.

(* ---------- counted loops ---------- *)
Lemma total_read_rep {A} (r : R A) n : total r -> total (read_rep n r).
Proof.
  intro H. unfold read_rep. induction n as [|n IH]; cbn [read_rep_]; [apply total_ret|].
  apply total_bind; [exact H|intro]. apply total_bind; [exact IH|intro; apply total_ret].
Qed.
Lemma consumes_read_rep {A} (r : R A) n : progress r ->
  forall bs l rest, read_rep n r bs = DOk l rest -> (length rest + n <= length bs)%nat.
Proof.
  intro H. unfold read_rep. induction n as [|n IH]; intros bs l rest E; cbn [read_rep_] in E.
  - unfold ret in E. assert (rest = bs) by congruence. subst. lia.
  - unfold bind in E. destruct (r bs) as [a r1| | |] eqn:E1; try discriminate.
    destruct (read_rep_ r n r1) as [l' r2| | |] eqn:E2; try discriminate.
    unfold ret in E. assert (rest = r2) by congruence. subst.
    specialize (H bs a r1 E1). specialize (IH r1 l' r2 E2). lia.
Qed.
Lemma consumes0_read_rep {A} (r : R A) n : consumes 0 r -> consumes 0 (read_rep n r).
Proof.
  intro H. unfold read_rep. induction n as [|n IH]; cbn [read_rep_]; [apply consumes_ret|].
  apply consumes_bind_l; [exact H|intro]. apply consumes_bind_l; [exact IH|intro; apply consumes_ret].
Qed.

Lemma total_read_count {A} (r : R A) count : total r -> progress r -> total (read_count count r).
Proof.
  intros Ht Hp bs. unfold read_count.
  destruct (count <=? 0); [split; discriminate|].
  destruct (count <=? zlen bs); [apply total_read_rep; exact Ht|].
  destruct (total_read_rep r (length bs) Ht bs) as [H1 H2].
  destruct (read_rep (length bs) r bs) as [l rest| | |] eqn:E; try congruence; [|split; discriminate].
  pose proof (consumes_read_rep r (length bs) Hp bs l rest E) as Hc.
  destruct (Ht rest) as [H3 H4].
  destruct (r rest) as [a rest'| | |] eqn:E'; try congruence; [|split; discriminate].
  exfalso. specialize (Hp rest a rest' E'). lia.
Qed.
Lemma consumes_read_count {A} (r : R A) count : consumes 0 r -> consumes 0 (read_count count r).
Proof.
  intros Hc bs l rest E. unfold read_count in E.
  destruct (count <=? 0). { assert (rest = bs) by congruence. subst. lia. }
  destruct (count <=? zlen bs). { exact (consumes0_read_rep r _ Hc bs l rest E). }
  destruct (read_rep (length bs) r bs) as [l' rest'| | |]; try discriminate. destruct (r rest'); discriminate.
Qed.

(* ---------- tactics ---------- *)
Create HintDb total.
#[export] Hint Resolve total_ret total_rfail total_rguard total_read_be : total.
Create HintDb consumes.
#[export] Hint Resolve consumes_ret consumes_rfail consumes_rguard consumes_read_raw0 consumes_rmake consumes_rpanic : consumes.

Ltac total_tac :=
  repeat match goal with
  | |- total (bind _ _) => apply total_bind; [|intro]
  | |- total (rmap _ _) => apply total_rmap
  | |- total (read_count _ _) => apply total_read_count
  | |- total (read_raw _) => apply total_read_raw; lia
  | |- total (rmake _) => apply total_rmake; lia
  | |- total (if ?b then _ else _) => destruct b eqn:?
  | |- total (match ?x with _ => _ end) => destruct x eqn:?
  | |- total (let _ := _ in _) => cbv zeta
  | |- total _ => solve [auto with total]
  | |- progress _ => solve [auto with total]
  end.

(* ---------- the readers of model/Prim.v ---------- *)
Lemma total_read_byte : total read_byte. Proof. apply total_read_be. Qed.
Lemma total_read_short : total read_short. Proof. apply total_read_be. Qed.
Lemma total_read_int : total read_int. Proof. unfold read_int. total_tac. Qed.
Lemma total_read_long : total read_long. Proof. unfold read_long. total_tac. Qed.
#[export] Hint Resolve total_read_byte total_read_short total_read_int total_read_long : total.

Lemma consumes_read_byte : consumes 1 read_byte. Proof. apply consumes_read_be. Qed.
Lemma consumes_read_short : consumes 2 read_short. Proof. apply consumes_read_be. Qed.
Lemma consumes_read_int : consumes 4 read_int. Proof. unfold read_int. apply consumes_rmap, consumes_read_be. Qed.
Lemma consumes_read_long : consumes 8 read_long. Proof. unfold read_long. apply consumes_rmap, consumes_read_be. Qed.

(* consumes n of a reader that starts with a fixed-width field and continues with anything that does not grow the input *)
Ltac consumes0_tac :=
  repeat match goal with
  | |- consumes 0 (bind _ _) => apply consumes_bind_l; [|intro]
  | |- consumes 0 (rmap _ _) => apply consumes_rmap
  | |- consumes 0 (read_count _ _) => apply consumes_read_count
  | |- consumes 0 (if ?b then _ else _) => destruct b
  | |- consumes 0 (match ?x with _ => _ end) => destruct x
  | |- consumes 0 _ => solve [auto with consumes]
  end.

Lemma consumes0_read_byte : consumes 0 read_byte. Proof. eapply consumes_weaken; [|apply consumes_read_byte]; lia. Qed.
Lemma consumes0_read_short : consumes 0 read_short. Proof. eapply consumes_weaken; [|apply consumes_read_short]; lia. Qed.
Lemma consumes0_read_int : consumes 0 read_int. Proof. eapply consumes_weaken; [|apply consumes_read_int]; lia. Qed.
Lemma consumes0_read_long : consumes 0 read_long. Proof. eapply consumes_weaken; [|apply consumes_read_long]; lia. Qed.
#[export] Hint Resolve consumes0_read_byte consumes0_read_short consumes0_read_int consumes0_read_long : consumes.

(* [string] *)
Lemma total_read_string : total read_string.
Proof. unfold read_string. total_tac. Qed.
Lemma consumes_read_string : consumes 2 read_string.
Proof. unfold read_string. apply consumes_bind_l; [apply consumes_read_short|intro]. consumes0_tac. Qed.
Lemma progress_read_string : progress read_string.
Proof. eapply consumes_weaken; [|apply consumes_read_string]; lia. Qed.
Lemma consumes0_read_string : consumes 0 read_string.
Proof. eapply consumes_weaken; [|apply consumes_read_string]; lia. Qed.
#[export] Hint Resolve total_read_string progress_read_string : total.
#[export] Hint Resolve consumes0_read_string : consumes.

(* [long string] *)
Lemma total_read_long_string : total read_long_string.
Proof. unfold read_long_string. total_tac. Qed.
Lemma consumes_read_long_string : consumes 4 read_long_string.
Proof. unfold read_long_string. apply consumes_bind_l; [apply consumes_read_int|intro]. consumes0_tac. Qed.
Lemma consumes0_read_long_string : consumes 0 read_long_string.
Proof. eapply consumes_weaken; [|apply consumes_read_long_string]; lia. Qed.
#[export] Hint Resolve total_read_long_string : total.
#[export] Hint Resolve consumes0_read_long_string : consumes.

(* [bytes] *)
Lemma total_read_bytes : total read_bytes.
Proof. unfold read_bytes. total_tac. Qed.
Lemma consumes_read_bytes : consumes 4 read_bytes.
Proof. unfold read_bytes. apply consumes_bind_l; [apply consumes_read_int|intro]. consumes0_tac. Qed.
Lemma progress_read_bytes : progress read_bytes.
Proof. eapply consumes_weaken; [|apply consumes_read_bytes]; lia. Qed.
Lemma consumes0_read_bytes : consumes 0 read_bytes.
Proof. eapply consumes_weaken; [|apply consumes_read_bytes]; lia. Qed.
#[export] Hint Resolve total_read_bytes progress_read_bytes : total.
#[export] Hint Resolve consumes0_read_bytes : consumes.

(* [short bytes] *)
Lemma total_read_short_bytes : total read_short_bytes.
Proof. unfold read_short_bytes. total_tac. Qed.
Lemma consumes_read_short_bytes : consumes 2 read_short_bytes.
Proof. unfold read_short_bytes. apply consumes_bind_l; [apply consumes_read_short|intro]. consumes0_tac. Qed.
Lemma consumes0_read_short_bytes : consumes 0 read_short_bytes.
Proof. eapply consumes_weaken; [|apply consumes_read_short_bytes]; lia. Qed.
#[export] Hint Resolve total_read_short_bytes : total.
#[export] Hint Resolve consumes0_read_short_bytes : consumes.

(* [string list] *)
Lemma total_read_string_list : total read_string_list.
Proof. unfold read_string_list. total_tac. Qed.
Lemma consumes_read_string_list : consumes 2 read_string_list.
Proof. unfold read_string_list. apply consumes_bind_l; [apply consumes_read_short|intro]. consumes0_tac. Qed.
Lemma progress_read_string_list : progress read_string_list.
Proof. eapply consumes_weaken; [|apply consumes_read_string_list]; lia. Qed.
Lemma consumes0_read_string_list : consumes 0 read_string_list.
Proof. eapply consumes_weaken; [|apply consumes_read_string_list]; lia. Qed.
#[export] Hint Resolve total_read_string_list progress_read_string_list : total.
#[export] Hint Resolve consumes0_read_string_list : consumes.

(* keyed map entries: key [string] then a value *)
Lemma progress_entry {V} (rv : R V) : consumes 0 rv -> progress (k <- read_string ;; v <- rv ;; ret (k, v)).
Proof.
  intro H. unfold progress. apply consumes_bind_l; [apply progress_read_string|intro].
  apply consumes_bind_l; [exact H|intro; apply consumes_ret].
Qed.
Lemma total_entry {V} (rv : R V) : total rv -> total (k <- read_string ;; v <- rv ;; ret (k, v)).
Proof. intro H. total_tac. Qed.

(* [string map] *)
Lemma total_read_string_map : total read_string_map.
Proof.
  unfold read_string_map. apply total_bind; [apply total_read_short|intro].
  apply total_read_count; [apply total_entry, total_read_string|apply progress_entry, consumes0_read_string].
Qed.
Lemma consumes_read_string_map : consumes 2 read_string_map.
Proof. unfold read_string_map. apply consumes_bind_l; [apply consumes_read_short|intro]. consumes0_tac. Qed.
#[export] Hint Resolve total_read_string_map : total.

(* [string multimap] *)
Lemma total_read_string_multimap : total read_string_multimap.
Proof.
  unfold read_string_multimap. apply total_bind; [apply total_read_short|intro].
  apply total_read_count; [apply total_entry, total_read_string_list|apply progress_entry, consumes0_read_string_list].
Qed.
Lemma consumes_read_string_multimap : consumes 2 read_string_multimap.
Proof. unfold read_string_multimap. apply consumes_bind_l; [apply consumes_read_short|intro]. consumes0_tac. Qed.
#[export] Hint Resolve total_read_string_multimap : total.

(* [bytes map] *)
Lemma total_read_bytes_map : total read_bytes_map.
Proof.
  unfold read_bytes_map. apply total_bind; [apply total_read_short|intro].
  apply total_read_count; [apply total_entry, total_read_bytes|apply progress_entry, consumes0_read_bytes].
Qed.
Lemma consumes_read_bytes_map : consumes 2 read_bytes_map.
Proof. unfold read_bytes_map. apply consumes_bind_l; [apply consumes_read_short|intro]. consumes0_tac. Qed.
#[export] Hint Resolve total_read_bytes_map : total.

(* [inetaddr], [inet] *)
Lemma total_read_inet_addr : total read_inet_addr.
Proof. unfold read_inet_addr. total_tac. Qed.
Lemma consumes_read_inet_addr : consumes 1 read_inet_addr.
Proof. unfold read_inet_addr. apply consumes_bind_l; [apply consumes_read_byte|intro]. consumes0_tac. Qed.
Lemma consumes0_read_inet_addr : consumes 0 read_inet_addr.
Proof. eapply consumes_weaken; [|apply consumes_read_inet_addr]; lia. Qed.
#[export] Hint Resolve total_read_inet_addr : total.
#[export] Hint Resolve consumes0_read_inet_addr : consumes.
Lemma total_read_inet : total read_inet.
Proof. unfold read_inet. total_tac. Qed.
Lemma consumes_read_inet : consumes 1 read_inet.
Proof. unfold read_inet. apply consumes_bind_l; [apply consumes_read_inet_addr|intro]. consumes0_tac. Qed.
Lemma consumes0_read_inet : consumes 0 read_inet.
Proof. eapply consumes_weaken; [|apply consumes_read_inet]; lia. Qed.
#[export] Hint Resolve total_read_inet : total.
#[export] Hint Resolve consumes0_read_inet : consumes.

(* [uuid] *)
Lemma total_read_uuid : total read_uuid.
Proof. unfold read_uuid. apply total_read_raw. lia. Qed.
Lemma consumes_read_uuid : consumes 16 read_uuid.
Proof. unfold read_uuid. apply (consumes_read_raw 16). Qed.
Lemma consumes0_read_uuid : consumes 0 read_uuid.
Proof. unfold read_uuid. apply consumes_read_raw0. Qed.
#[export] Hint Resolve total_read_uuid : total.
#[export] Hint Resolve consumes0_read_uuid : consumes.

(* [value], positional and named values *)
Lemma total_read_value version : total (read_value version).
Proof. unfold read_value. total_tac. Qed.
Lemma consumes_read_value version : consumes 4 (read_value version).
Proof. unfold read_value. apply consumes_bind_l; [apply consumes_read_int|intro]. consumes0_tac. Qed.
Lemma progress_read_value version : progress (read_value version).
Proof. eapply consumes_weaken; [|apply consumes_read_value]; lia. Qed.
Lemma consumes0_read_value version : consumes 0 (read_value version).
Proof. eapply consumes_weaken; [|apply consumes_read_value]; lia. Qed.
#[export] Hint Resolve total_read_value progress_read_value : total.
#[export] Hint Resolve consumes0_read_value : consumes.

Lemma total_read_positional_values version : total (read_positional_values version).
Proof.
  unfold read_positional_values. apply total_bind; [apply total_read_short|intro].
  apply total_read_count; [apply total_rmap, total_read_value|apply consumes_rmap, progress_read_value].
Qed.
Lemma consumes_read_positional_values version : consumes 2 (read_positional_values version).
Proof. unfold read_positional_values. apply consumes_bind_l; [apply consumes_read_short|intro]. consumes0_tac. Qed.
Lemma total_read_named_values version : total (read_named_values version).
Proof.
  unfold read_named_values. apply total_bind; [apply total_read_short|intro].
  apply total_read_count.
  - total_tac.
  - unfold progress. apply consumes_bind_l; [apply progress_read_string|intro]. consumes0_tac.
Qed.
Lemma consumes_read_named_values version : consumes 2 (read_named_values version).
Proof. unfold read_named_values. apply consumes_bind_l; [apply consumes_read_short|intro]. consumes0_tac. Qed.
#[export] Hint Resolve total_read_positional_values total_read_named_values : total.

(* <reasonmap>: the make() is guarded by the sign test *)
Lemma total_read_reason_map : total read_reason_map.
Proof.
  unfold read_reason_map. apply total_bind; [apply total_read_int|intro count].
  destruct (Z.ltb_spec count 0); [apply total_rfail|].
  apply total_bind; [apply total_rmake; lia|intros _].
  apply total_read_count.
  - total_tac.
  - unfold progress. apply consumes_bind_l; [apply consumes_read_inet_addr|intro]. consumes0_tac.
Qed.
Lemma consumes_read_reason_map : consumes 4 read_reason_map.
Proof. unfold read_reason_map. apply consumes_bind_l; [apply consumes_read_int|intro]. consumes0_tac. Qed.
Lemma consumes0_read_reason_map : consumes 0 read_reason_map.
Proof. eapply consumes_weaken; [|apply consumes_read_reason_map]; lia. Qed.
#[export] Hint Resolve total_read_reason_map : total.
#[export] Hint Resolve consumes0_read_reason_map : consumes.

(* stream id *)
Lemma total_read_stream_id version : total (read_stream_id version).
Proof. unfold read_stream_id. total_tac. Qed.
Lemma consumes_read_stream_id version : consumes 1 (read_stream_id version).
Proof.
  unfold read_stream_id. destruct (Z.geb version ProtocolVersion3); apply consumes_rmap.
  - eapply consumes_weaken; [|apply consumes_read_short]; lia.
  - apply consumes_read_byte.
Qed.
#[export] Hint Resolve total_read_stream_id : total.

(* unfolding [total] at a given input *)
Lemma total_at {A} (r : R A) bs : total r -> r bs <> DPanic /\ r bs <> DFuel.
Proof. intro H. apply H. Qed.
