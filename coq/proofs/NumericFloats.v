(* C13, part 5: floating point.  IEEE conversions and math/big.Float are oracles; what is proved is the logic around them:
   a narrowing is accepted only when the oracle says it is exact (or the value is NaN, which narrows to NaN), a big.Float
   source only when Float64 reports big.Exact, a big.Float DESTINATION only when its Acc() after SetFloat64 is big.Exact
   (SetFloat64 rounds to the precision the destination was configured with: exactness is NOT assumed, it follows from
   the check in float64ToBigFloat), NaN is never stored into a big.Float.  Subject: gen/Numeric_gen.v. *)
From Coq Require Import ZArith List String Bool Lia.
From GCNP Require Import base.GoInt base.GoNum gen.Numeric_gen proofs.NumericBase model.NumCases model.NumContracts.
Import ListNotations.
Open Scope Z_scope.

Section Floats.
Variable O : oracles.
(* the extended real (or NaN) a bit pattern denotes; V is any set of values, vnan the one value every NaN pattern denotes *)
Variable V : Type.
Variables (val64 val32 : Z -> V) (valbig : bigfloat -> V) (vnan : V).
(* documented contracts.
   IEEE-754 / Go spec: widening float32 -> float64 is exact; == holds only between equal values (never for NaN);
   math.IsNaN answers true only for a NaN; converting a NaN to float32 gives a NaN.
   math/big: Float64() reporting Exact (accuracy 0) returned the same value;
   z.SetFloat64(x) rounds x to z's precision and z.Acc() is then Exact (0) exactly when z holds x itself. *)
Hypothesis widen_exact : forall w, val64 (o_f32_to_f64 O w) = val32 w.
Hypothesis eq_sound : forall a b, o_f64_eqb O a b = true -> val64 a = val64 b.
Hypothesis isnan_sound : forall b, o_f64_isnan O b = true -> val64 b = vnan.
Hypothesis narrow_nan : forall b, o_f64_isnan O b = true -> val32 (o_f64_to_f32 O b) = vnan.
Hypothesis bigfloat_exact : forall f b, o_BigFloat_Float64 O f = (b, 0) -> val64 b = valbig f.
Hypothesis setfloat_acc : forall p b f a, o_f64_isnan O b = false -> o_BigFloat_SetFloat64 O p b = (f, a) ->
  (a = 0 <-> valbig f = val64 b).

(* float64 -> float32: the same value (NaN to NaN) or an error *)
Theorem float64ToFloat32_exact v w : float64ToFloat32 O v = Ok w -> val32 w = val64 v.
Proof.
  unfold float64ToFloat32.
  destruct (o_f64_eqb O _ v) eqn:E; destruct (o_f64_isnan O v) eqn:N; cbn [negb andb]; try discriminate;
    intro H; injection H as <-.
  - rewrite <- widen_exact. apply eq_sound. exact E.
  - rewrite <- widen_exact. apply eq_sound. exact E.
  - rewrite (narrow_nan _ N), (isnan_sound _ N). reflexivity.
Qed.

(* the NaN clause on its own: if a NaN is delivered at all, it is delivered as a NaN *)
Theorem float64ToFloat32_nan v w : o_f64_isnan O v = true -> float64ToFloat32 O v = Ok w -> val32 w = vnan /\ val64 v = vnan.
Proof.
  intros N H. pose proof (float64ToFloat32_exact _ _ H) as E. rewrite (isnan_sound _ N) in E. split; [exact E|].
  apply isnan_sound. exact N.
Qed.

(* a value that survives the round trip through float32 is never refused; anything else that is not NaN is *)
Theorem float64ToFloat32_accepts v :
  (o_f64_eqb O (o_f32_to_f64 O (o_f64_to_f32 O v)) v = true -> float64ToFloat32 O v = Ok (o_f64_to_f32 O v)) /\
  (o_f64_eqb O (o_f32_to_f64 O (o_f64_to_f32 O v)) v = false -> o_f64_isnan O v = false -> float64ToFloat32 O v = Err).
Proof.
  unfold float64ToFloat32. split.
  - intros ->. reflexivity.
  - intros -> ->. reflexivity.
Qed.

Theorem bigFloatToFloat64_exact f b : bigFloatToFloat64 O f = Ok b -> val64 b = valbig f.
Proof.
  unfold bigFloatToFloat64. destruct (o_BigFloat_Float64 O f) as [x acc] eqn:E.
  destruct (Z.eqb_spec acc 0) as [->|]; cbn [negb]; [|discriminate].
  intro H. injection H as <-. apply bigfloat_exact. exact E.
Qed.

(* float64 -> *big.Float of ANY preset precision p: what is stored is the same value, or an error is returned.
   Nothing is assumed about SetFloat64 being exact: the conclusion comes from the Acc() test of the code. *)
Theorem float64ToBigFloat_exact b p st : float64ToBigFloat O b p = Ok st -> exists f, st = Some (G_bigfloat f) /\ valbig f = val64 b.
Proof.
  unfold float64ToBigFloat, ret_res. destruct (o_f64_isnan O b) eqn:N; [discriminate|].
  destruct (o_BigFloat_SetFloat64 O p b) as [f a] eqn:E.
  destruct (Z.eqb_spec a 0) as [->|]; cbn [negb]; [|discriminate].
  intro H. injection H as <-. exists f. split; [reflexivity|]. apply (setfloat_acc p b f 0 N E). reflexivity.
Qed.

(* and exactly then: a value the destination holds unrounded is accepted, a rounded one and NaN are refused *)
Theorem float64ToBigFloat_decides b p :
  (o_f64_isnan O b = true -> float64ToBigFloat O b p = Err) /\
  (o_f64_isnan O b = false -> forall f a, o_BigFloat_SetFloat64 O p b = (f, a) ->
     (valbig f = val64 b -> float64ToBigFloat O b p = Ok (Some (G_bigfloat f))) /\
     (valbig f <> val64 b -> float64ToBigFloat O b p = Err)).
Proof.
  unfold float64ToBigFloat, ret_res. split.
  - intros ->. reflexivity.
  - intros N f a E. rewrite N, E. pose proof (setfloat_acc p b f a N E) as [H1 H2]. split.
    + intro Hv. rewrite (H2 Hv). reflexivity.
    + intro Hv. destruct (Z.eqb_spec a 0) as [->|]; cbn [negb]; [|reflexivity]. exfalso. apply Hv, H1. reflexivity.
Qed.

(* the CQL float switch: float32 sources pass unchanged, float64 sources only when narrowing is exact (or NaN) *)
Theorem convertToFloat32_exact g w : convertToFloat32 O g = Ok (w, false) ->
  match g with
  | G_float32 b | G_pfloat32 (Some b) => w = b
  | G_float64 b | G_pfloat64 (Some b) => val32 w = val64 b
  | _ => False
  end.
Proof.
  destruct g as [v|v|v|v|v|v|v|v|v|v|s|b|b|v|f|t|v|p|p|p|p|p|p|p|p|p|p|p|p|p|p|p|p|p| |];
  try (destruct p as [b|]); unfold convertToFloat32;
  cbv beta iota zeta delta [res_split ret_res unopt isNone is_ok fst snd]; cbn [negb];
  try discriminate;
  try (intro H; injection H as <-; reflexivity);
  try (destruct (float64ToFloat32 O b) as [x|] eqn:E; cbn; [|discriminate]; intro H; injection H as <-; exact (float64ToFloat32_exact _ _ E)).
Qed.

(* the CQL double switch, every supported destination: *float64 and *interface{} receive the bits themselves,
   *float32 and *big.Float (of any preset precision) the same value or nothing *)
Theorem convertFromFloat64_float32_exact b st : convertFromFloat64 O b false (D_pfloat32 false) = Ok st ->
  exists w, st = Some (G_float32 w) /\ val32 w = val64 b.
Proof.
  unfold convertFromFloat64. cbv beta iota zeta delta [res_split ret_res is_ok fst snd]; cbn [negb].
  destruct (float64ToFloat32 O b) as [x|] eqn:E; cbn; [|discriminate].
  intro H. injection H as <-. eexists. split; [reflexivity|]. exact (float64ToFloat32_exact _ _ E).
Qed.

Theorem convertFromFloat64_bigfloat_exact b p st : convertFromFloat64 O b false (D_pbigfloat false p) = Ok st ->
  exists f, st = Some (G_bigfloat f) /\ valbig f = val64 b.
Proof.
  unfold convertFromFloat64. cbv beta iota zeta delta [res_split is_ok fst snd]; cbn [negb].
  destruct (float64ToBigFloat O b p) as [x|] eqn:E; cbn; [|discriminate].
  intro H. injection H as <-. exact (float64ToBigFloat_exact _ _ _ E).
Qed.

Theorem convertFromFloat64_exact b d st : convertFromFloat64 O b false d = Ok st ->
  match d with
  | D_pfloat64 false | D_piface false => st = Some (G_float64 b)
  | D_pfloat32 false => exists w, st = Some (G_float32 w) /\ val32 w = val64 b
  | D_pbigfloat false _ => exists f, st = Some (G_bigfloat f) /\ valbig f = val64 b
  | _ => False
  end.
Proof.
  destruct d as [n|n|n|n|n|n|n|n|n|n|n|n|n|n|n|n p|n|n|]; try destruct n;
    try apply convertFromFloat64_float32_exact; try apply convertFromFloat64_bigfloat_exact;
    unfold convertFromFloat64; cbv beta iota zeta delta [res_split ret_res is_ok fst snd]; cbn [negb];
    try discriminate; intro H; injection H as <-; reflexivity.
Qed.
End Floats.

(* ---- non-vacuity: a (toy) instance of the float oracles that satisfies every contract above, on which both outcomes occur.
   "float64"/"float32" patterns are natural numbers denoting themselves, except 7 which is the NaN; float32 saturates at 99;
   a big.Float of precision p > 0 holds multiples of 2^p only (p = 0: everything).  The real library enters through the
   correspondence run, where the oracle is the table of what math/big and the hardware answered. *)
Definition Otoy : oracles := {|
  o_ParseInt := fun _ _ _ => Err; o_FormatInt := fun _ _ => ""%string;
  o_BigSetString := fun _ _ => (0, false); o_BigText := fun _ _ => ""%string;
  o_f64_to_f32 := fun x => if x =? 7 then 7 else if x <? 100 then x else 99;
  o_f32_to_f64 := fun x => x;
  o_f64_eqb := fun x y => (x =? y) && negb (x =? 7);
  o_f64_isnan := fun x => x =? 7;
  o_BigFloat_Float64 := fun f => if fst f =? 7 then (0, -1) else (fst f, 0);
  o_BigFloat_SetFloat64 := fun p x => if p =? 0 then ((x, 0), 0) else
                                      let r := x / 2 ^ p * 2 ^ p in ((r, 0), if r =? x then 0 else -1);
  o_TimeParse := fun _ _ => Err; o_TimeFormat := fun _ _ => ""%string
|}.
Definition toy_val (b : Z) : option Z := if b =? 7 then None else Some b.
Definition toy_valbig (f : bigfloat) : option Z := Some (fst f).

Example float_contracts_satisfiable :
  (forall w, toy_val (o_f32_to_f64 Otoy w) = toy_val w) /\
  (forall a b, o_f64_eqb Otoy a b = true -> toy_val a = toy_val b) /\
  (forall b, o_f64_isnan Otoy b = true -> toy_val b = None) /\
  (forall b, o_f64_isnan Otoy b = true -> toy_val (o_f64_to_f32 Otoy b) = None) /\
  (forall f b, o_BigFloat_Float64 Otoy f = (b, 0) -> toy_val b = toy_valbig f) /\
  (forall p b f a, o_f64_isnan Otoy b = false -> o_BigFloat_SetFloat64 Otoy p b = (f, a) ->
     (a = 0 <-> toy_valbig f = toy_val b)).
Proof.
  unfold toy_val, toy_valbig, Otoy;
    cbn [o_f32_to_f64 o_f64_eqb o_f64_isnan o_f64_to_f32 o_BigFloat_Float64 o_BigFloat_SetFloat64].
  split; [|split; [|split; [|split; [|split]]]].
  - reflexivity.
  - intros a b H. apply andb_prop in H as [H _]. apply Z.eqb_eq in H. subst. reflexivity.
  - intros b ->. reflexivity.
  - intros b H. rewrite H. reflexivity.
  - intros f b. destruct (Z.eqb_spec (fst f) 7) as [|N]; [discriminate|]. intro H. injection H as <-.
    destruct (Z.eqb_spec (fst f) 7); [contradiction|reflexivity].
  - intros p b f a N E. rewrite N. destruct (p =? 0).
    + injection E as <- <-. cbn [fst]. split; reflexivity.
    + injection E as <- <-. cbn [fst]. destruct (Z.eqb_spec (b / 2 ^ p * 2 ^ p) b) as [e|ne].
      * rewrite e. split; reflexivity.
      * split; [discriminate|]. intro H. injection H as H. contradiction.
Qed.

Example float_examples :
  float64ToFloat32 Otoy 7 = Ok 7 /\ float64ToFloat32 Otoy 50 = Ok 50 /\ float64ToFloat32 Otoy 150 = Err /\
  float64ToBigFloat Otoy 5 0 = Ok (Some (G_bigfloat (5, 0))) /\ float64ToBigFloat Otoy 4 1 = Ok (Some (G_bigfloat (4, 0))) /\
  float64ToBigFloat Otoy 5 1 = Err /\ float64ToBigFloat Otoy 7 0 = Err /\
  convertFromFloat64 Otoy 5 false (D_pbigfloat false 1) = Err /\
  convertFromFloat64 Otoy 6 false (D_pbigfloat false 1) = Ok (Some (G_bigfloat (6, 0))) /\
  convertFromFloat64 Otoy 7 false (D_pfloat32 false) = Ok (Some (G_float32 7)).
Proof. repeat split; vm_compute; reflexivity. Qed.

(* ---- the denotations under which the check instantiates the premises on the real library's answers (model/NumContracts.v):
   sanity of the IEEE-754 decoding and of the decimal-string denotation on known values *)
Example denotation_examples :
  f64_value 4607182418800017408 = FFin 1 0 /\                      (* 1.0 *)
  f64_value 4591870180066957722 = FFin 3602879701896397 (-55) /\   (* 0.1 *)
  f64_value 1 = FFin 1 (-1074) /\                                  (* smallest subnormal *)
  f64_value 9218868437227405311 = FFin 9007199254740991 971 /\     (* MaxFloat64 *)
  f64_value 9223372036854775808 = FFin 0 0 /\                      (* -0 *)
  f64_value 13835058055282163712 = FFin (-1) 1 /\                  (* -2.0 *)
  f64_value 9218868437227405312 = FInf false /\ f64_value 18442240474082181120 = FInf true /\
  f64_value 9221120237041090560 = FNaN /\ f64_value 9218868437227405313 = FNaN /\
  f32_value 1065353216 = FFin 1 0 /\ f32_value 1 = FFin 1 (-149) /\ f32_value 2139095039 = FFin 16777215 104 /\
  f32_value 2143289344 = FNaN /\ f32_value 4286578688 = FInf true /\
  bf_value (5, -3) = FFin 5 (-3) /\ bf_value (0, -1) = FFin 0 0 /\ bf_value (-1, 1000000) = FInf true /\ bf_value (12, 0) = FFin 3 2 /\
  godec "-128" = Some (-128) /\ godec "+5" = Some 5 /\ godec "007" = Some 7 /\ godec "-0" = Some 0 /\
  godec "" = None /\ godec "-" = None /\ godec "1e3" = None /\ godec " 5" = None /\ godec "0x10" = None /\ godec "1_000" = None.
Proof. repeat split; vm_compute; reflexivity. Qed.
