(* C13, part 5: floating point.  IEEE conversions and math/big.Float are oracles; what is proved is the logic around them:
   a narrowing is accepted only when the oracle says it is exact, a big.Float only when Float64 reports big.Exact,
   NaN is never stored into a big.Float.  Subject: gen/Numeric_gen.v. *)
From Coq Require Import ZArith List String Bool Lia.
From GCNP Require Import base.GoInt base.GoNum gen.Numeric_gen proofs.NumericBase.
Import ListNotations.
Open Scope Z_scope.

Section Floats.
Variable O : oracles.
(* the extended real (or NaN) a bit pattern denotes; V is any set of values *)
Variable V : Type.
Variables (val64 val32 : Z -> V) (valbig : bigfloat -> V).
(* documented contracts: widening float32 -> float64 is exact; == holds only between equal values;
   Float64() reporting Exact (accuracy 0) returned the same value; SetFloat64 is exact *)
Hypothesis widen_exact : forall w, val64 (o_f32_to_f64 O w) = val32 w.
Hypothesis eq_sound : forall a b, o_f64_eqb O a b = true -> val64 a = val64 b.
Hypothesis bigfloat_exact : forall f b, o_BigFloat_Float64 O f = (b, 0) -> val64 b = valbig f.
Hypothesis setfloat_exact : forall b, o_f64_isnan O b = false -> valbig (o_BigFloat_SetFloat64 O b) = val64 b.

Theorem float64ToFloat32_exact v w : float64ToFloat32 O v = Ok w -> val32 w = val64 v.
Proof.
  unfold float64ToFloat32. destruct (o_f64_eqb O _ v) eqn:E; cbn [negb]; [|discriminate].
  intro H. injection H as <-. rewrite <- widen_exact. apply eq_sound. exact E.
Qed.

Theorem bigFloatToFloat64_exact f b : bigFloatToFloat64 O f = Ok b -> val64 b = valbig f.
Proof.
  unfold bigFloatToFloat64. destruct (o_BigFloat_Float64 O f) as [x acc] eqn:E.
  destruct (Z.eqb_spec acc 0) as [->|]; cbn [negb]; [|discriminate].
  intro H. injection H as <-. apply bigfloat_exact. exact E.
Qed.

Theorem float64ToBigFloat_exact b st : float64ToBigFloat O b = Ok st -> exists f, st = Some (G_bigfloat f) /\ valbig f = val64 b.
Proof.
  unfold float64ToBigFloat, ret_res. destruct (o_f64_isnan O b) eqn:E; [discriminate|].
  intro H. injection H as <-. eexists. split; [reflexivity|]. apply setfloat_exact. exact E.
Qed.

(* the CQL float switch: float32 sources pass unchanged, float64 sources only when narrowing is exact *)
Theorem convertToFloat32_exact g w : convertToFloat32 O g = Ok (w, false) ->
  match g with
  | G_float32 b | G_pfloat32 (Some b) => w = b
  | G_float64 b | G_pfloat64 (Some b) => val32 w = val64 b
  | _ => False
  end.
Proof.
  destruct g as [v|v|v|v|v|v|v|v|v|v|s|b|b|v|f|t|v|p|p|p|p|p|p|p|p|p|p|p|p|p|p|p|p|p| |];
  try (destruct p as [b|]); unfold convertToFloat32;
  cbv beta iota zeta delta [res_split ret_res unopt isNone is_ok fst snd]; cbn [negb];
  try discriminate;
  try (intro H; injection H as <-; reflexivity);
  try (destruct (float64ToFloat32 O b) as [x|] eqn:E; cbn; [|discriminate]; intro H; injection H as <-; exact (float64ToFloat32_exact _ _ E)).
Qed.

(* the CQL double switch into *float32 *)
Theorem convertFromFloat64_float32_exact b st : convertFromFloat64 O b false (D_pfloat32 false) = Ok st ->
  exists w, st = Some (G_float32 w) /\ val32 w = val64 b.
Proof.
  unfold convertFromFloat64. cbv beta iota zeta delta [res_split ret_res is_ok fst snd]; cbn [negb].
  destruct (float64ToFloat32 O b) as [x|] eqn:E; cbn; [|discriminate].
  intro H. injection H as <-. eexists. split; [reflexivity|]. exact (float64ToFloat32_exact _ _ E).
Qed.
End Floats.
