(* C02, body clause for the simple requests and responses of model/MsgRequests.v:
   STARTUP, OPTIONS, READY, AUTHENTICATE, SUPPORTED, AUTH_CHALLENGE, AUTH_SUCCESS, AUTH_RESPONSE, REGISTER, PREPARE,
   REVISE_REQUEST.  For each: a version-valid message has a specification layout, and its bytes are the bytes the
   model encoder emits (bytes_T of proofs/MsgRequestsSimple.v). *)
From Coq Require Import ZArith List Bool Lia.
From Coq Require Import ZifyBool ZifyNat.
From GCNP Require Import base.GoInt base.Bytes base.Codec gen.Constants_gen spec.SpecTables model.Prim model.DataType
  model.MsgTypes model.Frame model.MsgRequests proofs.PrimProofs proofs.CqlBytesLemmas proofs.FrameProofs proofs.MsgRequestsLib
  proofs.MsgRequestsSimple spec.SpecNotation spec.SpecMsg spec.SpecFrame proofs.SpecAgreeLib.
Import ListNotations.
Open Scope Z_scope.
Ltac Zify.zify_post_hook ::= Z.div_mod_to_equations.

Ltac leb_hyp := match goal with Hx : (?a <=? ?b) = true |- ?a <= ?b => apply Z.leb_le; exact Hx end.
Ltac raw_head Hv :=
  unfold spec_body_raw; rewrite (supported_is_version _ Hv); cbn [negb].

(* STARTUP *)
Lemma agree_Startup v m : supported v -> Startup_okb v m = true -> spec_body_bytes v (M_Startup m) = Some (bytes_Startup m).
Proof.
  intros Hv H. unfold Startup_okb in H. bsplit H.
  apply spec_bytes_intro with (l := [NStringMap (st_Options m)]).
  - raw_head Hv. reflexivity.
  - cbn [forallb notation_ok]. rewrite andb_true_r. rewrite fits_u16 by (split; [apply zlen_nonneg|lia]). cbn [andb].
    apply forallb_forall. intros kv Hkv. rewrite forallb_forall in H0. specialize (H0 kv Hkv). apply andb_prop in H0. destruct H0 as [A B].
    rewrite !string_ok_le by (apply str_okb_le; assumption). reflexivity.
  - rewrite ser_all_one. reflexivity.
Qed.

(* OPTIONS, READY *)
Lemma agree_Options v : supported v -> spec_body_bytes v M_Options = Some [].
Proof. intro Hv. apply spec_bytes_intro with (l := []); [raw_head Hv; reflexivity|reflexivity|reflexivity]. Qed.
Lemma agree_Ready v : supported v -> spec_body_bytes v M_Ready = Some [].
Proof. intro Hv. apply spec_bytes_intro with (l := []); [raw_head Hv; reflexivity|reflexivity|reflexivity]. Qed.

(* AUTHENTICATE *)
Lemma agree_Authenticate v m : supported v -> Authenticate_okb v m = true ->
  spec_body_bytes v (M_Authenticate m) = Some (bytes_Authenticate m).
Proof.
  intros Hv H. unfold Authenticate_okb in H. bsplit H.
  apply spec_bytes_intro with (l := [NString (au_Authenticator m)]).
  - raw_head Hv. reflexivity.
  - cbn [forallb notation_ok]. rewrite string_ok_le by (apply str_okb_le; assumption). reflexivity.
  - rewrite ser_all_one. reflexivity.
Qed.

(* SUPPORTED *)
Lemma agree_Supported v m : supported v -> Supported_okb v m = true -> spec_body_bytes v (M_Supported m) = Some (bytes_Supported m).
Proof.
  intros Hv H. unfold Supported_okb in H. bsplit H.
  apply spec_bytes_intro with (l := [NStringMultimap (su_Options m)]).
  - raw_head Hv. reflexivity.
  - cbn [forallb notation_ok]. rewrite andb_true_r. rewrite fits_u16 by (split; [apply zlen_nonneg|lia]). cbn [andb].
    apply forallb_forall. intros kv Hkv. rewrite forallb_forall in H0. specialize (H0 kv Hkv).
    apply andb_prop in H0. destruct H0 as [A C]. apply andb_prop in A. destruct A as [A B].
    rewrite string_ok_le by (apply str_okb_le; assumption).
    rewrite fits_u16 by (split; [apply zlen_nonneg|lia]). cbn [andb].
    apply strings_ok_le. eapply forallb_Forall; [|exact C]. apply str_okb_le.
  - rewrite ser_all_one. reflexivity.
Qed.

(* AUTH_CHALLENGE, AUTH_SUCCESS, AUTH_RESPONSE *)
Lemma agree_AuthChallenge v m : supported v -> AuthChallenge_okb v m = true ->
  spec_body_bytes v (M_AuthChallenge m) = Some (bytes_AuthChallenge m).
Proof.
  intros Hv H. unfold AuthChallenge_okb in H. apply lstr_okb_le in H.
  apply spec_bytes_intro with (l := [NBytes (ac_Token m)]).
  - raw_head Hv. reflexivity.
  - cbn [forallb]. rewrite obytes_nok by exact H. reflexivity.
  - rewrite ser_all_one. apply ser_bytes_enc.
Qed.
Lemma agree_AuthSuccess v m : supported v -> AuthSuccess_okb v m = true ->
  spec_body_bytes v (M_AuthSuccess m) = Some (bytes_AuthSuccess m).
Proof.
  intros Hv H. unfold AuthSuccess_okb in H. apply lstr_okb_le in H.
  apply spec_bytes_intro with (l := [NBytes (as_Token m)]).
  - raw_head Hv. reflexivity.
  - cbn [forallb]. rewrite obytes_nok by exact H. reflexivity.
  - rewrite ser_all_one. apply ser_bytes_enc.
Qed.
Lemma agree_AuthResponse v m : supported v -> AuthResponse_okb v m = true ->
  spec_body_bytes v (M_AuthResponse m) = Some (bytes_AuthResponse m).
Proof.
  intros Hv H. unfold AuthResponse_okb in H. apply lstr_okb_le in H.
  apply spec_bytes_intro with (l := [NBytes (ar_Token m)]).
  - raw_head Hv. reflexivity.
  - cbn [forallb]. rewrite obytes_nok by exact H. reflexivity.
  - rewrite ser_all_one. apply ser_bytes_enc.
Qed.

(* REGISTER *)
Lemma agree_Register v m : supported v -> Register_okb v m = true -> spec_body_bytes v (M_Register m) = Some (bytes_Register m).
Proof.
  intros Hv H. unfold Register_okb in H. bsplit H.
  apply spec_bytes_intro with (l := [NStringList (rg_EventTypes m)]).
  - raw_head Hv. reflexivity.
  - cbn [forallb]. rewrite string_list_nok; [reflexivity|leb_hyp|]. eapply forallb_Forall; [|exact H0]. apply str_okb_le.
  - rewrite ser_all_one. reflexivity.
Qed.

(* PREPARE: <flags> and <keyspace> in v5 and DSE v2 only (both sides) *)
Lemma prepare_flags_version v : supported v -> ProtocolVersion_SupportsPrepareFlags v = spec_v5_or_dse2 v.
Proof. intro H. destruct (supported_cases _ H) as [->|[->|[->|[->|[->| ->]]]]]; reflexivity. Qed.

Lemma agree_Prepare v m : supported v -> Prepare_okb v m = true -> spec_body_bytes v (M_Prepare m) = Some (bytes_Prepare v m).
Proof.
  intros Hv H. unfold Prepare_okb in H. bsplit H.
  pose proof (lstr_okb_le _ H2) as Hq. pose proof (str_okb_le _ H1) as Hk.
  unfold bytes_Prepare. rewrite Prepare_Flags_eq. rewrite prepare_flags_version in * by exact Hv.
  destruct (spec_v5_or_dse2 v) eqn:E.
  - apply spec_bytes_intro with (l := [NLongString (p_Query m); NInt (flag (SpecMsg.nonempty (p_Keyspace m)) 1)]
                                     ++ (if SpecMsg.nonempty (p_Keyspace m) then [NString (p_Keyspace m)] else [])).
    + raw_head Hv. unfold spec_prepare. rewrite E. reflexivity.
    + rewrite nonempty_eq. destruct (MsgRequests.nonempty (p_Keyspace m)); cbn [app forallb notation_ok flag];
        rewrite blob_ok_le by exact Hq; rewrite ?string_ok_le by exact Hk; reflexivity.
    + rewrite nonempty_eq. destruct (MsgRequests.nonempty (p_Keyspace m)); cbn [app flag]; rewrite !ser_all_cons, ser_all_nil, ?app_nil_r; reflexivity.
  - cbn [orb] in H0. apply negb_true_iff in H0.
    apply spec_bytes_intro with (l := [NLongString (p_Query m)]).
    + raw_head Hv. unfold spec_prepare. rewrite E, nonempty_eq, H0. reflexivity.
    + cbn [forallb notation_ok]. rewrite blob_ok_le by exact Hq. reflexivity.
    + rewrite ser_all_one, app_nil_r. reflexivity.
Qed.

(* REVISE_REQUEST *)
Lemma dse_version v : supported v -> is_ok (CheckDseProtocolVersion v) = spec_is_dse v.
Proof. intro H. destruct (supported_cases _ H) as [->|[->|[->|[->|[->| ->]]]]]; reflexivity. Qed.

Lemma agree_Revise v m : supported v -> Revise_okb v m = true -> spec_body_bytes v (M_Revise m) = Some (bytes_Revise m).
Proof.
  intros Hv H. unfold Revise_okb in H. bsplit H.
  pose proof (i32_okb_in _ H2) as Hsid. pose proof (i32_okb_in _ H1) as Hnp. unfold in_i32 in *.
  rewrite dse_version in H by exact Hv.
  destruct m as [t sid np]. cbn [rv_RevisionType rv_TargetStreamId rv_NextPages] in *. unfold bytes_Revise. cbn [rv_RevisionType rv_TargetStreamId rv_NextPages].
  unfold CheckValidDseRevisionType, DseRevisionType_IsValid, ProtocolVersion_SupportsDseRevisionType,
    DseRevisionTypeCancelContinuousPaging, DseRevisionTypeMoreContinuousPages in *.
  destruct (Z.eqb_spec t 1) as [->|Ht1].
  - change (1 =? 2) with false in *. cbn [orb] in H0. apply Z.eqb_eq in H0. subst np.
    apply spec_bytes_intro with (l := [NInt 1; NInt sid]).
    + raw_head Hv. unfold spec_revise. cbn [rv_RevisionType rv_TargetStreamId rv_NextPages]. rewrite H. reflexivity.
    + cbn [forallb notation_ok]. rewrite !fits_any32 by lia. reflexivity.
    + rewrite !ser_all_cons, ser_all_nil, !app_nil_r. reflexivity.
  - destruct (Z.eqb_spec t 2) as [->|Ht2]; [|cbn in H3; discriminate].
    assert (Hv66 : v = 66).
    { destruct (supported_cases _ Hv) as [->|[->|[->|[->|[->| ->]]]]]; try reflexivity; cbn in H3; try discriminate; cbn in H; discriminate. }
    subst v.
    apply spec_bytes_intro with (l := [NInt 2; NInt sid; NInt np]).
    + reflexivity.
    + cbn [forallb notation_ok]. rewrite !fits_any32 by lia. reflexivity.
    + rewrite !ser_all_cons, ser_all_nil, !app_nil_r. reflexivity.
Qed.
