(* BATCH of model/MsgRequests.v: round trip (arbitrary suffix), declared length, totality, closure of the normal form,
   non-vacuity Example. *)
From Coq Require Import ZArith List Bool Lia.
From Coq Require Import ZifyBool ZifyNat.
From GCNP Require Import base.GoInt base.Bytes base.Codec base.StrBytes gen.Constants_gen model.Prim model.DataType
  model.MsgTypes model.MsgRequests proofs.PrimProofs proofs.PrimTotal proofs.MsgRequestsLib proofs.MsgRequestsSimple
  proofs.MsgRequestsQuery.
From Coq Require String.
Import String.StringSyntax.
Import ListNotations.
Open Scope Z_scope.
Ltac Zify.zify_post_hook ::= Z.div_mod_to_equations.
Local Notation B s := (bytes_of_string s) (only parsing).

(* ---------- the flags word of Batch ---------- *)
Ltac batch_unfold_flags := cbv [Batch_Flags b_SerialConsistency b_DefaultTimestamp b_Keyspace b_NowInSeconds].
Lemma batch_flags_spec m : let f := Batch_Flags m in
  QueryFlag_Contains f QueryFlagSerialConsistency = is_some (b_SerialConsistency m) /\
  QueryFlag_Contains f QueryFlagDefaultTimestamp = is_some (b_DefaultTimestamp m) /\
  QueryFlag_Contains f QueryFlagWithKeyspace = nonempty (b_Keyspace m) /\
  QueryFlag_Contains f QueryFlagNowInSeconds = is_some (b_NowInSeconds m) /\
  QueryFlag_Contains f QueryFlagValueNames = false.
Proof.
  destruct m as [t ch cons ser ts ks now]. batch_unfold_flags. repeat split; contains_tb; reflexivity.
Qed.
Lemma batch_flags_range m : 0 <= Batch_Flags m < 4294967296.
Proof. destruct m as [t ch cons ser ts ks now]. batch_unfold_flags. change 4294967296 with (2 ^ 32). flags_range. Qed.
Lemma batch_flags_small m : is_some (b_NowInSeconds m) = false -> 0 <= Batch_Flags m < 256.
Proof.
  destruct m as [t ch cons ser ts ks now]. batch_unfold_flags. change 256 with (2 ^ 8). intros ->. cbn [flag_if]. flags_range.
Qed.
Lemma batch_flags_zero m : Batch_Flags m = 0 ->
  b_SerialConsistency m = None /\ b_DefaultTimestamp m = None /\ b_Keyspace m = [] /\ b_NowInSeconds m = None.
Proof.
  intro H. destruct (batch_flags_spec m) as (F1 & F2 & F3 & F4 & _). cbv zeta in *. rewrite H in *.
  change (QueryFlag_Contains 0 QueryFlagSerialConsistency) with false in F1.
  change (QueryFlag_Contains 0 QueryFlagDefaultTimestamp) with false in F2.
  change (QueryFlag_Contains 0 QueryFlagWithKeyspace) with false in F3.
  change (QueryFlag_Contains 0 QueryFlagNowInSeconds) with false in F4.
  repeat split.
  - destruct (b_SerialConsistency m); [discriminate|reflexivity].
  - destruct (b_DefaultTimestamp m); [discriminate|reflexivity].
  - apply nonempty_false. symmetry. exact F3.
  - destruct (b_NowInSeconds m); [discriminate|reflexivity].
Qed.
Lemma batch_has_supported v f flag : flags_supportedb v f = true -> In flag qo_flag_list ->
  batch_has v f flag = QueryFlag_Contains f flag.
Proof.
  intros Hs Hin. unfold batch_has. destruct (QueryFlag_Contains f flag) eqn:E; [|apply andb_false_r].
  rewrite (flags_supported_in _ _ _ Hs Hin E). reflexivity.
Qed.

(* ================= BatchChild ================= *)
Definition bytes_BatchChild (oc : option BatchChild) : bytes :=
  match oc with
  | None => []
  | Some c =>
      (if nonempty (bc_Query c) then be_bytes 1 0 ++ enc_long_string (bc_Query c)
       else be_bytes 1 1 ++ enc_short_bytes (bc_Id c)) ++
      enc_positional_values (bc_Values c)
  end.
Lemma BatchChild_facts v oc : BatchChild_okb v oc = true ->
  facts (enc_BatchChild v oc) (len_BatchChild oc) (dec_BatchChild v) (bytes_BatchChild oc) (norm_BatchChild oc).
Proof.
  destruct oc as [[q id vs]|]; [|discriminate]. unfold BatchChild_okb. cbn [bc_Query bc_Id bc_Values]. intro H.
  apply andb_prop in H. destruct H as [H Hvs]. pose proof (values_okb_ok _ _ Hvs) as Hv.
  unfold facts, enc_BatchChild, len_BatchChild, dec_BatchChild, bytes_BatchChild, norm_BatchChild.
  cbn [bc_Query bc_Id bc_Values option_map].
  change (wrap_u 8 BatchChildTypeQueryString) with 0. change (wrap_u 8 BatchChildTypePreparedId) with 1.
  destruct (nonempty q) eqn:Eq.
  - apply andb_prop in H. destruct H as [Hq Hid]. apply lstr_okb_le in Hq. repeat split.
    + rewrite write_long_string_ok by exact Hq. rewrite (write_positional_values_ok v vs Hv). unfold write_byte. cbn [wapp]. reflexivity.
    + intro rest. rewrite <- !app_assoc. unfold bind at 1. rewrite read_byte_app by (unfold in_u8; lia).
      change (0 =? BatchChildTypeQueryString) with true. cbv iota.
      unfold bind at 1. unfold bind at 1. rewrite read_long_string_app by exact Hq. unfold ret at 1.
      unfold bind at 1. rewrite read_positional_values_app by exact Hv. reflexivity.
    + rewrite (len_positional_values_ok v vs Hv). cbn [ladd]. rewrite !zlen_app, be_bytes_zlen, enc_long_string_len.
      unfold LengthOfByte. f_equal; lia.
  - apply andb_prop in H. destruct H as [Hne Hid]. apply str_okb_le in Hid. pose proof (nonempty_pos _ Hne) as Hpos. repeat split.
    + destruct (Z.eqb_spec (zlen (olist id)) 0); [lia|]. rewrite write_short_bytes_ok by exact Hid.
      rewrite (write_positional_values_ok v vs Hv). unfold write_byte. cbn [wapp]. reflexivity.
    + intro rest. rewrite <- !app_assoc. unfold bind at 1. rewrite read_byte_app by (unfold in_u8; lia).
      change (1 =? BatchChildTypeQueryString) with false. change (1 =? BatchChildTypePreparedId) with true. cbv iota.
      unfold bind at 1. unfold bind at 1. rewrite read_short_bytes_app by exact Hid. unfold ret at 1.
      unfold bind at 1. rewrite read_positional_values_app by exact Hv. apply nonempty_false in Eq. subst q. reflexivity.
    + rewrite (len_positional_values_ok v vs Hv). cbn [ladd]. rewrite !zlen_app, be_bytes_zlen, enc_short_bytes_len.
      unfold LengthOfByte. f_equal; lia.
Qed.
Lemma bytes_BatchChild_nonempty v oc : BatchChild_okb v oc = true -> (1 <= length (bytes_BatchChild oc))%nat.
Proof.
  destruct oc as [c|]; [intros _|discriminate]. unfold bytes_BatchChild.
  destruct (nonempty (bc_Query c)); rewrite !app_length, be_bytes_length; lia.
Qed.
Lemma progress_dec_BatchChild v : progress (dec_BatchChild v).
Proof.
  unfold progress, dec_BatchChild. apply consumes_bind_l; [apply consumes_read_byte|intro].
  apply consumes_bind_l; [consumes0_tac|intro].
  apply consumes_bind_l; [eapply consumes_weaken; [|apply consumes_read_positional_values]; lia|intro; apply consumes_ret].
Qed.
Lemma total_dec_BatchChild v : total (dec_BatchChild v).
Proof. unfold dec_BatchChild. total_tac. Qed.

(* ================= Batch ================= *)
Definition bytes_batch_tail (v : Z) (m : Batch) : bytes :=
  if ProtocolVersion_SupportsBatchQueryFlags v then
    bytes_query_flags v (Batch_Flags m) ++ bytes_opt (be_bytes 2) (b_SerialConsistency m) ++
    bytes_opt (be_bytes 8) (b_DefaultTimestamp m) ++
    (if nonempty (b_Keyspace m) then enc_string (b_Keyspace m) else []) ++
    bytes_opt (be_bytes 4) (b_NowInSeconds m)
  else [].
Definition bytes_Batch (v : Z) (m : Batch) : bytes :=
  be_bytes 1 (b_Type m) ++ be_bytes 2 (zlen (b_Children m)) ++ concat (map bytes_BatchChild (b_Children m)) ++
  be_bytes 2 (b_Consistency m) ++ bytes_batch_tail v m.

Lemma batch_type_range t : is_ok (CheckValidBatchType t) = true -> 0 <= t < 256.
Proof.
  unfold CheckValidBatchType, BatchType_IsValid.
  repeat match goal with |- context [Z.eqb t ?k] => destruct (Z.eqb_spec t k); [subst t; intros _; vm_compute; split; [discriminate|reflexivity]|] end.
  cbn. discriminate.
Qed.

Lemma Batch_facts v m : Batch_okb v m = true ->
  facts (enc_Batch v m) (len_Batch v m) (dec_Batch v) (bytes_Batch v m) (norm_Batch v m).
Proof.
  unfold Batch_okb. intro H. bsplit H. rename H7 into Hzl, H6 into Hall, H5 into Hco, H4 into Hse, H3 into Hts, H2 into Hks, H1 into Hnw, H0 into Hfl.
  pose proof (batch_type_range _ H) as Ht. pose proof (u16_okb_in _ Hco) as Hcons. unfold in_u16 in Hcons.
  assert (Hn : zlen (b_Children m) <= 65535) by lia. pose proof (zlen_nonneg (b_Children m)) as Hn0.
  rewrite forallb_forall in Hall.
  assert (Hch : forall c, In c (b_Children m) ->
            facts (enc_BatchChild v c) (len_BatchChild c) (dec_BatchChild v) (bytes_BatchChild c) (norm_BatchChild c)).
  { intros c Hc. apply BatchChild_facts, Hall, Hc. }
  destruct (batch_flags_spec m) as (F1 & F2 & F3 & F4 & F5). cbv zeta in *.
  pose proof (batch_flags_range m) as Hrange.
  (* the tail, per version *)
  assert (Htail :
    (if ProtocolVersion_SupportsBatchQueryFlags v then
       let flags := Batch_Flags m in
       enc_query_flags v flags +++
       (if batch_has v flags QueryFlagSerialConsistency then
          match b_SerialConsistency m with None => Err | Some c => write_short (wrap_u 16 c) end else Ok []) +++
       (if batch_has v flags QueryFlagDefaultTimestamp then
          match b_DefaultTimestamp m with None => Err | Some t => write_long t end else Ok []) +++
       (if batch_has v flags QueryFlagWithKeyspace then
          (if nonempty (b_Keyspace m) then write_string (b_Keyspace m) else Err) else Ok []) +++
       (if batch_has v flags QueryFlagNowInSeconds then
          match b_NowInSeconds m with None => Err | Some n => write_int n end else Ok [])
     else Ok []) = Ok (bytes_batch_tail v m)
    /\ (forall rest,
        (if ProtocolVersion_SupportsBatchQueryFlags v then
           flags <- dec_query_flags v ;;
           rguard (negb (QueryFlag_Contains flags QueryFlagValueNames)) ;;;
           serial <- (if QueryFlag_Contains flags QueryFlagSerialConsistency then rmap Some read_short else ret None) ;;
           ts <- (if QueryFlag_Contains flags QueryFlagDefaultTimestamp then rmap Some read_long else ret None) ;;
           ks <- (if batch_has v flags QueryFlagWithKeyspace then read_string else ret []) ;;
           now <- (if batch_has v flags QueryFlagNowInSeconds then rmap Some read_int else ret None) ;;
           ret {| b_Type := b_Type m; b_Children := map norm_BatchChild (b_Children m); b_Consistency := b_Consistency m;
                  b_SerialConsistency := serial; b_DefaultTimestamp := ts; b_Keyspace := ks; b_NowInSeconds := now |}
         else
           ret {| b_Type := b_Type m; b_Children := map norm_BatchChild (b_Children m); b_Consistency := b_Consistency m;
                  b_SerialConsistency := None; b_DefaultTimestamp := None; b_Keyspace := []; b_NowInSeconds := None |})
          (bytes_batch_tail v m ++ rest) = DOk (norm_Batch v m) rest)
    /\ (if ProtocolVersion_SupportsBatchQueryFlags v then
          len_query_flags v +l+
          (let flags := Batch_Flags m in
           (if batch_has v flags QueryFlagSerialConsistency then Ok LengthOfShort else Ok 0) +l+
           (if batch_has v flags QueryFlagDefaultTimestamp then Ok LengthOfLong else Ok 0) +l+
           (if batch_has v flags QueryFlagWithKeyspace then Ok (len_string (b_Keyspace m)) else Ok 0) +l+
           (if batch_has v flags QueryFlagNowInSeconds then Ok LengthOfInt else Ok 0))
        else Ok 0) = Ok (zlen (bytes_batch_tail v m))).
  { unfold bytes_batch_tail, norm_Batch. destruct (ProtocolVersion_SupportsBatchQueryFlags v).
    - assert (Hin : forall fl, In fl [QueryFlagSerialConsistency; QueryFlagDefaultTimestamp; QueryFlagWithKeyspace; QueryFlagNowInSeconds] -> In fl qo_flag_list).
      { unfold qo_flag_list. cbn [In]. intuition. }
      cbv zeta.
      rewrite (batch_has_supported v _ QueryFlagSerialConsistency Hfl) by (apply Hin; cbn [In]; intuition).
      rewrite (batch_has_supported v _ QueryFlagDefaultTimestamp Hfl) by (apply Hin; cbn [In]; intuition).
      rewrite (batch_has_supported v _ QueryFlagWithKeyspace Hfl) by (apply Hin; cbn [In]; intuition).
      rewrite (batch_has_supported v _ QueryFlagNowInSeconds Hfl) by (apply Hin; cbn [In]; intuition).
      assert (Hbyte : ProtocolVersion_Uses4BytesQueryFlags v = false -> 0 <= Batch_Flags m < 256).
      { intro Hu. apply batch_flags_small. destruct (is_some (b_NowInSeconds m)) eqn:E; [|reflexivity].
        pose proof (flags_supported_in _ _ _ Hfl (Hin _ (or_intror (or_intror (or_intror (or_introl eq_refl))))) F4) as S.
        apply supports_now_uses4 in S. congruence. }
      rewrite F1, F2, F3, F4.
      apply str_okb_le in Hks.
      repeat split.
      + rewrite (enc_query_flags_ok v _ Hbyte).
        destruct (b_SerialConsistency m) as [sc|]; cbn [is_some bytes_opt opt_okb] in Hse |- *;
        destruct (b_DefaultTimestamp m) as [ts|]; cbn [is_some bytes_opt opt_okb] in Hts |- *;
        destruct (b_NowInSeconds m) as [now|]; cbn [is_some bytes_opt opt_okb] in Hnw |- *;
        destruct (nonempty (b_Keyspace m));
        rewrite ?write_string_ok by exact Hks; unfold write_short, write_long, write_int;
        rewrite ?wrap_u16_small by (apply u16_okb_in in Hse; exact Hse); reflexivity.
      + intro rest. rewrite <- !app_assoc.
        unfold bind at 1. rewrite (dec_query_flags_app v _ _ Hrange Hbyte). rewrite F5. cbn [negb rguard].
        unfold bind at 1, ret at 1. rewrite F1, F2.
        rewrite (batch_has_supported v _ QueryFlagWithKeyspace Hfl) by (apply Hin; cbn [In]; intuition).
        rewrite (batch_has_supported v _ QueryFlagNowInSeconds Hfl) by (apply Hin; cbn [In]; intuition).
        rewrite F3, F4.
        unfold bind at 1.
        assert (E1 : (if is_some (b_SerialConsistency m) then rmap Some read_short else ret None)
                       (bytes_opt (be_bytes 2) (b_SerialConsistency m) ++ bytes_opt (be_bytes 8) (b_DefaultTimestamp m) ++
                        (if nonempty (b_Keyspace m) then enc_string (b_Keyspace m) else []) ++ bytes_opt (be_bytes 4) (b_NowInSeconds m) ++ rest)
                     = DOk (b_SerialConsistency m) (bytes_opt (be_bytes 8) (b_DefaultTimestamp m) ++
                        (if nonempty (b_Keyspace m) then enc_string (b_Keyspace m) else []) ++ bytes_opt (be_bytes 4) (b_NowInSeconds m) ++ rest)).
        { destruct (b_SerialConsistency m) as [sc|]; cbn [is_some bytes_opt opt_okb] in Hse |- *; [|reflexivity].
          unfold rmap, bind. rewrite read_short_app by (apply u16_okb_in; exact Hse). reflexivity. }
        rewrite E1. unfold bind at 1.
        assert (E2 : (if is_some (b_DefaultTimestamp m) then rmap Some read_long else ret None)
                       (bytes_opt (be_bytes 8) (b_DefaultTimestamp m) ++
                        (if nonempty (b_Keyspace m) then enc_string (b_Keyspace m) else []) ++ bytes_opt (be_bytes 4) (b_NowInSeconds m) ++ rest)
                     = DOk (b_DefaultTimestamp m) ((if nonempty (b_Keyspace m) then enc_string (b_Keyspace m) else []) ++ bytes_opt (be_bytes 4) (b_NowInSeconds m) ++ rest)).
        { destruct (b_DefaultTimestamp m) as [ts|]; cbn [is_some bytes_opt opt_okb] in Hts |- *; [|reflexivity].
          unfold rmap, bind. rewrite read_long_app by (apply i64_okb_in; exact Hts). reflexivity. }
        rewrite E2. unfold bind at 1.
        assert (E3 : (if nonempty (b_Keyspace m) then read_string else ret [])
                       ((if nonempty (b_Keyspace m) then enc_string (b_Keyspace m) else []) ++ bytes_opt (be_bytes 4) (b_NowInSeconds m) ++ rest)
                     = DOk (b_Keyspace m) (bytes_opt (be_bytes 4) (b_NowInSeconds m) ++ rest)).
        { destruct (nonempty (b_Keyspace m)) eqn:E; [apply read_string_app; exact Hks|]. apply nonempty_false in E. rewrite E. reflexivity. }
        rewrite E3. unfold bind at 1.
        assert (E4 : (if is_some (b_NowInSeconds m) then rmap Some read_int else ret None)
                       (bytes_opt (be_bytes 4) (b_NowInSeconds m) ++ rest) = DOk (b_NowInSeconds m) rest).
        { destruct (b_NowInSeconds m) as [now|]; cbn [is_some bytes_opt opt_okb] in Hnw |- *; [|reflexivity].
          unfold rmap, bind. rewrite read_int_app by (apply i32_okb_in; exact Hnw). reflexivity. }
        rewrite E4. reflexivity.
      + rewrite (len_query_flags_ok v (Batch_Flags m)).
        destruct (b_SerialConsistency m) as [sc|]; destruct (b_DefaultTimestamp m) as [ts|]; destruct (b_NowInSeconds m) as [now|];
        destruct (nonempty (b_Keyspace m)); cbn [is_some bytes_opt ladd]; rewrite !zlen_app, ?be_bytes_zlen, ?enc_string_len;
        unfold LengthOfShort, LengthOfLong, LengthOfInt; cbn [zlen length]; f_equal; lia.
    - apply Z.eqb_eq in Hfl. destruct (batch_flags_zero m Hfl) as (Z1 & Z2 & Z3 & Z4). rewrite Z1, Z2, Z3, Z4. repeat split. }
  destruct Htail as (T1 & T2 & T3). cbv zeta in T1, T3.
  assert (Hw : wlist (enc_BatchChild v) (b_Children m) = Ok (concat (map bytes_BatchChild (b_Children m)))).
  { apply wlist_ok. intros c Hc. apply (Hch c Hc). }
  assert (Hl : llist len_BatchChild (b_Children m) = Ok (zlen (concat (map bytes_BatchChild (b_Children m))))).
  { rewrite zlen_concat_map. apply llist_ok. intros c Hc. apply (Hch c Hc). }
  unfold facts, bytes_Batch. repeat split.
  - unfold enc_Batch. rewrite H. cbn [wguard]. rewrite wapp_nil_l.
    destruct (Z.gtb_spec (zlen (b_Children m)) 65535); [lia|].
    cbv zeta. rewrite Hw, T1. unfold write_byte, write_short. rewrite wrap_u8_small by exact Ht. rewrite !wrap_u16_small by lia.
    reflexivity.
  - intro rest. unfold dec_Batch. rewrite <- !app_assoc.
    unfold bind at 1. rewrite read_byte_app by (unfold in_u8; exact Ht). rewrite H. cbn [rguard]. unfold bind at 1, ret at 1.
    unfold bind at 1. rewrite read_short_app by (unfold in_u16; lia).
    unfold bind at 1. rewrite (read_count_app bytes_BatchChild (dec_BatchChild v) norm_BatchChild).
    + unfold bind at 1. rewrite read_short_app by (unfold in_u16; exact Hcons). apply T2.
    + intros c r Hc. apply (Hch c Hc).
    + intros c Hc. apply (bytes_BatchChild_nonempty v). apply Hall, Hc.
  - unfold len_Batch. destruct (Z.gtb_spec (zlen (b_Children m)) 65535); [lia|]. cbv zeta. rewrite Hl, T3. cbn [ladd].
    rewrite !zlen_app, !be_bytes_zlen. unfold LengthOfByte, LengthOfShort. f_equal; lia.
Qed.

Theorem Batch_roundtrip v m : Batch_okb v m = true ->
  exists b, enc_Batch v m = Ok b /\ forall rest, dec_Batch v (b ++ rest) = DOk (norm_Batch v m) rest.
Proof. intro H. exact (facts_roundtrip _ _ _ _ _ (Batch_facts v m H)). Qed.
Theorem Batch_length v m b : Batch_okb v m = true -> enc_Batch v m = Ok b -> len_Batch v m = Ok (zlen b).
Proof. intro H. exact (facts_length _ _ _ _ _ (Batch_facts v m H) b). Qed.
Theorem Batch_total v bs : dec_Batch v bs <> DPanic /\ dec_Batch v bs <> DFuel.
Proof.
  apply total_at. unfold dec_Batch. pose proof (total_dec_BatchChild v). pose proof (progress_dec_BatchChild v). total_tac.
Qed.

Lemma BatchChild_norm_ok v oc : BatchChild_okb v oc = true ->
  BatchChild_okb v (norm_BatchChild oc) = true /\ norm_BatchChild (norm_BatchChild oc) = norm_BatchChild oc.
Proof.
  destruct oc as [[q id vs]|]; [|discriminate]. unfold BatchChild_okb, norm_BatchChild. cbn [bc_Query bc_Id bc_Values option_map].
  intro H. apply andb_prop in H. destruct H as [H Hvs]. destruct (values_okb_norm _ _ Hvs) as [V1 V2]. rewrite V1, V2.
  destruct (nonempty q) eqn:E; cbn [olist].
  - apply andb_prop in H. destruct H as [Hq _]. rewrite Hq. split; reflexivity.
  - rewrite H. split; reflexivity.
Qed.
Theorem norm_Batch_ok v m : Batch_okb v m = true ->
  Batch_okb v (norm_Batch v m) = true /\ norm_Batch v (norm_Batch v m) = norm_Batch v m.
Proof.
  unfold Batch_okb. intro H. bsplit H. rename H7 into Hzl, H6 into Hall, H5 into Hco, H4 into Hse, H3 into Hts, H2 into Hks, H1 into Hnw, H0 into Hfl. rewrite forallb_forall in Hall.
  destruct m as [t ch cons ser ts ks now]. unfold norm_Batch.
  cbn [b_Type b_Children b_Consistency b_SerialConsistency b_DefaultTimestamp b_Keyspace b_NowInSeconds] in *. split.
  - change (Batch_Flags {| b_Type := t; b_Children := map norm_BatchChild ch; b_Consistency := cons; b_SerialConsistency := ser;
                           b_DefaultTimestamp := ts; b_Keyspace := ks; b_NowInSeconds := now |})
      with (Batch_Flags {| b_Type := t; b_Children := ch; b_Consistency := cons; b_SerialConsistency := ser;
                           b_DefaultTimestamp := ts; b_Keyspace := ks; b_NowInSeconds := now |}).
    rewrite H, Hco, Hse, Hts, Hks, Hnw, Hfl.
    assert (Hl : zlen (map norm_BatchChild ch) = zlen ch) by (unfold zlen; rewrite map_length; reflexivity). rewrite Hl, Hzl.
    cbn [andb]. rewrite !andb_true_r. apply forallb_forall. intros x Hx. apply in_map_iff in Hx. destruct Hx as (y & <- & Hy).
    apply BatchChild_norm_ok, Hall, Hy.
  - f_equal. rewrite map_map. apply map_ext_in. intros y Hy. apply (BatchChild_norm_ok v), Hall, Hy.
Qed.

Definition ex_Batch (now : option Z) (ks : bytes) : Batch :=
  {| b_Type := 1;
     b_Children := [Some {| bc_Query := B "INSERT INTO t (a) VALUES (?)"; bc_Id := None; bc_Values := [Some (NewValue (Some [1]))] |};
                    Some {| bc_Query := []; bc_Id := Some [10; 11; 12]; bc_Values := [Some (NewValue None); Some NewUnsetValue] |}];
     b_Consistency := 4; b_SerialConsistency := Some 9; b_DefaultTimestamp := Some 1234567890123;
     b_Keyspace := ks; b_NowInSeconds := now |}.
Example Batch_example :
  Batch_okb 5 (ex_Batch (Some 99) (B "ks")) = true /\ Batch_okb 4 (ex_Batch None []) = true /\ Batch_okb 66 (ex_Batch None (B "ks")) = true
  /\ Batch_okb 2 {| b_Type := 0; b_Children := [Some {| bc_Query := B "q"; bc_Id := None; bc_Values := [] |}]; b_Consistency := 1;
                    b_SerialConsistency := None; b_DefaultTimestamp := None; b_Keyspace := []; b_NowInSeconds := None |} = true.
Proof. vm_compute. repeat split; reflexivity. Qed.
