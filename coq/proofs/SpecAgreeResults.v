(* C02, body clause for RESULT messages (model/MsgResults.v, pure encodings bytes_* of proofs/MsgResultsValid.v). *)
From Coq Require Import String.
From Coq Require Import ZArith List Bool Lia.
From Coq Require Import ZifyBool ZifyNat.
From GCNP Require Import spec.SpecClean base.GoInt base.Bytes base.StrBytes base.Codec gen.Constants_gen spec.SpecTables model.Prim model.DataType
  model.MsgTypes model.Frame model.MsgRequests model.MsgErrors model.MsgResults
  proofs.PrimProofs proofs.DataTypeProofs proofs.CqlBytesLemmas proofs.FrameProofs proofs.MsgRequestsLib proofs.MsgErrorsProofs
  proofs.MsgResultsValid proofs.MsgResultsMeta
  spec.SpecNotation spec.SpecMsg spec.SpecFrame proofs.SpecAgreeLib proofs.SpecAgreeErrors.
Import ListNotations.
Open Scope Z_scope.
Ltac Zify.zify_post_hook ::= Z.div_mod_to_equations.

(* ---------- [option]: type descriptors ---------- *)
Lemma udt_fields_ezip (so eo : option DataType -> bytes) names types :
  length names = length types -> (forall o, In o types -> so o = eo o) ->
  (fix fields (ns : list bytes) (ts : list (option DataType)) {struct ts} : bytes :=
     match ts with
     | [] => []
     | ty :: ts' => ser_string (hd [] ns) ++ so ty ++ fields (tl ns) ts'
     end) names types
  = ezip (fun n o => enc_string n ++ eo o) names types.
Proof.
  revert names. induction types as [|t ts IH]; intros [|n ns] Hl Heq; try discriminate Hl; [reflexivity|].
  cbn [ezip hd tl]. rewrite (Heq t (or_introl eq_refl)). rewrite <- app_assoc. f_equal. f_equal.
  apply IH; [cbn [length] in Hl; lia|intros o Ho; apply Heq; right; exact Ho].
Qed.

Lemma dt_spec t : dt_okb t = true -> option_ok t = true /\ ser_option t = enc_dt t.
Proof.
  induction t using DataType_ind'; intro Hok.
  - cbn [dt_okb] in Hok. destruct (primitive_codes_facts c Hok) as (_ & _ & _ & _ & _ & _ & _ & Hr). split.
    + cbn [option_ok]. apply fits_u16. lia.
    + cbn [ser_option enc_dt dt_code]. rewrite app_nil_r. reflexivity.
  - cbn [dt_okb] in Hok. split; [cbn [option_ok]; apply string_ok_le; lia|reflexivity].
  - cbn [dt_okb] in Hok. destruct e as [t'|]; [|discriminate]. cbn [PO] in H. destruct (H Hok) as [A B]. split.
    + cbn [option_ok]. exact A.
    + cbn [ser_option enc_dt dt_code]. rewrite B. reflexivity.
  - cbn [dt_okb] in Hok. destruct k as [kt|]; [|discriminate]. destruct v as [vt|]; [|rewrite andb_false_r in Hok; discriminate].
    apply andb_prop in Hok. destruct Hok as [Hk Hv]. cbn [PO] in *. destruct (H Hk) as [A B]. destruct (H0 Hv) as [C D]. split.
    + cbn [option_ok]. rewrite A, C. reflexivity.
    + cbn [ser_option enc_dt dt_code]. rewrite B, D. reflexivity.
  - cbn [dt_okb] in Hok. destruct e as [t'|]; [|discriminate]. cbn [PO] in H. destruct (H Hok) as [A B]. split.
    + cbn [option_ok]. exact A.
    + cbn [ser_option enc_dt dt_code]. rewrite B. reflexivity.
  - cbn [dt_okb] in Hok. apply andb_prop in Hok. destruct Hok as [Hn Hall].
    assert (Hfs : forall o, In o fs -> (match o with Some t' => option_ok t' | None => false end) = true /\
                                       (match o with Some t' => ser_option t' | None => [] end) = (match o with Some t' => enc_dt t' | None => [] end)).
    { intros o Ho. rewrite Forall_forall in H. specialize (H o Ho). rewrite forallb_forall in Hall. specialize (Hall o Ho).
      destruct o as [t'|]; [|discriminate]. cbn [PO] in H. exact (H Hall). }
    split.
    + cbn [option_ok]. rewrite fits_u16 by (split; [apply zlen_nonneg|lia]). cbn [andb].
      apply forallb_forall. intros o Ho. apply (Hfs o Ho).
    + cbn [ser_option enc_dt dt_code]. f_equal. f_equal. f_equal. apply map_ext_in. intros o Ho. apply (Hfs o Ho).
  - cbn [dt_okb] in Hok. repeat (apply andb_prop in Hok; destruct Hok as [Hok ?]).
    match goal with Hx : forallb _ types = true |- _ => rename Hx into Hall end.
    match goal with Hx : forallb _ names = true |- _ => rename Hx into Hnames end.
    assert (Hfs : forall o, In o types -> (match o with Some t' => option_ok t' | None => false end) = true /\
                                          (match o with Some t' => ser_option t' | None => [] end) = (match o with Some t' => enc_dt t' | None => [] end)).
    { intros o Ho. rewrite Forall_forall in H. specialize (H o Ho). rewrite forallb_forall in Hall. specialize (Hall o Ho).
      destruct o as [t'|]; [|discriminate]. cbn [PO] in H. exact (H Hall). }
    assert (Hlen : length names = length types) by (unfold zlen in *; lia).
    split.
    + cbn [option_ok]. rewrite !string_ok_le by lia. rewrite fits_u16 by (split; [apply zlen_nonneg|lia]).
      match goal with Hx : (zlen names =? zlen types) = true |- _ => rewrite Hx end. cbn [andb].
      apply andb_true_intro. split.
      * apply forallb_forall. intros n Hn. rewrite forallb_forall in Hnames. specialize (Hnames n Hn). apply string_ok_le. lia.
      * apply forallb_forall. intros o Ho. apply (Hfs o Ho).
    + cbn [ser_option enc_dt dt_code]. f_equal. f_equal. f_equal. f_equal.
      apply udt_fields_ezip; [exact Hlen|intros o Ho; apply (Hfs o Ho)].
Qed.

(* ---------- columns ---------- *)
(* every column present *)
Lemma columns_present cols : forallb column_okb cols = true -> exists cs, oall (fun c => c) cols = Some cs /\ cols = map Some cs.
Proof.
  induction cols as [|[c|] r IH]; intro H; cbn [forallb] in H.
  - exists []. split; reflexivity.
  - apply andb_prop in H. destruct H as [_ H]. destruct (IH H) as (cs & E1 & E2). exists (c :: cs). cbn [oall obind]. rewrite E1. cbn [obind map].
    split; [reflexivity|f_equal; exact E2].
  - discriminate.
Qed.

(* the model's "all columns belong to one table" test is the specification side's *)
Lemma same_table_as_spec ks tb cs :
  same_table_as ks tb (map Some cs) = Ok (forallb (fun d => beq (cm_Keyspace d) ks && beq (cm_Table d) tb) cs).
Proof.
  induction cs as [|c r IH]; [reflexivity|]. cbn [map same_table_as forallb].
  change (bytes_eqb (cm_Keyspace c) ks) with (beq (cm_Keyspace c) ks). change (bytes_eqb (cm_Table c) tb) with (beq (cm_Table c) tb).
  destruct (beq (cm_Keyspace c) ks); destruct (beq (cm_Table c) tb); cbn [negb orb andb]; try reflexivity. exact IH.
Qed.
Lemma same_table_spec cs : same_table (map Some cs) = spec_global_spec cs.
Proof.
  unfold same_table, haveSameTable, spec_global_spec. destruct cs as [|c r]; [reflexivity|]. cbn [map].
  rewrite same_table_as_spec. destruct (forallb _ r); reflexivity.
Qed.

(* column_type_defined: see spec/SpecClean.v *)

Lemma col_spec_agree v g c : column_okb (Some c) = true -> column_type_defined v (Some c) = true ->
  exists ns, spec_col_spec v g c = Some ns /\ forallb notation_ok ns = true /\ ser_all ns = bytes_column g (Some c).
Proof.
  unfold column_okb, column_type_defined. intros H Hd. repeat (apply andb_prop in H; destruct H as [H ?]).
  destruct (cm_Type c) as [t|] eqn:Et; [|discriminate]. cbn [odt_okb] in *.
  destruct (dt_spec t) as [A B]; [assumption|].
  exists ((if g then [] else [NString (cm_Keyspace c); NString (cm_Table c)]) ++ [NString (cm_Name c); NOption t]).
  unfold spec_col_spec. rewrite Et. cbn [obind]. rewrite Hd. cbn [guard obind]. split; [reflexivity|]. split.
  - rewrite forallb_app. destruct g; cbn [forallb notation_ok]; rewrite ?A, !string_ok_le by (apply MsgResultsMeta.str_okb_iff; assumption); reflexivity.
  - unfold bytes_column. rewrite Et. cbn [enc_odt]. rewrite <- B. destruct g; sers; reflexivity.
Qed.

Lemma col_specs_agree v cs :
  forallb column_okb (map Some cs) = true -> forallb (column_type_defined v) (map Some cs) = true ->
  exists ns, spec_col_specs v cs = Some ns /\ forallb notation_ok ns = true /\
             ser_all ns = bytes_columns (spec_global_spec cs) (map Some cs).
Proof.
  intros Hok Hd. unfold spec_col_specs. set (g := spec_global_spec cs).
  destruct (oall_concat (spec_col_spec v g) (fun c => bytes_column g (Some c)) cs) as (nss & E1 & E2 & E3).
  { intros c Hc. apply col_spec_agree.
    - rewrite forallb_forall in Hok. apply Hok. apply in_map. exact Hc.
    - rewrite forallb_forall in Hd. apply Hd. apply in_map. exact Hc. }
  rewrite E1. cbn [obind]. eexists. split; [reflexivity|]. split.
  - rewrite forallb_app, E2, andb_true_r. destruct cs as [|c r]; [reflexivity|]. destruct g; [|reflexivity].
    cbn [forallb map] in Hok. apply andb_prop in Hok. destruct Hok as [Hc _]. unfold column_okb in Hc.
    repeat (apply andb_prop in Hc; destruct Hc as [Hc ?]).
    cbn [forallb notation_ok]. rewrite !string_ok_le by (apply MsgResultsMeta.str_okb_iff; assumption). reflexivity.
  - rewrite ser_all_app, E3. unfold bytes_columns. rewrite map_map. f_equal.
    destruct cs as [|c r]; [destruct g; reflexivity|]. cbn [map]. destruct g; sers; reflexivity.
Qed.

(* ---------- rows metadata ---------- *)
(* the flags word: the model builds it with Z.lor (RowsMetadata.Flags()), the specification side adds the masks *)
Lemma rows_flags_agree nometa g more changed cp last :
  (nometa = true -> g = false) -> (last = true -> cp = true) ->
  let mine := flag g 1 + flag more 2 + flag nometa 4 + flag changed 8 + flag cp 1073741824 + flag last 2147483648 in
  be_bytes 4 mine = be_bytes 4 (wrap_i 32 (rows_flag_word nometa g more changed cp last)) /\ fits_any 32 mine = true.
Proof.
  intros H1 H2. destruct nometa; destruct g; try (specialize (H1 eq_refl); discriminate H1);
    destruct last; destruct cp; try (specialize (H2 eq_refl); discriminate H2);
    destruct more; destruct changed; vm_compute; split; reflexivity.
Qed.

Lemma supports_rmid_version v : supported v -> ProtocolVersion_SupportsResultMetadataId v = spec_v5_or_dse2 v.
Proof. intro H. destruct (supported_cases _ H) as [->|[->|[->|[->|[->| ->]]]]]; reflexivity. Qed.
Lemma is_dse_version v : supported v -> ProtocolVersion_IsDse v = spec_is_dse v.
Proof. intro H. destruct (supported_cases _ H) as [->|[->|[->|[->|[->| ->]]]]]; reflexivity. Qed.
Lemma geb4_version v : supported v -> Z.geb v ProtocolVersion4 = spec_from_v4 v.
Proof. intro H. destruct (supported_cases _ H) as [->|[->|[->|[->|[->| ->]]]]]; reflexivity. Qed.

(* what the specification needs beyond RowsMetadata_okb (none of it is checked by the Go encoder):
   column types the version defines; Metadata_changed only with metadata ("the No_metadata flag has to be unset");
   no negative page number; Last_continuous_page only within continuous paging *)
(* rows_md_clean: see spec/SpecClean.v *)

Lemma rows_md_agree v md : supported v -> RowsMetadata_okb v md = true -> rows_md_clean v md = true ->
  exists ns, spec_rows_metadata v md = Some (ns, rm_ColumnCount md) /\ forallb notation_ok ns = true /\
             ser_all ns = bytes_RowsMetadata v md.
Proof.
  intros Hv Hok Hcl. destruct md as [cc ps newid pno last cols].
  unfold RowsMetadata_okb in Hok. cbn [rm_ColumnCount rm_PagingState rm_NewResultMetadataId rm_ContinuousPageNumber rm_LastContinuousPage rm_Columns] in Hok.
  unfold rows_md_clean in Hcl. cbn [rm_ColumnCount rm_PagingState rm_NewResultMetadataId rm_ContinuousPageNumber rm_LastContinuousPage rm_Columns] in Hcl.
  repeat (apply andb_prop in Hok; destruct Hok as [Hok ?]). repeat (apply andb_prop in Hcl; destruct Hcl as [Hcl ?]).
  match goal with Hx : forallb column_okb cols = true |- _ => rename Hx into Hcols end.
  destruct (columns_present cols Hcols) as (cs & Ecs & ->).
  destruct (col_specs_agree v cs Hcols Hcl) as (specs & S1 & S2 & S3).
  rewrite supports_rmid_version, is_dse_version in * by exact Hv.
  unfold spec_rows_metadata, bytes_RowsMetadata, rows_flags_of.
  cbn [rm_ColumnCount rm_PagingState rm_NewResultMetadataId rm_ContinuousPageNumber rm_LastContinuousPage rm_Columns].
  rewrite (supported_is_version _ Hv), Ecs. cbn [guard obind].
  rewrite Z.gtb_ltb in *. rewrite zlen_map in *. rewrite same_table_spec.
  assert (Enm : (zlen cs =? 0) = negb (SpecMsg.nonempty cs)).
  { destruct cs; [reflexivity|]. rewrite zlen_cons. pose proof (zlen_nonneg cs). cbn [SpecMsg.nonempty negb]. lia. }
  rewrite Enm in *.
  assert (Echg : MsgResultsValid.is_some newid = isSome newid) by (destruct newid; reflexivity). rewrite Echg in *.
  (* the guards *)
  assert (G1 : negb (isSome newid) || spec_v5_or_dse2 v = true).
  { destruct newid as [b|]; [|reflexivity]. cbn [isSome negb orb].
    match goal with Hx : _ && (zlen b <=? 65535) = true |- _ => apply andb_prop in Hx; destruct Hx as [Hx _]; exact Hx end. }
  rewrite G1. cbn [guard obind].
  match goal with Hx : negb (isSome newid && negb (SpecMsg.nonempty cs)) = true |- _ => rewrite Hx end. cbn [guard obind].
  match goal with Hx : (0 <=? pno) = true |- _ => rewrite Hx end. cbn [guard obind].
  assert (G4 : negb (0 <? pno) || spec_is_dse v = true).
  { match goal with Hx : (pno <=? 0) || spec_is_dse v = true |- _ => revert Hx end. destruct (spec_is_dse v); [rewrite !orb_true_r; reflexivity|].
    rewrite !orb_false_r. lia. }
  rewrite G4. cbn [guard obind].
  match goal with Hx : negb last || (0 <? pno) = true |- _ => rewrite Hx; rename Hx into Hlast end. cbn [guard obind].
  rewrite S1. cbn [obind].
  (* the column count *)
  assert (Ecc : (if negb (SpecMsg.nonempty cs) then cc else zlen cs) = cc).
  { destruct cs as [|c r]; [reflexivity|]. cbn [SpecMsg.nonempty negb].
    match goal with Hx : _ || (cc =? _) = true |- _ => revert Hx end. rewrite zlen_cons. pose proof (zlen_nonneg r). cbn [SpecMsg.nonempty negb]. lia. }
  rewrite Ecc.
  destruct (rows_flags_agree (negb (SpecMsg.nonempty cs)) (spec_global_spec cs) (isSome ps) (isSome newid) (0 <? pno) last) as [F1 F2].
  { destruct cs; [reflexivity|discriminate]. }
  { intro El. rewrite El in Hlast. exact Hlast. }
  cbv zeta in F1, F2.
  eexists. split; [reflexivity|]. split.
  - cbn [forallb app notation_ok]. rewrite F2. rewrite fits_any32 by lia. cbn [andb].
    rewrite !forallb_app. rewrite S2, andb_true_r.
    destruct ps as [p|]; destruct newid as [b|]; cbn [opt_list forallb notation_ok andb];
      rewrite ?blob_ok_le by (cbn [olist] in *; lia);
      try (match goal with Hx : _ && (zlen b <=? 65535) = true |- _ => apply andb_prop in Hx; destruct Hx as [_ Hx] end;
           rewrite string_ok_le by lia);
      destruct (0 <? pno) eqn:Ep; cbn [forallb notation_ok andb]; rewrite ?fits_any32 by lia; reflexivity.
  - rewrite !ser_all_app, S3, !ser_all_cons, ser_all_nil, app_nil_r. cbn [ser]. unfold ser_int. rewrite F1.
    change (MsgResultsValid.is_some ps) with (isSome ps). rewrite <- ?app_assoc.
    do 2 apply f_equal.
    assert (E1 : ser_all (opt_list ps (fun b0 : bytes => [NBytes (Some b0)])) = match ps with Some _ => enc_bytes ps | None => [] end)
      by (destruct ps; cbn [opt_list]; sers; reflexivity).
    assert (E2 : ser_all (opt_list newid (fun b0 : bytes => [NShortBytes b0])) = match newid with Some _ => enc_short_bytes newid | None => [] end)
      by (destruct newid; cbn [opt_list]; sers; reflexivity).
    assert (E3 : ser_all (if 0 <? pno then [NInt pno] else []) = (if 0 <? pno then be_bytes 4 pno else []))
      by (destruct (0 <? pno); sers; reflexivity).
    rewrite E1, E2, E3. do 3 apply f_equal.
    destruct cs; reflexivity.
Qed.

Ltac raw_head Hv := unfold spec_body_raw; rewrite (supported_is_version _ Hv); cbn [negb].

(* ---------- VOID, SET_KEYSPACE ---------- *)
Lemma agree_VoidResult v : supported v -> spec_body_bytes v M_VoidResult = Some (bytes_result v M_VoidResult).
Proof. intro Hv. apply spec_bytes_intro with (l := [NInt 1]); [raw_head Hv; reflexivity|reflexivity|reflexivity]. Qed.

Lemma agree_SetKeyspaceResult v m : supported v -> SetKeyspaceResult_okb v m = true ->
  spec_body_bytes v (M_SetKeyspaceResult m) = Some (bytes_result v (M_SetKeyspaceResult m)).
Proof.
  intros Hv H. unfold SetKeyspaceResult_okb in H. apply MsgResultsMeta.nonempty_str_okb_iff in H.
  apply spec_bytes_intro with (l := [NInt 3; NString (sk_Keyspace m)]).
  - raw_head Hv. reflexivity.
  - cbn [forallb notation_ok]. rewrite string_ok_le by lia. reflexivity.
  - sers. reflexivity.
Qed.

(* ---------- ROWS ---------- *)
Lemma agree_RowsResult v m : supported v -> RowsResult_okb v m = true ->
  (match rr_Metadata m with Some md => rows_md_clean v md | None => false end) = true ->
  spec_body_bytes v (M_RowsResult m) = Some (bytes_result v (M_RowsResult m)).
Proof.
  intros Hv H Hcl. destruct m as [[md|] data]; [|discriminate]. unfold RowsResult_okb in H. cbn [rr_Metadata rr_Data] in *.
  apply andb_prop in H. destruct H as [H Hrows]. apply andb_prop in H. destruct H as [H Hn].
  destruct (rows_md_agree v md Hv H Hcl) as (ns & E1 & E2 & E3).
  apply spec_bytes_intro with (l := [NInt 2] ++ ns ++ [NInt (zlen data)] ++ concat (map (map NBytes) data)).
  - raw_head Hv. unfold spec_rows. cbn [rr_Metadata rr_Data obind]. rewrite E1. cbn [obind].
    assert (Hw : forallb (fun row : list (option bytes) => zlen row =? rm_ColumnCount md) data = true).
    { apply forallb_forall. intros row Hr. rewrite forallb_forall in Hrows. specialize (Hrows row Hr). apply andb_prop in Hrows. apply Hrows. }
    rewrite Hw. reflexivity.
  - cbn [app forallb notation_ok]. rewrite !forallb_app, E2. cbn [forallb notation_ok].
    rewrite (fits_any32 (zlen data)) by (split; [pose proof (zlen_nonneg data); lia|lia]). cbn [andb].
    apply forallb_forall. intros n Hn0. apply in_concat in Hn0. destruct Hn0 as (l & Hl & Hn0). apply in_map_iff in Hl. destruct Hl as (row & <- & Hrow).
    apply in_map_iff in Hn0. destruct Hn0 as (cell & <- & Hcell). rewrite forallb_forall in Hrows. specialize (Hrows row Hrow).
    apply andb_prop in Hrows. destruct Hrows as [_ Hcells]. rewrite forallb_forall in Hcells. specialize (Hcells cell Hcell).
    unfold cell_okb in Hcells. apply obytes_nok. lia.
  - rewrite !ser_all_app, E3. sers. cbn [ser bytes_result]. unfold bytes_RowsResult. cbn [rr_Metadata rr_Data oRowsMetadata].
    f_equal. f_equal. f_equal. clear. induction data as [|row data IH]; [reflexivity|]. cbn [map concat]. rewrite ser_all_app, IH. f_equal.
    unfold bytes_row. induction row as [|c row IHr]; [reflexivity|]. cbn [map concat]. rewrite ser_all_cons, IHr. cbn [ser]. rewrite ser_bytes_enc. reflexivity.
Qed.

(* ---------- PREPARED ---------- *)
Lemma variables_md_agree v vm : supported v -> VariablesMetadata_okb v vm = true ->
  forallb (column_type_defined v) (vm_Columns vm) = true ->
  exists ns, spec_variables_metadata v vm = Some ns /\ forallb notation_ok ns = true /\ ser_all ns = bytes_VariablesMetadata v vm.
Proof.
  intros Hv Hok Hd. destruct vm as [pk cols]. unfold VariablesMetadata_okb in Hok. cbn [vm_PkIndices vm_Columns] in *.
  repeat (apply andb_prop in Hok; destruct Hok as [Hok ?]).
  destruct (columns_present cols Hok) as (cs & Ecs & ->).
  destruct (col_specs_agree v cs Hok Hd) as (specs & S1 & S2 & S3).
  rewrite geb4_version in * by exact Hv.
  unfold spec_variables_metadata, bytes_VariablesMetadata, variables_flag_word. cbn [vm_PkIndices vm_Columns].
  rewrite geb4_version by exact Hv.
  rewrite (supported_is_version _ Hv), Ecs. cbn [guard obind]. rewrite S1. cbn [obind].
  rewrite zlen_map in *. rewrite same_table_spec.
  assert (G : spec_from_v4 v || negb (SpecMsg.nonempty pk) = true).
  { destruct (spec_from_v4 v); [reflexivity|]. cbn [orb]. destruct pk; [reflexivity|].
    match goal with Hx : (zlen (_ :: _) =? 0) = true |- _ => rewrite zlen_cons in Hx; pose proof (zlen_nonneg pk); lia end. }
  rewrite G. cbn [guard obind].
  assert (Eflag : flag (spec_global_spec cs) 1 = (if (zlen cs >? 0) && spec_global_spec cs then 1 else 0)).
  { destruct cs as [|c r]; [reflexivity|]. rewrite zlen_cons. pose proof (zlen_nonneg r). destruct (Z.gtb_spec (1 + zlen r) 0); [|lia].
    cbn [andb]. destruct (spec_global_spec (c :: r)); reflexivity. }
  eexists. split; [reflexivity|]. split.
  - cbn [app forallb notation_ok]. rewrite !forallb_app, S2, andb_true_r.
    assert (F : fits_any 32 (flag (spec_global_spec cs) 1) = true) by (destruct (spec_global_spec cs); reflexivity). rewrite F.
    rewrite fits_any32 by (split; [pose proof (zlen_nonneg cs); lia|lia]). cbn [andb].
    destruct (spec_from_v4 v); [|reflexivity].
    match goal with Hx : _ && forallb _ pk = true |- _ => apply andb_prop in Hx; destruct Hx as [Hn Hpk] end.
    cbn [forallb notation_ok]. rewrite fits_any32 by (split; [pose proof (zlen_nonneg pk); lia|lia]). cbn [andb].
    apply forallb_forall. intros n Hn'. apply in_map_iff in Hn'. destruct Hn' as (i & <- & Hi). rewrite forallb_forall in Hpk. specialize (Hpk i Hi).
    cbn [notation_ok]. apply fits_u16. lia.
  - rewrite !ser_all_app, S3. sers. cbn [ser]. unfold ser_int. rewrite Eflag.
    assert (Ew : forall b : bool, be_bytes 4 (if b then 1 else 0) = be_bytes 4 (wrap_i 32 (if b then 1 else 0))) by (intros []; reflexivity).
    rewrite Ew. rewrite <- ?app_assoc. do 2 apply f_equal.
    assert (Epk : ser_all (if spec_from_v4 v then NInt (zlen pk) :: map NShort pk else []) =
                  (if spec_from_v4 v then be_bytes 4 (zlen pk) ++ concat (map (be_bytes 2) pk) else [])).
    { destruct (spec_from_v4 v); [|reflexivity]. rewrite ser_all_cons. cbn [ser]. f_equal. clear. induction pk as [|i pk IH]; [reflexivity|].
      cbn [map concat]. rewrite ser_all_cons, IH. reflexivity. }
    rewrite Epk. apply f_equal.
    destruct cs as [|c r]; [reflexivity|]. rewrite zlen_cons. pose proof (zlen_nonneg r). destruct (Z.gtb_spec (1 + zlen r) 0); [reflexivity|lia].
Qed.

(* the empty result metadata: "may be empty (have the No_metadata flag and 0 columns)" on both sides *)
Lemma empty_rows_md_bytes v : ser_all [NInt 4; NInt 0] = bytes_RowsMetadata v empty_RowsMetadata.
Proof. reflexivity. Qed.

(* what the specification needs beyond PreparedResult_okb: a variables metadata (the Go encoder writes an empty one for nil),
   no result metadata id where the version has none (the Go encoder drops it), clean metadata *)
(* prepared_clean: see spec/SpecClean.v *)

Lemma agree_PreparedResult v m : supported v -> PreparedResult_okb v m = true -> prepared_clean v m = true ->
  spec_body_bytes v (M_PreparedResult m) = Some (bytes_result v (M_PreparedResult m)).
Proof.
  intros Hv H Hcl. destruct m as [id rid ovm orm]. unfold PreparedResult_okb in H. unfold prepared_clean in Hcl.
  cbn [pr_PreparedQueryId pr_ResultMetadataId pr_VariablesMetadata pr_ResultMetadata] in *.
  apply andb_prop in H. destruct H as [H Hrm]. apply andb_prop in H. destruct H as [H Hvm]. apply andb_prop in H. destruct H as [H Hridok].
  apply andb_prop in Hcl. destruct Hcl as [Hcl Hrmc]. apply andb_prop in Hcl. destruct Hcl as [Hcl Hridc].
  destruct ovm as [vm|]; [|discriminate]. cbn [oVariablesMetadata] in *.
  apply MsgResultsMeta.nonempty_str_okb_iff in H. destruct id as [id|]; [|cbn [olist] in H; rewrite zlen_nil in H; lia]. cbn [olist] in H.
  destruct (variables_md_agree v vm Hv Hvm Hcl) as (vns & V1 & V2 & V3).
  assert (Hr : exists rns, match orm with Some md => do mc <- spec_rows_metadata v md; Some (fst mc) | None => Some [NInt 4; NInt 0] end = Some rns /\
                           forallb notation_ok rns = true /\ ser_all rns = bytes_RowsMetadata v (oRowsMetadata orm)).
  { destruct orm as [md|]; cbn [oRowsMetadata] in *.
    - destruct (rows_md_agree v md Hv Hrm) as (ns & E1 & E2 & E3); [assumption|]. exists ns. rewrite E1. cbn [obind fst]. repeat split; assumption.
    - exists [NInt 4; NInt 0]. repeat split. }
  destruct Hr as (rns & R1 & R2 & R3).
  rewrite supports_rmid_version in * by exact Hv.
  cbn [bytes_result]. unfold bytes_PreparedResult. cbn [pr_PreparedQueryId pr_ResultMetadataId pr_VariablesMetadata pr_ResultMetadata oVariablesMetadata].
  rewrite supports_rmid_version by exact Hv.
  destruct (spec_v5_or_dse2 v) eqn:E5.
  - apply MsgResultsMeta.nonempty_str_okb_iff in Hridok. rename Hridok into Hrid.
    destruct rid as [rid|]; [|cbn [olist] in Hrid; rewrite zlen_nil in Hrid; lia]. cbn [olist] in Hrid.
    apply spec_bytes_intro with (l := [NInt 4; NShortBytes id; NShortBytes rid] ++ vns ++ rns).
    + raw_head Hv. unfold spec_prepared. cbn [pr_PreparedQueryId pr_ResultMetadataId pr_VariablesMetadata pr_ResultMetadata obind].
      rewrite V1. cbn [obind]. rewrite R1. cbn [obind]. rewrite E5. reflexivity.
    + cbn [app forallb notation_ok]. rewrite !forallb_app, V2, R2. rewrite !string_ok_le by lia. reflexivity.
    + rewrite !ser_all_app, V3, R3. sers. rewrite <- ?app_assoc. reflexivity.
  - cbn [orb] in Hridc. destruct rid; [discriminate Hridc|].
    apply spec_bytes_intro with (l := [NInt 4; NShortBytes id] ++ vns ++ rns).
    + raw_head Hv. unfold spec_prepared. cbn [pr_PreparedQueryId pr_ResultMetadataId pr_VariablesMetadata pr_ResultMetadata obind].
      rewrite V1. cbn [obind]. rewrite R1. cbn [obind]. rewrite E5. reflexivity.
    + cbn [app forallb notation_ok]. rewrite !forallb_app, V2, R2. rewrite !string_ok_le by lia. reflexivity.
    + rewrite !ser_all_app, V3, R3. sers. rewrite <- ?app_assoc. reflexivity.
Qed.

(* ---------- SCHEMA_CHANGE result ---------- *)
(* beyond SchemaChangeResult_okb: fields that are irrelevant for the target are empty (the Go encoder silently drops
   them: see norm_SchemaChangeResult) *)
(* scr_clean: see spec/SpecClean.v *)

Lemma agree_SchemaChangeResult v m : supported v -> SchemaChangeResult_okb v m = true -> scr_clean m = true ->
  spec_body_bytes v (M_SchemaChangeResult m) = Some (bytes_result v (M_SchemaChangeResult m)).
Proof.
  intros Hv H Hcl. destruct m as [ct tgt ks obj args]. unfold SchemaChangeResult_okb in H. unfold scr_clean in Hcl.
  cbn [scr_ChangeType scr_Target scr_Keyspace scr_Object scr_Arguments] in *. cbv zeta in H.
  apply andb_prop in H. destruct H as [H Hcase]. apply andb_prop in H. destruct H as [H Hks]. apply andb_prop in H. destruct H as [H Hb].
  apply andb_prop in H. destruct H as [H Htl]. apply andb_prop in H. destruct H as [H Hchk]. apply andb_prop in H. destruct H as [Hctv Hct].
  apply andb_prop in Hcl. destruct Hcl as [Hck Hca].
  apply bytes_okb_ok in Hb. apply MsgResultsMeta.str_okb_iff in Hct. apply MsgResultsMeta.nonempty_str_okb_iff in Hks.
  change (MsgResults.target_is) with str_is in *.
  pose proof (schema_target_cases _ (check_target_valid _ _ Hchk)) as Hcases.
  assert (Hobj : zlen obj <= 65535 /\ zlen args <= 65535 /\ strings_small args).
  { clear Hctv Hct Hks Htl.
    destruct Hcases as [E|[E|[E|[E|E]]]]; apply (string_of_bytes_eq_const tgt _ Hb) in E; subst tgt; clear Hb;
      revert Hchk Hcase Hck Hca; unfold CheckValidSchemaChangeTarget, SchemaChangeTarget_IsValid, ProtocolVersion_SupportsSchemaChangeTarget;
      destruct (supported_cases _ Hv) as [->|[->|[->|[->|[->| ->]]]]]; eval_tests; cbn [orb andb negb is_ok];
      intros Hchk Hcase Hck Hca; try discriminate Hchk;
      first [ apply is_nil_ok in Hck; apply is_nil_ok in Hca; subst obj args;
              split; [apply zlen_nil_small|split; [rewrite zlen_nil; lia|constructor]]
            | apply MsgResultsMeta.nonempty_str_okb_iff in Hcase; apply is_nil_ok in Hca; subst args;
              split; [lia|split; [rewrite zlen_nil; lia|constructor]]
            | apply andb_prop in Hcase; destruct Hcase as [Hcase Ha2]; apply andb_prop in Hcase; destruct Hcase as [Ho Ha1];
              apply MsgResultsMeta.nonempty_str_okb_iff in Ho; split; [lia|]; split; [lia|];
              unfold strings_small; rewrite Forall_forall; rewrite forallb_forall in Ha2; intros x Hx;
              apply MsgResultsMeta.str_okb_iff, Ha2, Hx ]. }
  destruct Hobj as (Ho & Ha1 & Ha2).
  destruct (schema_change_spec v ct tgt ks obj args Hv Hb Hchk Hct) as (ns & E1 & E2 & E3); try assumption; try lia.
  - intro Ek. rewrite Ek in Hck. apply is_nil_ok in Hck. exact Hck.
  - intro Ef. rewrite Ef in Hca. apply is_nil_ok in Hca. exact Hca.
  - apply spec_bytes_intro with (l := NInt 5 :: ns).
    + raw_head Hv. unfold spec_schema_change_result. cbn [scr_ChangeType scr_Target scr_Keyspace scr_Object scr_Arguments]. rewrite E1. reflexivity.
    + cbn [forallb]. rewrite E2. reflexivity.
    + rewrite ser_all_cons, E3. reflexivity.
Qed.
