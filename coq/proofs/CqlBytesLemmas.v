(* Byte-level lemmas shared by the CQL proofs: big-endian digits in both shapes (model: be_bytes, spec: spec_uint),
   two's complement, finite facts about single bytes (by exhaustive computation over [0,256)). *)
From Coq Require Import ZArith List Lia Bool.
From Coq Require Import ZifyBool ZifyNat.
From GCNP Require Import base.GoInt base.Bytes spec.SpecCql.
Import ListNotations.
Open Scope Z_scope.

Lemma pow256_pos n : 0 < 256 ^ Z.of_nat n.
Proof. apply Z.pow_pos_nonneg; lia. Qed.

Lemma pow256_S n : 256 ^ Z.of_nat (S n) = 256 * 256 ^ Z.of_nat n.
Proof. replace (Z.of_nat (S n)) with (Z.of_nat n + 1) by lia. rewrite Z.pow_add_r by lia. lia. Qed.

Lemma pow2_8n n : 2 ^ (8 * Z.of_nat n) = 256 ^ Z.of_nat n.
Proof. rewrite Z.pow_mul_r by lia. reflexivity. Qed.

(* spec_uint peels its least significant digit exactly like be_bytes *)
Lemma spec_uint_step k x : spec_uint (S k) x = spec_uint k (x / 256) ++ [x mod 256].
Proof.
  unfold spec_uint. rewrite seq_S, map_app. cbn [map plus]. f_equal.
  - apply map_ext_in. intros i Hi. apply in_seq in Hi.
    replace (Z.of_nat (S k - 1 - i)) with (Z.of_nat (k - 1 - i) + 1) by lia.
    rewrite Z.pow_add_r by lia. change (256 ^ 1) with 256.
    rewrite (Z.mul_comm _ 256), <- Z.div_div by (try apply pow256_pos; lia). reflexivity.
  - replace (S k - 1 - k)%nat with O by lia. cbn. rewrite Z.div_1_r. reflexivity.
Qed.

(* the model's digits and the specification's digits coincide, for every x *)
Lemma be_bytes_spec_uint n : forall x, be_bytes n x = spec_uint n x.
Proof.
  induction n as [|k IH]; intro x; [reflexivity|].
  rewrite spec_uint_step. cbn [be_bytes]. rewrite IH. reflexivity.
Qed.

(* most significant digit first *)
Lemma be_bytes_cons k : forall x, be_bytes (S k) x = ((x / 256 ^ Z.of_nat k) mod 256) :: be_bytes k x.
Proof.
  induction k as [|k IH]; intro x.
  - cbn. rewrite Z.div_1_r. reflexivity.
  - change (be_bytes (S (S k)) x) with (be_bytes (S k) (x / 256) ++ [x mod 256]).
    rewrite IH. cbn [app be_bytes]. f_equal.
    rewrite pow256_S, Z.div_div by (try apply pow256_pos; lia). reflexivity.
Qed.

Lemma be_bytes_mod n : forall x, be_bytes n (x mod 256 ^ Z.of_nat n) = be_bytes n x.
Proof.
  induction n as [|k IH]; intro x; [reflexivity|].
  cbn [be_bytes]. rewrite pow256_S. f_equal.
  - rewrite <- (IH (x / 256)). f_equal.
    rewrite Z.rem_mul_r by (try (pose proof (pow256_pos k)); lia).
    rewrite (Z.mul_comm 256), Z.div_add by lia.
    rewrite (Z.div_small (x mod 256)) by (apply Z.mod_pos_bound; lia). lia.
  - f_equal. rewrite Z.rem_mul_r by (try (pose proof (pow256_pos k)); lia).
    rewrite (Z.mul_comm 256), Z_mod_plus_full, Z.mod_mod by lia. reflexivity.
Qed.

Lemma be_bytes_congr n x y : x mod 256 ^ Z.of_nat n = y mod 256 ^ Z.of_nat n -> be_bytes n x = be_bytes n y.
Proof. intro H. rewrite <- (be_bytes_mod n x), <- (be_bytes_mod n y), H. reflexivity. Qed.

(* two's complement of a value in range is its residue *)
Lemma twos_mod n x : fits_twos n x = true -> (0 < n)%nat -> twos n x = x mod 256 ^ Z.of_nat n.
Proof.
  unfold fits_twos, twos. intros H Hn. rewrite pow2_8n.
  assert (E: 2 ^ (8 * Z.of_nat n - 1) * 2 = 256 ^ Z.of_nat n).
  { rewrite <- pow2_8n. replace (8 * Z.of_nat n) with (8 * Z.of_nat n - 1 + 1) at 2 by lia.
    rewrite Z.pow_add_r by lia. lia. }
  set (M := 256 ^ Z.of_nat n) in *. set (Hf := 2 ^ (8 * Z.of_nat n - 1)) in *.
  destruct (Z.ltb_spec x 0).
  - symmetry. rewrite <- (Z_mod_plus_full x 1 M). replace (x + 1 * M) with (M + x) by lia. apply Z.mod_small. lia.
  - symmetry. apply Z.mod_small. lia.
Qed.

Lemma be_val_be_bytes_small n x : 0 <= x < 256 ^ Z.of_nat n -> be_val (be_bytes n x) = x.
Proof. intro H. rewrite be_val_be_bytes. apply Z.mod_small. exact H. Qed.

(* ---- facts about one byte, by exhaustive computation over [0,256) *)
Definition all_bytes_list : list Z := map Z.of_nat (seq 0 256).
Lemma byte_forall (P : Z -> bool) : forallb P all_bytes_list = true -> forall h, 0 <= h < 256 -> P h = true.
Proof.
  intros H h Hh. rewrite forallb_forall in H. apply H.
  unfold all_bytes_list. apply in_map_iff. exists (Z.to_nat h). split; [lia|]. apply in_seq. lia.
Qed.

Lemma land128 h : 0 <= h < 256 -> (0 <? Z.land h 128) = (128 <=? h).
Proof.
  intro Hh. pose proof (byte_forall (fun h => Bool.eqb (0 <? Z.land h 128) (128 <=? h))) as B.
  specialize (B eq_refl h Hh). apply Bool.eqb_prop in B. exact B.
Qed.
Lemma land128_eq0 h : 0 <= h < 256 -> (Z.land h 128 =? 0) = (h <? 128).
Proof.
  intro Hh. pose proof (byte_forall (fun h => Bool.eqb (Z.land h 128 =? 0) (h <? 128))) as B.
  specialize (B eq_refl h Hh). apply Bool.eqb_prop in B. exact B.
Qed.
