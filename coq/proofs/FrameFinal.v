(* The frame theorems instantiated with the concrete message codecs (model/MsgCodec.v). *)
From Coq Require Import ZArith List Bool Lia.
From Coq Require Import ZifyBool ZifyNat.
From GCNP Require Import base.GoInt base.Bytes base.Codec gen.Constants_gen spec.SpecTables model.Prim model.DataType
  model.MsgTypes model.Frame model.MsgRequests model.MsgCodec model.MsgValid model.FrameValid
  proofs.PrimProofs proofs.PrimTotal proofs.FrameProofs proofs.MsgCodecProofs.
Import ListNotations.
Open Scope Z_scope.

Definition msg_ok (v : Z) (m : Message) : Prop := message_okb v m = true.

Lemma H_rt_concrete : forall v m, supported v -> msg_ok v m ->
  exists mb, mc_encode the_msg_codec v m = Ok mb /\
             forall rest, mc_decode the_msg_codec v (msg_opcode m) (mb ++ rest) = DOk (norm_message v m) rest.
Proof. intros v m _ H. exact (message_roundtrip v m H). Qed.
Lemma H_len_concrete : forall v m mb, supported v -> msg_ok v m -> mc_encode the_msg_codec v m = Ok mb ->
  mc_length the_msg_codec v m = Ok (zlen mb).
Proof. intros v m mb _ H E. exact (message_length v m mb H E). Qed.

Definition frame_valid (f : Frame) : Prop := frame_ok msg_ok f.

Lemma forallb_Forall' {A} (p : A -> bool) (P : A -> Prop) l :
  (forall x, p x = true -> P x) -> forallb p l = true -> Forall P l.
Proof. intros H Hl. rewrite forallb_forall in Hl. apply Forall_forall. intros x Hx. apply H, Hl, Hx. Qed.

Lemma supported_b v : existsb (Z.eqb v) spec_versions = true -> supported v.
Proof. intro H. apply existsb_exists in H. destruct H as [x [Hx He]]. apply Z.eqb_eq in He. subst. exact Hx. Qed.

(* the executable validity predicate implies the one the theorems are stated with *)
Lemma frame_okb_valid f : frame_okb f = true -> frame_valid f.
Proof.
  unfold frame_okb, frame_valid, frame_ok. intro H.
  repeat (apply andb_prop in H; destruct H as [H ?]).
  match goal with Hb : body_okb _ _ = true |- _ => rename Hb into Hbody end.
  match goal with Hs : (if Z.geb _ 3 then _ else _) = true |- _ => rename Hs into Hsid end.
  unfold body_okb in Hbody. repeat (apply andb_prop in Hbody; destruct Hbody as [Hbody ?]).
  repeat split.
  - apply supported_b. assumption.
  - lia.
  - lia.
  - revert Hsid. destruct (Z.geb (h_Version (f_Header f)) 3); intro; lia.
  - apply Bool.eqb_prop. assumption.
  - lia.
  - assumption.
  - unfold has_tracing_id.
    destruct (has (h_Flags (f_Header f)) HeaderFlagTracing && msg_is_response (bd_Message (f_Body f))).
    + destruct (bd_TracingId (f_Body f)) as [u|]; [|discriminate]. exists u. split; [reflexivity|lia].
    + destruct (bd_TracingId (f_Body f)); [discriminate|reflexivity].
  - destruct (has (h_Flags (f_Header f)) HeaderFlagCustomPayload).
    + match goal with Hp : _ && _ && _ && _ = true |- _ => repeat (apply andb_prop in Hp; destruct Hp as [Hp ?]) end.
      repeat split; try lia; try assumption.
      eapply forallb_Forall'; [|eassumption]. intros [k v] Hkv. cbn [fst snd] in *. unfold bytes_small. lia.
    + destruct (bd_CustomPayload (f_Body f)); [reflexivity|discriminate].
  - unfold has_warnings.
    destruct (has (h_Flags (f_Header f)) HeaderFlagWarning && msg_is_response (bd_Message (f_Body f))).
    + match goal with Hp : (_ <=? _) && _ = true |- _ => apply andb_prop in Hp; destruct Hp as [Hp ?] end.
      destruct (bd_Warnings (f_Body f)) as [l|]; [|discriminate].
      match goal with Hl : _ && _ = true |- _ => apply andb_prop in Hl; destruct Hl as [Hl1 Hl2] end.
      repeat split; try assumption; try lia. exists l. split; [reflexivity|]. split; [lia|].
      eapply forallb_Forall'; [|eassumption]. intros s Hs. cbn beta. lia.
    + destruct (olist (bd_Warnings (f_Body f))); [reflexivity|discriminate].
  - assumption.
Qed.

Lemma norm_body_is f n : norm_body norm_message (f_Header f) (f_Body f) = f_Body (frame_normal f n).
Proof. reflexivity. Qed.

(* ---------------- C01 / C03: uncompressed frames ---------------- *)
Theorem frame_codec_plain comp f :
  frame_valid f -> has (h_Flags (f_Header f)) HeaderFlagCompressed = false ->
  exists mb, enc_message (h_Version (f_Header f)) (bd_Message (f_Body f)) = Ok mb /\
    let body := body_bytes (f_Header f) (f_Body f) mb in
    (zlen body < 2147483648 ->
     encode_frame the_msg_codec comp f = Ok (encoded_plain f mb) /\
     zlen (encoded_plain f mb) = header_length (h_Version (f_Header f)) + zlen body /\
     uncompressed_body_length the_msg_codec (f_Header f) (f_Body f) = Ok (zlen body) /\
     forall rest, decode_frame the_msg_codec comp (encoded_plain f mb ++ rest) = DOk (frame_normal f (zlen body)) rest).
Proof.
  intros Hv Hnc. pose proof Hv as (Hs & _ & _ & _ & _ & _ & (_ & _ & _ & Hm)).
  destruct (H_rt_concrete _ _ Hs Hm) as (mb & Hmb & _). exists mb. split; [exact Hmb|]. intros body Hsmall.
  destruct (frame_roundtrip_plain the_msg_codec msg_ok norm_message H_rt_concrete H_len_concrete comp f mb Hv Hnc Hmb Hsmall) as [He Hd].
  split; [exact He|]. split.
  - unfold encoded_plain. rewrite zlen_app, hdr_len. cbn [with_body_length h_Version]. reflexivity.
  - split; [|exact Hd].
    pose proof Hv as (_ & _ & _ & _ & _ & _ & Hb).
    eapply uncompressed_body_length_ok; try first [exact H_rt_concrete | exact H_len_concrete]; eassumption.
Qed.

(* ---------------- C01 / C08: compressed frames, for any lossless compressor ---------------- *)
Theorem frame_codec_compressed c f :
  frame_valid f -> has (h_Flags (f_Header f)) HeaderFlagCompressed = true -> comp_lossless c ->
  exists mb y, enc_message (h_Version (f_Header f)) (bd_Message (f_Body f)) = Ok mb /\
    cmp_compress c (body_bytes (f_Header f) (f_Body f) mb) = Ok y /\
    (zlen y < 2147483648 ->
     encode_frame the_msg_codec (Some c) f = Ok (hdr_bytes (with_body_length (f_Header f) (zlen y)) ++ y) /\
     forall rest, decode_frame the_msg_codec (Some c) ((hdr_bytes (with_body_length (f_Header f) (zlen y)) ++ y) ++ rest)
                  = DOk (frame_normal f (zlen y)) rest).
Proof.
  intros Hv Hc Hloss. pose proof Hv as (Hs & _ & _ & _ & _ & _ & (_ & _ & _ & Hm)).
  destruct (H_rt_concrete _ _ Hs Hm) as (mb & Hmb & _).
  destruct (Hloss (body_bytes (f_Header f) (f_Body f) mb)) as (y & Hy & _).
  exists mb, y. split; [exact Hmb|]. split; [exact Hy|]. intro Hsmall.
  exact (frame_roundtrip_compressed the_msg_codec msg_ok norm_message H_rt_concrete H_len_concrete c f mb y Hv Hc Hloss Hmb Hy Hsmall).
Qed.

(* ---------------- C03: any sequence of valid frames written back to back decodes in sequence ---------------- *)
Definition plain_valid (f : Frame) (mb : bytes) : Prop :=
  frame_valid f /\ has (h_Flags (f_Header f)) HeaderFlagCompressed = false /\
  enc_message (h_Version (f_Header f)) (bd_Message (f_Body f)) = Ok mb /\
  zlen (body_bytes (f_Header f) (f_Body f) mb) < 2147483648.

Theorem frames_back_to_back comp (fms : list (Frame * bytes)) rest :
  Forall (fun fm => plain_valid (fst fm) (snd fm)) fms ->
  decode_frames the_msg_codec comp (length fms)
    (concat (map (fun fm => encoded_plain (fst fm) (snd fm)) fms) ++ rest)
  = DOk (map (fun fm => frame_normal (fst fm) (zlen (body_bytes (f_Header (fst fm)) (f_Body (fst fm)) (snd fm)))) fms) rest.
Proof.
  intro H.
  replace (length fms) with (length (map fst fms)) by apply map_length.
  apply (frames_stream the_msg_codec comp (map fst fms)).
  induction fms as [|[f mb] fms IH]; cbn [map fst snd]; [constructor|].
  inversion H as [|? ? (Hv & Hnc & Hmb & Hsmall) Hrest]; subst. cbn [fst snd] in *.
  constructor; [|apply IH; exact Hrest].
  destruct (frame_roundtrip_plain the_msg_codec msg_ok norm_message H_rt_concrete H_len_concrete comp f mb Hv Hnc Hmb Hsmall) as [He Hd].
  split; [exact He|exact Hd].
Qed.

(* ---------------- C05: raw paths ---------------- *)
Theorem raw_paths_agree comp f mb :
  plain_valid f mb ->
  let body := body_bytes (f_Header f) (f_Body f) mb in
  let h' := with_body_length (f_Header f) (zlen body) in
  (* DecodeRawFrame returns the header and the untouched body bytes, leaving the rest *)
  (forall rest, decode_raw_frame (encoded_plain f mb ++ rest) = DOk {| rf_Header := h'; rf_Body := Some body |} rest) /\
  (* ... and ConvertFromRawFrame of it is what DecodeFrame returns *)
  convert_from_raw the_msg_codec comp {| rf_Header := h'; rf_Body := Some body |} = Ok (frame_normal f (zlen body)) /\
  (* ConvertToRawFrame + EncodeRawFrame emit the bytes of EncodeFrame *)
  (exists rf, convert_to_raw the_msg_codec comp f = Ok rf /\ encode_raw_frame rf = Ok (encoded_plain f mb) /\ rf_Body rf = Some body) /\
  (* EncodeHeader ++ EncodeBody is EncodeFrame *)
  (encode_header h' = Ok (hdr_bytes h') /\ encode_body the_msg_codec comp h' (f_Body f) = Ok body) /\
  (* after DecodeHeader, DecodeRawBody / DiscardBody (plain and seekable source) consume exactly the declared body length *)
  (forall rest, decode_raw_body h' (body ++ rest) = DOk (Some body) rest /\
                discard_body h' (body ++ rest) = DOk tt rest /\ discard_body_seek h' (body ++ rest) = DOk tt rest).
Proof.
  intros (Hv & Hnc & Hmb & Hsmall). cbv zeta.
  set (body := body_bytes (f_Header f) (f_Body f) mb) in *. set (h' := with_body_length (f_Header f) (zlen body)).
  pose proof Hv as (Hs & Hf & Hsid & Hr & Hop & Hdse & Hb).
  assert (Hn : in_i32 (zlen body)) by (unfold in_i32; pose proof (zlen_nonneg body); lia).
  Ltac hyps := first [exact H_rt_concrete | exact H_len_concrete].
  assert (Hh : header_ok h').
  { unfold h'. eapply frame_header_ok; try hyps; eassumption. }
  destruct (frame_roundtrip_plain the_msg_codec msg_ok norm_message H_rt_concrete H_len_concrete comp f mb Hv Hnc Hmb Hsmall) as [He Hd].
  assert (Hbl : h_BodyLength h' = zlen body) by reflexivity.
  assert (Hb' : body_ok msg_ok h' (f_Body f)) by (apply body_ok_wbl; exact Hb).
  repeat split.
  - intro rest. eapply raw_frame_of_bytes; try hyps; eassumption.
  - apply convert_from_raw_agrees. intro rest.
    exact (decode_body_plain_app the_msg_codec msg_ok norm_message H_rt_concrete H_len_concrete comp (f_Header f) (f_Body f) mb rest Hs Hr Hop Hb Hmb Hnc).
  - eapply convert_to_raw_plain; try hyps; eassumption.
  - exact (encode_header_ok h' Hh).
  - unfold encode_body. cbn [h' with_body_length h_OpCode h_Flags]. rewrite Hop, Z.eqb_refl. cbn [negb]. rewrite Hnc.
    exact (encode_body_uncompressed_ok the_msg_codec msg_ok h' (f_Body f) mb Hb' Hmb).
  - eapply decode_raw_body_app; try hyps; eassumption.
  - eapply discard_body_app; try hyps; eassumption.
  - eapply discard_body_app; try hyps; eassumption.
Qed.

(* ---------------- C04: the frame decoders return a value or an error on every byte string ---------------- *)

Lemma total_dec_message v op : total (dec_message v op).
Proof. intro bs. apply message_decode_total. Qed.

Lemma total_decode_header : total decode_header.
Proof.
  unfold decode_header.
  apply total_bind; [apply total_read_byte|intro vd].
  apply total_bind; [apply total_read_byte|intro fl].
  apply total_bind; [apply total_rguard|intros _].
  apply total_bind; [apply total_rguard|intros _].
  apply total_bind; [apply total_read_stream_id|intro sid].
  apply total_bind; [apply total_read_byte|intro op].
  apply total_bind; [apply total_read_int|intro len].
  apply total_bind; [apply total_rguard|intros _].
  apply total_bind; [apply total_rguard|intros _].
  apply total_bind; [apply total_rguard|intros _].
  apply total_ret.
Qed.

Lemma total_decode_body_parts h : total (decode_body_parts the_msg_codec h).
Proof.
  unfold decode_body_parts.
  apply total_bind; [destruct (h_IsResponse h && has (h_Flags h) HeaderFlagTracing); [apply total_rmap, total_read_uuid|apply total_ret]|intro tr].
  apply total_bind; [destruct (h_IsResponse h && has (h_Flags h) HeaderFlagWarning); [apply total_rmap, total_read_string_list|apply total_ret]|intro wa].
  apply total_bind; [destruct (has (h_Flags h) HeaderFlagCustomPayload); [apply total_rmap, total_read_bytes_map|apply total_ret]|intro cp].
  apply total_bind; [apply total_dec_message|intro m]. apply total_ret.
Qed.

(* for ANY decompressor function (it returns a result for every input by construction) *)
Lemma total_decode_body comp h : total (decode_body the_msg_codec comp h).
Proof.
  unfold decode_body. destruct (has (h_Flags h) HeaderFlagCompressed).
  2:{ intro bs. set (n := if h_BodyLength h <? 0 then 0%nat else Z.to_nat (Z.min (h_BodyLength h) (zlen bs))).
      destruct (total_decode_body_parts h (firstn n bs)) as [H1 H2].
      destruct (decode_body_parts the_msg_codec h (firstn n bs)); try contradiction; [|split; discriminate].
      destruct (h_BodyLength h <=? zlen bs); split; discriminate. }
  destruct comp as [c|]; [|apply total_rfail]. intro bs.
  destruct (cmp_decompress c _) as [raw|]; [|split; discriminate].
  destruct (total_decode_body_parts h raw) as [H1 H2].
  destruct (decode_body_parts the_msg_codec h raw); try contradiction; split; discriminate.
Qed.

Theorem decode_frame_total comp : total (decode_frame the_msg_codec comp).
Proof.
  unfold decode_frame. apply total_bind; [apply total_decode_header|intro h].
  apply total_bind; [apply total_decode_body|intro b]. apply total_ret.
Qed.

Theorem decode_raw_frame_total : total decode_raw_frame.
Proof.
  unfold decode_raw_frame. apply total_bind; [apply total_decode_header|intro h].
  apply total_bind; [|intro b; apply total_ret].
  unfold decode_raw_body. destruct (Z.ltb_spec (h_BodyLength h) 0); [apply total_rfail|].
  destruct (h_BodyLength h =? 0); [apply total_ret|]. apply total_rmap, total_read_raw. assumption.
Qed.
