(* The per-message laws of the assembled message codec (model/MsgCodec.v, model/MsgValid.v), obtained from the
   three group developments, in the form the frame-level theorems (proofs/FrameProofs.v) consume. *)
From Coq Require Import ZArith List Bool Lia.
From GCNP Require Import base.GoInt base.Bytes base.Codec gen.Constants_gen model.Prim model.DataType model.MsgTypes
  model.Frame model.MsgRequests model.MsgErrors model.MsgResults model.MsgCodec model.MsgValid
  proofs.MsgResultsValid proofs.MsgRequestsProofs proofs.MsgErrorsProofs proofs.MsgResultsProofs.
Import ListNotations.
Open Scope Z_scope.

Lemma msg_group_cases m :
  (in_request_group m = true /\ in_error_group m = false /\ is_result m = false) \/
  (in_request_group m = false /\ in_error_group m = true /\ is_result m = false) \/
  (in_request_group m = false /\ in_error_group m = false /\ is_result m = true).
Proof. destruct m; cbn; tauto. Qed.

Lemma req_none v m : in_request_group m = false ->
  enc_request_group v m = None /\ len_request_group v m = None /\ request_group_okb v m = None /\ norm_request_group v m = None.
Proof.
  intro H. destruct (request_group_domain v m) as (H1 & H2 & H3 & H4 & _). rewrite H in *.
  repeat split;
    match goal with |- ?x = None => destruct x; [cbn in *; discriminate|reflexivity] end.
Qed.
Lemma req_some v m : in_request_group m = true ->
  exists w l b m' r, enc_request_group v m = Some w /\ len_request_group v m = Some l /\ request_group_okb v m = Some b /\
                     norm_request_group v m = Some m' /\ dec_request_group v (msg_opcode m) = Some r.
Proof.
  intro H. destruct (request_group_domain v m) as (H1 & H2 & H3 & H4 & H5). rewrite H in *. specialize (H5 eq_refl).
  destruct (enc_request_group v m) as [w|]; [|discriminate]. destruct (len_request_group v m) as [l|]; [|discriminate].
  destruct (request_group_okb v m) as [b|]; [|discriminate]. destruct (norm_request_group v m) as [m'|]; [|discriminate].
  destruct (dec_request_group v (msg_opcode m)) as [r|]; [|discriminate]. repeat eexists.
Qed.
Lemma err_none v m : in_error_group m = false ->
  enc_error_group v m = None /\ len_error_group v m = None /\ error_group_okb v m = None /\ norm_error_group v m = None.
Proof. intro H. pose proof (error_group_domain v m) as D. rewrite H in D. exact D. Qed.

(* opcodes of the other groups are not served by a group's decoder *)
Lemma dec_request_none_error v m : in_error_group m = true -> dec_request_group v (msg_opcode m) = None.
Proof. destruct m; try discriminate; intros _; reflexivity. Qed.
Lemma dec_request_none_result v m : is_result m = true -> dec_request_group v (msg_opcode m) = None.
Proof. destruct m; try discriminate; intros _; reflexivity. Qed.
Lemma dec_error_none_result v m : is_result m = true -> dec_error_group v (msg_opcode m) = None.
Proof. destruct m; try discriminate; intros _; reflexivity. Qed.

Theorem message_roundtrip v m : message_okb v m = true ->
  exists mb, enc_message v m = Ok mb /\ forall rest, dec_message v (msg_opcode m) (mb ++ rest) = DOk (norm_message v m) rest.
Proof.
  intro Hok. unfold message_okb, enc_message, dec_message, norm_message, first_some in *. cbn [fold_right] in *.
  destruct (msg_group_cases m) as [(Hq & He & Hr)|[(Hq & He & Hr)|(Hq & He & Hr)]].
  - destruct (req_some v m Hq) as (w & l & b & m' & r & E1 & E2 & E3 & E4 & E5). rewrite E1, E3, E4, E5 in *. subst b.
    destruct (request_group_roundtrip v m w E1 E3) as (bb & m'' & r' & Ew & En & Ed & Hd).
    assert (m'' = m') by congruence. assert (r' = r) by congruence. subst. exists bb. split; [reflexivity|exact Hd].
  - destruct (req_none v m Hq) as (N1 & N2 & N3 & N4). rewrite N1, N3, N4 in *. rewrite (dec_request_none_error v m He).
    pose proof (error_group_domain v m) as D. rewrite He in D.
    destruct D as ((w & E1) & _ & (b & E3) & (m' & E4 & _) & (r & E5)). rewrite E1, E3, E4, E5 in *. subst b.
    destruct (error_group_roundtrip v m w E1 E3) as (bb & m'' & r' & Ew & En & Ed & Hd).
    assert (m'' = m') by congruence. assert (r' = r) by congruence. subst. exists bb. split; [reflexivity|exact Hd].
  - destruct (req_none v m Hq) as (N1 & N2 & N3 & N4). destruct (err_none v m He) as (M1 & M2 & M3 & M4).
    rewrite N1, N3, N4, M1, M3, M4 in *. rewrite (dec_request_none_result v m Hr), (dec_error_none_result v m Hr).
    unfold enc_result_group, result_group_okb, norm_result_group in *. rewrite Hr in *.
    destruct (result_group_roundtrip v m (enc_result v m)) as (bb & m' & Ew & En & Hd).
    { unfold enc_result_group. rewrite Hr. reflexivity. }
    { unfold result_group_okb. rewrite Hr. f_equal. exact Hok. }
    unfold norm_result_group in En. rewrite Hr in En. assert (Em : m' = norm_result v m) by (inversion En; reflexivity). subst m'.
    exists bb. split; [exact Ew|]. intro rest. destruct (Hd rest (length (bb ++ rest)) (le_n _)) as (r & Er & Hr').
    rewrite Er. exact Hr'.
Qed.

Theorem message_length v m mb : message_okb v m = true -> enc_message v m = Ok mb -> len_message v m = Ok (zlen mb).
Proof.
  intros Hok Henc. unfold message_okb, enc_message, len_message, first_some in *. cbn [fold_right] in *.
  destruct (msg_group_cases m) as [(Hq & He & Hr)|[(Hq & He & Hr)|(Hq & He & Hr)]].
  - destruct (req_some v m Hq) as (w & l & b & m' & r & E1 & E2 & E3 & E4 & E5). rewrite E1, E2, E3 in *. subst b.
    exact (request_group_length v m w l mb E1 E2 E3 Henc).
  - destruct (req_none v m Hq) as (N1 & N2 & N3 & N4). rewrite N1, N2, N3 in *.
    pose proof (error_group_domain v m) as D. rewrite He in D.
    destruct D as ((w & E1) & (l & E2) & (b & E3) & _). rewrite E1, E2, E3 in *. subst b. subst w.
    pose proof (error_group_length v m mb E1 E3) as H. congruence.
  - destruct (req_none v m Hq) as (N1 & N2 & N3 & N4). destruct (err_none v m He) as (M1 & M2 & M3 & M4).
    rewrite N1, N2, N3, M1, M2, M3 in *.
    unfold enc_result_group, len_result_group, result_group_okb in *. rewrite Hr in *.
    assert (H : len_result_group v m = Some (Ok (zlen mb))).
    { apply result_group_length; [unfold enc_result_group; rewrite Hr, Henc; reflexivity|unfold result_group_okb; rewrite Hr, Hok; reflexivity]. }
    unfold len_result_group in H. rewrite Hr in H. inversion H. reflexivity.
Qed.

(* every message decoder returns a value or an error on EVERY byte string (no panic, no fuel exhaustion) *)
Theorem message_decode_total v op bs : dec_message v op bs <> DPanic /\ dec_message v op bs <> DFuel.
Proof.
  unfold dec_message, first_some. cbn [fold_right].
  destruct (dec_request_group v op) as [r|] eqn:E1; [exact (request_group_total v op r E1 bs)|].
  destruct (dec_error_group v op) as [r|] eqn:E2; [exact (error_group_total v op r bs E2)|].
  destruct (dec_result_group (length bs) v op) as [r|] eqn:E3; [exact (result_group_total _ v op r bs E3 (le_n _))|].
  split; discriminate.
Qed.

Theorem norm_message_opcode v m : msg_opcode (norm_message v m) = msg_opcode m /\ msg_is_response (norm_message v m) = msg_is_response m.
Proof.
  unfold norm_message, first_some. cbn [fold_right].
  destruct (msg_group_cases m) as [(Hq & He & Hr)|[(Hq & He & Hr)|(Hq & He & Hr)]].
  - destruct (req_some v m Hq) as (w & l & b & m' & r & E1 & E2 & E3 & E4 & E5). rewrite E4.
    destruct (request_group_norm_opcode v m m' E4) as (A & B & _). split; assumption.
  - destruct (req_none v m Hq) as (N1 & N2 & N3 & N4). rewrite N4. destruct m; try discriminate; cbn; split; reflexivity.
  - destruct (req_none v m Hq) as (N1 & N2 & N3 & N4). destruct (err_none v m He) as (M1 & M2 & M3 & M4). rewrite N4, M4.
    destruct m; try discriminate; cbn; split; reflexivity.
Qed.
