(* writeBigInt (datacodec/varint.go, after the F4 fix) emits, for EVERY integer, the shortest two's complement form:
   exactly the bytes of spec_varint (specification 5.24).  readBigInt inverts every two's complement form. *)
From Coq Require Import ZArith List Lia Bool.
From Coq Require Import ZifyBool ZifyNat.
From GCNP Require Import base.GoInt base.Bytes spec.SpecCql model.CqlWire proofs.CqlBytesLemmas.
Import ListNotations.
Open Scope Z_scope.

Lemma half_S k : 2 ^ (8 * Z.of_nat (S k) - 1) = 128 * 256 ^ Z.of_nat k.
Proof.
  replace (8 * Z.of_nat (S k) - 1) with (7 + 8 * Z.of_nat k) by lia.
  rewrite Z.pow_add_r by lia. rewrite pow2_8n. reflexivity.
Qed.

Lemma fits_twos_S k z : fits_twos (S k) z = true <-> - (128 * 256 ^ Z.of_nat k) <= z < 128 * 256 ^ Z.of_nat k.
Proof. unfold fits_twos. rewrite half_S. lia. Qed.
Lemma fits_twos_S_false k z : fits_twos (S k) z = false <-> ~ (- (128 * 256 ^ Z.of_nat k) <= z < 128 * 256 ^ Z.of_nat k).
Proof. rewrite <- fits_twos_S. destruct (fits_twos (S k) z); intuition congruence. Qed.

Lemma fits_twos_mono k z : fits_twos (S k) z = true -> fits_twos (S (S k)) z = true.
Proof. rewrite !fits_twos_S. rewrite pow256_S. pose proof (pow256_pos k). lia. Qed.

Lemma fits_twos_0 z : fits_twos 0 z = false.
Proof.
  unfold fits_twos. change (8 * Z.of_nat 0 - 1) with (-1). rewrite Z.pow_neg_r by lia. lia.
Qed.

(* the minimal length, characterised *)
Definition minfit (n : nat) (z : Z) : Prop :=
  (1 <= n)%nat /\ fits_twos n z = true /\ (n = 1%nat \/ fits_twos (n - 1) z = false).

Lemma not_fits_below n z : fits_twos n z = false -> forall m, (m <= n)%nat -> fits_twos m z = false.
Proof.
  intros H m Hm. induction Hm as [|n' Hm IH]; [exact H|].
  apply IH. destruct n' as [|k]; [apply fits_twos_0|].
  destruct (fits_twos (S k) z) eqn:E; [|reflexivity].
  apply fits_twos_mono in E. congruence.
Qed.

Lemma first_fit_found n z : fits_twos n z = true ->
  forall fuel start, (start <= n)%nat -> (n - start < fuel)%nat ->
  (forall m, (start <= m < n)%nat -> fits_twos m z = false) -> first_fit fuel start z = n.
Proof.
  intros Hn fuel. induction fuel as [|f IH]; intros start Hs Hf Hb; [lia|].
  cbn [first_fit]. destruct (Nat.eq_dec start n) as [->|Hne].
  - rewrite Hn. reflexivity.
  - rewrite (Hb start) by lia. apply IH; [lia|lia|]. intros m Hm. apply Hb. lia.
Qed.

Lemma log2_ge_pow a k : 0 <= k -> 2 ^ k <= a -> k <= Z.log2 a.
Proof. intros Hk H. apply Z.log2_le_pow2; lia. Qed.

Lemma varint_len_char n z : minfit n z -> varint_len z = n.
Proof.
  intros (H1 & Hfit & Hmin). unfold varint_len.
  apply first_fit_found; [exact Hfit|lia| |].
  - (* fuel *)
    destruct Hmin as [->|Hnf]; [pose proof (Z.log2_nonneg (Z.abs z)); lia|].
    destruct n as [|[|k]]; [lia|pose proof (Z.log2_nonneg (Z.abs z)); lia|].
    replace (S (S k) - 1)%nat with (S k) in Hnf by lia.
    apply fits_twos_S_false in Hnf.
    assert (Hp: 2 ^ (7 + 8 * Z.of_nat k) <= Z.abs z).
    { rewrite Z.pow_add_r, pow2_8n by lia. change (2 ^ 7) with 128. lia. }
    apply log2_ge_pow in Hp; lia.
  - intros m Hm. destruct Hmin as [->|Hnf]; [lia|]. apply (not_fits_below (n - 1) z Hnf). lia.
Qed.

Lemma minfit_spec_varint n z : minfit n z -> spec_varint z = be_bytes n z.
Proof.
  intro H. unfold spec_varint. rewrite (varint_len_char n z H).
  destruct H as (H1 & Hfit & _). rewrite twos_mod by (assumption || lia).
  rewrite <- be_bytes_spec_uint. apply be_bytes_mod.
Qed.

(* ---- math/big as modelled: number of bytes of a positive magnitude *)
Lemma bitlen_spec x : 0 < x -> 1 <= bitlen x /\ 2 ^ (bitlen x - 1) <= x < 2 ^ bitlen x.
Proof.
  intro H. unfold bitlen. destruct (Z.eqb_spec x 0); [lia|].
  pose proof (Z.log2_spec x H). pose proof (Z.log2_nonneg x).
  replace (Z.log2 x + 1 - 1) with (Z.log2 x) by lia. replace (Z.log2 x + 1) with (Z.succ (Z.log2 x)) by lia. lia.
Qed.

Lemma pow2_le_mono a b : 0 <= a <= b -> 2 ^ a <= 2 ^ b.
Proof. intro H. apply Z.pow_le_mono_r; lia. Qed.

Lemma nbytes_spec x : 0 < x ->
  exists k, Z.to_nat ((bitlen x + 7) / 8) = S k /\ 256 ^ Z.of_nat k <= x < 256 ^ Z.of_nat (S k).
Proof.
  intro H. destruct (bitlen_spec x H) as (HL & Hlo & Hhi).
  set (L := bitlen x) in *.
  assert (Hk: 1 <= (L + 7) / 8) by (apply Z.div_le_lower_bound; lia).
  exists (Z.to_nat ((L + 7) / 8 - 1)). split; [lia|].
  rewrite <- !pow2_8n. replace (Z.of_nat (S (Z.to_nat ((L + 7) / 8 - 1)))) with ((L + 7) / 8) by lia.
  replace (Z.of_nat (Z.to_nat ((L + 7) / 8 - 1))) with ((L + 7) / 8 - 1) by lia.
  assert (8 * ((L + 7) / 8 - 1) <= L - 1 /\ L <= 8 * ((L + 7) / 8)).
  { pose proof (Z.div_mod (L + 7) 8 ltac:(lia)). pose proof (Z.mod_pos_bound (L + 7) 8 ltac:(lia)). lia. }
  split.
  - eapply Z.le_trans; [apply pow2_le_mono|exact Hlo]. lia.
  - eapply Z.lt_le_trans; [exact Hhi|apply pow2_le_mono]. lia.
Qed.

Lemma pow256_lt_mono j k : (j < k)%nat -> 256 ^ Z.of_nat j < 256 ^ Z.of_nat k.
Proof. intro H. apply Z.pow_lt_mono_r; lia. Qed.
Lemma pow256_le_mono j k : (j <= k)%nat -> 256 ^ Z.of_nat j <= 256 ^ Z.of_nat k.
Proof. intro H. apply Z.pow_le_mono_r; lia. Qed.

Lemma pow_interval_unique j k y :
  256 ^ Z.of_nat j <= y < 256 ^ Z.of_nat (S j) -> 256 ^ Z.of_nat k <= y < 256 ^ Z.of_nat (S k) -> j = k.
Proof.
  intros Hj Hk. destruct (Nat.lt_trichotomy j k) as [Hlt|[->|Hgt]]; [|reflexivity|].
  - pose proof (pow256_le_mono (S j) k ltac:(lia)). lia.
  - pose proof (pow256_le_mono (S k) j ltac:(lia)). lia.
Qed.

Lemma big_bytes_of_interval k y : 256 ^ Z.of_nat k <= y < 256 ^ Z.of_nat (S k) -> big_bytes y = be_bytes (S k) y.
Proof.
  intro H. assert (Hy: 0 < y) by (pose proof (pow256_pos k); lia).
  destruct (nbytes_spec y Hy) as (j & Hj & Hint). unfold big_bytes. rewrite Hj.
  rewrite (pow_interval_unique j k y Hint H). reflexivity.
Qed.

Lemma neg_width a : 0 < a ->
  let W' := Z.to_nat (bitlen a / 8) in
  (bitlen a / 8 + 1) * 8 = 8 * Z.of_nat (S W') /\ a < 128 * 256 ^ Z.of_nat W' /\
  (W' = 0%nat \/ exists W'', W' = S W'' /\ 128 * 256 ^ Z.of_nat W'' <= a).
Proof.
  intro H. destruct (bitlen_spec a H) as (HL & Hlo & Hhi). set (L := bitlen a) in *. intro W'.
  assert (Hq: 0 <= L / 8) by (apply Z.div_pos; lia).
  assert (Hb: 8 * (L / 8) <= L <= 8 * (L / 8) + 7).
  { pose proof (Z.div_mod L 8 ltac:(lia)). pose proof (Z.mod_pos_bound L 8 ltac:(lia)). lia. }
  assert (HW: Z.of_nat W' = L / 8) by (unfold W'; lia).
  split; [lia|]. split.
  - rewrite <- pow2_8n, HW. replace 128 with (2 ^ 7) by reflexivity. rewrite <- Z.pow_add_r by lia.
    eapply Z.lt_le_trans; [exact Hhi|apply pow2_le_mono; lia].
  - destruct W' as [|W'']; [left; reflexivity|right]. exists W''. split; [reflexivity|].
    rewrite <- pow2_8n. replace 128 with (2 ^ 7) by reflexivity. rewrite <- Z.pow_add_r by lia.
    eapply Z.le_trans; [apply pow2_le_mono|exact Hlo]. lia.
Qed.

Local Ltac Zify.zify_post_hook ::= Z.div_mod_to_equations.

Lemma writeBigInt_minfit z : exists n, minfit n z /\ writeBigInt z = be_bytes n z.
Proof.
  unfold writeBigInt.
  destruct (Z.ltb_spec 0 z) as [Hpos|Hnp].
  - (* positive *)
    destruct (nbytes_spec z Hpos) as (k & Hk & Hlo & Hhi).
    unfold big_bytes. rewrite Hk. rewrite be_bytes_cons. cbn [hd].
    rewrite pow256_S in Hhi. pose proof (pow256_pos k) as HP. set (P := 256 ^ Z.of_nat k) in *.
    assert (Hh: 1 <= z / P < 256).
    { split; [apply Z.div_le_lower_bound; lia|apply Z.div_lt_upper_bound; lia]. }
    rewrite (Z.mod_small (z / P) 256) by lia.
    rewrite land128 by lia.
    destruct (Z.leb_spec 128 (z / P)) as [Hge|Hlt].
    + exists (S (S k)). split.
      * split; [lia|]. split.
        -- apply fits_twos_S. rewrite pow256_S. fold P. lia.
        -- right. replace (S (S k) - 1)%nat with (S k) by lia. apply fits_twos_S_false. fold P.
           assert (128 * P <= z); [|lia].
           pose proof (Z.mul_div_le z P HP). nia.
      * rewrite (be_bytes_cons (S k)). rewrite pow256_S. fold P.
        rewrite (Z.div_small z (256 * P)) by lia. rewrite Z.mod_0_l by lia.
        rewrite be_bytes_cons. fold P. rewrite (Z.mod_small (z / P) 256) by lia. reflexivity.
    + exists (S k). split.
      * split; [lia|]. split.
        -- apply fits_twos_S. fold P.
           assert (z < 128 * P); [|lia].
           pose proof (Z.mod_pos_bound z P HP). pose proof (Z.div_mod z P ltac:(lia)). nia.
        -- destruct k as [|k']; [left; reflexivity|right].
           replace (S (S k') - 1)%nat with (S k') by lia. apply fits_twos_S_false.
           unfold P in Hlo. rewrite pow256_S in Hlo. pose proof (pow256_pos k'). lia.
      * rewrite be_bytes_cons. fold P. rewrite (Z.mod_small (z / P) 256) by lia. reflexivity.
  - destruct (Z.ltb_spec z 0) as [Hneg|Hz].
    + (* negative *)
      replace (Z.abs z) with (- z) by lia.
      destruct (neg_width (- z) ltac:(lia)) as (Hlen & Hup & Hlow).
      set (W' := Z.to_nat (bitlen (- z) / 8)) in *.
      rewrite Hlen. rewrite Z.shiftl_1_l, pow2_8n.
      set (y := z + 256 ^ Z.of_nat (S W')).
      assert (Hy: 256 ^ Z.of_nat W' <= y < 256 ^ Z.of_nat (S W')).
      { unfold y. rewrite pow256_S. pose proof (pow256_pos W'). lia. }
      rewrite (big_bytes_of_interval W' y Hy).
      assert (Hcong: forall n, (n <= S W')%nat -> be_bytes n y = be_bytes n z).
      { intros n Hn. apply be_bytes_congr. unfold y.
        replace (Z.of_nat (S W')) with (Z.of_nat (S W' - n) + Z.of_nat n) by lia.
        rewrite Z.pow_add_r by lia. apply Z_mod_plus_full. }
      destruct Hlow as [HW0|(W'' & HW & Hlow)].
      * (* one byte *)
        rewrite HW0 in *. exists 1%nat. split.
        -- split; [lia|]. split; [|left; reflexivity]. apply fits_twos_S. cbn in Hup |- *. lia.
        -- rewrite <- (Hcong 1%nat) by lia. reflexivity.
      * rewrite HW in *.
        rewrite (be_bytes_cons (S W'')), (be_bytes_cons W'').
        rewrite pow256_S in Hup. rewrite !pow256_S in Hy.
        pose proof (pow256_pos W'') as HP. rewrite pow256_S. set (P := 256 ^ Z.of_nat W'') in *.
        assert (Hyq: y = z + 65536 * P) by (unfold y; rewrite HW, !pow256_S; fold P; lia).
        rewrite (Z.mul_comm 256 P), <- Z.div_div by lia.
        set (q := y / P).
        assert (Hq: 128 * 256 <= q < 65536).
        { unfold q. split; [apply Z.div_le_lower_bound; lia|apply Z.div_lt_upper_bound; lia]. }
        rewrite (Z.mod_small (q / 256) 256) by lia.
        rewrite land128_eq0 by lia.
        assert (Hcond: ((q / 256 =? 255) && negb (q mod 256 <? 128)) = (65408 <=? q)) by lia.
        rewrite Hcond.
        destruct (Z.leb_spec 65408 q) as [Hge|Hlt].
        -- (* strip the leading 0xff *)
           assert (Hy': 65408 * P <= y) by (pose proof (Z.mul_div_le y P HP); fold q in H; nia).
           exists (S W''). split.
           ++ split; [lia|]. split.
              ** apply fits_twos_S. fold P. lia.
              ** destruct W'' as [|W3]; [left; reflexivity|right].
                 replace (S (S W3) - 1)%nat with (S W3) by lia. apply fits_twos_S_false.
                 unfold P in Hlow. rewrite pow256_S in Hlow. pose proof (pow256_pos W3). lia.
           ++ rewrite <- (Hcong (S W'')) by lia. rewrite be_bytes_cons. reflexivity.
        -- assert (Hy': y < 65408 * P).
           { pose proof (Z.mod_pos_bound y P HP). pose proof (Z.div_mod y P ltac:(lia)). fold q in H0. nia. }
           exists (S (S W'')). split.
           ++ split; [lia|]. split.
              ** apply fits_twos_S. rewrite pow256_S. fold P. lia.
              ** right. replace (S (S W'') - 1)%nat with (S W'') by lia. apply fits_twos_S_false. fold P. lia.
           ++ rewrite <- (Hcong (S (S W''))) by lia.
              rewrite (be_bytes_cons (S W'')), (be_bytes_cons W''). rewrite pow256_S. fold P.
              rewrite (Z.mul_comm 256 P), <- Z.div_div by lia. fold q. rewrite (Z.mod_small (q / 256) 256) by lia. reflexivity.
    + (* zero *)
      assert (z = 0) by lia. subst z. exists 1%nat. split; [|reflexivity].
      split; [lia|]. split; [reflexivity|left; reflexivity].
Qed.

(* C12, varint: for every integer the encoder's bytes are the specification's *)
Theorem writeBigInt_spec z : writeBigInt z = spec_varint z.
Proof.
  destruct (writeBigInt_minfit z) as (n & Hm & E). rewrite E. symmetry. apply minfit_spec_varint. exact Hm.
Qed.

(* the length chosen by the specification is minimal and fits (the arithmetic characterisation of 5.24) *)
Theorem varint_len_minimal z :
  fits_twos (varint_len z) z = true /\ (1 <= varint_len z)%nat /\
  forall m, (1 <= m < varint_len z)%nat -> fits_twos m z = false.
Proof.
  destruct (writeBigInt_minfit z) as (n & Hm & _). rewrite (varint_len_char n z Hm).
  destruct Hm as (H1 & Hf & Hmin). split; [exact Hf|]. split; [exact H1|].
  intros m Hmm. destruct Hmin as [->|Hnf]; [lia|]. apply (not_fits_below (n - 1) z Hnf). lia.
Qed.

(* ---- readBigInt inverts any two's complement form of at least one byte *)
Lemma hd_be_bytes k x : hd 0 (be_bytes (S k) x) = (x / 256 ^ Z.of_nat k) mod 256.
Proof. rewrite be_bytes_cons. reflexivity. Qed.

Lemma readBigInt_be_bytes n z : (1 <= n)%nat -> fits_twos n z = true -> readBigInt (Some (be_bytes n z)) = Some z.
Proof.
  intros Hn Hfit. destruct n as [|k]; [lia|]. apply fits_twos_S in Hfit.
  unfold readBigInt. cbn [src_bytes]. rewrite be_bytes_zlen.
  replace (0 <? Z.of_nat (S k)) with true by lia.
  rewrite hd_be_bytes, be_val_be_bytes, Z.shiftl_1_l.
  replace (Z.of_nat (S k) * 8) with (8 * Z.of_nat (S k)) by lia. rewrite pow2_8n, pow256_S.
  pose proof (pow256_pos k) as HP. set (P := 256 ^ Z.of_nat k) in *.
  assert (Hb: 0 <= (z / P) mod 256 < 256) by (apply Z.mod_pos_bound; lia).
  rewrite land128 by exact Hb. f_equal.
  destruct (Z.ltb_spec z 0) as [Hneg|Hpos].
  - (* negative: residue is z + 256 P, top digit >= 128 *)
    assert (Hm: z mod (256 * P) = z + 256 * P).
    { symmetry. apply (Z.mod_unique_pos _ _ (-1)); lia. }
    assert (Hzp: - 128 <= z / P < 0).
    { split; [apply Z.div_le_lower_bound; lia|apply Z.div_lt_upper_bound; lia]. }
    assert (Hd: (z / P) mod 256 = z / P + 256).
    { symmetry. apply (Z.mod_unique_pos _ _ (-1)); lia. }
    rewrite Hd, Hm.
    replace (128 <=? z / P + 256) with true by lia. lia.
  - rewrite (Z.mod_small z (256 * P)) by lia.
    assert (z / P < 128) by (apply Z.div_lt_upper_bound; lia).
    assert (0 <= z / P) by (apply Z.div_pos; lia).
    rewrite (Z.mod_small (z / P) 256) by lia.
    replace (128 <=? z / P) with false by lia. reflexivity.
Qed.

Theorem readBigInt_writeBigInt z : readBigInt (Some (writeBigInt z)) = Some z.
Proof.
  destruct (writeBigInt_minfit z) as (n & (H1 & Hf & _) & E). rewrite E. apply readBigInt_be_bytes; assumption.
Qed.

Lemma writeBigInt_length_pos z : 0 < zlen (writeBigInt z).
Proof. destruct (writeBigInt_minfit z) as (n & (H1 & _) & E). rewrite E, be_bytes_zlen. lia. Qed.

Lemma writeBigInt_bytes_ok z : bytes_ok (writeBigInt z).
Proof. destruct (writeBigInt_minfit z) as (n & _ & E). rewrite E. apply be_bytes_ok. Qed.
