(* C02 assembled: for every message kind, the bytes the model encoder emits for a version-valid message are the bytes the
   independent transcription of the specification prescribes; then whole frames, and decoding of specification bytes. *)
From Coq Require Import ZArith List Bool Lia.
From Coq Require Import ZifyBool ZifyNat.
From GCNP Require Import spec.SpecClean base.GoInt base.Bytes base.Codec gen.Constants_gen spec.SpecTables model.Prim model.DataType
  model.MsgTypes model.Frame model.MsgRequests model.MsgErrors model.MsgResults model.MsgCodec model.MsgValid model.FrameValid
  proofs.PrimProofs proofs.CqlBytesLemmas proofs.FrameProofs proofs.MsgRequestsLib proofs.MsgRequestsSimple proofs.MsgRequestsQuery
  proofs.MsgRequestsBatch proofs.MsgErrorsProofs proofs.MsgResultsValid proofs.MsgResultsProofs proofs.MsgCodecProofs proofs.FrameFinal
  spec.SpecNotation spec.SpecMsg spec.SpecFrame
  proofs.SpecAgreeLib proofs.SpecAgreeHeader proofs.SpecAgreeSimple proofs.SpecAgreeErrors proofs.SpecAgreeResults proofs.SpecAgreeQuery.
Import ListNotations.
Open Scope Z_scope.
Ltac Zify.zify_post_hook ::= Z.div_mod_to_equations.

(* What the specification side needs beyond message_okb.  Each conjunct is a place where the Go encoder accepts an input that
   the specification of the version gives no layout to (see notes/spec.md, "Phase 2"): none of them is a byte-level
   disagreement; where both sides define bytes they are proved equal below. *)
(* msg_clean: see spec/SpecClean.v *)

Lemma ok_inj (a b : bytes) : @Ok bytes a = Ok b -> a = b.
Proof. intro H. congruence. Qed.

Ltac by_facts F :=
  match goal with
  | Hok : ?okb = true, Henc : ?enc = Ok ?b |- _ =>
      let E := fresh in pose proof (F Hok) as E; destruct E as (E & _ & _); rewrite E in Henc; apply ok_inj in Henc; subst b
  end.

Lemma simple_error_bytes code msg b : In code error_codes -> simple_error_okb msg = true ->
  enc_simple_error code msg = Ok b -> b = bytes_error_prefix code msg.
Proof.
  intros Hc H E. unfold enc_simple_error in E. rewrite enc_error_prefix_ok in E by (first [exact Hc|apply str16_ok; exact H]).
  symmetry. apply ok_inj. exact E.
Qed.
Ltac in_codes := unfold error_codes; cbn [In]; tauto.

Theorem body_bytes_spec v m b :
  supported v -> message_okb v m = true -> msg_clean v m = true -> enc_message v m = Ok b -> spec_body_bytes v m = Some b.
Proof.
  intros Hv Hok Hcl Henc. destruct m.
  - change (Startup_okb v m = true) in Hok. change (enc_Startup v m = Ok b) in Henc.
    destruct (Startup_facts v m Hok) as (E & _ & _). rewrite E in Henc. apply ok_inj in Henc. subst b. apply agree_Startup; assumption.
  - change (Ok [] = Ok b) in Henc. apply ok_inj in Henc. subst b. apply agree_Options; assumption.
  - change (Query_okb v m = true) in Hok. change (enc_Query v m = Ok b) in Henc.
    destruct (Query_facts v m Hok) as (E & _ & _). rewrite E in Henc. apply ok_inj in Henc. subst b. apply agree_Query; assumption.
  - change (Prepare_okb v m = true) in Hok. change (enc_Prepare v m = Ok b) in Henc.
    destruct (Prepare_facts v m Hok) as (E & _ & _). rewrite E in Henc. apply ok_inj in Henc. subst b. apply agree_Prepare; assumption.
  - change (Execute_okb v m = true) in Hok. change (enc_Execute v m = Ok b) in Henc.
    destruct (Execute_facts v m Hok) as (E & _ & _). rewrite E in Henc. apply ok_inj in Henc. subst b. apply agree_Execute; assumption.
  - change (Register_okb v m = true) in Hok. change (enc_Register v m = Ok b) in Henc.
    destruct (Register_facts v m Hok) as (E & _ & _). rewrite E in Henc. apply ok_inj in Henc. subst b. apply agree_Register; assumption.
  - change (Batch_okb v m = true) in Hok. change (enc_Batch v m = Ok b) in Henc.
    destruct (Batch_facts v m Hok) as (E & _ & _). rewrite E in Henc. apply ok_inj in Henc. subst b. apply agree_Batch; assumption.
  - change (AuthResponse_okb v m = true) in Hok. change (enc_AuthResponse v m = Ok b) in Henc.
    destruct (AuthResponse_facts v m Hok) as (E & _ & _). rewrite E in Henc. apply ok_inj in Henc. subst b. apply agree_AuthResponse; assumption.
  - change (Revise_okb v m = true) in Hok. change (enc_Revise v m = Ok b) in Henc.
    destruct (Revise_facts v m Hok) as (E & _ & _). rewrite E in Henc. apply ok_inj in Henc. subst b. apply agree_Revise; assumption.
  - change (Ok [] = Ok b) in Henc. apply ok_inj in Henc. subst b. apply agree_Ready; assumption.
  - change (Authenticate_okb v m = true) in Hok. change (enc_Authenticate v m = Ok b) in Henc.
    destruct (Authenticate_facts v m Hok) as (E & _ & _). rewrite E in Henc. apply ok_inj in Henc. subst b. apply agree_Authenticate; assumption.
  - change (Supported_okb v m = true) in Hok. change (enc_Supported v m = Ok b) in Henc.
    destruct (Supported_facts v m Hok) as (E & _ & _). rewrite E in Henc. apply ok_inj in Henc. subst b. apply agree_Supported; assumption.
  - change (AuthChallenge_okb v m = true) in Hok. change (enc_AuthChallenge v m = Ok b) in Henc.
    destruct (AuthChallenge_facts v m Hok) as (E & _ & _). rewrite E in Henc. apply ok_inj in Henc. subst b. apply agree_AuthChallenge; assumption.
  - change (AuthSuccess_okb v m = true) in Hok. change (enc_AuthSuccess v m = Ok b) in Henc.
    destruct (AuthSuccess_facts v m Hok) as (E & _ & _). rewrite E in Henc. apply ok_inj in Henc. subst b. apply agree_AuthSuccess; assumption.
  (* the ten errors that carry only the message *)
  - change (simple_error_okb msg = true) in Hok. change (enc_simple_error ErrorCodeServerError msg = Ok b) in Henc.
    rewrite (simple_error_bytes ErrorCodeServerError _ _ ltac:(in_codes) Hok Henc). apply agree_ServerError; assumption.
  - change (simple_error_okb msg = true) in Hok. change (enc_simple_error ErrorCodeProtocolError msg = Ok b) in Henc.
    rewrite (simple_error_bytes ErrorCodeProtocolError _ _ ltac:(in_codes) Hok Henc). apply agree_ProtocolError; assumption.
  - change (simple_error_okb msg = true) in Hok. change (enc_simple_error ErrorCodeAuthenticationError msg = Ok b) in Henc.
    rewrite (simple_error_bytes ErrorCodeAuthenticationError _ _ ltac:(in_codes) Hok Henc). apply agree_AuthenticationError; assumption.
  - change (simple_error_okb msg = true) in Hok. change (enc_simple_error ErrorCodeOverloaded msg = Ok b) in Henc.
    rewrite (simple_error_bytes ErrorCodeOverloaded _ _ ltac:(in_codes) Hok Henc). apply agree_Overloaded; assumption.
  - change (simple_error_okb msg = true) in Hok. change (enc_simple_error ErrorCodeIsBootstrapping msg = Ok b) in Henc.
    rewrite (simple_error_bytes ErrorCodeIsBootstrapping _ _ ltac:(in_codes) Hok Henc). apply agree_IsBootstrapping; assumption.
  - change (simple_error_okb msg = true) in Hok. change (enc_simple_error ErrorCodeTruncateError msg = Ok b) in Henc.
    rewrite (simple_error_bytes ErrorCodeTruncateError _ _ ltac:(in_codes) Hok Henc). apply agree_TruncateError; assumption.
  - change (simple_error_okb msg = true) in Hok. change (enc_simple_error ErrorCodeSyntaxError msg = Ok b) in Henc.
    rewrite (simple_error_bytes ErrorCodeSyntaxError _ _ ltac:(in_codes) Hok Henc). apply agree_SyntaxError; assumption.
  - change (simple_error_okb msg = true) in Hok. change (enc_simple_error ErrorCodeUnauthorized msg = Ok b) in Henc.
    rewrite (simple_error_bytes ErrorCodeUnauthorized _ _ ltac:(in_codes) Hok Henc). apply agree_Unauthorized; assumption.
  - change (simple_error_okb msg = true) in Hok. change (enc_simple_error ErrorCodeInvalid msg = Ok b) in Henc.
    rewrite (simple_error_bytes ErrorCodeInvalid _ _ ltac:(in_codes) Hok Henc). apply agree_Invalid; assumption.
  - change (simple_error_okb msg = true) in Hok. change (enc_simple_error ErrorCodeConfigError msg = Ok b) in Henc.
    rewrite (simple_error_bytes ErrorCodeConfigError _ _ ltac:(in_codes) Hok Henc). apply agree_ConfigError; assumption.
  (* errors with a body *)
  - change (Unavailable_okb v m = true) in Hok. change (enc_Unavailable v m = Ok b) in Henc.
    rewrite (enc_Unavailable_ok v m Hok) in Henc. apply ok_inj in Henc. subst b. apply agree_Unavailable; assumption.
  - change (ReadTimeout_okb v m = true) in Hok. change (enc_ReadTimeout v m = Ok b) in Henc.
    rewrite (enc_ReadTimeout_ok v m Hok) in Henc. apply ok_inj in Henc. subst b. apply agree_ReadTimeout; assumption.
  - change (WriteTimeout_okb v m = true) in Hok. change (enc_WriteTimeout v m = Ok b) in Henc.
    rewrite (enc_WriteTimeout_ok v m Hok) in Henc. apply ok_inj in Henc. subst b. apply agree_WriteTimeout; assumption.
  - change (ReadFailure_okb v m = true) in Hok. change (enc_ReadFailure v m = Ok b) in Henc.
    rewrite (enc_ReadFailure_ok v m Hok) in Henc. apply ok_inj in Henc. subst b. apply agree_ReadFailure; assumption.
  - change (WriteFailure_okb v m = true) in Hok. change (enc_WriteFailure v m = Ok b) in Henc.
    rewrite (enc_WriteFailure_ok v m Hok) in Henc. apply ok_inj in Henc. subst b. apply agree_WriteFailure; assumption.
  - change (FunctionFailure_okb v m = true) in Hok. change (enc_FunctionFailure v m = Ok b) in Henc.
    rewrite (enc_FunctionFailure_ok v m Hok) in Henc. apply ok_inj in Henc. subst b. apply agree_FunctionFailure; assumption.
  - change (Unprepared_okb v m = true) in Hok. change (enc_Unprepared v m = Ok b) in Henc.
    rewrite (enc_Unprepared_ok v m Hok) in Henc. apply ok_inj in Henc. subst b. apply agree_Unprepared; assumption.
  - change (AlreadyExists_okb v m = true) in Hok. change (enc_AlreadyExists v m = Ok b) in Henc.
    rewrite (enc_AlreadyExists_ok v m Hok) in Henc. apply ok_inj in Henc. subst b. apply agree_AlreadyExists; assumption.
  (* events *)
  - change (SchemaChangeEvent_okb v m = true) in Hok. change (enc_SchemaChangeEvent v m = Ok b) in Henc.
    rewrite (enc_SchemaChangeEvent_ok v m Hok) in Henc. apply ok_inj in Henc. subst b. apply agree_SchemaChangeEvent; assumption.
  - change (StatusChangeEvent_okb v m = true) in Hok. change (enc_StatusChangeEvent v m = Ok b) in Henc.
    rewrite (enc_StatusChangeEvent_ok v m Hok) in Henc. apply ok_inj in Henc. subst b. apply agree_StatusChangeEvent; assumption.
  - change (TopologyChangeEvent_okb v m = true) in Hok. change (enc_TopologyChangeEvent v m = Ok b) in Henc.
    rewrite (enc_TopologyChangeEvent_ok v m Hok) in Henc. apply ok_inj in Henc. subst b. apply agree_TopologyChangeEvent; assumption.
  (* results *)
  - change (enc_result v M_VoidResult = Ok b) in Henc. rewrite (enc_result_ok v M_VoidResult eq_refl) in Henc. apply ok_inj in Henc. subst b.
    apply agree_VoidResult; assumption.
  - change (result_okb v (M_SetKeyspaceResult m) = true) in Hok. change (enc_result v (M_SetKeyspaceResult m) = Ok b) in Henc.
    rewrite (enc_result_ok v _ Hok) in Henc. apply ok_inj in Henc. subst b. apply agree_SetKeyspaceResult; assumption.
  - change (result_okb v (M_SchemaChangeResult m) = true) in Hok. change (enc_result v (M_SchemaChangeResult m) = Ok b) in Henc.
    rewrite (enc_result_ok v _ Hok) in Henc. apply ok_inj in Henc. subst b. apply agree_SchemaChangeResult; assumption.
  - change (result_okb v (M_PreparedResult m) = true) in Hok. change (enc_result v (M_PreparedResult m) = Ok b) in Henc.
    rewrite (enc_result_ok v _ Hok) in Henc. apply ok_inj in Henc. subst b. apply agree_PreparedResult; assumption.
  - change (result_okb v (M_RowsResult m) = true) in Hok. change (enc_result v (M_RowsResult m) = Ok b) in Henc.
    rewrite (enc_result_ok v _ Hok) in Henc. apply ok_inj in Henc. subst b. apply agree_RowsResult; assumption.
Qed.

(* ---------------- frames ---------------- *)
Lemma opcode_spec m : msg_opcode m = spec_msg_opcode m. Proof. destruct m; reflexivity. Qed.
Lemma is_response_spec m : msg_is_response m = spec_msg_is_response m. Proof. destruct m; reflexivity. Qed.
Lemma has_spec flags mask : has flags mask = has_flag flags mask. Proof. reflexivity. Qed.

(* frame_clean: see spec/SpecClean.v *)

(* spec_frame_of: see spec/SpecClean.v *)

Lemma frame_body_spec f mb : frame_valid f -> frame_clean f = true ->
  enc_message (h_Version (f_Header f)) (bd_Message (f_Body f)) = Ok mb ->
  spec_frame_body (h_Version (f_Header f)) (h_Flags (f_Header f)) (bd_TracingId (f_Body f)) (bd_CustomPayload (f_Body f))
                  (olist (bd_Warnings (f_Body f))) (bd_Message (f_Body f))
  = Some (body_bytes (f_Header f) (f_Body f) mb).
Proof.
  intros Hf Hcl Hmb. destruct f as [h b]. cbn [f_Header f_Body] in *. unfold frame_clean in Hcl. cbn [f_Header f_Body] in Hcl.
  destruct Hf as (Hv & Hfl & Hsid & Hresp & Hop & Hdse & (Ht & Hp & Hw & Hm)). cbn [f_Header f_Body] in *.
  pose proof (body_bytes_spec _ _ _ Hv Hm Hcl Hmb) as Hbody. unfold spec_body_bytes in Hbody.
  destruct (spec_body (h_Version h) (bd_Message b)) as [l|] eqn:El; [|discriminate]. cbn [obind] in Hbody. assert (El' : ser_all l = mb) by congruence.
  assert (E4 : 4 <= h_Version h -> spec_from_v4 (h_Version h) = true).
  { intro H4. destruct (supported_cases _ Hv) as [E|[E|[E|[E|[E|E]]]]]; rewrite E in *; try reflexivity; lia. }
  unfold has_tracing_id in Ht. unfold has_warnings in Hw. rewrite !has_spec in *.
  change HeaderFlagTracing with spec_flag_tracing in *. change HeaderFlagWarning with spec_flag_warning in *.
  change HeaderFlagCustomPayload with spec_flag_payload in *.
  set (resp := msg_is_response (bd_Message b)) in *.
  (* tracing id *)
  assert (T : exists tn, (if has_flag (h_Flags h) spec_flag_tracing && resp then do t <- bd_TracingId b; Some [NUuid t] else Some []) = Some tn /\
                         forallb notation_ok tn = true /\
                         ser_all tn = (if has_flag (h_Flags h) spec_flag_tracing && resp then olist (bd_TracingId b) else [])).
  { destruct (has_flag (h_Flags h) spec_flag_tracing && resp).
    - destruct Ht as (u & Hu & Hul). rewrite Hu. exists [NUuid u]. cbn [obind olist forallb notation_ok]. rewrite Hul. repeat split. apply ser_all_one.
    - exists []. repeat split. }
  destruct T as (tn & T1 & T2 & T3).
  (* warnings *)
  set (wn := if spec_from_v4 (h_Version h) && has_flag (h_Flags h) spec_flag_warning && resp then [NStringList (olist (bd_Warnings b))] else []).
  assert (W : forallb notation_ok wn = true /\
              ser_all wn = (if has_flag (h_Flags h) spec_flag_warning && resp then enc_string_list (olist (bd_Warnings b)) else [])).
  { unfold wn. rewrite <- andb_assoc. destruct (has_flag (h_Flags h) spec_flag_warning && resp).
    - destruct Hw as (H4w & wl & Hwl & Hwn & Hws). rewrite Hwl, (E4 H4w). cbn [andb olist forallb]. split.
      + rewrite string_list_nok by assumption. reflexivity.
      + apply ser_all_one.
    - rewrite andb_false_r. split; reflexivity. }
  destruct W as (W2 & W3).
  (* custom payload *)
  set (pn := if spec_from_v4 (h_Version h) && has_flag (h_Flags h) spec_flag_payload then [NBytesMap (bd_CustomPayload b)] else []).
  assert (P : forallb notation_ok pn = true /\
              ser_all pn = (if has_flag (h_Flags h) spec_flag_payload then enc_bytes_map (bd_CustomPayload b) else [])).
  { unfold pn. destruct (has_flag (h_Flags h) spec_flag_payload).
    - destruct Hp as (H4p & Hpn & Hps & _). rewrite (E4 H4p). cbn [andb forallb notation_ok]. split.
      + rewrite fits_u16 by (split; [apply zlen_nonneg|exact Hpn]). cbn [andb]. rewrite andb_true_r.
        apply forallb_forall. intros [k x] Hkv. unfold bytes_map_small, map_small in Hps. rewrite Forall_forall in Hps.
        destruct (Hps (k, x) Hkv) as [Hk Hx]. cbn [fst snd] in *. rewrite string_ok_le by exact Hk. unfold bytes_small in Hx.
        destruct x as [x|]; [cbn [olist] in Hx; apply blob_ok_le; exact Hx|reflexivity].
      + apply ser_all_one.
    - rewrite andb_false_r. split; reflexivity. }
  destruct P as (P2 & P3).
  unfold spec_frame_body. rewrite El. cbn [obind]. unfold spec_frame_prefix. rewrite <- is_response_spec. fold resp. rewrite T1. cbn [obind].
  fold wn. fold pn. rewrite !forallb_app, T2, W2, P2. cbn [guard obind andb].
  rewrite !ser_all_app, T3, W3, P3, El'. unfold body_bytes, has_tracing_id, has_warnings.
  rewrite <- ?app_assoc. reflexivity.
Qed.

(* frames that fit the 4-byte length field (the specifications limit a frame to 256MB) *)
Definition body_fits (f : Frame) : Prop :=
  forall mb, enc_message (h_Version (f_Header f)) (bd_Message (f_Body f)) = Ok mb ->
             zlen (body_bytes (f_Header f) (f_Body f) mb) < 2147483648.

Lemma spec_frame_is f mb : frame_valid f -> has (h_Flags (f_Header f)) HeaderFlagCompressed = false -> frame_clean f = true ->
  enc_message (h_Version (f_Header f)) (bd_Message (f_Body f)) = Ok mb ->
  zlen (body_bytes (f_Header f) (f_Body f) mb) < 2147483648 ->
  spec_frame_of f = Some (encoded_plain f mb).
Proof.
  intros Hf Hnc Hcl Hmb Hsmall. pose proof (frame_body_spec f mb Hf Hcl Hmb) as Hbody.
  pose proof Hf as (Hv & Hfl & Hsid & Hresp & Hop & _).
  assert (Hn : in_i32 (zlen (body_bytes (f_Header f) (f_Body f) mb))).
  { unfold in_i32. pose proof (zlen_nonneg (body_bytes (f_Header f) (f_Body f) mb)). lia. }
  pose proof (frame_header_ok the_msg_codec msg_ok norm_message H_rt_concrete H_len_concrete f _ Hf Hn) as Hh.
  pose proof (header_bytes_spec _ Hh) as Hhdr.
  unfold spec_frame_of, spec_frame. cbv zeta. rewrite (supported_is_version _ Hv). cbn [guard obind].
  assert (G1 : (0 <=? h_Flags (f_Header f)) && (h_Flags (f_Header f) <? 256) = true) by lia. rewrite G1. cbn [guard obind].
  assert (G2 : spec_stream_ok (h_Version (f_Header f)) (h_StreamId (f_Header f)) = true).
  { unfold spec_stream_ok. revert Hsid. destruct (supported_cases _ Hv) as [E|[E|[E|[E|[E|E]]]]]; rewrite E;
      cbn [Z.geb Z.compare Pos.compare Pos.compare_cont Z.eqb Pos.eqb]; lia. }
  rewrite G2. cbn [guard obind].
  assert (G3 : (h_Version (f_Header f) =? 5) || negb (has_flag (h_Flags (f_Header f)) spec_flag_compression) = true).
  { change (has_flag (h_Flags (f_Header f)) spec_flag_compression) with (has (h_Flags (f_Header f)) HeaderFlagCompressed). rewrite Hnc. apply orb_true_r. }
  rewrite G3. cbn [guard obind]. rewrite Hbody. cbn [obind].
  unfold encoded_plain. cbv zeta. rewrite Hhdr. cbn [with_body_length h_Version h_IsResponse h_Flags h_StreamId h_OpCode h_BodyLength].
  rewrite Hresp. rewrite Hop. rewrite (opcode_spec (bd_Message (f_Body f))). rewrite (is_response_spec (bd_Message (f_Body f))). reflexivity.
Qed.

(* (4) the bytes EncodeFrame emits for a version-valid uncompressed frame are the frame of the specification *)
Theorem frame_bytes_spec comp f bs :
  frame_okb f = true -> has (h_Flags (f_Header f)) HeaderFlagCompressed = false -> frame_clean f = true -> body_fits f ->
  encode_frame the_msg_codec comp f = Ok bs -> spec_frame_of f = Some bs.
Proof.
  intros Hok Hnc Hcl Hfit Henc. pose proof (frame_okb_valid f Hok) as Hf.
  destruct (frame_codec_plain comp f Hf Hnc) as (mb & Hmb & H). cbv zeta in H. specialize (H (Hfit mb Hmb)). destruct H as (He & _).
  rewrite He in Henc. assert (bs = encoded_plain f mb) by congruence. subst bs.
  apply spec_frame_is; try assumption. apply Hfit. exact Hmb.
Qed.

(* (5) the bytes the specification prescribes for a version-valid frame decode to that frame (in normal form), leaving
   whatever follows untouched *)
Theorem decode_spec comp f :
  frame_okb f = true -> has (h_Flags (f_Header f)) HeaderFlagCompressed = false -> frame_clean f = true -> body_fits f ->
  exists bs, spec_frame_of f = Some bs /\
    forall rest, decode_frame the_msg_codec comp (bs ++ rest)
                 = DOk (frame_normal f (zlen bs - header_length (h_Version (f_Header f)))) rest.
Proof.
  intros Hok Hnc Hcl Hfit. pose proof (frame_okb_valid f Hok) as Hf.
  destruct (frame_codec_plain comp f Hf Hnc) as (mb & Hmb & H). cbv zeta in H. specialize (H (Hfit mb Hmb)). destruct H as (_ & Hlen & _ & Hdec).
  exists (encoded_plain f mb). split.
  - apply spec_frame_is; try assumption. apply Hfit. exact Hmb.
  - intro rest. rewrite Hdec. rewrite Hlen. f_equal. f_equal. lia.
Qed.
