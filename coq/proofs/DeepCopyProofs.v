(* C17 - proofs about model/DeepCopy.v: an adequate table of copy plans produces copies that are equal to their
   originals after label erasure and whose every mutable location is freshly allocated (independence). *)
From Coq Require Import ZArith List String Bool Arith Lia.
From GCNP Require Import model.DeepCopy.
Import ListNotations.

(* ---------------------------------------------------------------- generic facts *)
Lemma assoc_in {A : Type} k (l : list (string * A)) a : assoc k l = Some a -> In (k, a) l.
Proof.
  induction l as [|[k' a'] l IH]; cbn; [discriminate|].
  destruct (String.eqb k k') eqn:Hk.
  - intros [= ->]. apply String.eqb_eq in Hk. subst. now left.
  - intro. right. auto.
Qed.

Lemma ty_eqb_eq a : forall b, ty_eqb a b = true -> a = b.
Proof.
  induction a; destruct b; cbn; try discriminate; intros H; try reflexivity.
  - f_equal; auto.
  - f_equal; auto.
  - apply andb_prop in H as [H1 H2]. apply Nat.eqb_eq in H1. f_equal; auto.
  - apply andb_prop in H as [H1 H2]. f_equal; auto.
  - apply String.eqb_eq in H. now subst.
  - apply String.eqb_eq in H. now subst.
Qed.

Lemma existsb_eqb_in n l : existsb (String.eqb n) l = true -> In n l.
Proof.
  intro H. apply existsb_exists in H as (x & Hx & He). apply String.eqb_eq in He. now subst.
Qed.

Lemma Forall_lt_of_forallb n ls : forallb (fun l => Nat.ltb l n) ls = true -> Forall (fun l => l < n) ls.
Proof. intro H. rewrite forallb_forall in H. apply Forall_forall. intros l Hl. apply Nat.ltb_lt. auto. Qed.

Definition in_range (a b : loc) (l : loc) : Prop := a <= l < b.
Definition fresh (a b : loc) (v : val) : Prop := Forall (in_range a b) (locs v).

Lemma in_range_widen a b a' b' l : a' <= a -> b <= b' -> in_range a b l -> in_range a' b' l.
Proof. unfold in_range. lia. Qed.

Lemma Forall_range_widen a b a' b' ls : a' <= a -> b <= b' -> Forall (in_range a b) ls -> Forall (in_range a' b') ls.
Proof. intros. eapply Forall_impl; [|eassumption]. intros. eapply in_range_widen; eauto. Qed.

(* a stronger induction principle for the nested type val *)
Section ValInd.
  Variable P : val -> Prop.
  Hypothesis HS : forall z, P (VS z).
  Hypothesis HStr : forall s, P (VStr s).
  Hypothesis HNil : P VNil.
  Hypothesis HPtr : forall l v, P v -> P (VPtr l v).
  Hypothesis HSlice : forall l vs, Forall P vs -> P (VSlice l vs).
  Hypothesis HArr : forall vs, Forall P vs -> P (VArr vs).
  Hypothesis HMap : forall l kvs, Forall (fun kv => P (fst kv) /\ P (snd kv)) kvs -> P (VMap l kvs).
  Hypothesis HStruct : forall fs, Forall P fs -> P (VStruct fs).
  Hypothesis HIface : forall n v, P v -> P (VIface n v).

  Fixpoint val_ind' (v : val) : P v :=
    match v with
    | VS z => HS z
    | VStr s => HStr s
    | VNil => HNil
    | VPtr l v0 => HPtr l v0 (val_ind' v0)
    | VSlice l vs => HSlice l vs ((fix go (vs : list val) : Forall P vs :=
                                     match vs with [] => Forall_nil _ | x :: xs => Forall_cons _ (val_ind' x) (go xs) end) vs)
    | VArr vs => HArr vs ((fix go (vs : list val) : Forall P vs :=
                             match vs with [] => Forall_nil _ | x :: xs => Forall_cons _ (val_ind' x) (go xs) end) vs)
    | VMap l kvs => HMap l kvs ((fix go (kvs : list (val * val)) : Forall (fun kv => P (fst kv) /\ P (snd kv)) kvs :=
                                   match kvs with
                                   | [] => Forall_nil _
                                   | (a, b) :: xs => Forall_cons (a, b) (conj (val_ind' a) (val_ind' b)) (go xs)
                                   end) kvs)
    | VStruct fs => HStruct fs ((fix go (vs : list val) : Forall P vs :=
                                   match vs with [] => Forall_nil _ | x :: xs => Forall_cons _ (val_ind' x) (go xs) end) fs)
    | VIface n v0 => HIface n v0 (val_ind' v0)
    end.
End ValInd.

(* ---------------------------------------------------------------- a write through a location a value does not reach *)
Lemma map_id_on {A : Type} (f : A -> A) (l : list A) : Forall (fun x => f x = x) l -> map f l = l.
Proof. induction 1; cbn; congruence. Qed.

Lemma not_in_flat_map {A : Type} (f : A -> list loc) l xs x : ~ In l (flat_map f xs) -> In x xs -> ~ In l (f x).
Proof. intros H Hx Hl. apply H. apply in_flat_map. eauto. Qed.

Lemma poke_unreached l w : forall v, ~ In l (locs v) -> poke l w v = v.
Proof.
  induction v using val_ind'; cbn [poke locs]; intros Hn; try reflexivity.
  - assert (l0 <> l) by (intro; subst; apply Hn; now left).
    apply Nat.eqb_neq in H. rewrite H. rewrite IHv; [reflexivity|]. intro; apply Hn; now right.
  - assert (l0 <> l) by (intro; subst; apply Hn; now left).
    apply Nat.eqb_neq in H0. rewrite H0. f_equal. apply map_id_on.
    rewrite Forall_forall in *. intros x Hx. apply H; [assumption|].
    eapply not_in_flat_map; [|eassumption]. intro; apply Hn; right; eassumption.
  - f_equal. apply map_id_on. rewrite Forall_forall in *. intros x Hx. apply H; [assumption|].
    eapply not_in_flat_map; eassumption.
  - assert (l0 <> l) by (intro; subst; apply Hn; now left).
    apply Nat.eqb_neq in H0. rewrite H0. f_equal. apply map_id_on.
    rewrite Forall_forall in *. intros [a b] Hx. destruct (H _ Hx) as [Ha Hb]. cbn [fst snd] in *.
    assert (Hnn : ~ In l (locs a ++ locs b)%list).
    { eapply (not_in_flat_map (fun kv : val * val => let (a, b) := kv in (locs a ++ locs b)%list) l kvs (a, b)); [|assumption].
      intro; apply Hn; right; assumption. }
    rewrite Ha, Hb; [reflexivity| |]; intro; apply Hnn; apply in_or_app; auto.
  - f_equal. apply map_id_on. rewrite Forall_forall in *. intros x Hx. apply H; [assumption|].
    eapply not_in_flat_map; eassumption.
  - f_equal. auto.
Qed.

(* ---------------------------------------------------------------- soundness of adequate tables *)
Section Sound.
  Variables (E : tyenv) (I : ifenv) (F : ftable).

  Lemma Forall_flat_map_nil {A : Type} (f : A -> list loc) xs : Forall (fun x => f x = []) xs -> flat_map f xs = [].
  Proof. induction 1; cbn; [reflexivity|]. rewrite H, IHForall. reflexivity. Qed.

  Lemma immutable_no_locs : forall fuel k v, immutable E fuel k = true -> has_kind E I v k -> locs v = [].
  Proof.
    induction fuel as [|fuel IH]; intros k v Hi Hk; [discriminate|].
    cbn [immutable] in Hi. destruct k; try discriminate.
    - inversion Hk; subst. reflexivity.
    - inversion Hk; subst. reflexivity.
    - inversion Hk; subst. cbn [locs]. apply Forall_flat_map_nil.
      eapply Forall_impl; [|eassumption]. cbn. intros. eapply IH; eauto.
    - inversion Hk as [| | | | | | | | | | |n' fs vs Hn Hfs|n' t v' Hn Hv]; subst.
      + rewrite Hn in Hi. cbn [locs]. apply Forall_flat_map_nil.
        rewrite forallb_forall in Hi. clear Hn Hk.
        induction Hfs as [|x ft xs fts Hx Hxs IHf]; constructor.
        * eapply IH; [|exact Hx]. apply Hi. now left.
        * apply IHf. intros. apply Hi. now right.
      + rewrite Hn in Hi. eapply IH; eauto.
  Qed.

  (* inversion of has_kind, by kind *)
  Lemma hk_ptr_inv v t : has_kind E I v (TPtr t) -> v = VNil \/ exists l v0, v = VPtr l v0 /\ has_kind E I v0 t.
  Proof. inversion 1; subst; eauto. Qed.
  Lemma hk_slice_inv v t : has_kind E I v (TSlice t) -> v = VNil \/ exists l vs, v = VSlice l vs /\ Forall (fun x => has_kind E I x t) vs.
  Proof. inversion 1; subst; eauto. Qed.
  Lemma hk_map_inv v kt vt : has_kind E I v (TMap kt vt) ->
    v = VNil \/ exists l kvs, v = VMap l kvs /\ Forall (fun kv => has_kind E I (fst kv) kt /\ has_kind E I (snd kv) vt) kvs.
  Proof. inversion 1; subst; eauto. Qed.
  Lemma hk_iface_inv v i : has_kind E I v (TIface i) ->
    v = VNil \/ exists impls n l v0, v = VIface n (VPtr l v0) /\ assoc i I = Some impls /\ In n impls /\
                                    has_kind E I (VPtr l v0) (TPtr (TNamed n)).
  Proof. inversion 1; subst; [left; reflexivity|right]. do 4 eexists. eauto. Qed.
  Lemma hk_named_inv v n : has_kind E I v (TNamed n) ->
    (exists fs vs, v = VStruct vs /\ assoc n E = Some (DStruct fs) /\ Forall2 (fun v ft => has_kind E I v (snd ft)) vs fs) \/
    (exists t, assoc n E = Some (DAlias t) /\ has_kind E I v t).
  Proof. inversion 1; subst; [left|right]; eauto. Qed.

  Lemma imm_no_locs k v : imm E k = true -> has_kind E I v k -> locs v = [].
  Proof. apply immutable_no_locs. Qed.

  (* the unfolding of one step of run, with the call made explicit *)
  Definition call_ (rec : plan -> runner) (f : string) (next : loc) (v : val) : option (loc * val) :=
    match assoc f F with
    | Some (FPlain _ q) => rec q next v
    | Some (FStruct _ fps) =>
      match v with
      | VStruct vs => match run_fields rec next vs fps with Some (n', vs') => Some (n', VStruct vs') | None => None end
      | _ => None
      end
    | Some (FToIface n _ q) =>
      match rec q next v with
      | Some (n', VNil) => Some (n', VNil)
      | Some (n', v') => Some (n', VIface n v')
      | None => None
      end
    | None => None
    end.

  Lemma run_S fuel p next v :
    run F (S fuel) p next v =
    match p with
    | PShallow => Some (next, v)
    | PSkip => Some (next, zero v)
    | PNilOr q => match v with VNil => Some (next, VNil) | _ => run F fuel q next v end
    | PNew q =>
      match v with
      | VPtr _ v0 => match run F fuel q (S next) v0 with Some (n', v0') => Some (n', VPtr next v0') | None => None end
      | _ => None
      end
    | PMakeCopy =>
      match v with
      | VSlice _ vs => Some (S next, VSlice next vs)
      | VNil => Some (S next, VSlice next [])
      | _ => None
      end
    | PMakeLoop q =>
      match v with
      | VSlice _ vs => match run_list (run F fuel q) (S next) vs with Some (n', vs') => Some (n', VSlice next vs') | None => None end
      | VNil => Some (S next, VSlice next [])
      | _ => None
      end
    | PMapLoop q =>
      match v with
      | VMap _ kvs => match run_entries (run F fuel q) (S next) kvs with Some (n', kvs') => Some (n', VMap next kvs') | None => None end
      | VNil => Some (S next, VMap next [])
      | _ => None
      end
    | PCall f => call_ (run F fuel) f next v
    | PCallIface m => match v with VIface n v0 => call_ (run F fuel) (method_name n m) next v0 | _ => None end
    end.
  Proof. reflexivity. Qed.

  (* what a run must establish *)
  Definition post (next : loc) (v : val) (res : loc * val) : Prop :=
    erase (snd res) = erase v /\ fresh next (fst res) (snd res) /\ next <= fst res.

  Lemma run_list_post (r : runner) : forall vs next res,
    (forall x n res', In x vs -> r n x = Some res' -> post n x res') ->
    run_list r next vs = Some res ->
    map erase (snd res) = map erase vs /\ Forall (in_range next (fst res)) (flat_map locs (snd res)) /\ next <= fst res.
  Proof.
    induction vs as [|x xs IH]; intros next res Hr Hrun; cbn [run_list] in Hrun.
    - injection Hrun as <-. cbn. repeat split; auto.
    - destruct (r next x) as [[n1 x']|] eqn:Hx; [|discriminate].
      destruct (run_list r n1 xs) as [[n2 xs']|] eqn:Hxs; [|discriminate].
      injection Hrun as <-. cbn [fst snd].
      destruct (Hr x next _ (or_introl eq_refl) Hx) as (He & Hf & Hle). cbn [fst snd] in *.
      destruct (IH n1 _ (fun y n res' Hy => Hr y n res' (or_intror Hy)) Hxs) as (He' & Hf' & Hle'). cbn [fst snd] in *.
      repeat split.
      + cbn [map]. congruence.
      + cbn [flat_map]. apply Forall_app. split.
        * eapply Forall_range_widen; [| |exact Hf]; lia.
        * eapply Forall_range_widen; [| |exact Hf']; lia.
      + lia.
  Qed.

  Lemma run_entries_post (r : runner) : forall kvs next res,
    (forall kv n res', In kv kvs -> r n (snd kv) = Some res' -> post n (snd kv) res') ->
    Forall (fun kv => locs (fst kv) = []) kvs ->
    run_entries r next kvs = Some res ->
    map (fun kv : val * val => let (a, b) := kv in (erase a, erase b)) (snd res) =
    map (fun kv : val * val => let (a, b) := kv in (erase a, erase b)) kvs /\
    Forall (in_range next (fst res)) (flat_map (fun kv : val * val => let (a, b) := kv in (locs a ++ locs b)%list) (snd res)) /\
    next <= fst res.
  Proof.
    induction kvs as [|[k x] xs IH]; intros next res Hr Hk Hrun; cbn [run_entries] in Hrun.
    - injection Hrun as <-. cbn. repeat split; auto.
    - destruct (r next x) as [[n1 x']|] eqn:Hx; [|discriminate].
      destruct (run_entries r n1 xs) as [[n2 xs']|] eqn:Hxs; [|discriminate].
      injection Hrun as <-. cbn [fst snd].
      destruct (Hr (k, x) next _ (or_introl eq_refl) Hx) as (He & Hf & Hle). cbn [fst snd] in *.
      inversion Hk as [|? ? Hk1 Hk2]; subst. cbn [fst] in Hk1.
      destruct (IH n1 _ (fun y n res' Hy => Hr y n res' (or_intror Hy)) Hk2 Hxs) as (He' & Hf' & Hle'). cbn [fst snd] in *.
      repeat split.
      + cbn [map]. congruence.
      + cbn [flat_map]. rewrite Hk1. cbn [app]. apply Forall_app. split.
        * eapply Forall_range_widen; [| |exact Hf]; lia.
        * eapply Forall_range_widen; [| |exact Hf']; lia.
      + lia.
  Qed.

  Lemma run_fields_post (rec : plan -> runner) : forall fs vs fps next res,
    (forall x t q n res', In x vs -> adequate E I F false t q = true -> has_kind E I x t -> rec q n x = Some res' -> post n x res') ->
    Forall2 (fun v ft => has_kind E I v (snd ft)) vs fs ->
    fields_ok E I F fs fps = true ->
    run_fields rec next vs fps = Some res ->
    map erase (snd res) = map erase vs /\ Forall (in_range next (fst res)) (flat_map locs (snd res)) /\ next <= fst res.
  Proof.
    induction fs as [|[a t] fs IH]; intros vs fps next res Hr Hk Hok Hrun.
    - inversion Hk; subst. destruct fps; [|discriminate]. cbn in Hrun. injection Hrun as <-. cbn. repeat split; auto.
    - inversion Hk as [|x ? xs ? Hx Hxs]; subst. destruct fps as [|[b q] fps]; [discriminate|].
      cbn [fields_ok] in Hok. apply andb_prop in Hok as [Hok Hok2]. apply andb_prop in Hok as [_ Hq].
      cbn [run_fields] in Hrun. cbn [snd] in Hx.
      destruct (rec q next x) as [[n1 x']|] eqn:Hrx; [|discriminate].
      destruct (run_fields rec n1 xs fps) as [[n2 xs']|] eqn:Hrxs; [|discriminate].
      injection Hrun as <-. cbn [fst snd].
      destruct (Hr x t q next _ (or_introl eq_refl) Hq Hx Hrx) as (He & Hf & Hle). cbn [fst snd] in *.
      destruct (IH xs fps n1 _ (fun y t' q' n res' Hy => Hr y t' q' n res' (or_intror Hy)) Hxs Hok2 Hrxs) as (He' & Hf' & Hle').
      cbn [fst snd] in *.
      repeat split.
      + cbn [map]. congruence.
      + cbn [flat_map]. apply Forall_app. split.
        * eapply Forall_range_widen; [| |exact Hf]; lia.
        * eapply Forall_range_widen; [| |exact Hf']; lia.
      + lia.
  Qed.

  Hypothesis table_ok : forallb (fn_ok E I F) F = true.

  Lemma fn_ok_of f b : assoc f F = Some b -> fn_ok E I F (f, b) = true.
  Proof. intro H. apply assoc_in in H. rewrite forallb_forall in table_ok. auto. Qed.

  Theorem run_sound : forall fuel p nn k next v res,
    adequate E I F nn k p = true -> has_kind E I v k -> (nn = true -> v <> VNil) ->
    run F fuel p next v = Some res -> post next v res.
  Proof.
    induction fuel as [|fuel IH]; intros p nn k next v res Ha Hk Hnn Hrun; [discriminate|].
    rewrite run_S in Hrun.
    (* the call case, shared by PCall and PCallIface *)
    assert (Hcall_plain : forall f a q n x res', assoc f F = Some (FPlain a q) -> has_kind E I x a ->
                            call_ (run F fuel) f n x = Some res' -> post n x res').
    { intros f a q n x res' Hf Hx Hc. unfold call_ in Hc. rewrite Hf in Hc.
      pose proof (fn_ok_of _ _ Hf) as Hok. unfold fn_ok in Hok. cbn [snd] in Hok.
      eapply IH; [exact Hok|exact Hx|discriminate|exact Hc]. }
    destruct p; cbn [adequate] in Ha.
    - (* PShallow *)
      injection Hrun as <-. unfold post, fresh. cbn [fst snd].
      rewrite (imm_no_locs _ _ Ha Hk). repeat split; auto.
    - discriminate.
    - (* PNilOr *)
      apply andb_prop in Ha as [_ Ha].
      destruct v; try (eapply IH; [exact Ha|exact Hk|discriminate|exact Hrun]).
      injection Hrun as <-. unfold post, fresh. cbn. repeat split; auto.
    - (* PNew *)
      apply andb_prop in Ha as [Hn Ha]. subst nn. destruct k; try discriminate.
      destruct (hk_ptr_inv _ _ Hk) as [->|(l & v0 & -> & Hv0)]; [exfalso; now apply Hnn|].
      destruct (run F fuel p (S next) v0) as [[n' v0']|] eqn:Hr; [|discriminate].
      injection Hrun as <-.
      destruct (IH _ _ _ _ _ _ Ha Hv0 (fun H => ltac:(discriminate)) Hr) as (He & Hf & Hle). cbn [fst snd] in *.
      unfold post, fresh. cbn [fst snd erase locs]. repeat split.
      + congruence.
      + constructor; [unfold in_range; lia|]. eapply Forall_range_widen; [| |exact Hf]; lia.
      + lia.
    - (* PMakeCopy *)
      apply andb_prop in Ha as [Hn Ha]. subst nn. destruct k; try discriminate.
      destruct (hk_slice_inv _ _ Hk) as [->|(l & vs & -> & Hvs)]; [exfalso; now apply Hnn|].
      injection Hrun as <-. unfold post, fresh. cbn [fst snd erase locs]. repeat split; auto.
      rewrite Forall_flat_map_nil.
      + constructor; [unfold in_range; lia|constructor].
      + eapply Forall_impl; [|eassumption]. cbn. intros. eapply imm_no_locs; eauto.
    - (* PMakeLoop *)
      apply andb_prop in Ha as [Hn Ha]. subst nn. destruct k; try discriminate.
      destruct (hk_slice_inv _ _ Hk) as [->|(l & vs & -> & Hvs)]; [exfalso; now apply Hnn|].
      destruct (run_list (run F fuel p) (S next) vs) as [[n' vs']|] eqn:Hr; [|discriminate].
      injection Hrun as <-.
      apply run_list_post in Hr.
      + destruct Hr as (He & Hf & Hle). cbn [fst snd] in *. unfold post, fresh. cbn [fst snd erase locs]. repeat split.
        * congruence.
        * constructor; [unfold in_range; lia|]. eapply Forall_range_widen; [| |exact Hf]; lia.
        * lia.
      + intros x n res' Hx Hrx. rewrite Forall_forall in Hvs.
        eapply IH; [exact Ha|apply Hvs; exact Hx|discriminate|exact Hrx].
    - (* PMapLoop *)
      apply andb_prop in Ha as [Hn Ha]. subst nn. destruct k; try discriminate.
      apply andb_prop in Ha as [Hkey Ha].
      destruct (hk_map_inv _ _ _ Hk) as [->|(l & kvs & -> & Hkvs)]; [exfalso; now apply Hnn|].
      destruct (run_entries (run F fuel p) (S next) kvs) as [[n' kvs']|] eqn:Hr; [|discriminate].
      injection Hrun as <-.
      apply run_entries_post in Hr.
      + destruct Hr as (He & Hf & Hle). cbn [fst snd] in *. unfold post, fresh. cbn [fst snd erase locs]. repeat split.
        * congruence.
        * constructor; [unfold in_range; lia|]. eapply Forall_range_widen; [| |exact Hf]; lia.
        * lia.
      + intros kv n res' Hx Hrx. rewrite Forall_forall in Hkvs.
        eapply IH; [exact Ha|apply Hkvs; exact Hx|discriminate|exact Hrx].
      + eapply Forall_impl; [|eassumption]. cbn. intros kv [Hkk _]. eapply imm_no_locs; eauto.
    - (* PCall *)
      unfold fn_accepts in Ha. destruct (assoc f F) as [[a q|n fps|? ? ?]|] eqn:Hf; try discriminate.
      + apply ty_eqb_eq in Ha. subst a. eapply Hcall_plain; eauto.
      + apply ty_eqb_eq in Ha. subst k.
        pose proof (fn_ok_of _ _ Hf) as Hok. unfold fn_ok in Hok. cbn [snd] in Hok.
        destruct (assoc n E) as [[fs|?]|] eqn:Hn; try discriminate.
        unfold call_ in Hrun. rewrite Hf in Hrun.
        destruct (hk_named_inv _ _ Hk) as [(fs' & vs & -> & Hn' & Hfs)|(t & Hn' & _)]; [|congruence].
        rewrite Hn in Hn'. injection Hn' as <-.
        destruct (run_fields (run F fuel) next vs fps) as [[n' vs']|] eqn:Hr; [|discriminate].
        injection Hrun as <-.
        eapply run_fields_post in Hr; [| |exact Hfs|exact Hok].
        * destruct Hr as (He & Hfr & Hle). cbn [fst snd] in *. unfold post, fresh. cbn [fst snd erase locs].
          repeat split; [congruence|exact Hfr|exact Hle].
        * intros x t q n0 res' _ Hq Hx Hrx. eapply IH; [exact Hq|exact Hx|discriminate|exact Hrx].
    - (* PCallIface *)
      apply andb_prop in Ha as [Hn Ha]. subst nn. destruct k; try discriminate.
      destruct (hk_iface_inv _ _ Hk) as [->|(impls & n & l & v0 & -> & Hi & Hin & Hp)]; [exfalso; now apply Hnn|].
      rewrite Hi in Ha. rewrite forallb_forall in Ha. specialize (Ha _ Hin).
      unfold impl_has in Ha.
      destruct (assoc (method_name n m) F) as [[?|? ?|n' i' q]|] eqn:Hf; try discriminate.
      apply andb_prop in Ha as [Hn1 Hn2]. apply String.eqb_eq in Hn1. apply String.eqb_eq in Hn2. subst n' i'.
      pose proof (fn_ok_of _ _ Hf) as Hok. unfold fn_ok in Hok. cbn [snd] in Hok.
      apply andb_prop in Hok as [Hq _].
      unfold call_ in Hrun. rewrite Hf in Hrun.
      destruct (run F fuel q next (VPtr l v0)) as [[n' v']|] eqn:Hr; [|discriminate].
      destruct (IH _ _ _ _ _ _ Hq Hp (fun H => ltac:(discriminate)) Hr) as (He & Hfr & Hle). cbn [fst snd] in *.
      cbn [erase] in He.
      destruct v'; cbn [erase] in He; try discriminate.
      injection Hrun as <-. unfold post, fresh. cbn [fst snd erase locs].
      repeat split; [cbn [erase]; congruence|exact Hfr|exact Hle].
  Qed.

  (* ---- the property, in the words of DESIGN.md 8.3 *)
  Theorem plan_sound : forall fuel p k next v next' v',
    adequate E I F false k p = true -> has_kind E I v k ->
    Forall (fun l => l < next) (locs v) ->
    run F fuel p next v = Some (next', v') ->
    erase v' = erase v /\ Forall (fun l => next <= l < next') (locs v') /\
    (forall l, In l (locs v') -> ~ In l (locs v)).
  Proof.
    intros fuel p k next v next' v' Ha Hk Hold Hrun.
    destruct (run_sound _ _ _ _ _ _ _ Ha Hk (fun H => ltac:(discriminate)) Hrun) as (He & Hf & _).
    cbn [fst snd] in *. repeat split; [exact He|exact Hf|].
    intros l Hl Hl'. unfold fresh in Hf. rewrite Forall_forall in Hf, Hold.
    specialize (Hf _ Hl). specialize (Hold _ Hl'). unfold in_range in Hf. lia.
  Qed.

  (* independence as observation: a write through any location of the copy leaves the original as it was, and a write
     through any location of the original leaves the copy as it was *)
  Corollary copy_independent : forall fuel p k next v next' v',
    adequate E I F false k p = true -> has_kind E I v k ->
    Forall (fun l => l < next) (locs v) ->
    run F fuel p next v = Some (next', v') ->
    (forall l w, In l (locs v') -> poke l w v = v) /\
    (forall l w, In l (locs v) -> poke l w v' = v').
  Proof.
    intros fuel p k next v next' v' Ha Hk Hold Hrun.
    destruct (plan_sound _ _ _ _ _ _ _ Ha Hk Hold Hrun) as (_ & _ & Hd).
    split; intros l w Hl; apply poke_unreached; intro Hl'; eapply Hd; eauto.
  Qed.

  (* the root operation: T.DeepCopy() on a pointer to a T *)
  Corollary root_copy_sound : forall r fuel next v next' v',
    root_ok F r = true -> has_kind E I v (TPtr (TNamed r)) ->
    Forall (fun l => l < next) (locs v) ->
    run F fuel (PCall (method_name r "DeepCopy")) next v = Some (next', v') ->
    erase v' = erase v /\ Forall (fun l => next <= l < next') (locs v') /\
    (forall l, In l (locs v') -> ~ In l (locs v)) /\
    (forall l w, In l (locs v') -> poke l w v = v) /\
    (forall l w, In l (locs v) -> poke l w v' = v').
  Proof.
    intros r fuel next v next' v' Hr Hk Hold Hrun.
    assert (Ha : adequate E I F false (TPtr (TNamed r)) (PCall (method_name r "DeepCopy")) = true).
    { cbn [adequate]. unfold fn_accepts. unfold root_ok in Hr.
      destruct (assoc (method_name r "DeepCopy") F) as [[a q|? ?|? ? ?]|]; try discriminate. exact Hr. }
    destruct (plan_sound _ _ _ _ _ _ _ Ha Hk Hold Hrun) as (He & Hf & Hd).
    destruct (copy_independent _ _ _ _ _ _ _ Ha Hk Hold Hrun) as (H1 & H2).
    repeat split; assumption.
  Qed.
End Sound.

(* ---------------------------------------------------------------- has_kind_b is a sound checker for has_kind *)
Section KindB.
  Variables (E : tyenv) (I : ifenv).

  Lemma has_kind_b_sound : forall fuel v k, has_kind_b E I fuel v k = true -> has_kind E I v k.
  Proof.
    induction fuel as [|fuel IH]; intros v k H; [discriminate|].
    cbn [has_kind_b] in H. destruct k.
    - destruct v; try discriminate. constructor.
    - destruct v; try discriminate. constructor.
    - destruct v; try discriminate; constructor. auto.
    - destruct v; try discriminate; constructor.
      rewrite forallb_forall in H. apply Forall_forall. auto.
    - destruct v; try discriminate. apply andb_prop in H as [H1 H2]. apply Nat.eqb_eq in H1.
      constructor; [assumption|]. rewrite forallb_forall in H2. apply Forall_forall. auto.
    - destruct v; try discriminate; constructor.
      rewrite forallb_forall in H. apply Forall_forall. intros kv Hkv. specialize (H _ Hkv).
      apply andb_prop in H as [H1 H2]. auto.
    - destruct v; try discriminate; [constructor|].
      destruct v; try discriminate.
      destruct (assoc i I) as [impls|] eqn:Hi; [|discriminate].
      apply andb_prop in H as [H1 H2]. apply existsb_eqb_in in H1.
      econstructor; eauto.
    - destruct (assoc n E) as [[fs|t]|] eqn:Hn; [| |discriminate].
      + destruct v; try discriminate. eapply HK_struct; [eassumption|].
        revert fs0 H. clear Hn. induction fs as [|[a t] fs IHfs]; intros vs H.
        * destruct vs; [constructor|discriminate].
        * destruct vs as [|x vs]; [discriminate|]. apply andb_prop in H as [H1 H2].
          constructor; [cbn; auto|auto].
      + eapply HK_alias; eauto.
  Qed.
End KindB.

(* ---------------------------------------------------------------- the table regenerated from /repo *)
From GCNP Require Import gen.DeepCopy_gen.

(* the obligation that a stale generated file (a field added without regeneration) or a hand edit (a `copy` removed,
   an aliasing assignment, a missing nil guard) breaks; finite computation over the 174 functions of the table *)
Lemma dc_table_adequate : table_adequate dc_env dc_ifaces dc_funcs dc_roots = true.
Proof. vm_compute. reflexivity. Qed.

Lemma dc_table_ok : forallb (fn_ok dc_env dc_ifaces dc_funcs) dc_funcs = true.
Proof. pose proof dc_table_adequate as H. unfold table_adequate in H. apply andb_prop in H as [H _]. exact H. Qed.

Lemma dc_roots_ok : forall r, In r dc_roots -> root_ok dc_funcs r = true.
Proof.
  pose proof dc_table_adequate as H. unfold table_adequate in H. apply andb_prop in H as [_ H].
  rewrite forallb_forall in H. exact H.
Qed.

(* every type with a deep-copy operation: T.DeepCopy() *)
Theorem dc_root_copy : forall r, In r dc_roots -> forall fuel next v next' v',
  has_kind dc_env dc_ifaces v (TPtr (TNamed r)) ->
  Forall (fun l => l < next) (locs v) ->
  run dc_funcs fuel (PCall (method_name r "DeepCopy")) next v = Some (next', v') ->
  erase v' = erase v /\ Forall (fun l => next <= l < next') (locs v') /\
  (forall l, In l (locs v') -> ~ In l (locs v)) /\
  (forall l w, In l (locs v') -> poke l w v = v) /\
  (forall l w, In l (locs v) -> poke l w v' = v').
Proof.
  intros r Hr fuel next v next' v' Hk Hold Hrun.
  eapply root_copy_sound; eauto using dc_table_ok, dc_roots_ok.
Qed.

(* T.DeepCopyInto(out): the struct value written to *out *)
Theorem dc_into_copy : forall f n fps, assoc f dc_funcs = Some (FStruct n fps) -> forall fuel next v next' v',
  has_kind dc_env dc_ifaces v (TNamed n) ->
  Forall (fun l => l < next) (locs v) ->
  run dc_funcs fuel (PCall f) next v = Some (next', v') ->
  erase v' = erase v /\ Forall (fun l => next <= l < next') (locs v') /\
  (forall l, In l (locs v') -> ~ In l (locs v)).
Proof.
  intros f n fps Hf fuel next v next' v' Hk Hold Hrun.
  eapply plan_sound; [exact dc_table_ok| |exact Hk|exact Hold|exact Hrun].
  cbn [adequate]. unfold fn_accepts. rewrite Hf. cbn [ty_eqb]. apply String.eqb_refl.
Qed.

(* x.DeepCopyMessage() / x.DeepCopyDataType() on an interface value, as the generated code calls it (nil-guarded) *)
Theorem dc_iface_copy : forall i m, In (i, m) [("message.Message", "DeepCopyMessage"); ("datatype.DataType", "DeepCopyDataType")]%string ->
  forall fuel next v next' v',
  has_kind dc_env dc_ifaces v (TIface i) ->
  Forall (fun l => l < next) (locs v) ->
  run dc_funcs fuel (PNilOr (PCallIface m)) next v = Some (next', v') ->
  erase v' = erase v /\ Forall (fun l => next <= l < next') (locs v') /\
  (forall l, In l (locs v') -> ~ In l (locs v)).
Proof.
  intros i m Him fuel next v next' v' Hk Hold Hrun.
  eapply plan_sound; [exact dc_table_ok| |exact Hk|exact Hold|exact Hrun].
  cbn in Him. destruct Him as [[= <- <-]|[[= <- <-]|[]]]; vm_compute; reflexivity.
Qed.

(* The one place where the generated code does not preserve equality: a typed nil pointer stored in an interface.
   `func (in *T) DeepCopyMessage() Message { if c := in.DeepCopy(); c != nil { return c }; return nil }` returns the
   UNTYPED nil interface for a nil *T.  This is why has_kind requires interface values to hold non-nil pointers. *)
Lemma dc_typed_nil_interface_refuted :
  exists v res, run dc_funcs 8 (PNilOr (PCallIface "DeepCopyMessage")) 0 v = Some res /\
                v = VIface "message.Ready" VNil /\ erase (snd res) <> erase v.
Proof.
  exists (VIface "message.Ready" VNil). eexists. split; [vm_compute; reflexivity|]. split; [reflexivity|]. cbn. discriminate.
Qed.
