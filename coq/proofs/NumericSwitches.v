(* C13, part 3: the convertTo* / convertFrom* type switches of the integer CQL types and of varint.
   Subject: gen/Numeric_gen.v (tables [to_switches], [from_switches]; convertToBigInt, convertFromBigInt). *)
From Coq Require Import ZArith List String Bool Lia.
From Coq Require Import ZifyBool.
From GCNP Require Import base.GoInt base.GoNum gen.Numeric_gen proofs.NumericBase.
Import ListNotations.
Open Scope Z_scope.
Ltac Zify.zify_post_hook ::= Z.div_mod_to_equations.

(* Contract of the string oracles: [dec s] is the integer a decimal string denotes (None: not a number).
   strconv.ParseInt(s, 10, bits) succeeds only with the denoted integer and only if it fits in [bits] bits;
   FormatInt / Text print a string that denotes the integer printed; SetString succeeds only with the denoted integer. *)

Record oracle_contract (O : oracles) (dec : string -> option Z) : Prop := {
  oc_ParseInt : forall s bits v, o_ParseInt O s 10 bits = Ok v -> dec s = Some v /\ in_i bits v = true;
  oc_FormatInt : forall v, dec (o_FormatInt O v 10) = Some v;
  oc_BigSetString : forall s v, o_BigSetString O s 10 = (v, true) -> dec s = Some v;
  oc_BigText : forall v, dec (o_BigText O v 10) = Some v
}.

Definition gv_math (dec : string -> option Z) (g : goval) : option Z :=
  match gv_int g with
  | Some v => Some v
  | None => match gv_str g with Some s => dec s | None => None end
  end.

Definition to_switch_exact (O : oracles) (dec : string -> option Z) (r : zrange) (f : goval -> result (Z * bool)) : Prop :=
  forall g, gv_wf g = true ->
  match f g with
  | Ok (v, wasNil) => wasNil = gv_isnil g /\ in_range r v = true /\ (wasNil = false -> gv_math dec g = Some v)
  | Err => True
  end.

Ltac red_sw := cbv beta iota zeta delta [res_split ret_res unopt isNone is_ok fst snd gv_isnil gv_math gv_int gv_str gv_wf opt_in in_range] in *; cbn [negb] in *.

Ltac finish_int := norm_int; repeat split; try discriminate; try assumption;
  try (intros; match goal with H : ?l = Some _ |- ?l = Some _ => rewrite H; f_equal; lia end);
  try (intros; f_equal); try assumption; try lia.

Ltac solve_to O dec HC :=
  let g := fresh "g" in let Hwf := fresh "Hwf" in
  unfold to_switch_exact; intros g Hwf;
  destruct g as [v|v|v|v|v|v|v|v|v|v|s|b|b|v|f|t|v|p|p|p|p|p|p|p|p|p|p|p|p|p|p|p|p|p| |];
  try (destruct p as [v|]);
  autounfold with gonum; red_sw;
  try match goal with
  | |- context [o_ParseInt O ?s 10 ?bits] =>
      let E := fresh "E" in destruct (o_ParseInt O s 10 bits) as [pv|] eqn:E; red_sw;
      [ destruct (oc_ParseInt O dec HC _ _ _ E) as [? ?] | ]
  end;
  split_ifs; finish_int.


Definition from_switch_exact (O : oracles) (dec : string -> option Z) (r : zrange) (f : Z -> bool -> godst -> result (option goval)) : Prop :=
  forall val wasNull d, in_range r val = true ->
  match f val wasNull d with
  | Ok st => dst_isnil d = false /\ d <> D_other /\
             (wasNull = false -> exists g, st = Some g /\ gv_wf g = true /\ gv_math dec g = Some val)
  | Err => True
  end /\ (dst_isnil d = true -> f val wasNull d = Err).

Ltac solve_from O dec HC :=
  let val := fresh "val" in let wn := fresh "wn" in let d := fresh "d" in let Hr := fresh "Hr" in
  unfold from_switch_exact; intros val wn d Hr;
  destruct d as [n|n|n|n|n|n|n|n|n|n|n|n|n|n|n|n|n|n|]; try destruct n; destruct wn;
  autounfold with gonum; cbv beta iota zeta delta [res_split ret_res unopt isNone is_ok fst snd dst_isnil in_range] in *; cbn [negb] in *;
  split_ifs; cbv beta iota zeta delta [res_split ret_res unopt isNone is_ok fst snd dst_isnil in_range] in *; cbn [negb] in *;
  (split; [ | try discriminate; try reflexivity ]);
  try exact I;
  try (split; [reflexivity | split; [discriminate | intro; try discriminate ]]);
  try (eexists; split; [reflexivity | split; [ red_sw; finish_int | red_sw; try rewrite (oc_FormatInt O dec HC); try rewrite (oc_BigText O dec HC); try (f_equal; finish_int) ] ]).


(* a sized Go integer (value or non-nil pointer) *)
Definition gv_sized (g : goval) : option Z :=
  match g with G_bigint _ | G_pbigint _ => None | _ => gv_int g end.

Definition to_switch_complete (r : zrange) (f : goval -> result (Z * bool)) : Prop :=
  forall g x, gv_wf g = true -> gv_sized g = Some x -> in_range r x = true -> f g = Ok (x, false).

Ltac solve_to_complete :=
  let g := fresh "g" in let x := fresh "x" in let Hwf := fresh "Hwf" in let Hs := fresh "Hs" in let Hr := fresh "Hr" in
  unfold to_switch_complete; intros g x Hwf Hs Hr;
  destruct g as [v|v|v|v|v|v|v|v|v|v|s|b|b|v|f|t|v|p|p|p|p|p|p|p|p|p|p|p|p|p|p|p|p|p| |];
  try (destruct p as [v|]); cbv beta iota delta [gv_sized gv_int] in Hs; try discriminate Hs;
  injection Hs as ->;
  autounfold with gonum; red_sw; split_ifs; red_sw; try discriminate; norm_int; try (f_equal; f_equal); try lia.

(* nil pointers of every accepted type, and the untyped nil, are NULL and never an error *)
Definition accepted_nils : list goval :=
  [G_pint None; G_pint64 None; G_pint32 None; G_pint16 None; G_pint8 None;
   G_puint None; G_puint64 None; G_puint32 None; G_puint16 None; G_puint8 None; G_pstring None; G_nil].

Definition to_switch_ok (O : oracles) (dec : string -> option Z) (r : zrange) (f : goval -> result (Z * bool)) : Prop :=
  to_switch_exact O dec r f /\ to_switch_complete r f /\ f G_other = Err /\ Forall (fun g => f g = Ok (0, true)) accepted_nils.

Lemma to_switches_Forall O dec : oracle_contract O dec ->
  Forall (fun e => match e with (_, r, f) => to_switch_ok O dec r f end) (to_switches O).
Proof.
  intro HC. unfold to_switches.
  repeat (apply Forall_cons; [ split; [ solve [solve_to O dec HC] | split; [ solve [solve_to_complete] | split; [ reflexivity | repeat constructor ] ] ] | ]).
  apply Forall_nil.
Qed.

Lemma from_switches_Forall O dec : oracle_contract O dec ->
  Forall (fun e => match e with (_, r, f) => from_switch_exact O dec r f /\ (forall v n, f v n D_other = Err) end) (from_switches O).
Proof.
  intro HC. unfold from_switches.
  repeat (apply Forall_cons; [ split; [ solve [solve_from O dec HC] | reflexivity ] | ]).
  apply Forall_nil.
Qed.

Theorem to_switches_exact O dec : oracle_contract O dec ->
  forall n r f, In (n, r, f) (to_switches O) -> to_switch_ok O dec r f.
Proof. intros HC n r f H. pose proof (to_switches_Forall O dec HC) as F. rewrite Forall_forall in F. exact (F _ H). Qed.

Theorem from_switches_exact O dec : oracle_contract O dec ->
  forall n r f, In (n, r, f) (from_switches O) -> from_switch_exact O dec r f /\ (forall v w, f v w D_other = Err).
Proof. intros HC n r f H. pose proof (from_switches_Forall O dec HC) as F. rewrite Forall_forall in F. exact (F _ H). Qed.

(* varint: the *big.Int switch *)
Definition to_bigint_exact (O : oracles) (dec : string -> option Z) : Prop :=
  forall g, gv_wf g = true ->
  match convertToBigInt O g with
  | Ok (Some v) => gv_isnil g = false /\ gv_math dec g = Some v
  | Ok None => gv_isnil g = true
  | Err => True
  end.

Theorem convertToBigInt_exact O dec : oracle_contract O dec -> to_bigint_exact O dec /\ convertToBigInt O G_other = Err.
Proof.
  intro HC. split; [|reflexivity].
  unfold to_bigint_exact. intros g Hwf.
  destruct g as [v|v|v|v|v|v|v|v|v|v|s|b|b|v|f|t|v|p|p|p|p|p|p|p|p|p|p|p|p|p|p|p|p|p| |];
  try (destruct p as [v|]);
  autounfold with gonum; red_sw;
  try match goal with
  | |- context [o_BigSetString O ?s 10] =>
      let E := fresh "E" in destruct (o_BigSetString O s 10) as [pv [|]] eqn:E; red_sw;
      [ pose proof (oc_BigSetString O dec HC _ _ E) | ]
  end;
  split_ifs; finish_int; try reflexivity; try assumption.
Qed.

Theorem convertFromBigInt_exact O dec : oracle_contract O dec ->
  from_switch_exact O dec RAny (convertFromBigInt O) /\ (forall v w, convertFromBigInt O v w D_other = Err).
Proof.
  intro HC. split; [|reflexivity].
  solve_from O dec HC.
Qed.

(* nil pointers of every accepted type and the untyped nil: NULL (no *big.Int), no error *)
Theorem convertToBigInt_nils O : Forall (fun g => convertToBigInt O g = Ok None) (G_pbigint None :: accepted_nils).
Proof. repeat constructor. Qed.

(* ---------- non-vacuity: the contract is satisfiable (decimal strings of the standard library), and concrete runs ---------- *)
From Coq Require Import DecimalString DecimalZ DecimalPos Decimal.
Definition dec10 (s : string) : option Z := option_map Z.of_int (NilZero.int_of_string s).
Definition fmt10 (v : Z) : string := NilZero.string_of_int (Z.to_int v).
Lemma dec_fmt v : dec10 (fmt10 v) = Some v.
Proof.
  unfold dec10, fmt10. rewrite NilZero.isi.
  - cbn. rewrite DecimalZ.of_to. reflexivity.
  - destruct v; cbn; try discriminate. intro H. injection H as H. exact (Unsigned.to_uint_nonnil _ H).
  - destruct v; cbn; try discriminate. intro H. injection H as H. exact (Unsigned.to_uint_nonnil _ H).
Qed.

Definition O10 : oracles := {|
  o_ParseInt := fun s base bits => match dec10 s with Some v => if in_i bits v then Ok v else Err | None => Err end;
  o_FormatInt := fun v base => fmt10 v;
  o_BigSetString := fun s base => match dec10 s with Some v => (v, true) | None => (0, false) end;
  o_BigText := fun v base => fmt10 v;
  o_f64_to_f32 := fun x => x; o_f32_to_f64 := fun x => x; o_f64_eqb := Z.eqb; o_f64_isnan := fun _ => false;
  o_BigFloat_Float64 := fun f => (0, 0); o_BigFloat_SetFloat64 := fun p x => ((0, 0), 0);
  o_TimeParse := fun _ _ => Err; o_TimeFormat := fun _ _ => ""%string
|}.

Example contract_satisfiable : oracle_contract O10 dec10.
Proof.
  split; cbn.
  - intros s bits v. destruct (dec10 s) as [w|]; [|discriminate]. destruct (in_i bits w) eqn:E; [|discriminate].
    intro H. injection H as <-. split; [reflexivity|exact E].
  - apply dec_fmt.
  - intros s v. destruct (dec10 s) as [w|]; intro H; inversion H; reflexivity.
  - apply dec_fmt.
Qed.

Example switch_examples :
  convertToInt16 O10 (G_int64 32767) = Ok (32767, false) /\ convertToInt16 O10 (G_int64 32768) = Err /\
  convertToInt16 O10 (G_string "-32768") = Ok (-32768, false) /\ convertToInt16 O10 (G_string "32768") = Err /\
  convertToInt64 O10 (G_puint64 (Some 9223372036854775808)) = Err /\ convertToInt64 O10 (G_pint8 None) = Ok (0, true) /\
  convertToInt64 O10 (G_float64 0) = Err /\
  convertFromInt64 O10 4294967301 false (D_pint32 false) = Err /\
  convertFromInt64 O10 (-5) false (D_puint64 false) = Err /\
  convertFromInt64 O10 300 false (D_pint16 false) = Ok (Some (G_int16 300)) /\
  convertFromInt64 O10 300 false (D_pstring false) = Ok (Some (G_string "300")) /\
  convertFromInt64 O10 300 false (D_pint16 true) = Err /\
  convertToBigInt O10 (G_string "340282366920938463463374607431768211456") = Ok (Some 340282366920938463463374607431768211456) /\
  convertFromBigInt O10 18446744073709551616 false (D_puint64 false) = Err /\
  (List.length (to_switches O10) = 4)%nat /\ (List.length (from_switches O10) = 4)%nat.
Proof. repeat split; vm_compute; reflexivity. Qed.
