(* Round-trip, length and no-panic lemmas for the primitive notations (model/Prim.v). *)
From Coq Require Import ZArith List Bool Lia.
From Coq Require Import ZifyBool ZifyNat.
From GCNP Require Import base.GoInt base.Bytes base.Codec gen.Constants_gen model.Prim.
Import ListNotations.
Open Scope Z_scope.
Ltac Zify.zify_post_hook ::= Z.div_mod_to_equations.

(* ---------- arithmetic facts about wrap ---------- *)
Lemma wrap_u_id b x : 0 <= b -> 0 <= x < 2 ^ b -> wrap_u b x = x.
Proof. intros Hb H. unfold wrap_u. apply Z.mod_small. exact H. Qed.

Lemma wrap_i_wrap_u32 x : -2147483648 <= x < 2147483648 -> wrap_i 32 (x mod 256 ^ 4) = x.
Proof. intro H. unfold wrap_i. change (256 ^ 4) with 4294967296. change (2 ^ (32 - 1)) with 2147483648. change (2 ^ 32) with 4294967296. lia. Qed.
Lemma wrap_i_wrap_u64 x : -9223372036854775808 <= x < 9223372036854775808 -> wrap_i 64 (x mod 256 ^ 8) = x.
Proof. intro H. unfold wrap_i. change (256 ^ 8) with 18446744073709551616. change (2 ^ (64 - 1)) with 9223372036854775808. change (2 ^ 64) with 18446744073709551616. lia. Qed.
Lemma wrap_i32_small x : -2147483648 <= x < 2147483648 -> wrap_i 32 x = x.
Proof. intro H. unfold wrap_i. change (2 ^ (32 - 1)) with 2147483648. change (2 ^ 32) with 4294967296. lia. Qed.
Lemma wrap_u16_small x : 0 <= x < 65536 -> wrap_u 16 x = x.
Proof. intro H. unfold wrap_u. change (2 ^ 16) with 65536. lia. Qed.

Definition in_i32 (x : Z) : Prop := -2147483648 <= x < 2147483648.
Definition in_i64 (x : Z) : Prop := -9223372036854775808 <= x < 9223372036854775808.
Definition in_u16 (x : Z) : Prop := 0 <= x < 65536.
Definition in_u8 (x : Z) : Prop := 0 <= x < 256.

(* ---------- integers ---------- *)
Lemma read_byte_app x rest : in_u8 x -> read_byte (be_bytes 1 x ++ rest) = DOk x rest.
Proof. intro H. unfold read_byte. rewrite read_be_app. f_equal. unfold in_u8 in H. change (256 ^ Z.of_nat 1) with 256. lia. Qed.
Lemma read_short_app x rest : in_u16 x -> read_short (be_bytes 2 x ++ rest) = DOk x rest.
Proof. intro H. unfold read_short. rewrite read_be_app. f_equal. unfold in_u16 in H. change (256 ^ Z.of_nat 2) with 65536. lia. Qed.
Lemma read_int_app x rest : in_i32 x -> read_int (be_bytes 4 x ++ rest) = DOk x rest.
Proof. intro H. unfold read_int, rmap, bind. rewrite read_be_app. unfold ret. f_equal. apply wrap_i_wrap_u32. exact H. Qed.
Lemma read_long_app x rest : in_i64 x -> read_long (be_bytes 8 x ++ rest) = DOk x rest.
Proof. intro H. unfold read_long, rmap, bind. rewrite read_be_app. unfold ret. f_equal. apply wrap_i_wrap_u64. exact H. Qed.

(* ---------- [string] ---------- *)
Definition enc_string (s : bytes) : bytes := be_bytes 2 (zlen s) ++ s.
Lemma write_string_ok s : zlen s <= 65535 -> write_string s = Ok (enc_string s).
Proof. intro H. unfold write_string, write_short, enc_string. pose proof (zlen_nonneg s). rewrite wrap_u16_small by lia. reflexivity. Qed.
Lemma read_string_app s rest : zlen s <= 65535 -> read_string (enc_string s ++ rest) = DOk s rest.
Proof.
  intro H. pose proof (zlen_nonneg s). unfold read_string, enc_string. rewrite <- app_assoc.
  unfold bind. rewrite read_short_app by (unfold in_u16; lia).
  destruct (Z.leb_spec (zlen s) 0).
  - assert (s = []) as -> by (destruct s; [reflexivity|rewrite zlen_cons in *; pose proof (zlen_nonneg s); lia]). reflexivity.
  - apply read_raw_app.
Qed.
Lemma enc_string_len s : zlen (enc_string s) = len_string s.
Proof. unfold enc_string, len_string, LengthOfShort. rewrite zlen_app, be_bytes_zlen. lia. Qed.
Lemma enc_string_nonempty s : (1 <= length (enc_string s))%nat.
Proof. unfold enc_string. rewrite app_length, be_bytes_length. lia. Qed.

(* ---------- [long string] ---------- *)
Definition enc_long_string (s : bytes) : bytes := be_bytes 4 (zlen s) ++ s.
Lemma write_long_string_ok s : zlen s <= 2147483647 -> write_long_string s = Ok (enc_long_string s).
Proof. intro H. unfold write_long_string, write_int, enc_long_string. pose proof (zlen_nonneg s). rewrite wrap_i32_small by lia. reflexivity. Qed.
Lemma read_long_string_app s rest : zlen s <= 2147483647 -> read_long_string (enc_long_string s ++ rest) = DOk s rest.
Proof.
  intro H. pose proof (zlen_nonneg s). unfold read_long_string, enc_long_string. rewrite <- app_assoc.
  unfold bind. rewrite read_int_app by (unfold in_i32; lia).
  destruct (Z.leb_spec (zlen s) 0).
  - assert (s = []) as -> by (destruct s; [reflexivity|rewrite zlen_cons in *; pose proof (zlen_nonneg s); lia]). reflexivity.
  - apply read_raw_app.
Qed.
Lemma enc_long_string_len s : zlen (enc_long_string s) = len_long_string s.
Proof. unfold enc_long_string, len_long_string, LengthOfInt. rewrite zlen_app, be_bytes_zlen. lia. Qed.

(* ---------- [bytes] ---------- *)
Definition enc_bytes (b : option bytes) : bytes :=
  match b with None => be_bytes 4 (-1) | Some b => be_bytes 4 (zlen b) ++ b end.
Definition bytes_small (b : option bytes) : Prop := zlen (olist b) <= 2147483647.
Lemma write_bytes_ok b : bytes_small b -> write_bytes b = Ok (enc_bytes b).
Proof.
  intro H. destruct b as [b|]; cbn [write_bytes enc_bytes]; [|reflexivity].
  unfold write_int. unfold bytes_small in H. cbn [olist] in H. pose proof (zlen_nonneg b). rewrite wrap_i32_small by lia. reflexivity.
Qed.
Lemma read_bytes_app b rest : bytes_small b -> read_bytes (enc_bytes b ++ rest) = DOk b rest.
Proof.
  intro H. unfold read_bytes. destruct b as [b|]; cbn [enc_bytes].
  - unfold bytes_small in H. cbn [olist] in H. pose proof (zlen_nonneg b). rewrite <- app_assoc. unfold bind.
    rewrite read_int_app by (unfold in_i32; lia).
    destruct (Z.ltb_spec (zlen b) 0); [lia|].
    destruct (Z.eqb_spec (zlen b) 0) as [E|E].
    + assert (b = []) as -> by (destruct b; [reflexivity|rewrite zlen_cons in *; pose proof (zlen_nonneg b); lia]). reflexivity.
    + unfold rmap, bind. rewrite read_raw_app. reflexivity.
  - unfold bind. rewrite read_int_app by (unfold in_i32; lia). reflexivity.
Qed.
Lemma enc_bytes_len b : zlen (enc_bytes b) = len_bytes b.
Proof. destruct b as [b|]; unfold enc_bytes, len_bytes, LengthOfInt; cbn [olist]; rewrite ?zlen_app, be_bytes_zlen; cbn; lia. Qed.

(* ---------- [short bytes]: nil decodes as empty ---------- *)
Definition enc_short_bytes (b : option bytes) : bytes := be_bytes 2 (zlen (olist b)) ++ olist b.
Lemma write_short_bytes_ok b : zlen (olist b) <= 65535 -> write_short_bytes b = Ok (enc_short_bytes b).
Proof. intro H. unfold write_short_bytes, write_short, enc_short_bytes. pose proof (zlen_nonneg (olist b)). rewrite wrap_u16_small by lia. reflexivity. Qed.
Lemma read_short_bytes_app b rest : zlen (olist b) <= 65535 -> read_short_bytes (enc_short_bytes b ++ rest) = DOk (Some (olist b)) rest.
Proof.
  intro H. pose proof (zlen_nonneg (olist b)). unfold read_short_bytes, enc_short_bytes. rewrite <- app_assoc.
  unfold bind. rewrite read_short_app by (unfold in_u16; lia).
  destruct (Z.ltb_spec (zlen (olist b)) 0); [lia|].
  destruct (Z.eqb_spec (zlen (olist b)) 0) as [E|E].
  - assert (olist b = []) as -> by (destruct (olist b) as [|x l]; [reflexivity|rewrite zlen_cons in *; pose proof (zlen_nonneg l); lia]). reflexivity.
  - unfold rmap, bind. rewrite read_raw_app. reflexivity.
Qed.
Lemma enc_short_bytes_len b : zlen (enc_short_bytes b) = len_short_bytes b.
Proof. unfold enc_short_bytes, len_short_bytes, LengthOfShort. rewrite zlen_app, be_bytes_zlen. lia. Qed.

(* ---------- [string list] ---------- *)
Definition strings_small (l : list bytes) : Prop := Forall (fun s => zlen s <= 65535) l.
Definition enc_string_list (l : list bytes) : bytes := be_bytes 2 (zlen l) ++ concat (map enc_string l).
Lemma write_string_list_ok l : zlen l <= 65535 -> strings_small l -> write_string_list l = Ok (enc_string_list l).
Proof.
  intros H Hs. unfold write_string_list, write_short, enc_string_list. pose proof (zlen_nonneg l).
  rewrite wrap_u16_small by lia.
  rewrite (wlist_ok write_string enc_string); [reflexivity|].
  intros x Hx. apply write_string_ok. unfold strings_small in Hs. rewrite Forall_forall in Hs. apply Hs; exact Hx.
Qed.
Lemma read_string_list_app l rest : zlen l <= 65535 -> strings_small l ->
  read_string_list (enc_string_list l ++ rest) = DOk l rest.
Proof.
  intros H Hs. pose proof (zlen_nonneg l). unfold read_string_list, enc_string_list. rewrite <- app_assoc.
  unfold bind. rewrite read_short_app by (unfold in_u16; lia).
  rewrite (read_count_app enc_string read_string (fun s => s)).
  - rewrite map_id. reflexivity.
  - intros x r Hx. apply read_string_app. unfold strings_small in Hs. rewrite Forall_forall in Hs. apply Hs; exact Hx.
  - intros x _. apply enc_string_nonempty.
Qed.
Lemma enc_string_list_len l : zlen (enc_string_list l) = len_string_list l.
Proof.
  unfold enc_string_list, len_string_list, LengthOfShort. rewrite zlen_app, be_bytes_zlen.
  f_equal. induction l as [|s l IH]; cbn [map concat fold_right]; [reflexivity|].
  rewrite zlen_app, enc_string_len, IH. reflexivity.
Qed.

(* ---------- generic maps with [string] keys ---------- *)
Section KeyedMap.
  Context {V : Type} (encv : V -> bytes) (wv : V -> W) (rv : R V) (lenv : V -> Z) (okv : V -> Prop).
  Hypothesis wv_ok : forall v, okv v -> wv v = Ok (encv v).
  Hypothesis rv_app : forall v rest, okv v -> rv (encv v ++ rest) = DOk v rest.
  Hypothesis encv_len : forall v, zlen (encv v) = lenv v.

  Definition map_small (m : list (bytes * V)) : Prop := Forall (fun kv => zlen (fst kv) <= 65535 /\ okv (snd kv)) m.
  Definition enc_entry (kv : bytes * V) : bytes := enc_string (fst kv) ++ encv (snd kv).
  Definition enc_map (m : list (bytes * V)) : bytes := be_bytes 2 (zlen m) ++ concat (map enc_entry m).

  Lemma write_map_ok m : zlen m <= 65535 -> map_small m ->
    write_short (wrap_u 16 (zlen m)) +++ wlist (fun kv => write_string (fst kv) +++ wv (snd kv)) m = Ok (enc_map m).
  Proof.
    intros H Hs. unfold write_short, enc_map. pose proof (zlen_nonneg m). rewrite wrap_u16_small by lia.
    rewrite (wlist_ok _ enc_entry); [reflexivity|].
    intros [k v] Hx. unfold map_small in Hs. rewrite Forall_forall in Hs. destruct (Hs _ Hx) as [Hk Hv].
    cbn [fst snd] in *. rewrite write_string_ok by exact Hk. rewrite wv_ok by exact Hv. reflexivity.
  Qed.

  Lemma read_map_app m rest : zlen m <= 65535 -> map_small m ->
    (count <- read_short ;; read_count count (k <- read_string ;; v <- rv ;; ret (k, v))) (enc_map m ++ rest) = DOk m rest.
  Proof.
    intros H Hs. pose proof (zlen_nonneg m). unfold enc_map. rewrite <- app_assoc.
    unfold bind at 1. rewrite read_short_app by (unfold in_u16; lia).
    rewrite (read_count_app enc_entry _ (fun kv => kv)).
    - rewrite map_id. reflexivity.
    - intros [k v] r Hx. unfold map_small in Hs. rewrite Forall_forall in Hs. destruct (Hs _ Hx) as [Hk Hv].
      cbn [fst snd] in *. unfold enc_entry. cbn [fst snd]. rewrite <- app_assoc.
      unfold bind at 1. rewrite read_string_app by exact Hk.
      unfold bind at 1. rewrite rv_app by exact Hv. reflexivity.
    - intros [k v] _. unfold enc_entry. rewrite app_length. pose proof (enc_string_nonempty k). cbn [fst]. lia.
  Qed.

  Lemma enc_map_len m : zlen (enc_map m) = LengthOfShort + fold_right (fun kv acc => len_string (fst kv) + lenv (snd kv) + acc) 0 m.
  Proof.
    unfold enc_map, LengthOfShort. rewrite zlen_app, be_bytes_zlen. f_equal.
    induction m as [|[k v] m IH]; cbn [map concat fold_right]; [reflexivity|].
    rewrite zlen_app. unfold enc_entry at 1. cbn [fst snd]. rewrite zlen_app, enc_string_len, encv_len, IH. lia.
  Qed.
End KeyedMap.

(* instances *)
Definition ok_str (s : bytes) : Prop := zlen s <= 65535.
Definition enc_string_map := enc_map (V := bytes) enc_string.
Definition string_map_small := map_small (V := bytes) ok_str.
Lemma write_string_map_ok m : zlen m <= 65535 -> string_map_small m -> write_string_map m = Ok (enc_string_map m).
Proof. intros. unfold write_string_map. apply (write_map_ok enc_string write_string ok_str write_string_ok); assumption. Qed.
Lemma read_string_map_app m rest : zlen m <= 65535 -> string_map_small m -> read_string_map (enc_string_map m ++ rest) = DOk m rest.
Proof. intros. unfold read_string_map. apply (read_map_app enc_string write_string read_string len_string ok_str write_string_ok read_string_app enc_string_len); assumption. Qed.
Lemma enc_string_map_len m : zlen (enc_string_map m) = len_string_map m.
Proof. unfold enc_string_map, len_string_map. apply (enc_map_len enc_string write_string read_string len_string ok_str write_string_ok read_string_app enc_string_len). Qed.

Definition enc_bytes_map := enc_map (V := option bytes) enc_bytes.
Definition bytes_map_small := map_small (V := option bytes) bytes_small.
Lemma write_bytes_map_ok m : zlen m <= 65535 -> bytes_map_small m -> write_bytes_map m = Ok (enc_bytes_map m).
Proof. intros. unfold write_bytes_map. apply (write_map_ok enc_bytes write_bytes bytes_small write_bytes_ok); assumption. Qed.
Lemma read_bytes_map_app m rest : zlen m <= 65535 -> bytes_map_small m -> read_bytes_map (enc_bytes_map m ++ rest) = DOk m rest.
Proof. intros. unfold read_bytes_map. apply (read_map_app enc_bytes write_bytes read_bytes len_bytes bytes_small write_bytes_ok read_bytes_app enc_bytes_len); assumption. Qed.
Lemma enc_bytes_map_len m : zlen (enc_bytes_map m) = len_bytes_map m.
Proof. unfold enc_bytes_map, len_bytes_map. apply (enc_map_len enc_bytes write_bytes read_bytes len_bytes bytes_small write_bytes_ok read_bytes_app enc_bytes_len). Qed.

Definition string_list_ok (l : list bytes) : Prop := zlen l <= 65535 /\ strings_small l.
Lemma write_string_list_ok' l : string_list_ok l -> write_string_list l = Ok (enc_string_list l).
Proof. intros [? ?]. apply write_string_list_ok; assumption. Qed.
Lemma read_string_list_app' l rest : string_list_ok l -> read_string_list (enc_string_list l ++ rest) = DOk l rest.
Proof. intros [? ?]. apply read_string_list_app; assumption. Qed.
Definition enc_string_multimap := enc_map (V := list bytes) enc_string_list.
Definition string_multimap_small := map_small (V := list bytes) string_list_ok.
Lemma write_string_multimap_ok m : zlen m <= 65535 -> string_multimap_small m -> write_string_multimap m = Ok (enc_string_multimap m).
Proof. intros. unfold write_string_multimap. apply (write_map_ok enc_string_list write_string_list string_list_ok write_string_list_ok'); assumption. Qed.
Lemma read_string_multimap_app m rest : zlen m <= 65535 -> string_multimap_small m ->
  read_string_multimap (enc_string_multimap m ++ rest) = DOk m rest.
Proof. intros. unfold read_string_multimap. apply (read_map_app enc_string_list write_string_list read_string_list len_string_list string_list_ok write_string_list_ok' read_string_list_app' enc_string_list_len); assumption. Qed.
Lemma enc_string_multimap_len m : zlen (enc_string_multimap m) = len_string_multimap m.
Proof. unfold enc_string_multimap, len_string_multimap. apply (enc_map_len enc_string_list write_string_list read_string_list len_string_list string_list_ok write_string_list_ok' read_string_list_app' enc_string_list_len). Qed.
