(* Round-trip, length and no-panic lemmas for the primitive notations (model/Prim.v). *)
From Coq Require Import ZArith List Bool Lia.
From Coq Require Import ZifyBool ZifyNat.
From GCNP Require Import base.GoInt base.Bytes base.Codec gen.Constants_gen model.Prim.
Import ListNotations.
Open Scope Z_scope.
Ltac Zify.zify_post_hook ::= Z.div_mod_to_equations.

(* ---------- arithmetic facts about wrap ---------- *)
Lemma wrap_u_id b x : 0 <= b -> 0 <= x < 2 ^ b -> wrap_u b x = x.
Proof. intros Hb H. unfold wrap_u. apply Z.mod_small. exact H. Qed.

Lemma wrap_i_wrap_u32 x : -2147483648 <= x < 2147483648 -> wrap_i 32 (x mod 256 ^ 4) = x.
Proof. intro H. unfold wrap_i. change (256 ^ 4) with 4294967296. change (2 ^ (32 - 1)) with 2147483648. change (2 ^ 32) with 4294967296. lia. Qed.
Lemma wrap_i_wrap_u64 x : -9223372036854775808 <= x < 9223372036854775808 -> wrap_i 64 (x mod 256 ^ 8) = x.
Proof. intro H. unfold wrap_i. change (256 ^ 8) with 18446744073709551616. change (2 ^ (64 - 1)) with 9223372036854775808. change (2 ^ 64) with 18446744073709551616. lia. Qed.
Lemma wrap_i32_small x : -2147483648 <= x < 2147483648 -> wrap_i 32 x = x.
Proof. intro H. unfold wrap_i. change (2 ^ (32 - 1)) with 2147483648. change (2 ^ 32) with 4294967296. lia. Qed.
Lemma wrap_u16_small x : 0 <= x < 65536 -> wrap_u 16 x = x.
Proof. intro H. unfold wrap_u. change (2 ^ 16) with 65536. lia. Qed.

Definition in_i32 (x : Z) : Prop := -2147483648 <= x < 2147483648.
Definition in_i64 (x : Z) : Prop := -9223372036854775808 <= x < 9223372036854775808.
Definition in_u16 (x : Z) : Prop := 0 <= x < 65536.
Definition in_u8 (x : Z) : Prop := 0 <= x < 256.

(* ---------- integers ---------- *)
Lemma read_byte_app x rest : in_u8 x -> read_byte (be_bytes 1 x ++ rest) = DOk x rest.
Proof. intro H. unfold read_byte. rewrite read_be_app. f_equal. unfold in_u8 in H. change (256 ^ Z.of_nat 1) with 256. lia. Qed.
Lemma read_short_app x rest : in_u16 x -> read_short (be_bytes 2 x ++ rest) = DOk x rest.
Proof. intro H. unfold read_short. rewrite read_be_app. f_equal. unfold in_u16 in H. change (256 ^ Z.of_nat 2) with 65536. lia. Qed.
Lemma read_int_app x rest : in_i32 x -> read_int (be_bytes 4 x ++ rest) = DOk x rest.
Proof. intro H. unfold read_int, rmap, bind. rewrite read_be_app. unfold ret. f_equal. apply wrap_i_wrap_u32. exact H. Qed.
Lemma read_long_app x rest : in_i64 x -> read_long (be_bytes 8 x ++ rest) = DOk x rest.
Proof. intro H. unfold read_long, rmap, bind. rewrite read_be_app. unfold ret. f_equal. apply wrap_i_wrap_u64. exact H. Qed.

(* ---------- [string] ---------- *)
Definition enc_string (s : bytes) : bytes := be_bytes 2 (zlen s) ++ s.
Lemma write_string_ok s : zlen s <= 65535 -> write_string s = Ok (enc_string s).
Proof. intro H. unfold write_string, write_short, enc_string. pose proof (zlen_nonneg s). rewrite wrap_u16_small by lia. reflexivity. Qed.
Lemma read_string_app s rest : zlen s <= 65535 -> read_string (enc_string s ++ rest) = DOk s rest.
Proof.
  intro H. pose proof (zlen_nonneg s). unfold read_string, enc_string. rewrite <- app_assoc.
  unfold bind. rewrite read_short_app by (unfold in_u16; lia).
  destruct (Z.leb_spec (zlen s) 0).
  - assert (s = []) as -> by (destruct s; [reflexivity|rewrite zlen_cons in *; pose proof (zlen_nonneg s); lia]). reflexivity.
  - apply read_raw_app.
Qed.
Lemma enc_string_len s : zlen (enc_string s) = len_string s.
Proof. unfold enc_string, len_string, LengthOfShort. rewrite zlen_app, be_bytes_zlen. lia. Qed.
Lemma enc_string_nonempty s : (1 <= length (enc_string s))%nat.
Proof. unfold enc_string. rewrite app_length, be_bytes_length. lia. Qed.

(* ---------- [long string] ---------- *)
Definition enc_long_string (s : bytes) : bytes := be_bytes 4 (zlen s) ++ s.
Lemma write_long_string_ok s : zlen s <= 2147483647 -> write_long_string s = Ok (enc_long_string s).
Proof. intro H. unfold write_long_string, write_int, enc_long_string. pose proof (zlen_nonneg s). rewrite wrap_i32_small by lia. reflexivity. Qed.
Lemma read_long_string_app s rest : zlen s <= 2147483647 -> read_long_string (enc_long_string s ++ rest) = DOk s rest.
Proof.
  intro H. pose proof (zlen_nonneg s). unfold read_long_string, enc_long_string. rewrite <- app_assoc.
  unfold bind. rewrite read_int_app by (unfold in_i32; lia).
  destruct (Z.leb_spec (zlen s) 0).
  - assert (s = []) as -> by (destruct s; [reflexivity|rewrite zlen_cons in *; pose proof (zlen_nonneg s); lia]). reflexivity.
  - apply read_raw_app.
Qed.
Lemma enc_long_string_len s : zlen (enc_long_string s) = len_long_string s.
Proof. unfold enc_long_string, len_long_string, LengthOfInt. rewrite zlen_app, be_bytes_zlen. lia. Qed.

(* ---------- [bytes] ---------- *)
Definition enc_bytes (b : option bytes) : bytes :=
  match b with None => be_bytes 4 (-1) | Some b => be_bytes 4 (zlen b) ++ b end.
Definition bytes_small (b : option bytes) : Prop := zlen (olist b) <= 2147483647.
Lemma write_bytes_ok b : bytes_small b -> write_bytes b = Ok (enc_bytes b).
Proof.
  intro H. destruct b as [b|]; cbn [write_bytes enc_bytes]; [|reflexivity].
  unfold write_int. unfold bytes_small in H. cbn [olist] in H. pose proof (zlen_nonneg b). rewrite wrap_i32_small by lia. reflexivity.
Qed.
Lemma read_bytes_app b rest : bytes_small b -> read_bytes (enc_bytes b ++ rest) = DOk b rest.
Proof.
  intro H. unfold read_bytes. destruct b as [b|]; cbn [enc_bytes].
  - unfold bytes_small in H. cbn [olist] in H. pose proof (zlen_nonneg b). rewrite <- app_assoc. unfold bind.
    rewrite read_int_app by (unfold in_i32; lia).
    destruct (Z.ltb_spec (zlen b) 0); [lia|].
    destruct (Z.eqb_spec (zlen b) 0) as [E|E].
    + assert (b = []) as -> by (destruct b; [reflexivity|rewrite zlen_cons in *; pose proof (zlen_nonneg b); lia]). reflexivity.
    + unfold rmap, bind. rewrite read_raw_app. reflexivity.
  - unfold bind. rewrite read_int_app by (unfold in_i32; lia). reflexivity.
Qed.
Lemma enc_bytes_len b : zlen (enc_bytes b) = len_bytes b.
Proof. destruct b as [b|]; unfold enc_bytes, len_bytes, LengthOfInt; cbn [olist]; rewrite ?zlen_app, be_bytes_zlen; cbn; lia. Qed.

(* ---------- [short bytes]: nil decodes as empty ---------- *)
Definition enc_short_bytes (b : option bytes) : bytes := be_bytes 2 (zlen (olist b)) ++ olist b.
Lemma write_short_bytes_ok b : zlen (olist b) <= 65535 -> write_short_bytes b = Ok (enc_short_bytes b).
Proof. intro H. unfold write_short_bytes, write_short, enc_short_bytes. pose proof (zlen_nonneg (olist b)). rewrite wrap_u16_small by lia. reflexivity. Qed.
Lemma read_short_bytes_app b rest : zlen (olist b) <= 65535 -> read_short_bytes (enc_short_bytes b ++ rest) = DOk (Some (olist b)) rest.
Proof.
  intro H. pose proof (zlen_nonneg (olist b)). unfold read_short_bytes, enc_short_bytes. rewrite <- app_assoc.
  unfold bind. rewrite read_short_app by (unfold in_u16; lia).
  destruct (Z.ltb_spec (zlen (olist b)) 0); [lia|].
  destruct (Z.eqb_spec (zlen (olist b)) 0) as [E|E].
  - assert (olist b = []) as -> by (destruct (olist b) as [|x l]; [reflexivity|rewrite zlen_cons in *; pose proof (zlen_nonneg l); lia]). reflexivity.
  - unfold rmap, bind. rewrite read_raw_app. reflexivity.
Qed.
Lemma enc_short_bytes_len b : zlen (enc_short_bytes b) = len_short_bytes b.
Proof. unfold enc_short_bytes, len_short_bytes, LengthOfShort. rewrite zlen_app, be_bytes_zlen. lia. Qed.

(* ---------- [string list] ---------- *)
Definition strings_small (l : list bytes) : Prop := Forall (fun s => zlen s <= 65535) l.
Definition enc_string_list (l : list bytes) : bytes := be_bytes 2 (zlen l) ++ concat (map enc_string l).
Lemma write_string_list_ok l : zlen l <= 65535 -> strings_small l -> write_string_list l = Ok (enc_string_list l).
Proof.
  intros H Hs. unfold write_string_list, write_short, enc_string_list. pose proof (zlen_nonneg l).
  rewrite wrap_u16_small by lia.
  rewrite (wlist_ok write_string enc_string); [reflexivity|].
  intros x Hx. apply write_string_ok. unfold strings_small in Hs. rewrite Forall_forall in Hs. apply Hs; exact Hx.
Qed.
Lemma read_string_list_app l rest : zlen l <= 65535 -> strings_small l ->
  read_string_list (enc_string_list l ++ rest) = DOk l rest.
Proof.
  intros H Hs. pose proof (zlen_nonneg l). unfold read_string_list, enc_string_list. rewrite <- app_assoc.
  unfold bind. rewrite read_short_app by (unfold in_u16; lia).
  rewrite (read_count_app enc_string read_string (fun s => s)).
  - rewrite map_id. reflexivity.
  - intros x r Hx. apply read_string_app. unfold strings_small in Hs. rewrite Forall_forall in Hs. apply Hs; exact Hx.
  - intros x _. apply enc_string_nonempty.
Qed.
Lemma enc_string_list_len l : zlen (enc_string_list l) = len_string_list l.
Proof.
  unfold enc_string_list, len_string_list, LengthOfShort. rewrite zlen_app, be_bytes_zlen.
  f_equal. induction l as [|s l IH]; cbn [map concat fold_right]; [reflexivity|].
  rewrite zlen_app, enc_string_len, IH. reflexivity.
Qed.

(* ---------- generic maps with [string] keys ---------- *)
Section KeyedMap.
  Context {V : Type} (encv : V -> bytes) (wv : V -> W) (rv : R V) (lenv : V -> Z) (okv : V -> Prop).
  Hypothesis wv_ok : forall v, okv v -> wv v = Ok (encv v).
  Hypothesis rv_app : forall v rest, okv v -> rv (encv v ++ rest) = DOk v rest.
  Hypothesis encv_len : forall v, zlen (encv v) = lenv v.

  Definition map_small (m : list (bytes * V)) : Prop := Forall (fun kv => zlen (fst kv) <= 65535 /\ okv (snd kv)) m.
  Definition enc_entry (kv : bytes * V) : bytes := enc_string (fst kv) ++ encv (snd kv).
  Definition enc_map (m : list (bytes * V)) : bytes := be_bytes 2 (zlen m) ++ concat (map enc_entry m).

  Lemma write_map_ok m : zlen m <= 65535 -> map_small m ->
    write_short (wrap_u 16 (zlen m)) +++ wlist (fun kv => write_string (fst kv) +++ wv (snd kv)) m = Ok (enc_map m).
  Proof.
    intros H Hs. unfold write_short, enc_map. pose proof (zlen_nonneg m). rewrite wrap_u16_small by lia.
    rewrite (wlist_ok _ enc_entry); [reflexivity|].
    intros [k v] Hx. unfold map_small in Hs. rewrite Forall_forall in Hs. destruct (Hs _ Hx) as [Hk Hv].
    cbn [fst snd] in *. rewrite write_string_ok by exact Hk. rewrite wv_ok by exact Hv. reflexivity.
  Qed.

  Lemma read_map_app m rest : zlen m <= 65535 -> map_small m ->
    (count <- read_short ;; read_count count (k <- read_string ;; v <- rv ;; ret (k, v))) (enc_map m ++ rest) = DOk m rest.
  Proof.
    intros H Hs. pose proof (zlen_nonneg m). unfold enc_map. rewrite <- app_assoc.
    unfold bind at 1. rewrite read_short_app by (unfold in_u16; lia).
    rewrite (read_count_app enc_entry _ (fun kv => kv)).
    - rewrite map_id. reflexivity.
    - intros [k v] r Hx. unfold map_small in Hs. rewrite Forall_forall in Hs. destruct (Hs _ Hx) as [Hk Hv].
      cbn [fst snd] in *. unfold enc_entry. cbn [fst snd]. rewrite <- app_assoc.
      unfold bind at 1. rewrite read_string_app by exact Hk.
      unfold bind at 1. rewrite rv_app by exact Hv. reflexivity.
    - intros [k v] _. unfold enc_entry. rewrite app_length. pose proof (enc_string_nonempty k). cbn [fst]. lia.
  Qed.

  Lemma enc_map_len m : zlen (enc_map m) = LengthOfShort + fold_right (fun kv acc => len_string (fst kv) + lenv (snd kv) + acc) 0 m.
  Proof.
    unfold enc_map, LengthOfShort. rewrite zlen_app, be_bytes_zlen. f_equal.
    induction m as [|[k v] m IH]; cbn [map concat fold_right]; [reflexivity|].
    rewrite zlen_app. unfold enc_entry at 1. cbn [fst snd]. rewrite zlen_app, enc_string_len, encv_len, IH. lia.
  Qed.
End KeyedMap.

(* instances *)
Definition ok_str (s : bytes) : Prop := zlen s <= 65535.
Definition enc_string_map := enc_map (V := bytes) enc_string.
Definition string_map_small := map_small (V := bytes) ok_str.
Lemma write_string_map_ok m : zlen m <= 65535 -> string_map_small m -> write_string_map m = Ok (enc_string_map m).
Proof. intros. unfold write_string_map. apply (write_map_ok enc_string write_string ok_str write_string_ok); assumption. Qed.
Lemma read_string_map_app m rest : zlen m <= 65535 -> string_map_small m -> read_string_map (enc_string_map m ++ rest) = DOk m rest.
Proof. intros. unfold read_string_map. apply (read_map_app enc_string write_string read_string len_string ok_str write_string_ok read_string_app enc_string_len); assumption. Qed.
Lemma enc_string_map_len m : zlen (enc_string_map m) = len_string_map m.
Proof. unfold enc_string_map, len_string_map. apply (enc_map_len enc_string write_string read_string len_string ok_str write_string_ok read_string_app enc_string_len). Qed.

Definition enc_bytes_map := enc_map (V := option bytes) enc_bytes.
Definition bytes_map_small := map_small (V := option bytes) bytes_small.
Lemma write_bytes_map_ok m : zlen m <= 65535 -> bytes_map_small m -> write_bytes_map m = Ok (enc_bytes_map m).
Proof. intros. unfold write_bytes_map. apply (write_map_ok enc_bytes write_bytes bytes_small write_bytes_ok); assumption. Qed.
Lemma read_bytes_map_app m rest : zlen m <= 65535 -> bytes_map_small m -> read_bytes_map (enc_bytes_map m ++ rest) = DOk m rest.
Proof. intros. unfold read_bytes_map. apply (read_map_app enc_bytes write_bytes read_bytes len_bytes bytes_small write_bytes_ok read_bytes_app enc_bytes_len); assumption. Qed.
Lemma enc_bytes_map_len m : zlen (enc_bytes_map m) = len_bytes_map m.
Proof. unfold enc_bytes_map, len_bytes_map. apply (enc_map_len enc_bytes write_bytes read_bytes len_bytes bytes_small write_bytes_ok read_bytes_app enc_bytes_len). Qed.

Definition string_list_ok (l : list bytes) : Prop := zlen l <= 65535 /\ strings_small l.
Lemma write_string_list_ok' l : string_list_ok l -> write_string_list l = Ok (enc_string_list l).
Proof. intros [? ?]. apply write_string_list_ok; assumption. Qed.
Lemma read_string_list_app' l rest : string_list_ok l -> read_string_list (enc_string_list l ++ rest) = DOk l rest.
Proof. intros [? ?]. apply read_string_list_app; assumption. Qed.
Definition enc_string_multimap := enc_map (V := list bytes) enc_string_list.
Definition string_multimap_small := map_small (V := list bytes) string_list_ok.
Lemma write_string_multimap_ok m : zlen m <= 65535 -> string_multimap_small m -> write_string_multimap m = Ok (enc_string_multimap m).
Proof. intros. unfold write_string_multimap. apply (write_map_ok enc_string_list write_string_list string_list_ok write_string_list_ok'); assumption. Qed.
Lemma read_string_multimap_app m rest : zlen m <= 65535 -> string_multimap_small m ->
  read_string_multimap (enc_string_multimap m ++ rest) = DOk m rest.
Proof. intros. unfold read_string_multimap. apply (read_map_app enc_string_list write_string_list read_string_list len_string_list string_list_ok write_string_list_ok' read_string_list_app' enc_string_list_len); assumption. Qed.
Lemma enc_string_multimap_len m : zlen (enc_string_multimap m) = len_string_multimap m.
Proof. unfold enc_string_multimap, len_string_multimap. apply (enc_map_len enc_string_list write_string_list read_string_list len_string_list string_list_ok write_string_list_ok' read_string_list_app' enc_string_list_len). Qed.

(* ---------- [inetaddr], [inet] ---------- *)
(* a valid address is 4 or 16 bytes; on the wire an IPv4-mapped 16-byte address becomes 4 bytes and is
   decoded in 16-byte form: equality is up to that normal form *)
Definition ip_ok (ip : option bytes) : Prop :=
  match ip with Some b => zlen b = 4 \/ zlen b = 16 | None => False end.
Definition norm_ip (ip : option bytes) : option bytes :=
  match ip with Some b => ip_to16 b | None => None end.
Definition enc_inet_addr (ip : option bytes) : bytes :=
  match ip with
  | Some b => match ip_to4 b with Some b4 => be_bytes 1 4 ++ b4 | None => be_bytes 1 16 ++ b end
  | None => []
  end.

Lemma bytes_eqb_eq a b : bytes_eqb a b = true <-> a = b.
Proof.
  revert b; induction a as [|x a IH]; intros [|y b]; cbn [bytes_eqb]; split; intro H; try reflexivity; try discriminate.
  - apply andb_prop in H. destruct H as [H1 H2]. apply Z.eqb_eq in H1. apply IH in H2. subst. reflexivity.
  - injection H as -> ->. rewrite Z.eqb_refl. cbn. apply IH. reflexivity.
Qed.

Lemma zlen_firstn12 (b : bytes) : zlen b = 16 -> b = firstn 12 b ++ skipn 12 b /\ zlen (skipn 12 b) = 4.
Proof. intro H. split; [symmetry; apply firstn_skipn|]. unfold zlen in *. rewrite skipn_length. lia. Qed.

Lemma write_inet_addr_ok ip : ip_ok ip -> write_inet_addr ip = Ok (enc_inet_addr ip).
Proof.
  destruct ip as [b|]; [|intros []]. intros H. cbn [write_inet_addr enc_inet_addr].
  destruct (ip_to4 b) as [b4|] eqn:E4; [reflexivity|].
  assert (E16 : ip_to16 b = Some b).
  { unfold ip_to16, ip_to4 in *. cbn in H. destruct (Z.eqb_spec (zlen b) 4); [discriminate|].
    destruct (Z.eqb_spec (zlen b) 16); [reflexivity|lia]. }
  rewrite E16. cbn. rewrite app_nil_r. reflexivity.
Qed.

Lemma read_inet_addr_app ip rest : ip_ok ip -> read_inet_addr (enc_inet_addr ip ++ rest) = DOk (norm_ip ip) rest.
Proof.
  destruct ip as [b|]; [|intros []]. intros H. cbn [enc_inet_addr norm_ip]. cbn in H. unfold read_inet_addr.
  destruct (ip_to4 b) as [b4|] eqn:E4.
  - rewrite <- app_assoc. unfold bind at 1. rewrite read_byte_app by (unfold in_u8; lia).
    cbn [Z.eqb Pos.eqb].
    assert (Hb4 : zlen b4 = 4 /\ ip_to16 b = Some (v4_in_v6_prefix ++ b4)).
    { unfold ip_to4, ip_to16 in *. destruct (Z.eqb_spec (zlen b) 4) as [e|ne].
      - injection E4 as <-. split; [exact e|reflexivity].
      - destruct (Z.eqb_spec (zlen b) 16) as [e|ne']; [|discriminate]. rewrite andb_true_l in E4.
        destruct (bytes_eqb (firstn 12 b) v4_in_v6_prefix) eqn:Ep; [|discriminate]. injection E4 as <-.
        apply bytes_eqb_eq in Ep. destruct (zlen_firstn12 b e) as [Hs Hl]. split; [exact Hl|].
        f_equal. rewrite <- Ep. exact Hs. }
    destruct Hb4 as [Hl H16]. unfold bind. rewrite (read_raw_app' 4 b4 rest) by (symmetry; exact Hl).
    rewrite H16. reflexivity.
  - assert (Hl : zlen b = 16 /\ ip_to16 b = Some b).
    { unfold ip_to4, ip_to16 in *. destruct (Z.eqb_spec (zlen b) 4); [discriminate|].
      destruct (Z.eqb_spec (zlen b) 16); [split; [assumption|reflexivity]|lia]. }
    destruct Hl as [Hl H16]. rewrite <- app_assoc. unfold bind at 1. rewrite read_byte_app by (unfold in_u8; lia).
    cbn [Z.eqb Pos.eqb]. unfold rmap, bind. rewrite (read_raw_app' 16 b rest) by (symmetry; exact Hl).
    rewrite H16. reflexivity.
Qed.

Lemma enc_inet_addr_len ip l : ip_ok ip -> len_inet_addr ip = Ok l -> zlen (enc_inet_addr ip) = l.
Proof.
  destruct ip as [b|]; [|intros []]. unfold ip_ok, len_inet_addr, enc_inet_addr. intros H.
  destruct (ip_to4 b) as [b4|] eqn:E4; intro E; injection E as <-; rewrite zlen_app, be_bytes_zlen.
  - unfold ip_to4 in E4. destruct (Z.eqb_spec (zlen b) 4) as [e|ne].
    + injection E4 as <-. rewrite e. reflexivity.
    + destruct (Z.eqb_spec (zlen b) 16) as [e|ne']; [|discriminate]. rewrite andb_true_l in E4.
      destruct (bytes_eqb (firstn 12 b) v4_in_v6_prefix); [|discriminate].
      assert (Eb : b4 = skipn 12 b) by congruence.
      destruct (zlen_firstn12 b e) as [_ Hl]. rewrite Eb, Hl. reflexivity.
  - unfold ip_to4 in E4. destruct (Z.eqb_spec (zlen b) 4); [discriminate|].
    destruct H as [H|H]; [lia|]. rewrite H. reflexivity.
Qed.

Lemma ip_to16_16 c : zlen c = 16 -> ip_to16 c = Some c.
Proof. intro H. unfold ip_to16. rewrite H. reflexivity. Qed.
Lemma ip_to16_len b : zlen b = 4 \/ zlen b = 16 -> exists c, ip_to16 b = Some c /\ zlen c = 16.
Proof.
  intros [H|H]; unfold ip_to16; rewrite H.
  - exists (v4_in_v6_prefix ++ b). split; [reflexivity|]. rewrite zlen_app, H. reflexivity.
  - exists b. split; [reflexivity|exact H].
Qed.
Lemma norm_ip_idem ip : ip_ok ip -> ip_ok (norm_ip ip) /\ norm_ip (norm_ip ip) = norm_ip ip.
Proof.
  destruct ip as [b|]; [|intros []]. unfold ip_ok, norm_ip. intros H.
  destruct (ip_to16_len b H) as (c & Ec & Hc). rewrite Ec. split; [right; exact Hc|apply ip_to16_16; exact Hc].
Qed.

Definition inet_ok (i : option Inet) : Prop :=
  match i with Some i => ip_ok (inet_addr i) /\ in_i32 (inet_port i) | None => False end.
Definition norm_inet (i : Inet) : Inet := {| inet_addr := norm_ip (inet_addr i); inet_port := inet_port i |}.
Definition enc_inet (i : option Inet) : bytes :=
  match i with Some i => enc_inet_addr (inet_addr i) ++ be_bytes 4 (inet_port i) | None => [] end.
Lemma write_inet_ok i : inet_ok i -> write_inet i = Ok (enc_inet i).
Proof. destruct i as [i|]; [|intros []]. intros [H1 H2]. cbn [write_inet enc_inet]. rewrite write_inet_addr_ok by exact H1. reflexivity. Qed.
Lemma read_inet_app i rest : inet_ok (Some i) -> read_inet (enc_inet (Some i) ++ rest) = DOk (norm_inet i) rest.
Proof.
  intros [H1 H2]. cbn [enc_inet]. unfold read_inet. rewrite <- app_assoc.
  unfold bind at 1. rewrite read_inet_addr_app by exact H1.
  unfold bind at 1. rewrite read_int_app by exact H2. reflexivity.
Qed.
Lemma enc_inet_len i l : inet_ok i -> len_inet i = Ok l -> zlen (enc_inet i) = l.
Proof.
  destruct i as [i|]; [|intros []]. intros [H1 H2]. cbn [len_inet enc_inet]. intro E.
  apply ladd_ok in E. destruct E as (xa & xb & Ea & Eb & ->). injection Eb as <-.
  rewrite zlen_app, be_bytes_zlen. rewrite (enc_inet_addr_len _ _ H1 Ea). reflexivity.
Qed.

(* ---------- [uuid] ---------- *)
Lemma read_uuid_app u rest : zlen u = 16 -> read_uuid (u ++ rest) = DOk u rest.
Proof. intro H. unfold read_uuid. apply read_raw_app'. symmetry. exact H. Qed.

(* ---------- [value] ---------- *)
Definition value_ok (version : Z) (v : option Value) : Prop :=
  match v with
  | None => False
  | Some v =>
      (value_type v = ValueTypeNull /\ value_contents v = None) \/
      (value_type v = ValueTypeUnset /\ value_contents v = None /\ 4 <= version) \/
      (value_type v = ValueTypeRegular /\ bytes_small (value_contents v))
  end.
(* a regular value without contents is written as null *)
Definition norm_value (v : Value) : Value :=
  if (value_type v =? ValueTypeRegular) then NewValue (value_contents v) else v.
Definition enc_value (v : option Value) : bytes :=
  match v with
  | None => []
  | Some v => if value_type v =? ValueTypeNull then be_bytes 4 (-1)
              else if value_type v =? ValueTypeUnset then be_bytes 4 (-2)
              else enc_bytes (value_contents v)
  end.

Lemma supports_unset_iff version : ProtocolVersion_SupportsUnsetValues version = true <-> 4 <= version.
Proof. unfold ProtocolVersion_SupportsUnsetValues, ProtocolVersion4. lia. Qed.

Ltac eq_cases :=
  repeat match goal with
  | |- context [Z.eqb ?a ?b] => destruct (Z.eqb_spec a b); try lia
  end.
Ltac vt_cases :=
  repeat match goal with
  | |- context [Z.eqb ?a ?b] => destruct (Z.eqb_spec a b); try lia
  | |- context [Z.ltb ?a ?b] => destruct (Z.ltb_spec a b); try lia
  end.

Lemma write_value_ok version v : value_ok version v -> write_value version v = Ok (enc_value v).
Proof.
  destruct v as [v|]; [|intros []]. destruct v as [t c]. unfold value_ok, write_value, enc_value. cbn [value_type value_contents].
  unfold ValueTypeNull, ValueTypeUnset, ValueTypeRegular.
  intros [[-> ->]|[[-> [-> Hv]]|[-> Hs]]]; vt_cases.
  - reflexivity.
  - apply supports_unset_iff in Hv. rewrite Hv. reflexivity.
  - destruct c as [c|]; [|reflexivity]. cbn [enc_bytes]. unfold write_int.
    unfold bytes_small in Hs. cbn [olist] in Hs. pose proof (zlen_nonneg c). rewrite wrap_i32_small by lia. reflexivity.
Qed.

Lemma read_value_app version v rest : value_ok version (Some v) ->
  read_value version (enc_value (Some v) ++ rest) = DOk (norm_value v) rest.
Proof.
  destruct v as [t c]. unfold value_ok, read_value, enc_value, norm_value. cbn [value_type value_contents].
  unfold ValueTypeNull, ValueTypeUnset, ValueTypeRegular.
  intros [[-> ->]|[[-> [-> Hv]]|[-> Hs]]].
  - eq_cases. unfold bind. rewrite read_int_app by (unfold in_i32; lia). eq_cases. reflexivity.
  - eq_cases. unfold bind. rewrite read_int_app by (unfold in_i32; lia). eq_cases.
    unfold ProtocolVersion4. vt_cases. reflexivity.
  - eq_cases. destruct c as [c|]; cbn [enc_bytes NewValue].
    + unfold bytes_small in Hs. cbn [olist] in Hs. pose proof (zlen_nonneg c). rewrite <- app_assoc.
      unfold bind at 1. rewrite read_int_app by (unfold in_i32; lia).
      destruct (Z.eqb_spec (zlen c) (-1)); [lia|]. destruct (Z.eqb_spec (zlen c) (-2)); [lia|].
      destruct (Z.ltb_spec (zlen c) 0); [lia|].
      destruct (Z.eqb_spec (zlen c) 0) as [E|E].
      * assert (c = []) as -> by (destruct c; [reflexivity|rewrite zlen_cons in *; pose proof (zlen_nonneg c); lia]). reflexivity.
      * unfold bind. rewrite read_raw_app. reflexivity.
    + unfold bind. rewrite read_int_app by (unfold in_i32; lia). eq_cases. reflexivity.
Qed.

Lemma enc_value_len version v l : value_ok version v -> len_value v = Ok l -> zlen (enc_value v) = l.
Proof.
  destruct v as [v|]; [|intros []]. destruct v as [t c]. unfold value_ok, len_value, enc_value. cbn [value_type value_contents].
  unfold ValueTypeNull, ValueTypeUnset, ValueTypeRegular.
  intros [[-> ->]|[[-> [-> Hv]]|[-> Hs]]]; vt_cases; intro E; injection E as <-; try (rewrite be_bytes_zlen; reflexivity).
  rewrite enc_bytes_len. reflexivity.
Qed.

Lemma enc_value_nonempty v : v <> None -> (1 <= length (enc_value v))%nat.
Proof.
  destruct v as [v|]; [intros _|congruence]. unfold enc_value.
  destruct (value_type v =? ValueTypeNull); [rewrite be_bytes_length; lia|].
  destruct (value_type v =? ValueTypeUnset); [rewrite be_bytes_length; lia|].
  destruct (value_contents v); cbn [enc_bytes]; rewrite ?app_length, be_bytes_length; lia.
Qed.

(* positional values *)
Definition values_ok (version : Z) (vs : list (option Value)) : Prop := zlen vs <= 65535 /\ Forall (value_ok version) vs.
Definition norm_ovalue (v : option Value) : option Value := option_map norm_value v.
Definition enc_positional_values (vs : list (option Value)) : bytes := be_bytes 2 (zlen vs) ++ concat (map enc_value vs).
Lemma write_positional_values_ok version vs : values_ok version vs ->
  write_positional_values version vs = Ok (enc_positional_values vs).
Proof.
  intros [H Hs]. unfold write_positional_values, write_short, enc_positional_values. pose proof (zlen_nonneg vs).
  rewrite wrap_u16_small by lia. rewrite (wlist_ok _ enc_value); [reflexivity|].
  intros x Hx. apply write_value_ok. rewrite Forall_forall in Hs. apply Hs; exact Hx.
Qed.
Lemma read_positional_values_app version vs rest : values_ok version vs ->
  read_positional_values version (enc_positional_values vs ++ rest) = DOk (map norm_ovalue vs) rest.
Proof.
  intros [H Hs]. pose proof (zlen_nonneg vs). unfold read_positional_values, enc_positional_values. rewrite <- app_assoc.
  unfold bind. rewrite read_short_app by (unfold in_u16; lia).
  rewrite Forall_forall in Hs.
  apply (read_count_app enc_value (rmap Some (read_value version)) norm_ovalue).
  - intros x r Hx. specialize (Hs x Hx). destruct x as [v|]; [|destruct Hs].
    unfold rmap, bind. rewrite read_value_app by exact Hs. reflexivity.
  - intros x Hx. apply enc_value_nonempty. specialize (Hs x Hx). destruct x; [congruence|destruct Hs].
Qed.

(* ---------- stream id ---------- *)
Lemma read_stream_id_app version id rest w :
  write_stream_id version id = Ok w -> -32768 <= id < 32768 ->
  read_stream_id version (w ++ rest) = DOk id rest.
Proof.
  unfold write_stream_id, read_stream_id. destruct (Z.geb version ProtocolVersion3).
  - unfold write_short. intros E Hr. assert (Ew : w = be_bytes 2 (wrap_u 16 id)) by congruence. subst w. unfold rmap, bind.
    rewrite read_short_app by (unfold in_u16, wrap_u; change (2^16) with 65536; lia).
    unfold ret. f_equal. unfold wrap_i, wrap_u. change (2 ^ (16-1)) with 32768. change (2^16) with 65536. lia.
  - destruct (Z.gtb_spec id 127); [discriminate|]. destruct (Z.ltb_spec id (-128)); [discriminate|].
    cbn [orb]. unfold write_byte. intros E Hr. assert (Ew : w = be_bytes 1 (wrap_u 8 id)) by congruence. subst w. unfold rmap, bind.
    rewrite read_byte_app by (unfold in_u8, wrap_u; change (2^8) with 256; lia).
    unfold ret. f_equal. unfold wrap_i, wrap_u. change (2 ^ (16-1)) with 32768. change (2^16) with 65536.
    change (2 ^ (8-1)) with 128. change (2^8) with 256. lia.
Qed.
