(* C10 - responses reach exactly the request with the same stream id.
   Step-level specification of a delivery with its frame condition, events, unknown ids, and the refinement of every
   handler-level history to the abstract specification "stream id -> ordered list of pages". *)
From Coq Require Import ZArith List Bool Lia Permutation.
From Coq Require Import ZifyBool ZifyNat.
From GCNP Require Import model.Inflight proofs.Inflight proofs.InflightInv proofs.InflightC09.
Import ListNotations.
Open Scope Z_scope.

(* ------------------------------------------------------------------ unknown ids, events *)
Theorem deliver_unknown_id s k last tag :
  ~ In k (keys (inflight s)) ->
  step s (Deliver k last tag) = (s, ODeliverErr (if closed s then EClosed else EUnknownId)).
Proof.
  intros H. cbn [step]. unfold deliver. destruct (closed s); [reflexivity|].
  apply lookup_None in H. now rewrite H.
Qed.

Theorem event_reaches_no_request s tag :
  let s' := fst (step s (Event tag)) in
  inflight s' = inflight s /\ finished s' = finished s /\ pool s' = pool s /\ closed s' = closed s /\
  handled s' = handled s ++ [tag] /\
  events s' = (if negb (closed s) && (zlen (events s) <? cfgN s) then events s ++ [tag] else events s).
Proof. cbn. repeat split; reflexivity. Qed.

(* ------------------------------------------------------------------ what onFrameReceived does to the target *)
Definition live (p : Z) (r : req) : Prop := done r = false /\ pending r < p.

Lemma on_frame_live p n t r last tag :
  live p r ->
  let '(r', o) := on_frame p n t r last tag in
  o = ODelivered /\ queue r' = queue r ++ [tag] /\ consumed r' = consumed r /\
  (if last then done r' = true /\ err r' = None /\ chan_closed r' = S (chan_closed r)
   else done r' = false /\ err r' = err r /\ deadline r' = Some (n + t)).
Proof.
  intros [Hd Hp]. unfold on_frame. rewrite Hd. assert (H : pending r <? p = true) by lia. rewrite H.
  destruct last.
  - unfold req_close, req_stop, req_push. cbn. rewrite Hd. cbn. repeat split; reflexivity.
  - unfold req_arm, req_push. cbn. repeat split; auto.
Qed.

Lemma on_frame_dead p n t r last tag : done r = true -> on_frame p n t r last tag = (r, ODeliverErr ERequestClosed).
Proof. intros Hd. unfold on_frame. now rewrite Hd. Qed.

Lemma on_frame_overflow p n t r last tag :
  done r = false -> p <= pending r ->
  let '(r', o) := on_frame p n t r last tag in
  o = ODeliverErr ETooManyPending /\ queue r' = queue r /\ consumed r' = consumed r /\ done r' = true /\
  err r' = Some ETooManyPending.
Proof.
  intros Hd Hp. unfold on_frame. rewrite Hd. assert (H : pending r <? p = false) by lia. rewrite H.
  unfold req_close. rewrite Hd. cbn. auto.
Qed.

(* ------------------------------------------------------------------ the delivery step, with its frame condition *)
Lemma lookup_remove_key_other k k' m : k' <> k -> lookup k' (remove_key k m) = lookup k' m.
Proof.
  intros Hne. induction m as [|[k2 r2] m IH]; [reflexivity|]. cbn [remove_key lookup].
  destruct (Z.eqb_spec k2 k).
  - subst. destruct (Z.eqb_spec k k'); [congruence|apply IH].
  - cbn [lookup]. destruct (k2 =? k'); [reflexivity|apply IH].
Qed.

Lemma remove_key_update_key k r m : remove_key k (update_key k r m) = remove_key k m.
Proof.
  induction m as [|[k2 r2] m IH]; [reflexivity|]. cbn [update_key remove_key].
  destruct (Z.eqb_spec k2 k).
  - cbn [remove_key]. subst. now rewrite Z.eqb_refl.
  - cbn [remove_key]. destruct (Z.eqb_spec k2 k); [congruence|]. now rewrite IH.
Qed.

(* where the target request ends up, and that nothing else moves *)
Theorem deliver_frame_condition s k last tag r :
  Inv s -> closed s = false -> lookup k (inflight s) = Some r ->
  let s' := fst (step s (Deliver k last tag)) in
  let r' := fst (on_frame (cfgP s) (now s) (cfgT s) r last tag) in
  snd (step s (Deliver k last tag)) = snd (on_frame (cfgP s) (now s) (cfgT s) r last tag) /\
  (forall k', k' <> k -> lookup k' (inflight s') = lookup k' (inflight s)) /\
  (if last then lookup k (inflight s') = None /\ finished s' = finished s ++ [r'] /\
                (managed r = true -> pool s' = pool s ++ [k]) /\ (managed r = false -> pool s' = pool s)
   else lookup k (inflight s') = Some r' /\ finished s' = finished s /\ pool s' = pool s) /\
  keys (inflight s') = (if last then keys (remove_key k (inflight s)) else keys (inflight s)) /\
  events s' = events s /\ handled s' = handled s /\ outq s' = outq s /\ closed s' = false.
Proof.
  intros HI Hc Hl. cbn [step]. unfold deliver. rewrite Hc, Hl.
  assert (Hk : In k (keys (inflight s))) by (eapply lookup_In_keys; eauto).
  destruct last.
  - assert (Hrm : lookup k (remove_key k (inflight s)) = None).
    { apply lookup_None. rewrite In_keys_remove_key. tauto. }
    assert (Hoth : forall k', k' <> k -> lookup k' (remove_key k (inflight s)) = lookup k' (inflight s))
      by (intros; now apply lookup_remove_key_other).
    destruct (managed r) eqn:Hm.
    + destruct (release_success s k r HI Hc Hl Hm) as [Hroom _].
      unfold release. cbn [set_inflight pool cfgN]. assert (H : zlen (pool s) <? cfgN s = true) by lia. rewrite H.
      destruct (on_frame _ _ _ _ _ _) as [r' o]. cbn. repeat split; auto; discriminate.
    + destruct (on_frame _ _ _ _ _ _) as [r' o]. cbn. repeat split; auto; discriminate.
  - destruct (on_frame _ _ _ _ _ _) as [r' o]. cbn [fst snd set_inflight inflight finished pool events handled outq closed].
    repeat split; auto.
    + intros k' Hne. now apply lookup_update_key_other.
    + now apply lookup_update_key_same.
    + apply keys_update_key.
Qed.

(* what the target receives *)
Theorem deliver_to_live_request s k last tag r :
  Inv s -> closed s = false -> lookup k (inflight s) = Some r -> live (cfgP s) r ->
  snd (step s (Deliver k last tag)) = ODelivered /\
  exists r', (if last then In r' (finished (fst (step s (Deliver k last tag))))
              else lookup k (inflight (fst (step s (Deliver k last tag)))) = Some r') /\
    same_id r r' /\ queue r' = queue r ++ [tag] /\ consumed r' = consumed r /\
    (if last then done r' = true /\ err r' = None else done r' = false /\ deadline r' = Some (now s + cfgT s)).
Proof.
  intros HI Hc Hl Hlive.
  destruct (deliver_frame_condition s k last tag r HI Hc Hl) as (Ho & _ & Hpos & _).
  pose proof (on_frame_live (cfgP s) (now s) (cfgT s) r last tag Hlive) as Hof.
  pose proof (on_frame_same (cfgP s) (now s) (cfgT s) r last tag) as Hsame.
  destruct (on_frame _ _ _ _ _ _) as [r' o]. cbn [fst snd] in *.
  destruct Hof as (-> & Hq & Hcns & Hrest). split; [assumption|].
  exists r'. destruct last.
  - destruct Hpos as (_ & Hf & _). rewrite Hf. split; [apply in_app_iff; right; now left|]. tauto.
  - destruct Hpos as (Hlk & _). split; [assumption|]. tauto.
Qed.

(* a frame for a request that already failed (timeout, overflow) is refused and changes no queue *)
Theorem deliver_to_failed_request s k last tag r :
  Inv s -> closed s = false -> lookup k (inflight s) = Some r -> done r = true ->
  snd (step s (Deliver k last tag)) = ODeliverErr ERequestClosed /\
  (if last then In r (finished (fst (step s (Deliver k last tag))))
   else lookup k (inflight (fst (step s (Deliver k last tag)))) = Some r).
Proof.
  intros HI Hc Hl Hd.
  destruct (deliver_frame_condition s k last tag r HI Hc Hl) as (Ho & _ & Hpos & _).
  rewrite (on_frame_dead _ _ _ _ _ _ Hd) in *. cbn [fst snd] in *. split; [assumption|].
  destruct last.
  - destruct Hpos as (_ & Hf & _). rewrite Hf. apply in_app_iff. right. now left.
  - tauto.
Qed.

(* ------------------------------------------------------------------ refinement to "stream id -> ordered pages" *)
(* abstract state: the open entries id -> (request number, pages so far), the closed entries, a counter *)
Record astate := mkA { aopen : list (Z * (Z * list Z)); afin : list (Z * list Z); anext : Z; aclosed : bool }.

Definition abs (s : state) : astate :=
  mkA (map (fun kr => (fst kr, (rid (snd kr), queue (snd kr)))) (inflight s))
      (map (fun r => (rid r, queue r)) (finished s)) (next_rid s) (closed s).

Fixpoint a_append (k tag : Z) (m : list (Z * (Z * list Z))) : list (Z * (Z * list Z)) :=
  match m with
  | [] => []
  | (k', (i, pages)) :: t => if k' =? k then (k', (i, pages ++ [tag])) :: t else (k', (i, pages)) :: a_append k tag t
  end.

Fixpoint a_remove (k : Z) (m : list (Z * (Z * list Z))) : list (Z * (Z * list Z)) :=
  match m with
  | [] => []
  | (k', v) :: t => if k' =? k then a_remove k t else (k', v) :: a_remove k t
  end.

Fixpoint a_lookup (k : Z) (m : list (Z * (Z * list Z))) : option (Z * list Z) :=
  match m with
  | [] => None
  | (k', v) :: t => if k' =? k then Some v else a_lookup k t
  end.

(* the specification: driven only by the operation and its reported outcome *)
Definition astep (a : astate) (o : op) (x : out) : astate :=
  match o, x with
  | Send _, OAccepted id => mkA (aopen a ++ [(id, (anext a, []))]) (afin a) (anext a + 1) (aclosed a)
  | Deliver k last tag, ODelivered =>
      let m := a_append k tag (aopen a) in
      if last then match a_lookup k m with
                   | Some v => mkA (a_remove k m) (afin a ++ [v]) (anext a) (aclosed a)
                   | None => a
                   end
      else mkA m (afin a) (anext a) (aclosed a)
  | Deliver k true _, ODeliverErr e =>
      match e with
      | EUnknownId | EClosed => a
      | _ => match a_lookup k (aopen a) with
             | Some v => mkA (a_remove k (aopen a)) (afin a ++ [v]) (anext a) (aclosed a)
             | None => a
             end
      end
  | Close, _ => if aclosed a then a else mkA [] (afin a ++ map snd (aopen a)) (anext a) true
  | _, _ => a
  end.

Fixpoint arun (a : astate) (ops : list op) (outs : list out) : astate :=
  match ops, outs with
  | o :: ops', x :: outs' => arun (astep a o x) ops' outs'
  | _, _ => a
  end.

Definition handler_op (o : op) : Prop := match o with CSend _ => False | _ => True end.

Lemma abs_lookup k m :
  a_lookup k (map (fun kr : Z * req => (fst kr, (rid (snd kr), queue (snd kr)))) m) =
  option_map (fun r => (rid r, queue r)) (lookup k m).
Proof. induction m as [|[k' r] m IH]; [reflexivity|]. cbn [map a_lookup lookup fst snd]. destruct (k' =? k); [reflexivity|exact IH]. Qed.

Lemma abs_remove k m :
  a_remove k (map (fun kr : Z * req => (fst kr, (rid (snd kr), queue (snd kr)))) m) =
  map (fun kr : Z * req => (fst kr, (rid (snd kr), queue (snd kr)))) (remove_key k m).
Proof.
  induction m as [|[k' r] m IH]; [reflexivity|]. cbn [map a_remove remove_key fst snd].
  destruct (k' =? k); [exact IH|]. cbn [map fst snd]. now rewrite IH.
Qed.

Lemma abs_append k tag m r r' :
  lookup k m = Some r -> rid r' = rid r -> queue r' = queue r ++ [tag] ->
  a_append k tag (map (fun kr : Z * req => (fst kr, (rid (snd kr), queue (snd kr)))) m) =
  map (fun kr : Z * req => (fst kr, (rid (snd kr), queue (snd kr)))) (update_key k r' m).
Proof.
  intros Hl Hr Hq. induction m as [|[k' r0] m IH]; [discriminate|].
  cbn [map a_append update_key lookup fst snd] in *. destruct (k' =? k).
  - inversion Hl; subst. cbn [map fst snd]. now rewrite Hr, Hq.
  - cbn [map fst snd]. now rewrite IH.
Qed.

Lemma abs_update_same k m r r' :
  lookup k m = Some r -> rid r' = rid r -> queue r' = queue r ->
  map (fun kr : Z * req => (fst kr, (rid (snd kr), queue (snd kr)))) (update_key k r' m) =
  map (fun kr : Z * req => (fst kr, (rid (snd kr), queue (snd kr)))) m.
Proof.
  intros Hl Hr Hq. induction m as [|[k' r0] m IH]; [reflexivity|].
  cbn [map update_key lookup fst snd] in *. destruct (k' =? k).
  - inversion Hl; subst. cbn [map fst snd]. now rewrite Hr, Hq.
  - cbn [map fst snd]. now rewrite IH.
Qed.

Lemma abs_map_vals f m :
  (forall r, rid (f r) = rid r /\ queue (f r) = queue r) ->
  map (fun kr : Z * req => (fst kr, (rid (snd kr), queue (snd kr)))) (map_vals f m) =
  map (fun kr : Z * req => (fst kr, (rid (snd kr), queue (snd kr)))) m.
Proof.
  intros Hf. unfold map_vals. rewrite map_map. apply map_ext. intros [k r]. cbn [fst snd]. destruct (Hf r) as [-> ->]. reflexivity.
Qed.

Lemma req_close_queue r e : queue (req_close r e) = queue r /\ rid (req_close r e) = rid r.
Proof. unfold req_close. destruct (done r); auto. Qed.

Lemma fire_queue n r : rid (fire n r) = rid r /\ queue (fire n r) = queue r.
Proof. unfold fire. destruct (deadline r); [|auto]. destruct (_ && _); [|auto]. destruct (req_close_queue r (Some ETimeout)); auto. Qed.

Lemma on_frame_queue p n t r last tag :
  let '(r', o) := on_frame p n t r last tag in
  rid r' = rid r /\ (o = ODelivered -> queue r' = queue r ++ [tag]) /\ (o <> ODelivered -> queue r' = queue r) /\
  (o = ODelivered \/ o = ODeliverErr ERequestClosed \/ o = ODeliverErr ETooManyPending).
Proof.
  unfold on_frame. destruct (done r) eqn:Hd.
  - repeat split; auto; try discriminate.
  - destruct (pending r <? p).
    + destruct last.
      * unfold req_close, req_stop, req_push. cbn. rewrite Hd. cbn. repeat split; auto; congruence.
      * unfold req_arm, req_push. cbn. repeat split; auto; congruence.
    + unfold req_close. rewrite Hd. cbn. repeat split; auto; try discriminate.
Qed.

(* one step of the implementation model is one step of the specification *)
Theorem step_refines s o :
  Inv s -> handler_op o -> abs (fst (step s o)) = astep (abs s) o (snd (step s o)).
Proof.
  intros HI Hop. destruct o; try contradiction; cbn [step].
  - (* Send *)
    unfold enqueue; rewrite ?check2_eq. destruct (closed s) eqn:Hc; [reflexivity|]. destruct (k =? 0).
    + destruct (pool s) as [|i rest]; [reflexivity|]. rewrite ?check2_eq, check_set_pool. destruct (check s i) eqn:Hck; cbn [fst snd astep].
      * unfold release. destruct (_ <? _); reflexivity.
      * apply check_None in Hck. destruct Hck as [_ Hnot]. unfold abs, register.
        cbn [inflight finished next_rid closed set_pool]. rewrite (remove_key_notin _ _ Hnot), map_app. reflexivity.
    + destruct (check s k) eqn:Hck; cbn [fst snd astep]; [reflexivity|].
      apply check_None in Hck. destruct Hck as [_ Hnot]. unfold abs, register.
      cbn [inflight finished next_rid closed]. rewrite (remove_key_notin _ _ Hnot), map_app. reflexivity.
  - (* CTake *) unfold ctake. destruct (outq s); reflexivity.
  - (* Deliver *)
    unfold deliver. destruct (closed s) eqn:Hc; [cbn [fst snd astep]; destruct last; reflexivity|].
    destruct (lookup k (inflight s)) as [r|] eqn:Hl; [|cbn [fst snd astep]; destruct last; reflexivity].
    pose proof (on_frame_queue (cfgP s) (now s) (cfgT s) r last tag) as Hq.
    destruct last.
    + assert (Hfin : forall r' o pl,
                 on_frame (cfgP s) (now s) (cfgT s) r true tag = (r', o) ->
                 abs (finish_state s k pl r') = astep (abs s) (Deliver k true tag) o).
      { intros r' o pl Hof. rewrite Hof in Hq. destruct Hq as (Hrid & Hq1 & Hq2 & Hcases).
        unfold abs, finish_state. cbn [inflight finished next_rid closed astep aopen afin anext aclosed].
        destruct Hcases as [-> | [-> | ->]].
        - rewrite (abs_append k tag _ r r' Hl Hrid (Hq1 eq_refl)).
          rewrite abs_lookup, (lookup_update_key_same k r' _ (lookup_In_keys _ _ _ Hl)). cbn [option_map].
          rewrite abs_remove. rewrite map_app. cbn [map]. f_equal.
          f_equal. symmetry. apply remove_key_update_key.
        - rewrite abs_lookup, Hl. cbn [option_map]. rewrite abs_remove, map_app. cbn [map].
          rewrite Hrid, (Hq2 ltac:(discriminate)). reflexivity.
        - rewrite abs_lookup, Hl. cbn [option_map]. rewrite abs_remove, map_app. cbn [map].
          rewrite Hrid, (Hq2 ltac:(discriminate)). reflexivity. }
      destruct (managed r) eqn:Hm.
      * destruct (release_success s k r HI Hc Hl Hm) as [Hroom _].
        unfold release. cbn [set_inflight pool cfgN]. assert (H : zlen (pool s) <? cfgN s = true) by lia. rewrite H.
        destruct (on_frame _ _ _ _ _ _) as [r' o] eqn:Hof. cbn [fst snd].
        change (abs (finish_state s k (pool s ++ [k]) r') = astep (abs s) (Deliver k true tag) o). now apply Hfin.
      * destruct (on_frame _ _ _ _ _ _) as [r' o] eqn:Hof. cbn [fst snd].
        change (abs (finish_state s k (pool s) r') = astep (abs s) (Deliver k true tag) o). now apply Hfin.
    + destruct (on_frame _ _ _ _ _ _) as [r' o] eqn:Hof. cbn [fst snd]. destruct Hq as (Hrid & Hq1 & Hq2 & Hcases).
      unfold abs. cbn [set_inflight inflight finished next_rid closed astep aopen afin anext aclosed].
      destruct Hcases as [-> | [-> | ->]].
      * now rewrite (abs_append k tag _ r r' Hl Hrid (Hq1 eq_refl)).
      * now rewrite (abs_update_same k _ r r' Hl Hrid (Hq2 ltac:(discriminate))).
      * now rewrite (abs_update_same k _ r r' Hl Hrid (Hq2 ltac:(discriminate))).
  - (* Event *) reflexivity.
  - (* Recv *)
    unfold recv. destruct (lookup k (inflight s)) as [r|] eqn:Hl; [|reflexivity].
    destruct (nth_error _ _); [|destruct (done r); reflexivity]. cbn [fst snd astep].
    unfold abs. cbn [set_inflight inflight finished next_rid closed]. now rewrite (abs_update_same k _ r (req_take r) Hl).
  - (* Tick *)
    unfold tick. cbn [fst snd astep]. unfold abs. cbn [inflight finished next_rid closed].
    change (map (fun kr : Z * req => (fst kr, fire (now s + d) (snd kr))) (inflight s)) with (map_vals (fire (now s + d)) (inflight s)).
    rewrite abs_map_vals by (intros; apply fire_queue). rewrite map_map.
    rewrite (map_ext (fun x => (rid (fire (now s + d) x), queue (fire (now s + d) x))) (fun r => (rid r, queue r))); [destruct (abs s); reflexivity|].
    intros r. destruct (fire_queue (now s + d) r) as [-> ->]. reflexivity.
  - (* Close *)
    unfold close_handler. destruct (closed s) eqn:Hc; cbn [fst snd astep]; unfold abs; cbn [aclosed inflight finished next_rid closed]; rewrite Hc; [reflexivity|].
    cbn [aopen afin anext map]. f_equal. rewrite map_app, !map_map. f_equal. apply map_ext. intros [k r]. cbn [snd fst].
    destruct (req_close_queue r (Some EClosed)) as [-> ->]. reflexivity.
Qed.

Theorem history_refines s ops :
  Inv s -> Forall handler_op ops -> abs (run s ops) = arun (abs s) ops (trace s ops).
Proof.
  revert s. induction ops as [|o ops IH]; intros s HI Hops; [reflexivity|].
  inversion Hops; subst. rewrite run_cons. cbn [trace].
  pose proof (step_refines s o HI H1) as Hs. pose proof (step_inv s o HI) as HI'.
  destruct (step s o) as [s' x]. cbn [fst snd] in *.
  cbn [arun]. rewrite <- Hs. apply IH; assumption.
Qed.

(* ------------------------------------------------------------------ a multi-page response *)
(* pages of one response arriving back to back (at most maxPending of them waiting): all of them, in arrival order,
   end up in the queue of the request registered under k, and the last one completes it *)
Theorem multi_page_response s k r pages lasttag :
  Inv s -> closed s = false -> lookup k (inflight s) = Some r -> done r = false ->
  pending r + zlen pages + 1 <= cfgP s ->
  let s' := run s (map (fun t => Deliver k false t) pages ++ [Deliver k true lasttag]) in
  trace s (map (fun t => Deliver k false t) pages ++ [Deliver k true lasttag]) = repeat ODelivered (S (length pages)) /\
  ~ In k (keys (inflight s')) /\
  exists r', In r' (finished s') /\ same_id r r' /\ queue r' = queue r ++ pages ++ [lasttag] /\
             done r' = true /\ err r' = None.
Proof.
  revert s r. induction pages as [|t pages IH]; intros s r HI Hc Hl Hd Hp s'.
  - cbn [map app] in *. subst s'. rewrite run_cons. cbn [trace length repeat].
    assert (Hlive : live (cfgP s) r). { split; [assumption|]. rewrite zlen_nil in Hp. lia. }
    destruct (deliver_to_live_request s k true lasttag r HI Hc Hl Hlive) as (Ho & r' & Hin & Hsame & Hq & _ & Hdn & He).
    destruct (deliver_frame_condition s k true lasttag r HI Hc Hl) as (_ & _ & (Hnone & _) & _).
    destruct (step s (Deliver k true lasttag)) as [s1 o1]. cbn [fst snd] in *. subst o1.
    split; [reflexivity|]. split; [now apply lookup_None|]. exists r'. unfold run. cbn [fold_left]. auto.
  - cbn [map app] in *. subst s'. rewrite run_cons. cbn [trace length repeat].
    assert (Hlive : live (cfgP s) r). { split; [assumption|]. rewrite zlen_cons in Hp. pose proof (zlen_nonneg pages). lia. }
    destruct (deliver_to_live_request s k false t r HI Hc Hl Hlive) as (Ho & r1 & Hl1 & Hsame & Hq & Hcns & Hdn & _).
    destruct (deliver_frame_condition s k false t r HI Hc Hl) as (_ & _ & _ & _ & _ & _ & _ & Hc1).
    pose proof (step_inv s (Deliver k false t) HI) as HI1.
    pose proof (step_cfg s (Deliver k false t)) as (_ & HP1 & _).
    destruct (step s (Deliver k false t)) as [s1 o1]. cbn [fst snd] in *. subst o1.
    assert (Hp1 : pending r1 + zlen pages + 1 <= cfgP s1).
    { rewrite HP1. unfold pending in *. rewrite Hq, Hcns, zlen_app, zlen_cons, zlen_nil. rewrite zlen_cons in Hp. lia. }
    destruct (IH s1 r1 HI1 Hc1 Hl1 Hdn Hp1) as (Htr & Hnot & r' & Hin & Hsame' & Hq' & Hd' & He').
    split; [now rewrite Htr|]. split; [assumption|]. exists r'.
    split; [assumption|]. split; [eapply same_id_trans; eauto|]. split; [|auto].
    rewrite Hq', Hq, <- app_assoc. reflexivity.
Qed.
