(* C13, part 1: every integer-to-integer helper of datacodec/conversions.go is exact or fails.
   Subject: gen/Numeric_gen.v (table [helpers], regenerated from the source on every run). *)
From Coq Require Import ZArith List String Bool Lia Arith.
From Coq Require Import ZifyBool.
From GCNP Require Import base.GoInt base.GoNum gen.Numeric_gen proofs.NumericBase.
Import ListNotations.
Open Scope Z_scope.
Ltac Zify.zify_post_hook ::= Z.div_mod_to_equations.

(* soundness: an Ok result is the argument itself and lies in the destination type;
   completeness: an argument representable in the destination type is accepted *)
Definition helper_exact (rs rd : zrange) (f : Z -> result Z) : Prop :=
  forall x, in_range rs x = true ->
    (forall v, f x = Ok v -> v = x /\ in_range rd v = true) /\
    (in_range rd x = true -> f x = Ok x).

Ltac solve_helper :=
  unfold helper_exact; cbn [in_range]; intros x Hx; cbv beta;
  autounfold with gonum; norm_int;
  split; [ intros v | intros Hd ]; split_ifs;
  try discriminate;
  try (let H := fresh in intro H; injection H as <-);
  norm_int; try split; try f_equal; lia.

Lemma helpers_Forall :
  Forall (fun h => match h with (_, rs, rd, f) => helper_exact rs rd f end) helpers.
Proof.
  unfold helpers.
  repeat (apply Forall_cons; [ solve_helper | ]).
  apply Forall_nil.
Qed.

Theorem helpers_exact :
  forall n rs rd f, In (n, rs, rd, f) helpers -> helper_exact rs rd f.
Proof.
  intros n rs rd f H. pose proof helpers_Forall as F. rewrite Forall_forall in F. exact (F _ H).
Qed.

(* the table is not empty and its entries are the expected functions *)
Example helpers_nonvacuous :
  (List.length helpers >= 50)%nat /\
  In ("int64ToInt16"%string, RInt true 64, RInt true 16, int64ToInt16) helpers /\
  int64ToInt16 32767 = Ok 32767 /\ int64ToInt16 32768 = Err /\ bigIntToUint8 256 = Err /\ bigIntToUint8 255 = Ok 255 /\
  uint64ToInt64 9223372036854775808 = Err.
Proof.
  split; [ apply Nat.leb_le; vm_compute; reflexivity | ].
  split; [ unfold helpers; repeat (first [ left; reflexivity | right ]) | ].
  repeat split; vm_compute; reflexivity.
Qed.
