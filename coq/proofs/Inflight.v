(* Base lemmas on the in-flight handler model and its inductive invariant, preserved by every operation. *)
From Coq Require Import ZArith List Bool Lia Permutation.
From Coq Require Import ZifyBool ZifyNat.
From GCNP Require Import model.Inflight.
Import ListNotations.
Open Scope Z_scope.

(* ------------------------------------------------------------------ ids 1..n *)
Definition ids (n : Z) : list Z := zseq 1 (Z.to_nat n).

Lemma In_zseq len : forall start x, In x (zseq start len) <-> start <= x < start + Z.of_nat len.
Proof.
  induction len as [|len IH]; intros start x; cbn [zseq In].
  - lia.
  - rewrite IH. lia.
Qed.

Lemma NoDup_zseq len : forall start, NoDup (zseq start len).
Proof.
  induction len as [|len IH]; intros start; cbn [zseq]; constructor; [|apply IH].
  rewrite In_zseq. lia.
Qed.

Lemma length_zseq len : forall start, length (zseq start len) = len.
Proof. induction len as [|len IH]; intros start; cbn [zseq length]; [reflexivity|now rewrite IH]. Qed.

Lemma In_ids n x : In x (ids n) <-> 1 <= x <= n.
Proof. unfold ids. rewrite In_zseq. lia. Qed.

Lemma NoDup_ids n : NoDup (ids n).
Proof. apply NoDup_zseq. Qed.

Lemma length_ids n : length (ids n) = Z.to_nat n.
Proof. apply length_zseq. Qed.

Lemma init_pool n p t : pool (init n p t) = ids n.
Proof. reflexivity. Qed.

Lemma check2_eq s id : check2 s id = check s id.
Proof. unfold check2. destruct (check s id); reflexivity. Qed.

(* ------------------------------------------------------------------ association lists *)
Definition managed_keys (m : list (Z * req)) : list Z := keys (filter (fun kr => managed (snd kr)) m).

Lemma zlen_app {A} (a b : list A) : zlen (a ++ b) = zlen a + zlen b.
Proof. unfold zlen. rewrite app_length. lia. Qed.

Lemma zlen_cons {A} (x : A) l : zlen (x :: l) = 1 + zlen l.
Proof. unfold zlen. cbn [length]. lia. Qed.

Lemma zlen_nil {A} : zlen (@nil A) = 0.
Proof. reflexivity. Qed.

Lemma zlen_nonneg {A} (l : list A) : 0 <= zlen l.
Proof. unfold zlen. lia. Qed.

Lemma memZ_true_iff k l : memZ k l = true <-> In k l.
Proof.
  unfold memZ. rewrite existsb_exists. split.
  - intros (x & Hx & He). apply Z.eqb_eq in He. now subst.
  - intros H. exists k. split; [assumption|apply Z.eqb_refl].
Qed.

Lemma memZ_false_iff k l : memZ k l = false <-> ~ In k l.
Proof. rewrite <- memZ_true_iff. destruct (memZ k l); split; congruence. Qed.

Lemma lookup_None k m : lookup k m = None <-> ~ In k (keys m).
Proof.
  induction m as [|[k' r] m IH]; cbn [lookup keys map fst In].
  - tauto.
  - destruct (Z.eqb_spec k' k).
    + split; [discriminate|]. intros H. exfalso. apply H. now left.
    + rewrite IH. unfold keys. tauto.
Qed.

Lemma lookup_Some_In k m r : lookup k m = Some r -> In (k, r) m.
Proof.
  induction m as [|[k' r'] m IH]; cbn [lookup In]; [discriminate|].
  destruct (Z.eqb_spec k' k).
  - intros [= ->]. subst. now left.
  - intros H. right. auto.
Qed.

Lemma In_keys k r (m : list (Z * req)) : In (k, r) m -> In k (keys m).
Proof. intros H. unfold keys. apply in_map_iff. now exists (k, r). Qed.

Lemma In_lookup k r m : NoDup (keys m) -> In (k, r) m -> lookup k m = Some r.
Proof.
  induction m as [|[k' r'] m IH]; cbn [lookup keys map fst In]; [tauto|].
  intros Hnd [Heq|Hin].
  - inversion Heq; subst. now rewrite Z.eqb_refl.
  - inversion Hnd as [|? ? Hnot Hnd']; subst.
    destruct (Z.eqb_spec k' k).
    + subst. exfalso. apply Hnot. eapply In_keys; eauto.
    + auto.
Qed.

Lemma lookup_In_keys k m r : lookup k m = Some r -> In k (keys m).
Proof. intros H. eapply In_keys, lookup_Some_In; eauto. Qed.

Lemma In_remove_key k k' r m : In (k', r) (remove_key k m) <-> In (k', r) m /\ k' <> k.
Proof.
  induction m as [|[k2 r2] m IH]; cbn [remove_key In]; [tauto|].
  destruct (Z.eqb_spec k2 k).
  - rewrite IH. split.
    + intros [H1 H2]. tauto.
    + intros [[Heq|H1] H2]; [inversion Heq; subst; congruence|tauto].
  - cbn [In]. rewrite IH. split.
    + intros [Heq|[H1 H2]]; [inversion Heq; subst; split; auto|tauto].
    + intros [[Heq|H1] H2]; [now left|right; tauto].
Qed.

Lemma In_keys_remove_key k x m : In x (keys (remove_key k m)) <-> In x (keys m) /\ x <> k.
Proof.
  unfold keys. rewrite !in_map_iff. split.
  - intros ([k' r] & <- & H). apply In_remove_key in H. cbn [fst]. split; [|tauto]. exists (k', r). tauto.
  - intros (([k' r] & <- & H) & Hne). exists (k', r). split; [reflexivity|]. apply In_remove_key. auto.
Qed.

Lemma remove_key_notin k m : ~ In k (keys m) -> remove_key k m = m.
Proof.
  induction m as [|[k' r] m IH]; cbn [remove_key keys map fst In]; [reflexivity|].
  intros H. destruct (Z.eqb_spec k' k); [tauto|]. f_equal. apply IH. unfold keys. tauto.
Qed.

Lemma NoDup_keys_remove_key k m : NoDup (keys m) -> NoDup (keys (remove_key k m)).
Proof.
  induction m as [|[k' r] m IH]; cbn [remove_key keys map fst]; [auto|].
  intros H. inversion H as [|? ? Hnot Hnd]; subst.
  destruct (Z.eqb_spec k' k); [auto|].
  cbn [keys map fst]. constructor; [|auto].
  fold (keys (remove_key k m)). rewrite In_keys_remove_key. tauto.
Qed.

Lemma length_remove_key k m : NoDup (keys m) -> In k (keys m) -> S (length (remove_key k m)) = length m.
Proof.
  induction m as [|[k' r] m IH]; cbn [remove_key keys map fst In length]; [tauto|].
  intros H Hin. inversion H as [|? ? Hnot Hnd]; subst.
  destruct (Z.eqb_spec k' k).
  - subst. now rewrite remove_key_notin.
  - cbn [length]. f_equal. apply IH; [auto|]. destruct Hin; [congruence|auto].
Qed.

Lemma keys_app (a b : list (Z * req)) : keys (a ++ b) = keys a ++ keys b.
Proof. unfold keys. apply map_app. Qed.

Lemma managed_keys_app a b : managed_keys (a ++ b) = managed_keys a ++ managed_keys b.
Proof. unfold managed_keys. now rewrite filter_app, keys_app. Qed.

Lemma managed_keys_incl m x : In x (managed_keys m) -> In x (keys m).
Proof.
  unfold managed_keys, keys. rewrite !in_map_iff. intros (kr & <- & H). apply filter_In in H. exists kr. tauto.
Qed.

Lemma managed_keys_remove k m r :
  NoDup (keys m) -> lookup k m = Some r -> managed r = true ->
  Permutation (managed_keys m) (k :: managed_keys (remove_key k m)).
Proof.
  induction m as [|[k' r'] m IH]; cbn [lookup remove_key keys map fst]; [discriminate|].
  intros Hnd Hl Hm. inversion Hnd as [|? ? Hnot Hnd']; subst.
  destruct (Z.eqb_spec k' k).
  - inversion Hl; subst. rewrite remove_key_notin by assumption.
    unfold managed_keys. cbn [filter snd]. rewrite Hm. reflexivity.
  - unfold managed_keys in *. cbn [filter snd]. destruct (managed r') eqn:E; cbn [keys map fst].
    + rewrite (IH Hnd' Hl Hm). apply perm_swap.
    + apply (IH Hnd' Hl Hm).
Qed.

Lemma managed_keys_remove_unmanaged k m r :
  NoDup (keys m) -> lookup k m = Some r -> managed r = false ->
  managed_keys (remove_key k m) = managed_keys m.
Proof.
  induction m as [|[k' r'] m IH]; cbn [lookup remove_key keys map fst]; [discriminate|].
  intros Hnd Hl Hm. inversion Hnd as [|? ? Hnot Hnd']; subst.
  destruct (Z.eqb_spec k' k).
  - inversion Hl; subst. rewrite remove_key_notin by assumption.
    unfold managed_keys. cbn [filter snd]. now rewrite Hm.
  - unfold managed_keys in *. cbn [filter snd]. destruct (managed r'); cbn [keys map fst]; [f_equal|]; now apply IH.
Qed.

Lemma keys_update_key k r m : keys (update_key k r m) = keys m.
Proof.
  induction m as [|[k' r'] m IH]; cbn [update_key keys map fst]; [reflexivity|].
  destruct (Z.eqb_spec k' k); cbn [keys map fst]; [now subst|]. f_equal. apply IH.
Qed.

Lemma length_update_key k r m : length (update_key k r m) = length m.
Proof.
  induction m as [|[k' r'] m IH]; cbn [update_key length]; [reflexivity|].
  destruct (k' =? k); cbn [length]; [reflexivity|now rewrite IH].
Qed.

Lemma managed_keys_update k r r0 m :
  lookup k m = Some r0 -> managed r = managed r0 -> managed_keys (update_key k r m) = managed_keys m.
Proof.
  induction m as [|[k' r'] m IH]; cbn [lookup update_key]; [discriminate|].
  intros Hl Hm. destruct (Z.eqb_spec k' k).
  - inversion Hl; subst. unfold managed_keys. cbn [filter snd]. rewrite Hm. destruct (managed r0); reflexivity.
  - unfold managed_keys in *. cbn [filter snd]. destruct (managed r'); cbn [keys map fst]; [f_equal|]; now apply IH.
Qed.

Lemma lookup_update_key_same k r m : In k (keys m) -> lookup k (update_key k r m) = Some r.
Proof.
  induction m as [|[k' r'] m IH]; cbn [update_key keys map fst In lookup]; [tauto|].
  intros H. destruct (Z.eqb_spec k' k); cbn [lookup].
  - subst. now rewrite Z.eqb_refl.
  - destruct (Z.eqb_spec k' k); [congruence|]. apply IH. destruct H; [congruence|auto].
Qed.

Lemma lookup_update_key_other k k' r m : k' <> k -> lookup k' (update_key k r m) = lookup k' m.
Proof.
  intros Hne. induction m as [|[k2 r2] m IH]; cbn [update_key lookup]; [reflexivity|].
  destruct (Z.eqb_spec k2 k); cbn [lookup].
  - subst. destruct (Z.eqb_spec k k'); [congruence|reflexivity].
  - destruct (Z.eqb_spec k2 k'); [reflexivity|apply IH].
Qed.

Lemma In_update_key k r k' r' m :
  NoDup (keys m) ->
  In (k', r') (update_key k r m) -> (k' = k /\ r' = r) \/ (k' <> k /\ In (k', r') m).
Proof.
  induction m as [|[k2 r2] m IH]; cbn [update_key In keys map fst]; [tauto|].
  intros Hnd. inversion Hnd as [|? ? Hnot Hnd']; subst.
  destruct (Z.eqb_spec k2 k); cbn [In].
  - subst. intros [Heq|H]; [inversion Heq; auto|].
    right. split; [|auto]. intros ->. apply Hnot. eapply In_keys; eauto.
  - intros [Heq|H].
    + inversion Heq; subst. right. split; [assumption|now left].
    + destruct (IH Hnd' H) as [?|[? ?]]; [now left|right; auto].
Qed.

Lemma In_update_key_other k r k' r' m : k' <> k -> In (k', r') m -> In (k', r') (update_key k r m).
Proof.
  intros Hne. induction m as [|[k2 r2] m IH]; cbn [update_key In]; [tauto|].
  destruct (Z.eqb_spec k2 k); cbn [In].
  - subst. intros [Heq|H]; [inversion Heq; congruence|auto].
  - intros [Heq|H]; [now left|right; auto].
Qed.

Definition map_vals (f : req -> req) (m : list (Z * req)) : list (Z * req) := map (fun kr => (fst kr, f (snd kr))) m.

Lemma keys_map_vals f m : keys (map_vals f m) = keys m.
Proof. unfold keys, map_vals. rewrite map_map. reflexivity. Qed.

Lemma managed_keys_map_vals f m : (forall r, managed (f r) = managed r) -> managed_keys (map_vals f m) = managed_keys m.
Proof.
  intros Hf. induction m as [|[k r] m IH]; [reflexivity|].
  unfold managed_keys, map_vals in *. cbn [map filter fst snd]. rewrite Hf.
  destruct (managed r); cbn [keys map fst]; [f_equal|]; exact IH.
Qed.

Lemma In_map_vals f k r m : In (k, r) (map_vals f m) <-> exists r0, In (k, r0) m /\ r = f r0.
Proof.
  unfold map_vals. rewrite in_map_iff. split.
  - intros ([k0 r0] & Heq & H). cbn [fst snd] in Heq. inversion Heq; subst. eauto.
  - intros (r0 & H & ->). exists (k, r0). auto.
Qed.

Lemma lookup_map_vals f k m : lookup k (map_vals f m) = option_map f (lookup k m).
Proof.
  induction m as [|[k' r] m IH]; [reflexivity|].
  unfold map_vals in *. cbn [map lookup fst snd]. destruct (k' =? k); [reflexivity|exact IH].
Qed.

(* ------------------------------------------------------------------ requests *)
Definition same_id (r r' : req) : Prop := rid r' = rid r /\ sid r' = sid r /\ managed r' = managed r.

Lemma same_id_refl r : same_id r r. Proof. now repeat split. Qed.
Lemma same_id_trans a b c : same_id a b -> same_id b c -> same_id a c.
Proof. unfold same_id. intuition congruence. Qed.

Lemma req_close_same r e : same_id r (req_close r e).
Proof. unfold req_close. destruct (done r); now repeat split. Qed.
Lemma req_push_same r t : same_id r (req_push r t). Proof. now repeat split. Qed.
Lemma req_arm_same r t : same_id r (req_arm r t). Proof. now repeat split. Qed.
Lemma req_stop_same r : same_id r (req_stop r). Proof. now repeat split. Qed.
Lemma req_take_same r : same_id r (req_take r). Proof. now repeat split. Qed.

Lemma on_frame_same p n t r last tag : same_id r (fst (on_frame p n t r last tag)).
Proof.
  unfold on_frame. destruct (done r); [apply same_id_refl|].
  destruct (pending r <? p); [|apply req_close_same].
  destruct last; cbn [fst].
  - eapply same_id_trans; [|apply req_close_same]. eapply same_id_trans; [apply req_push_same|apply req_stop_same].
  - eapply same_id_trans; [apply req_push_same|apply req_arm_same].
Qed.

Lemma fire_same n r : same_id r (fire n r).
Proof. unfold fire. destruct (deadline r); [|apply same_id_refl]. destruct (_ && _); [apply req_close_same|apply same_id_refl]. Qed.

(* a request is well formed: the channel was closed exactly when it is done (never twice),
   an error only on a done request, a live request has an armed timer *)
Definition req_wf (r : req) : Prop :=
  chan_closed r = (if done r then 1 else 0)%nat /\
  (done r = false -> err r = None /\ deadline r <> None) /\
  (done r = true -> deadline r = None) /\
  (consumed r <= length (queue r))%nat.

Lemma req_close_wf r e : req_wf r -> req_wf (req_close r e).
Proof.
  unfold req_wf, req_close. intros (H1 & H2 & H3 & H4). destruct (done r) eqn:E.
  - rewrite E. auto.
  - cbn. rewrite H1. repeat split; auto; discriminate.
Qed.

Lemma req_close_done r e : done (req_close r e) = true.
Proof. unfold req_close. destruct (done r) eqn:E; [exact E|reflexivity]. Qed.

Lemma on_frame_wf p n t r last tag : req_wf r -> req_wf (fst (on_frame p n t r last tag)).
Proof.
  intros Hwf. unfold on_frame. destruct (done r) eqn:Ed; [exact Hwf|].
  destruct (pending r <? p); [|now apply req_close_wf].
  destruct Hwf as (H1 & H2 & H3 & H4).
  destruct last; cbn [fst].
  - unfold req_wf, req_close, req_stop, req_push. cbn. rewrite Ed. cbn. rewrite H1, Ed, app_length. cbn [length].
    repeat split; auto; try discriminate; try lia.
  - unfold req_wf, req_arm, req_push. cbn. rewrite Ed in *. rewrite app_length. cbn [length].
    repeat split; auto; try discriminate; try lia. now destruct (H2 eq_refl).
Qed.

Lemma fire_wf n r : req_wf r -> req_wf (fire n r).
Proof. intros H. unfold fire. destruct (deadline r); [|exact H]. destruct (_ && _); [now apply req_close_wf|exact H]. Qed.

Lemma req_take_wf r : (consumed r < length (queue r))%nat -> req_wf r -> req_wf (req_take r).
Proof. unfold req_wf, req_take. cbn. intros Hc (H1 & H2 & H3 & H4). repeat split; auto; try lia; now apply H2. Qed.

Lemma new_req_wf s id m : req_wf (new_req s id m).
Proof. unfold req_wf, new_req. cbn. repeat split; auto; try discriminate; lia. Qed.

(* ------------------------------------------------------------------ the invariant *)
Record Inv (s : state) : Prop := mkInv {
  inv_N : 1 <= cfgN s;
  inv_nodup : NoDup (keys (inflight s));
  inv_len : zlen (inflight s) <= cfgN s;
  inv_cons : closed s = false -> Permutation (pool s ++ managed_keys (inflight s)) (ids (cfgN s));
  inv_sid : forall k r, In (k, r) (inflight s) -> sid r = k;
  inv_wf : forall r, In r (all_reqs s) -> req_wf r;
  inv_err : forall k r, In (k, r) (inflight s) -> done r = true -> err r <> None;
  inv_closed : closed s = true -> inflight s = [];
  inv_fin : forall r, In r (finished s) -> done r = true;
  inv_next : 0 <= next_rid s;
  inv_rid : forall r, In r (all_reqs s) -> 0 <= rid r < next_rid s;
  inv_rid_nodup : NoDup (map rid (all_reqs s))
}.

Lemma init_inv n p t : 1 <= n -> Inv (init n p t).
Proof.
  intros Hn. constructor; unfold init, all_reqs;
    cbn [cfgN pool inflight finished closed next_rid keys map app managed_keys filter zlen length In];
    auto; try (intros; tauto); try constructor; try lia; try discriminate.
  - unfold zlen. cbn [length]. lia.
  - intros _. rewrite app_nil_r. reflexivity.
Qed.

Lemma conservation_facts s :
  Inv s -> closed s = false ->
  NoDup (pool s ++ managed_keys (inflight s)) /\
  (forall x, In x (pool s ++ managed_keys (inflight s)) <-> 1 <= x <= cfgN s) /\
  zlen (pool s) + zlen (managed_keys (inflight s)) = cfgN s.
Proof.
  intros HI Hc. pose proof (inv_cons s HI Hc) as HP. pose proof (inv_N s HI).
  split; [|split].
  - eapply Permutation_NoDup; [symmetry; exact HP|apply NoDup_ids].
  - intros x. rewrite <- In_ids. split; intros Hx; [eapply Permutation_in; eauto|].
    eapply Permutation_in; [apply Permutation_sym; exact HP|exact Hx].
  - apply Permutation_length in HP. rewrite app_length, length_ids in HP. unfold zlen. lia.
Qed.

Lemma all_reqs_In s r : In r (all_reqs s) <-> (exists k, In (k, r) (inflight s)) \/ In r (finished s).
Proof.
  unfold all_reqs. rewrite in_app_iff, in_map_iff. split.
  - intros [([k r0] & <- & H)|H]; [left; now exists k|now right].
  - intros [(k & H)|H]; [left; now exists (k, r)|now right].
Qed.

(* rids of a list of requests after a value-wise change that keeps identities *)
Lemma map_rid_map_vals f m : (forall r, rid (f r) = rid r) -> map rid (map snd (map_vals f m)) = map rid (map snd m).
Proof. intros Hf. unfold map_vals. rewrite !map_map. apply map_ext. intros [k r]. cbn. apply Hf. Qed.

Lemma map_rid_update_key k r r0 m :
  lookup k m = Some r0 -> rid r = rid r0 -> map rid (map snd (update_key k r m)) = map rid (map snd m).
Proof.
  induction m as [|[k' r'] m IH]; cbn [lookup update_key]; [discriminate|].
  intros Hl He. destruct (Z.eqb_spec k' k); cbn [map snd].
  - inversion Hl; subst. now rewrite He.
  - f_equal. now apply IH.
Qed.

Lemma map_rid_remove_key k r m :
  NoDup (keys m) -> lookup k m = Some r ->
  Permutation (map rid (map snd m)) (rid r :: map rid (map snd (remove_key k m))).
Proof.
  induction m as [|[k' r'] m IH]; cbn [lookup remove_key keys map fst snd]; [discriminate|].
  intros Hnd Hl. inversion Hnd as [|? ? Hnot Hnd']; subst.
  destruct (Z.eqb_spec k' k).
  - inversion Hl; subst. now rewrite remove_key_notin.
  - cbn [map snd]. rewrite (IH Hnd' Hl). apply perm_swap.
Qed.
