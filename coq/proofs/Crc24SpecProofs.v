(* The code's CRC-24 register machine (xor a byte into bits 16..23 of a uint32, then 8 shift steps) equals the textbook
   bit-at-a-time CRC-24 of spec/SpecSegment.v (one message bit at a time, most significant bit of each byte first),
   for every header word and every number of bytes. *)
From Coq Require Import ZArith NArith List Bool Lia.
From Coq Require Import ZifyBool ZifyN ZifyNat.
From GCNP Require Import base.GoInt base.Bytes gen.Crc_gen model.Crc model.Segment spec.SpecSegment
  proofs.Crc24Proofs proofs.SegmentProofs.
Import ListNotations.
Open Scope N_scope.

Notation S := spec_crc24_bit.
Definition S0 (r : N) : N := S r false.
Definition low24 (x : N) : N := N.land x (N.ones 24).
Definition sh24 (w : N) : N := low24 (N.shiftl w 1).

Lemma spec_poly_is_model : Z.to_N spec_crc24_poly = crc24_poly. Proof. reflexivity. Qed.

Lemma low24_bits x n : N.testbit (low24 x) n = (n <? 24) && N.testbit x n.
Proof.
  unfold low24. rewrite N.land_spec.
  destruct (N.ltb_spec n 24); [rewrite N.ones_spec_low by assumption | rewrite N.ones_spec_high by assumption];
    destruct (N.testbit x n); reflexivity.
Qed.

Lemma sh24_bits w n : N.testbit (sh24 w) n = (n <? 24) && (0 <? n) && N.testbit w (n - 1).
Proof.
  unfold sh24. rewrite low24_bits. destruct (N.ltb_spec 0 n).
  - rewrite N.shiftl_spec_high' by lia. destruct (n <? 24); reflexivity.
  - rewrite N.shiftl_spec_low by lia. destruct (n <? 24); reflexivity.
Qed.

(* the textbook step, bit by bit *)
Lemma S_bits r b n :
  N.testbit (S r b) n =
  (n <? 24) && xorb ((0 <? n) && N.testbit r (n - 1)) (xorb (N.testbit r 23) b && N.testbit crc24_poly n).
Proof.
  unfold spec_crc24_bit. rewrite spec_poly_is_model.
  rewrite <- N.shiftr_div_pow2, <- N.testbit_odd.
  replace ((2 * r) mod 2 ^ 24) with (sh24 r)
    by (unfold sh24, low24; rewrite N.land_ones, N.shiftl_mul_pow2; f_equal; change (2 ^ 1) with 2; lia).
  replace (crc24_poly mod 2 ^ 24) with (low24 crc24_poly) by (unfold low24; apply N.land_ones).
  destruct (xorb (N.testbit r 23) b).
  - rewrite N.lxor_spec, sh24_bits, low24_bits.
    destruct (n <? 24), (0 <? n), (N.testbit r (n - 1)), (N.testbit crc24_poly n); reflexivity.
  - rewrite sh24_bits. destruct (n <? 24), (0 <? n), (N.testbit r (n - 1)); reflexivity.
Qed.

(* one shift step of the code, reduced to 24 bits, is the textbook step with input bit 0 *)
Lemma low24_bitstep x : low24 (crc24_bitstep x) = S0 x.
Proof.
  apply N.bits_inj. intro n. unfold S0. rewrite low24_bits, S_bits, bitstep_bits.
  destruct (N.ltb_spec n 24) as [Hlt|Hge]; [|reflexivity]. cbn [andb].
  replace (n =? 24) with false by lia. replace (25 <=? n) with false by lia.
  rewrite xorb_false_r. reflexivity.
Qed.

Lemma S_low24 r b : S (low24 r) b = S r b.
Proof.
  apply N.bits_inj. intro n. rewrite !S_bits, !low24_bits. change (23 <? 24) with true. cbn [andb].
  destruct (N.ltb_spec n 24) as [Hlt|Hge]; [|reflexivity].
  replace (n - 1 <? 24) with true by lia. reflexivity.
Qed.

Lemma S0_lt r : S0 r < 2 ^ 24.
Proof. apply lt_pow2_of_bits. intros n Hn. unfold S0. rewrite S_bits. replace (n <? 24) with false by lia. reflexivity. Qed.

Lemma bitstep_lt32 x : crc24_bitstep x < 2 ^ 32.
Proof.
  apply lt_pow2_of_bits. intros n Hn. rewrite bitstep_bits.
  replace (n =? 24) with false by lia. replace (25 <=? n) with true by lia. replace (n <? 32) with false by lia. reflexivity.
Qed.

Lemma low24_iter k : forall x, low24 (iterN k crc24_bitstep x) = iterN k S0 (low24 x).
Proof.
  induction k as [|k IH]; intro x; cbn [iterN]; [reflexivity|].
  rewrite IH, low24_bitstep. unfold S0. rewrite S_low24. reflexivity.
Qed.

Lemma low24_small x : x < 2 ^ 24 -> low24 x = x.
Proof. intro H. unfold low24. rewrite N.land_ones. apply N.mod_small. exact H. Qed.

(* feeding: the pending message bits sit in w (bit 23 next); each textbook step consumes bit 23 of w *)
Lemma S0_lxor c w : S0 (N.lxor c w) = N.lxor (S c (N.testbit w 23)) (sh24 w).
Proof.
  apply N.bits_inj. intro n. unfold S0. rewrite N.lxor_spec, !S_bits, sh24_bits, !N.lxor_spec.
  destruct (n <? 24), (0 <? n), (N.testbit c (n - 1)), (N.testbit w (n - 1)), (N.testbit c 23), (N.testbit w 23), (N.testbit crc24_poly n); reflexivity.
Qed.

Fixpoint wbits (k : nat) (w : N) : list bool :=
  match k with O => [] | Datatypes.S k' => N.testbit w 23 :: wbits k' (sh24 w) end.
Fixpoint wrest (k : nat) (w : N) : N :=
  match k with O => w | Datatypes.S k' => wrest k' (sh24 w) end.

Lemma iter_S0_feed k : forall c w, iterN k S0 (N.lxor c w) = N.lxor (fold_left S (wbits k w) c) (wrest k w).
Proof.
  induction k as [|k IH]; intros c w; cbn [iterN wbits wrest fold_left]; [reflexivity|].
  rewrite S0_lxor. apply IH.
Qed.

(* facts about a single byte value, by exhaustion over the 256 values *)
Definition msb_bits_spec (b : Z) : list bool := map (fun i => Z.odd (b / 2 ^ i)%Z) [7; 6; 5; 4; 3; 2; 1; 0]%Z.

Fixpoint bl_eqb (a b : list bool) : bool :=
  match a, b with [], [] => true | x :: a', y :: b' => Bool.eqb x y && bl_eqb a' b' | _, _ => false end.
Lemma bl_eqb_eq : forall a b, bl_eqb a b = true -> a = b.
Proof.
  induction a as [|x a IH]; intros [|y b] H; try discriminate; [reflexivity|].
  cbn [bl_eqb] in H. apply andb_true_iff in H. destruct H as [H1 H2]. apply eqb_prop in H1. subst. f_equal. apply IH. exact H2.
Qed.

Lemma byte_facts_all :
  forallb (fun k => let v := N.of_nat k in
                    (wrest 8 (N.shiftl v 16) =? 0) && bl_eqb (wbits 8 (N.shiftl v 16)) (msb_bits_spec (Z.of_N v))) (seq 0 256) = true.
Proof. vm_compute. reflexivity. Qed.

Lemma byte_facts v : v < 256 ->
  wrest 8 (N.shiftl v 16) = 0 /\ wbits 8 (N.shiftl v 16) = msb_bits_spec (Z.of_N v).
Proof.
  intro H. pose proof byte_facts_all as A. rewrite forallb_forall in A.
  specialize (A (N.to_nat v)). cbv zeta in A. rewrite Nnat.N2Nat.id in A.
  assert (I : In (N.to_nat v) (seq 0 256)) by (apply in_seq; lia).
  specialize (A I). apply andb_true_iff in A. destruct A as [A1 A2].
  split; [apply N.eqb_eq; exact A1 | apply bl_eqb_eq; exact A2].
Qed.

Lemma fold_left_map {A B C} (f : A -> B -> A) (g : C -> B) l : forall a, fold_left (fun r i => f r (g i)) l a = fold_left f (map g l) a.
Proof. induction l as [|x l IH]; intro a; [reflexivity|]. cbn [map fold_left]. apply IH. Qed.

(* one byte of the code's loop = the textbook machine fed the 8 bits of that byte, most significant first *)
Lemma byte_round c d : c < 2 ^ 24 ->
  iterN 8 crc24_bitstep (N.lxor c (N.land (N.shiftl (N.land d mask32) 16) mask32)) = spec_crc24_byte c (Z.of_N (N.land d 255)).
Proof.
  intro Hc. set (c1 := N.lxor c _).
  assert (H32 : c1 < 2 ^ 32).
  { unfold c1. apply lt_pow2_of_bits. intros n Hn. rewrite N.lxor_spec, N.land_spec, mask32_bit.
    rewrite (testbit_high c 24 n Hc) by lia. replace (n <? 32) with false by lia. rewrite andb_false_r. reflexivity. }
  rewrite <- (low24_small (iterN 8 crc24_bitstep c1)) by (apply iter8_lt; exact H32).
  rewrite low24_iter.
  assert (E : low24 c1 = N.lxor c (N.shiftl (N.land d 255) 16)).
  { apply N.bits_inj. intro n. unfold c1. rewrite low24_bits, !N.lxor_spec, N.land_spec, mask32_bit.
    destruct (N.ltb_spec n 24) as [Hlt|Hge].
    - cbn [andb]. replace (n <? 32) with true by lia. rewrite andb_true_r. f_equal.
      destruct (N.ltb_spec n 16).
      + rewrite !N.shiftl_spec_low by assumption. reflexivity.
      + rewrite !N.shiftl_spec_high' by assumption. rewrite !N.land_spec, mask32_bit, testbit_255.
        replace (n - 16 <? 32) with true by lia. replace (n - 16 <? 8) with true by lia. reflexivity.
    - cbn [andb]. rewrite (testbit_high c 24 n Hc) by assumption.
      rewrite N.shiftl_spec_high' by lia. rewrite N.land_spec, testbit_255. replace (n - 16 <? 8) with false by lia.
      rewrite andb_false_r. reflexivity. }
  rewrite E, iter_S0_feed.
  assert (Hv : N.land d 255 < 256) by (rewrite land255; apply N.mod_upper_bound; lia).
  destruct (byte_facts _ Hv) as [R B]. rewrite R, B, N.lxor_0_r.
  unfold spec_crc24_byte. rewrite (fold_left_map S (fun i => Z.odd (Z.of_N (N.land d 255) / 2 ^ i)%Z)). reflexivity.
Qed.

Theorem crc24_loop_is_spec n : forall d c, c < 2 ^ 24 ->
  crc24_loop n d c = fold_left spec_crc24_byte (put_le n d) c.
Proof.
  induction n as [|k IH]; intros d c Hc; cbn [crc24_loop put_le fold_left]; [reflexivity|].
  rewrite byte_round by exact Hc. apply IH.
  rewrite <- byte_round by exact Hc. apply iter8_lt.
  apply lt_pow2_of_bits. intros m Hm. rewrite N.lxor_spec, N.land_spec, mask32_bit.
  rewrite (testbit_high c 24 m Hc) by lia. replace (m <? 32) with false by lia. rewrite andb_false_r. reflexivity.
Qed.

(* the checksum of the code on a header word = the textbook CRC-24 of its little-endian bytes *)
Theorem checksum_koopman_is_spec hd n : Z.of_N (checksum_koopman hd n) = spec_crc24 (put_le n hd).
Proof.
  unfold checksum_koopman, spec_crc24. f_equal. rewrite crc24_loop_is_spec by exact init_lt. reflexivity.
Qed.
