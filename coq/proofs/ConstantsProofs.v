(* Lemmas about the regenerated primitive/constants.go tables (C19). *)
From Coq Require Import ZArith List String Bool Lia.
From GCNP Require Import base.GoInt base.CodeTypes gen.Constants_gen.
Import ListNotations.
Open Scope Z_scope.

(* ---------- boolean checkers over the (finite) tables, decided by computation ---------- *)

Definition chk_int_declared_accepted : bool :=
  forallb (fun t => match ict_valid t with
                    | Some f => forallb (fun nc => f (snd nc)) (ict_declared t)
                    | None => true end) int_code_types.

Definition chk_str_declared_accepted : bool :=
  forallb (fun t => match sct_valid t with
                    | Some f => forallb (fun nc => f (snd nc)) (sct_declared t)
                    | None => true end) str_code_types.

Definition chk_int_declared_specific_name : bool :=
  forallb (fun t => match ict_string t with
                    | Some s => forallb (fun nc => negb (str_contains_q (s (snd nc)))) (ict_declared t)
                    | None => true end) int_code_types.

Lemma int_declared_accepted_ok : chk_int_declared_accepted = true.
Proof. vm_compute. reflexivity. Qed.
Lemma str_declared_accepted_ok : chk_str_declared_accepted = true.
Proof. vm_compute. reflexivity. Qed.
Lemma int_declared_specific_name_ok : chk_int_declared_specific_name = true.
Proof. vm_compute. reflexivity. Qed.

Lemma int_declared_accepted :
  forall t, In t int_code_types -> forall f, ict_valid t = Some f ->
  forall n c, In (n, c) (ict_declared t) -> f c = true.
Proof.
  intros t Ht f Hf n c Hc.
  pose proof int_declared_accepted_ok as H. unfold chk_int_declared_accepted in H.
  rewrite forallb_forall in H. specialize (H t Ht). rewrite Hf in H.
  rewrite forallb_forall in H. exact (H (n, c) Hc).
Qed.

Lemma str_declared_accepted :
  forall t, In t str_code_types -> forall f, sct_valid t = Some f ->
  forall n c, In (n, c) (sct_declared t) -> f c = true.
Proof.
  intros t Ht f Hf n c Hc.
  pose proof str_declared_accepted_ok as H. unfold chk_str_declared_accepted in H.
  rewrite forallb_forall in H. specialize (H t Ht). rewrite Hf in H.
  rewrite forallb_forall in H. exact (H (n, c) Hc).
Qed.

Lemma int_declared_specific_name :
  forall t, In t int_code_types -> forall s, ict_string t = Some s ->
  forall n c, In (n, c) (ict_declared t) -> str_contains_q (s c) = false.
Proof.
  intros t Ht s Hs n c Hc.
  pose proof int_declared_specific_name_ok as H. unfold chk_int_declared_specific_name in H.
  rewrite forallb_forall in H. specialize (H t Ht). rewrite Hs in H.
  rewrite forallb_forall in H. specialize (H (n, c) Hc). cbn [snd] in H.
  destruct (str_contains_q (s c)); [discriminate|reflexivity].
Qed.

(* ---------- the checks accept no undeclared value: structural, for every Z / every string ---------- *)

Lemma inb_In c l : existsb (Z.eqb c) l = true -> In c l.
Proof. intro H. apply existsb_exists in H. destruct H as [x [Hx He]]. apply Z.eqb_eq in He. subst. exact Hx. Qed.
Lemma sinb_In c l : existsb (String.eqb c) l = true -> In c l.
Proof. intro H. apply existsb_exists in H. destruct H as [x [Hx He]]. apply String.eqb_eq in He. subst. exact Hx. Qed.

(* walks down the chain of comparisons of [c] against literals that a validity switch compiles to *)
Ltac walk_Z c :=
  repeat match goal with
  | |- context [Z.eqb c ?k] =>
      destruct (Z.eqb_spec c k) as [->|?];
      [ intros _; vm_compute; reflexivity | ]
  end;
  try (let Hfalse := fresh "Hfalse" in intro Hfalse; discriminate Hfalse).

Ltac walk_S c :=
  repeat match goal with
  | |- context [String.eqb c ?k] =>
      destruct (String.eqb_spec c k) as [->|?];
      [ intros _; vm_compute; reflexivity | ]
  end;
  try (let Hfalse := fresh "Hfalse" in intro Hfalse; discriminate Hfalse).

Lemma int_accepted_only_declared :
  forall t, In t int_code_types -> forall f, ict_valid t = Some f ->
  forall c : Z, f c = true -> In c (map snd (ict_declared t)).
Proof.
  intros t Ht. unfold int_code_types in Ht. cbn [In] in Ht.
  repeat (destruct Ht as [<- | Ht]; [ intros f Hf; cbn [ict_valid] in Hf;
    first [ discriminate Hf
          | (injection Hf as <-; intros c Hc; apply inb_In; revert Hc; cbv -[Z.eqb]; walk_Z c) ] | ]).
  all: try contradiction.
Qed.

Lemma str_accepted_only_declared :
  forall t, In t str_code_types -> forall f, sct_valid t = Some f ->
  forall c : string, f c = true -> In c (map snd (sct_declared t)).
Proof.
  intros t Ht. unfold str_code_types in Ht. cbn [In] in Ht.
  repeat (destruct Ht as [<- | Ht]; [ intros f Hf; cbn [sct_valid] in Hf;
    first [ discriminate Hf
          | (injection Hf as <-; intros c Hc; apply sinb_In; revert Hc; cbv -[String.eqb]; walk_S c) ] | ]).
  all: try contradiction.
Qed.

(* ---------- opcodes: exactly one of request / response ---------- *)

Lemma opcode_request_xor_response :
  forall op : Z, OpCode_IsValid op = true ->
  xorb (OpCode_IsRequest op) (OpCode_IsResponse op) = true.
Proof.
  intro op. cbv -[Z.eqb].
  repeat match goal with
  | |- context [Z.eqb op ?k] => destruct (Z.eqb_spec op k) as [->|?]; [ vm_compute; intros _; reflexivity | ]
  end.
  intro H; discriminate H.
Qed.

Lemma opcode_invalid_neither :
  forall op : Z, OpCode_IsValid op = false ->
  OpCode_IsRequest op = false /\ OpCode_IsResponse op = false.
Proof.
  intro op. cbv -[Z.eqb].
  repeat match goal with
  | |- context [Z.eqb op ?k] => destruct (Z.eqb_spec op k) as [->|?]; [ vm_compute; intro H; discriminate H | ]
  end.
  intros _; split; reflexivity.
Qed.

(* ---------- Check* helpers follow the predicates ---------- *)

Definition chk_follows {A} (chk : A -> result unit) (p : A -> bool) : Prop :=
  forall x, chk x = (if p x then Ok tt else Err).

Ltac follows := intro x; cbv beta delta [CheckSupportedProtocolVersion CheckDseProtocolVersion CheckValidOpCode
  CheckRequestOpCode CheckResponseOpCode CheckValidConsistencyLevel CheckSerialConsistencyLevel CheckValidEventType
  CheckValidWriteType CheckValidBatchType CheckValidSchemaChangeType CheckValidStatusChangeType CheckValidResultType
  CheckValidFailureCode];
  match goal with |- (if negb ?b then _ else _) = _ => destruct b; reflexivity end.

Lemma check_helpers_follow :
  chk_follows CheckSupportedProtocolVersion ProtocolVersion_IsSupported /\
  chk_follows CheckDseProtocolVersion ProtocolVersion_IsDse /\
  chk_follows CheckValidOpCode OpCode_IsValid /\
  chk_follows CheckRequestOpCode OpCode_IsRequest /\
  chk_follows CheckResponseOpCode OpCode_IsResponse /\
  chk_follows CheckValidConsistencyLevel ConsistencyLevel_IsValid /\
  chk_follows CheckSerialConsistencyLevel ConsistencyLevel_IsSerial /\
  chk_follows CheckValidEventType EventType_IsValid /\
  chk_follows CheckValidWriteType WriteType_IsValid /\
  chk_follows CheckValidBatchType BatchType_IsValid /\
  chk_follows CheckValidSchemaChangeType SchemaChangeType_IsValid /\
  chk_follows CheckValidStatusChangeType StatusChangeType_IsValid /\
  chk_follows CheckValidResultType ResultType_IsValid /\
  chk_follows CheckValidFailureCode FailureCode_IsValid.
Proof. repeat split; follows. Qed.

Lemma check_helpers_versioned_follow :
  (forall c v, CheckValidDataTypeCode c v = if DataTypeCode_IsValid c then Ok tt else Err) /\
  (forall t v, CheckValidSchemaChangeTarget t v =
     if SchemaChangeTarget_IsValid t && ProtocolVersion_SupportsSchemaChangeTarget v t then Ok tt else Err) /\
  (forall t v, CheckValidTopologyChangeType t v =
     if TopologyChangeType_IsValid t && ProtocolVersion_SupportsTopologyChangeType v t then Ok tt else Err) /\
  (forall t v, CheckValidDseRevisionType t v =
     if DseRevisionType_IsValid t && ProtocolVersion_SupportsDseRevisionType v t then Ok tt else Err).
Proof.
  repeat split; intros x v.
  - unfold CheckValidDataTypeCode. destruct (DataTypeCode_IsValid x); reflexivity.
  - unfold CheckValidSchemaChangeTarget.
    destruct (SchemaChangeTarget_IsValid x), (ProtocolVersion_SupportsSchemaChangeTarget v x); reflexivity.
  - unfold CheckValidTopologyChangeType.
    destruct (TopologyChangeType_IsValid x), (ProtocolVersion_SupportsTopologyChangeType v x); reflexivity.
  - unfold CheckValidDseRevisionType.
    destruct (DseRevisionType_IsValid x), (ProtocolVersion_SupportsDseRevisionType v x); reflexivity.
Qed.

(* the version classes partition the supported versions: OSS = {2,3,4,5}, DSE = {0x41,0x42}, for EVERY integer *)
Lemma version_classes :
  (forall v : Z, ProtocolVersion_IsOss v = true <-> v = 2 \/ v = 3 \/ v = 4 \/ v = 5) /\
  (forall v : Z, ProtocolVersion_IsDse v = true <-> v = 65 \/ v = 66) /\
  (forall v : Z, ProtocolVersion_IsSupported v = orb (ProtocolVersion_IsOss v) (ProtocolVersion_IsDse v)) /\
  (forall v : Z, andb (ProtocolVersion_IsOss v) (ProtocolVersion_IsDse v) = false).
Proof.
  assert (Hoss : forall v : Z, ProtocolVersion_IsOss v = true <-> v = 2 \/ v = 3 \/ v = 4 \/ v = 5).
  { intro v. unfold ProtocolVersion_IsOss.
    change ProtocolVersion2 with 2. change ProtocolVersion3 with 3. change ProtocolVersion4 with 4. change ProtocolVersion5 with 5.
    destruct (Z.eqb_spec v 2); [intuition|]. destruct (Z.eqb_spec v 3); [intuition|].
    destruct (Z.eqb_spec v 4); [intuition|]. destruct (Z.eqb_spec v 5); [intuition|].
    split; [discriminate|]. intros [?|[?|[?|?]]]; contradiction. }
  assert (Hdse : forall v : Z, ProtocolVersion_IsDse v = true <-> v = 65 \/ v = 66).
  { intro v. unfold ProtocolVersion_IsDse. change ProtocolVersionDse1 with 65. change ProtocolVersionDse2 with 66.
    destruct (Z.eqb_spec v 65); [intuition|]. destruct (Z.eqb_spec v 66); [intuition|].
    split; [discriminate|]. intros [?|?]; contradiction. }
  split; [exact Hoss|]. split; [exact Hdse|]. split.
  - intro v. unfold ProtocolVersion_IsSupported, SupportedProtocolVersions, ProtocolVersion_IsOss, ProtocolVersion_IsDse.
    cbn [existsb].
    change ProtocolVersion2 with 2. change ProtocolVersion3 with 3. change ProtocolVersion4 with 4. change ProtocolVersion5 with 5.
    change ProtocolVersionDse1 with 65. change ProtocolVersionDse2 with 66.
    destruct (Z.eqb_spec v 2); [reflexivity|]. destruct (Z.eqb_spec v 3); [reflexivity|].
    destruct (Z.eqb_spec v 4); [reflexivity|]. destruct (Z.eqb_spec v 5); [reflexivity|].
    destruct (Z.eqb_spec v 65); [reflexivity|]. destruct (Z.eqb_spec v 66); reflexivity.
  - intro v. destruct (ProtocolVersion_IsOss v) eqn:Eo; [|reflexivity]. destruct (ProtocolVersion_IsDse v) eqn:Ed; [|reflexivity].
    apply Hoss in Eo. apply Hdse in Ed. exfalso. destruct Eo as [->|[->|[->| ->]]]; destruct Ed; discriminate.
Qed.
