(* C18 (partial) - proofs about model/Footprint.v: operations with an empty shared-write set can be interleaved in any way by
   any number of goroutines; every call computes what it computes when run alone, and no two accesses conflict. *)
From Coq Require Import List String Bool Arith Lia.
From GCNP Require Import model.Footprint.
Import ListNotations.

Section Interleave.
  Variables (Loc Val St Res : Type).
  Variable loc_eqb : Loc -> Loc -> bool.
  Variable step : St -> @act Loc Val St Res.

  Notation tstep := (tstep Loc Val St Res loc_eqb step).
  Notation exec := (exec Loc Val St Res loc_eqb step).
  Notation solo := (solo Loc Val St Res loc_eqb step).
  Notation trace := (trace Loc Val St Res loc_eqb step).
  Notation reach := (reach Loc Val St Res step).
  Notation ro := (writes_within Loc Val St Res step []).
  Notation set_nth := (set_nth St).
  Notation result := (result Loc Val St Res step).

  (* ---- lists *)
  Lemma nth_error_set_nth_eq : forall (ts : list St) i s s', nth_error ts i = Some s -> nth_error (set_nth i s' ts) i = Some s'.
  Proof.
    induction ts as [|x r IH]; intros [|i] s s' H; cbn in *; try discriminate; auto.
    eapply IH; eauto.
  Qed.

  Lemma nth_error_set_nth_neq : forall (ts : list St) i j s', j <> i -> nth_error (set_nth i s' ts) j = nth_error ts j.
  Proof.
    induction ts as [|x r IH]; intros [|i] [|j] s' H; cbn; auto; try congruence.
  Qed.

  Lemma Forall_set_nth (P : St -> Prop) : forall ts i s', Forall P ts -> P s' -> Forall P (set_nth i s' ts).
  Proof.
    induction ts as [|x r IH]; intros [|i] s' H Hs; cbn; auto; inversion H; subst; constructor; auto.
  Qed.

  (* ---- one step of a read-only operation: the store is untouched and the operation stays read-only *)
  Lemma ro_tstep m s : ro s -> fst (tstep m s) = m /\ ro (snd (tstep m s)).
  Proof.
    intro H. unfold Footprint.tstep. destruct (step s) as [r|l k|l v k|k] eqn:Hs; cbn [fst snd].
    - auto.
    - split; [reflexivity|]. intros s' Hr. apply H. eapply reach_rd; eauto.
    - exfalso. exact (H s (reach_refl _ _ _ _ _ _) l v k Hs).
    - split; [reflexivity|]. intros s' Hr. apply H. eapply reach_tau; eauto.
  Qed.

  (* ---- every interleaving: the shared store never changes and goroutine i is exactly where it is after running alone for as
     many steps as the schedule gave it *)
  Theorem readonly_interleaving : forall sch m ts, Forall ro ts ->
    fst (exec sch m ts) = m /\
    forall i, nth_error (snd (exec sch m ts)) i = option_map (solo (count i sch) m) (nth_error ts i).
  Proof.
    induction sch as [|j r IH]; intros m ts Hro.
    - cbn. split; [reflexivity|]. intro i. destruct (nth_error ts i); reflexivity.
    - cbn [Footprint.exec]. destruct (nth_error ts j) as [s|] eqn:Hj.
      + assert (Hs : ro s) by (rewrite Forall_forall in Hro; eapply Hro, nth_error_In; eauto).
        destruct (ro_tstep m s Hs) as [Hm Hs'].
        destruct (tstep m s) as [m' s'] eqn:Ht. cbn [fst snd] in *. subst m'.
        destruct (IH m (set_nth j s' ts) (Forall_set_nth _ _ _ _ Hro Hs')) as [IHm IHt].
        split; [exact IHm|]. intro i. rewrite IHt. cbn [count].
        destruct (Nat.eqb i j) eqn:Hij.
        * apply Nat.eqb_eq in Hij. subst i. rewrite (nth_error_set_nth_eq _ _ _ _ Hj), Hj. cbn [option_map plus Footprint.solo].
          rewrite Ht. reflexivity.
        * apply Nat.eqb_neq in Hij. rewrite nth_error_set_nth_neq by assumption. reflexivity.
      + destruct (IH m ts Hro) as [IHm IHt]. split; [exact IHm|]. intro i. rewrite IHt. cbn [count].
        destruct (Nat.eqb i j) eqn:Hij; [|reflexivity].
        apply Nat.eqb_eq in Hij. subst i. rewrite Hj. reflexivity.
  Qed.

  (* a returned call stays returned *)
  Lemma solo_done_stable : forall n m s r, result s = Some r -> solo n m s = s.
  Proof.
    induction n as [|n IH]; intros m s r H; [reflexivity|].
    cbn [Footprint.solo]. unfold Footprint.result in H. unfold Footprint.tstep.
    destruct (step s) eqn:Hs; try discriminate. cbn [snd]. eapply IH. unfold Footprint.result. rewrite Hs. reflexivity.
  Qed.

  Lemma solo_add : forall a b m s, solo (a + b) m s = solo b m (solo a m s).
  Proof. induction a as [|a IH]; intros; cbn [plus Footprint.solo]; auto. Qed.

  (* the result of a call does not depend on the schedule: whenever the sequential run of goroutine i returns r within n steps,
     goroutine i has returned r in every interleaving that gave it at least n steps, whatever the others did meanwhile *)
  Theorem concurrent_result_is_sequential : forall sch m ts i s n r, Forall ro ts ->
    nth_error ts i = Some s ->
    result (solo n m s) = Some r -> n <= count i sch ->
    option_map result (nth_error (snd (exec sch m ts)) i) = Some (Some r).
  Proof.
    intros sch m ts i s n r Hro Hi Hr Hn.
    destruct (readonly_interleaving sch m ts Hro) as [_ Ht]. rewrite Ht, Hi. cbn [option_map].
    replace (count i sch) with (n + (count i sch - n)) by lia.
    rewrite solo_add, (solo_done_stable _ _ _ _ Hr). rewrite Hr. reflexivity.
  Qed.

  (* and conversely: what a goroutine has returned in an interleaving is what it returns when run alone *)
  Theorem concurrent_result_only_sequential : forall sch m ts i s r, Forall ro ts ->
    nth_error ts i = Some s ->
    option_map result (nth_error (snd (exec sch m ts)) i) = Some (Some r) ->
    result (solo (count i sch) m s) = Some r.
  Proof.
    intros sch m ts i s r Hro Hi H.
    destruct (readonly_interleaving sch m ts Hro) as [_ Ht]. rewrite Ht, Hi in H. cbn [option_map] in H. congruence.
  Qed.

  (* ---- no access of any interleaving is a write, hence no two accesses conflict *)
  Lemma readonly_trace_reads_only : forall sch m ts, Forall ro ts -> forall a, In a (trace sch m ts) -> snd a = false.
  Proof.
    induction sch as [|j r IH]; intros m ts Hro a Ha; [contradiction|].
    cbn [Footprint.trace] in Ha. destruct (nth_error ts j) as [s|] eqn:Hj; [|eauto].
    assert (Hs : ro s) by (rewrite Forall_forall in Hro; eapply Hro, nth_error_In; eauto).
    destruct (ro_tstep m s Hs) as [Hm Hs'].
    destruct (tstep m s) as [m' s'] eqn:Ht. cbn [fst snd] in *. subst m'.
    apply in_app_or in Ha as [Ha|Ha].
    - destruct (step s) as [?|l k|l v k|?] eqn:Hst; cbn in Ha; try contradiction.
      + destruct Ha as [Ha|Ha]; [subst a; reflexivity|contradiction].
      + exfalso. exact (Hs s (reach_refl _ _ _ _ _ _) l v k Hst).
    - eapply IH; [|exact Ha]. apply Forall_set_nth; assumption.
  Qed.

  Theorem readonly_race_free : forall sch m ts, Forall ro ts -> race_free Loc loc_eqb (trace sch m ts).
  Proof.
    intros sch m ts Hro a b Ha Hb (_ & _ & [Hw|Hw]).
    - rewrite (readonly_trace_reads_only _ _ _ Hro _ Ha) in Hw. discriminate.
    - rewrite (readonly_trace_reads_only _ _ _ Hro _ Hb) in Hw. discriminate.
  Qed.
End Interleave.

(* ---------------------------------------------------------------- a concrete machine (non-vacuity, and the contrast) *)
(* locations 0 and 1 (say: the codec's message-codec table and its compressor); values are numbers.
   lookup_op reads both and returns their sum plus its own argument: the shape of an encode call on a stateless codec.
   scratch_op first WRITES its argument to location 0 (a scratch buffer in the codec), then reads it back: the shape of the
   optimisation the property is about. *)
Inductive ex_state :=
| X0 (arg : nat) | X1 (arg a : nat) | XDone (r : nat)
| S0 (arg : nat) | S1 (arg : nat).

Definition ex_step (s : ex_state) : @act nat nat ex_state nat :=
  match s with
  | X0 arg => Rd 0 (fun a => X1 arg a)
  | X1 arg a => Rd 1 (fun b => XDone (arg + a + b))
  | XDone r => Done r
  | S0 arg => Wr 0 arg (S1 arg)
  | S1 arg => Rd 0 (fun a => XDone (arg + a))
  end.

Definition ex_store : nat -> nat := fun l => match l with 0 => 100 | 1 => 20 | _ => 0 end.

Definition ex_lookup_state (s : ex_state) : Prop := match s with X0 _ | X1 _ _ | XDone _ => True | _ => False end.

Lemma ex_lookup_closed : forall s s', reach nat nat ex_state nat ex_step s s' -> ex_lookup_state s -> ex_lookup_state s'.
Proof.
  induction 1 as [s|s l0 k0 v0 s'' Hst Hr IH|s l0 v0 k0 s'' Hst Hr IH|s k0 s'' Hst Hr IH]; intro Hinv; [assumption| | |];
    destruct s; cbn in Hinv; try contradiction; cbn in Hst; try discriminate.
  - injection Hst as <- <-. apply IH. exact I.
  - injection Hst as <- <-. apply IH. exact I.
Qed.

Lemma ex_lookup_readonly : forall arg, writes_within nat nat ex_state nat ex_step [] (X0 arg).
Proof.
  intros arg s' Hr l v k Hs. pose proof (ex_lookup_closed _ _ Hr I) as H.
  destruct s'; cbn in H; try contradiction; cbn in Hs; discriminate.
Qed.

(* three goroutines share the store; any schedule: here one that interleaves them step by step *)
Definition ex_threads : list ex_state := [X0 1; X0 2; X0 3].
Definition ex_schedule : list nat := [0; 1; 2; 2; 1; 0; 0; 1; 2; 1].

Lemma ex_threads_readonly : Forall (writes_within nat nat ex_state nat ex_step []) ex_threads.
Proof. repeat constructor; apply ex_lookup_readonly. Qed.

(* the contrast: two goroutines running scratch_op; interleaved S0(1), S0(2), S1(1), S1(2): goroutine 0 reads goroutine 1's
   scratch value and returns 1 + 2 = 3, while alone it returns 1 + 1 = 2 *)
Lemma ex_scratch_breaks :
  let ts := [S0 1; S0 2] in
  option_map (result nat nat ex_state nat ex_step) (nth_error (snd (exec nat nat ex_state nat Nat.eqb ex_step [0; 1; 0; 1] ex_store ts)) 0) = Some (Some 3) /\
  option_map (result nat nat ex_state nat ex_step) (nth_error (snd (exec nat nat ex_state nat Nat.eqb ex_step [0; 0; 1; 1] ex_store ts)) 0) = Some (Some 2) /\
  ~ race_free nat Nat.eqb (trace nat nat ex_state nat Nat.eqb ex_step [0; 1; 0; 1] ex_store ts).
Proof.
  repeat split; try (vm_compute; reflexivity).
  intro H. apply (H (0, 0, true) (1, 0, true)); vm_compute; auto. repeat split; auto. discriminate.
Qed.

(* ---------------------------------------------------------------- the table regenerated from /repo *)
From GCNP Require Import gen.Footprint_gen.

Lemma fp_all_entrypoints_readonly : all_readonly fp_entrypoints = true.
Proof. vm_compute. reflexivity. Qed.

Lemma fp_entrypoints_nonempty : 100 <= List.length fp_entrypoints.
Proof. vm_compute. repeat constructor. Qed.

Lemma fp_each_entry_has_no_shared_write : forall name ws, In (name, ws) fp_entrypoints -> ws = [].
Proof.
  intros name ws H. pose proof fp_all_entrypoints_readonly as Hall. unfold all_readonly in Hall.
  rewrite forallb_forall in Hall. specialize (Hall _ H). unfold readonly_entry in Hall. cbn in Hall. destruct ws; [reflexivity|discriminate].
Qed.
